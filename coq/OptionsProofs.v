(* OptionsProofs.v -- proofs for property C18 (options and settings).
   Part 1: the generated constants and bit helpers.
   Part 2: the specification alone (each option is the fold of its own
           calls, getters return the last effective setter argument,
           encapsulation pairs never share a string, per-level log sets).
   Part 3: the model refines the specification for every history.
   Part 4: the statements of Props/C18.v about the model. *)
From Stackage Require Import Base Generated StackImpl OptionsTypes OptionsSpec LogLevels Options.
From Coq Require Import Lia.
Open Scope N_scope.

(* ===================================================================== *)
(* Part 1: constants and bit helpers                                      *)
(* ===================================================================== *)

Definition is_bit16 (f : N) : bool := existsb (fun k => f =? 2 ^ k) bit_indices.

Fixpoint nodupb (l : list N) : bool :=
  match l with
  | [] => true
  | x :: t => negb (existsb (N.eqb x) t) && nodupb t
  end.

Lemma nodupb_NoDup l : nodupb l = true -> NoDup l.
Proof.
  induction l as [|x t IH]; simpl; intro H; [constructor|].
  apply andb_true_iff in H as [H1 H2]. constructor; [|auto].
  intro Hin. apply negb_true_iff in H1.
  assert (existsb (N.eqb x) t = true) as E
      by (apply existsb_exists; exists x; split; [assumption | apply N.eqb_refl]).
  congruence.
Qed.

Lemma is_bit16_spec f : is_bit16 f = true -> exists k, k < 16 /\ f = 2 ^ k.
Proof.
  unfold is_bit16. intro H. apply existsb_exists in H as (k & Hin & E).
  apply N.eqb_eq in E. exists k. split; [|assumption].
  unfold bit_indices in Hin. simpl in Hin.
  repeat (destruct Hin as [<-|Hin]; [reflexivity|]). contradiction.
Qed.

Lemma forallb_Forall {A} (p : A -> bool) (P : A -> Prop) (l : list A) :
  (forall x, p x = true -> P x) -> forallb p l = true -> Forall P l.
Proof.
  intros HP H. apply Forall_forall. intros x Hin.
  apply HP. eapply forallb_forall in H; eauto.
Qed.

(* every generated option constant is one bit below 2^16, all are distinct *)
Lemma flags_distinct_pow2 :
  Forall (fun f => exists k, k < 16 /\ f = 2 ^ k) all_flags /\ NoDup all_flags.
Proof.
  split.
  - apply (forallb_Forall is_bit16); [exact is_bit16_spec | vm_compute; reflexivity].
  - apply nodupb_NoDup. vm_compute. reflexivity.
Qed.

(* the same for the sixteen log levels; 'none' is 0 and 'all' is their union *)
Lemma loglevels_distinct_pow2 :
  Forall (fun f => exists k, k < 16 /\ f = 2 ^ k) all_loglevels /\ NoDup all_loglevels /\
  length all_loglevels = 16%nat /\ c_NoLogLevels = 0 /\ c_AllLogLevels = fold_right N.lor 0 all_loglevels.
Proof.
  split; [|split; [|split; [|split]]].
  - apply (forallb_Forall is_bit16); [exact is_bit16_spec | vm_compute; reflexivity].
  - apply nodupb_NoDup. vm_compute. reflexivity.
  - reflexivity.
  - reflexivity.
  - vm_compute. reflexivity.
Qed.

(* the public switches use the documented bits *)
Definition bit_of (o : optname) : N :=
  match o with
  | OParen => 0 | OFold => 1 | ONoPad => 2 | OLeadOnce => 3
  | ONegIdx => 4 | OFwdIdx => 5 | OReadOnly => 7 | ONoNest => 8
  end.

Lemma flag_of_bit o : flag_of o = 2 ^ bit_of o.
Proof. destruct o; reflexivity. Qed.

Lemma flag_of_docbit o : flag_of o = docbit o.
Proof. destruct o; reflexivity. Qed.

Lemma flag_of_in_all_flags o : In (flag_of o) all_flags.
Proof. destruct o; vm_compute; tauto. Qed.

Lemma bit_of_inj o o' : bit_of o = bit_of o' -> o = o'.
Proof. destruct o, o'; simpl; intro H; try reflexivity; discriminate. Qed.

Lemma optname_eqb_spec a b : optname_eqb a b = true <-> a = b.
Proof. destruct a, b; simpl; split; intro H; try reflexivity; try discriminate. Qed.

Lemma optname_eqb_refl a : optname_eqb a a = true.
Proof. destruct a; reflexivity. Qed.

Lemma optname_eqb_false a b : optname_eqb a b = false <-> a <> b.
Proof.
  split.
  - intros H E. subst. rewrite optname_eqb_refl in H. discriminate.
  - intro H. destruct (optname_eqb a b) eqn:E; [|reflexivity]. apply optname_eqb_spec in E. contradiction.
Qed.

(* positive: r & x != 0 reads bit k when x = 2^k *)
Lemma land_pow2_eq0 o k : (N.land o (2 ^ k) =? 0) = negb (N.testbit o k).
Proof.
  destruct (N.testbit o k) eqn:T; simpl.
  - apply N.eqb_neq. intro E.
    assert (N.testbit (N.land o (2 ^ k)) k = true) as H
        by (rewrite N.land_spec, T, N.pow2_bits_true; reflexivity).
    rewrite E, N.bits_0 in H. discriminate.
  - apply N.eqb_eq. apply N.bits_inj. intro j.
    rewrite N.land_spec, N.bits_0.
    destruct (N.eq_dec j k) as [->|Hne].
    + rewrite T. reflexivity.
    + rewrite N.pow2_bits_false by congruence. apply andb_false_r.
Qed.

Lemma positive_testbit o k : g_flag_positive o (2 ^ k) = N.testbit o k.
Proof. unfold g_flag_positive. rewrite land_pow2_eq0. apply negb_involutive. Qed.

(* the three mask helpers, applied according to the tri-state *)
Definition apply_tri (t : option bool) (o x : N) : N :=
  match t with
  | Some true => g_flag_shift o x
  | Some false => g_flag_unshift o x
  | None => g_flag_toggle o x
  end.

(* bit k becomes what the tri-state says, every other bit is untouched:
   proved from the bit specifications of N.lor / N.ldiff / N.land, i.e. of
   the operators the translator found in cfg.go *)
Lemma set_clear_toggle_spec (t : option bool) (o k : N) :
  N.testbit (apply_tri t o (2 ^ k)) k = tri t (N.testbit o k) /\
  (forall j, j <> k -> N.testbit (apply_tri t o (2 ^ k)) j = N.testbit o j).
Proof.
  assert (Hs : N.testbit (g_flag_shift o (2 ^ k)) k = true /\
               forall j, j <> k -> N.testbit (g_flag_shift o (2 ^ k)) j = N.testbit o j).
  { unfold g_flag_shift. cbv zeta. split.
    - rewrite N.lor_spec, N.pow2_bits_true. apply orb_true_r.
    - intros j Hj. rewrite N.lor_spec, N.pow2_bits_false by congruence. apply orb_false_r. }
  assert (Hu : N.testbit (g_flag_unshift o (2 ^ k)) k = false /\
               forall j, j <> k -> N.testbit (g_flag_unshift o (2 ^ k)) j = N.testbit o j).
  { unfold g_flag_unshift. cbv zeta. split.
    - rewrite N.ldiff_spec, N.pow2_bits_true. apply andb_false_r.
    - intros j Hj. rewrite N.ldiff_spec, N.pow2_bits_false by congruence. apply andb_true_r. }
  destruct t as [[|]|]; simpl.
  - exact Hs.
  - exact Hu.
  - unfold g_flag_toggle. rewrite positive_testbit.
    destruct (N.testbit o k); cbv zeta; simpl; [exact Hu | exact Hs].
Qed.

(* n < 2^k  iff  no bit at or above k *)
Lemma lt_pow2_bits n k : n < 2 ^ k <-> (forall i, k <= i -> N.testbit n i = false).
Proof.
  split.
  - intros H i Hi. destruct (N.eq_dec n 0) as [->|Hn]; [apply N.bits_0|].
    apply N.bits_above_log2. apply N.log2_lt_pow2 in H; lia.
  - intro H. destruct (N.lt_ge_cases n (2 ^ k)) as [|Hge]; [assumption|exfalso].
    assert (n <> 0) as Hn by (pose proof (N.pow_nonzero 2 k); lia).
    assert (k <= N.log2 n) as Hk by (apply N.log2_le_pow2; lia).
    specialize (H _ Hk). rewrite N.bit_log2 in H by assumption. discriminate.
Qed.

Lemma apply_tri_bound t o k : o < 2 ^ 16 -> k < 16 -> apply_tri t o (2 ^ k) < 2 ^ 16.
Proof.
  intros Ho Hk. apply lt_pow2_bits. intros i Hi.
  destruct (set_clear_toggle_spec t o k) as [_ H]. rewrite H by lia.
  revert i Hi. apply lt_pow2_bits. assumption.
Qed.

(* ===================================================================== *)
(* Part 2: the specification alone                                        *)
(* ===================================================================== *)
Open Scope Z_scope.

Section SpecFacts.
  Variable unk : bool.

  Lemma sstep_kind s c : s_kind (sstep unk s c) = s_kind s.
  Proof.
    destruct c; simpl;
      repeat match goal with |- context [if ?b then _ else _] => destruct b end; reflexivity.
  Qed.

  Lemma sstep_rk s c : s_rk (sstep unk s c) = s_rk s.
  Proof.
    destruct c; simpl;
      repeat match goal with |- context [if ?b then _ else _] => destruct b end; reflexivity.
  Qed.

  (* one call: option o and the read-only switch move as [own] says *)
  Lemma sstep_own s c o :
    (s_opt (sstep unk s c) o, s_opt (sstep unk s c) OReadOnly) = own o (s_opt s o, s_opt s OReadOnly) c.
  Proof.
    destruct c as [o0 t| | | | | | | | |]; simpl.
    - unfold upd_opt. destruct o0, o; simpl;
        destruct (s_opt s OReadOnly) eqn:E; simpl; rewrite ?E; try reflexivity;
        destruct t as [[|]|]; simpl; rewrite ?E; reflexivity.
    - destruct (s_opt s OReadOnly) eqn:E; simpl; rewrite ?E; reflexivity.
    - destruct (s_opt s OReadOnly) eqn:E; simpl; rewrite ?E; reflexivity.
    - destruct (s_opt s OReadOnly) eqn:E; simpl; rewrite ?E; reflexivity.
    - destruct (s_opt s OReadOnly) eqn:E; simpl; rewrite ?E; [reflexivity|].
      destruct (s_kind s =? k_list)%N; simpl; rewrite ?E; reflexivity.
    - destruct (s_opt s OReadOnly) eqn:E; simpl; rewrite ?E; [reflexivity|].
      destruct (s_kind s =? k_list)%N; simpl; rewrite ?E; reflexivity.
    - destruct (s_opt s OReadOnly) eqn:E; simpl; rewrite ?E; reflexivity.
    - destruct (s_opt s OReadOnly) eqn:E; simpl; rewrite ?E; reflexivity.
    - destruct (s_opt s OReadOnly) eqn:E; simpl; rewrite ?E; reflexivity.
    - destruct (s_opt s OReadOnly) eqn:E; simpl; rewrite ?E; reflexivity.
  Qed.

  Lemma srun_own s h o :
    fold_left (own o) h (s_opt s o, s_opt s OReadOnly) = (s_opt (srun unk s h) o, s_opt (srun unk s h) OReadOnly).
  Proof.
    revert s. induction h as [|c h IH]; intro s; [reflexivity|].
    change (fold_left (own o) h (own o (s_opt s o, s_opt s OReadOnly) c) =
            (s_opt (srun unk (sstep unk s c) h) o, s_opt (srun unk (sstep unk s c) h) OReadOnly)).
    rewrite <- sstep_own. apply IH.
  Qed.

  (* for every history each option's final value is the fold of its own
     calls (gated by the read-only switch, itself the fold of ITS own calls) *)
  Lemma sopt_history s h o : s_opt (srun unk s h) o = own_fold o h (s_opt s o) (s_opt s OReadOnly).
  Proof. unfold own_fold. rewrite srun_own. reflexivity. Qed.

  Lemma sstep_ro s c : s_opt (sstep unk s c) OReadOnly = ro_step (s_opt s OReadOnly) c.
  Proof.
    pose proof (sstep_own s c OReadOnly) as H.
    apply (f_equal fst) in H. simpl in H. rewrite H.
    destruct c as [o0 t| | | | | | | | |]; simpl; try reflexivity.
    destruct o0; simpl; reflexivity.
  Qed.

  (* generic "a setting is the fold of the calls that address it" *)
  Lemma srun_eff {A} (f : sstate -> A) (upd : N -> ocall -> A -> A) :
    (forall s c, f (sstep unk s c) = if s_opt s OReadOnly then f s else upd (s_kind s) c (f s)) ->
    forall h s, f (srun unk s h) = eff_fold (upd (s_kind s)) h (s_opt s OReadOnly) (f s).
  Proof.
    intros Hf. induction h as [|c h IH]; intro s; simpl; [reflexivity|].
    rewrite IH, sstep_kind, sstep_ro, Hf. reflexivity.
  Qed.

  Ltac field_step :=
    let s0 := fresh "s0" in let c0 := fresh "c0" in let o0 := fresh "o0" in
    intros s0 c0; destruct c0 as [o0 ?| | | | | | | | |]; simpl;
    destruct (s_opt s0 OReadOnly) eqn:?E; simpl; try reflexivity;
    try (destruct o0; simpl; reflexivity);
    try (destruct (s_kind s0 =? k_list)%N; reflexivity).

  Lemma sid_history s h : s_id (srun unk s h) = eff_fold upd_id h (s_opt s OReadOnly) (s_id s).
  Proof. apply (srun_eff s_id (fun _ => upd_id)). field_step. Qed.
  Lemma scat_history s h : s_cat (srun unk s h) = eff_fold upd_cat h (s_opt s OReadOnly) (s_cat s).
  Proof. apply (srun_eff s_cat (fun _ => upd_cat)). field_step. Qed.
  Lemma sdelim_history s h : s_delim (srun unk s h) = eff_fold (upd_delim (s_kind s)) h (s_opt s OReadOnly) (s_delim s).
  Proof. apply (srun_eff s_delim upd_delim). field_step. Qed.
  Lemma ssym_history s h : s_sym (srun unk s h) = eff_fold (upd_sym (s_kind s)) h (s_opt s OReadOnly) (s_sym s).
  Proof. apply (srun_eff s_sym upd_sym). field_step. Qed.
  Lemma saux_history s h : s_aux (srun unk s h) = eff_fold upd_aux h (s_opt s OReadOnly) (s_aux s).
  Proof. apply (srun_eff s_aux (fun _ => upd_aux)). field_step. Qed.
  Lemma sfifo_history s h : s_fifo (srun unk s h) = eff_fold upd_fifo h (s_opt s OReadOnly) (s_fifo s).
  Proof. apply (srun_eff s_fifo (fun _ => upd_fifo)). field_step. Qed.
  Lemma senc_history s h : s_enc (srun unk s h) = eff_fold upd_enc h (s_opt s OReadOnly) (s_enc s).
  Proof. apply (srun_eff s_enc (fun _ => upd_enc)). field_step. Qed.

  (* log levels, one level at a time *)
  Lemma set_levels_bit cur xs i : set_levels unk cur xs i = bit_set unk i (cur i) xs.
  Proof.
    revert cur. induction xs as [|a t IH]; intro cur; simpl; [reflexivity|].
    destruct (resolve a) as [m|].
    - destruct (lv_is_empty m); [reflexivity|]. destruct (lv_is_full m); [reflexivity|]. apply IH.
    - destruct unk; [reflexivity | apply IH].
  Qed.
  Lemma unset_levels_bit cur xs i : unset_levels cur xs i = bit_unset i (cur i) xs.
  Proof.
    revert cur. induction xs as [|a t IH]; intro cur; simpl; [reflexivity|].
    destruct (resolve a) as [m|]; [|apply IH].
    destruct (lv_is_empty m); [apply IH|]. destruct (lv_is_full m); [reflexivity|]. apply IH.
  Qed.

  Lemma slevel_history s h i :
    s_lvl (srun unk s h) i = eff_fold (upd_level unk i) h (s_opt s OReadOnly) (s_lvl s i).
  Proof.
    apply (srun_eff (fun s => s_lvl s i) (fun _ => upd_level unk i)).
    intros s0 c; destruct c as [o0 t| | | | | | | | |]; simpl;
      destruct (s_opt s0 OReadOnly) eqn:E; simpl; try reflexivity;
      try (destruct o0; simpl; reflexivity);
      try (destruct (s_kind s0 =? k_list)%N; reflexivity).
    - apply set_levels_bit.
    - apply unset_levels_bit.
  Qed.
End SpecFacts.

(* calls that name neither o nor the read-only switch can be deleted *)
Lemma own_fold_filter o h b ro : own_fold o (filter (concerns o) h) b ro = own_fold o h b ro.
Proof.
  unfold own_fold. f_equal. generalize (b, ro) as st. clear b ro.
  induction h as [|c h IH]; intro st; simpl; [reflexivity|].
  destruct (concerns o c) eqn:Ec; simpl; [apply IH|].
  rewrite IH. f_equal. destruct st as [b ro].
  destruct c as [o0 t| | | | | | | | |]; simpl; try reflexivity.
  simpl in Ec. apply orb_false_iff in Ec as [E1 E2]. rewrite E1, E2. reflexivity.
Qed.

(* with the read-only switch off and never touched, an option is simply the
   fold of the tri-states passed to it *)
Fixpoint tri_fold (o : optname) (h : list ocall) (b : bool) : bool :=
  match h with
  | [] => b
  | CSetOpt o' t :: h' => tri_fold o h' (if optname_eqb o' o then tri t b else b)
  | _ :: h' => tri_fold o h' b
  end.

Definition touches_ro (c : ocall) : bool := match c with CSetOpt OReadOnly _ => true | _ => false end.

Lemma own_fold_plain o h b :
  forallb (fun c => negb (touches_ro c)) h = true -> o <> OReadOnly ->
  own_fold o h b false = tri_fold o h b.
Proof.
  intros Hh Ho. unfold own_fold. revert b Hh.
  induction h as [|c h IH]; intros b Hh; simpl; [reflexivity|].
  simpl in Hh. apply andb_true_iff in Hh as [Hc Hh].
  destruct c as [o0 t| | | | | | | | |]; simpl; try (apply IH; assumption).
  assert (optname_eqb o0 OReadOnly = false) as E by (destruct o0; simpl in *; try reflexivity; discriminate).
  rewrite E, ?orb_true_r, ?andb_true_r. apply IH. assumption.
Qed.

(* the read-only switch is gated by nothing *)
Lemma own_fold_ro h b : own_fold OReadOnly h b b = tri_fold OReadOnly h b.
Proof.
  unfold own_fold. revert b. induction h as [|c h IH]; intro b; simpl; [reflexivity|].
  destruct c as [o0 t| | | | | | | | |]; simpl; try apply IH.
  destruct (optname_eqb o0 OReadOnly); simpl; apply IH.
Qed.

(* ---- encapsulation ---- *)

Lemma add_pair_inv enc p : enc_inv enc -> enc_inv (add_pair enc p).
Proof.
  intro H. unfold add_pair. destruct p as [|x p']; [assumption|].
  destruct (existsb (used enc) (firstn 2 (x :: p'))) eqn:E; [assumption|].
  constructor; [assumption|]. intros s Hs.
  destruct (used enc s) eqn:U; [|reflexivity].
  assert (existsb (used enc) (firstn 2 (x :: p')) = true) as C
      by (apply existsb_exists; exists s; split; assumption).
  congruence.
Qed.

Lemma add_earg_inv enc a : enc_inv enc -> enc_inv (add_earg enc a).
Proof. intro H. unfold add_earg. destruct (pair_of a); [apply add_pair_inv|]; assumption. Qed.

Lemma set_encap_inv enc xs : enc_inv enc -> enc_inv (set_encap enc xs).
Proof.
  intro H. unfold set_encap. destruct xs as [|a t]; [constructor|].
  generalize (a :: t) as l. intro l. revert enc H.
  induction l as [|y l IH]; intros enc H; simpl; [assumption|].
  apply IH, add_earg_inv, H.
Qed.

Lemma senc_inv unk s c : enc_inv (s_enc s) -> enc_inv (s_enc (sstep unk s c)).
Proof.
  intro H. destruct c as [o0 t| | | | | | | | |]; simpl;
    repeat match goal with |- context [if ?b then _ else _] => destruct b end; simpl; try assumption.
  apply set_encap_inv, H.
Qed.

Lemma srun_enc_inv unk s h : enc_inv (s_enc s) -> enc_inv (s_enc (srun unk s h)).
Proof.
  revert s. induction h as [|c h IH]; intros s H; simpl; [assumption|].
  apply IH, senc_inv, H.
Qed.

(* pairs of at most two strings *)
Definition all_pairs (enc : list (list bytes)) : Prop := Forall (fun p => (length p <= 2)%nat) enc.

Lemma used_true enc s : used enc s = true <-> exists p, In p enc /\ In s p.
Proof.
  unfold used. rewrite existsb_exists. split.
  - intros (p & Hp & H). apply existsb_exists in H as (s' & Hs & E).
    apply bytes_eqb_spec in E. subst. eauto.
  - intros (p & Hp & Hs). exists p. split; [assumption|].
    apply existsb_exists. exists s. split; [assumption | apply bytes_eqb_spec; reflexivity].
Qed.

Lemma firstn_all_le {A} (l : list A) n : (length l <= n)%nat -> firstn n l = l.
Proof. intro H. apply firstn_all2. assumption. Qed.

Lemma enc_inv_no_shared enc : enc_inv enc -> all_pairs enc -> no_shared enc.
Proof.
  induction 1 as [|enc p Hinv IH Hnew]; intros Hall i j pi pj s Hij Hi Hj Hsi Hsj.
  - destruct i; discriminate.
  - apply Forall_app in Hall as [Hall Hp]. inversion Hp as [|? ? Hlen _]; subst.
    rewrite firstn_all_le in Hnew by assumption.
    assert (Hold : forall k q, nth_error (enc ++ [p]) k = Some q -> (k < length enc)%nat -> nth_error enc k = Some q)
      by (intros k q Hk Hlt; rewrite nth_error_app1 in Hk; assumption).
    assert (Hlast : forall k q, nth_error (enc ++ [p]) k = Some q -> ~ (k < length enc)%nat -> q = p /\ k = length enc).
    { intros k q Hk Hge. rewrite nth_error_app2 in Hk by lia.
      destruct (k - length enc)%nat eqn:D; simpl in Hk.
      - inversion Hk. split; [reflexivity | lia].
      - destruct n; discriminate. }
    destruct (Nat.lt_ge_cases i (length enc)) as [Li|Li], (Nat.lt_ge_cases j (length enc)) as [Lj|Lj].
    + eapply (IH Hall i j); eauto.
    + destruct (Hlast _ _ Hj ltac:(lia)) as [-> _].
      specialize (Hnew s Hsj).
      assert (used enc s = true) as U
          by (apply used_true; exists pi; split; [eapply nth_error_In; eauto | assumption]).
      congruence.
    + destruct (Hlast _ _ Hi ltac:(lia)) as [-> _].
      specialize (Hnew s Hsi).
      assert (used enc s = true) as U
          by (apply used_true; exists pj; split; [eapply nth_error_In; eauto | assumption]).
      congruence.
    + destruct (Hlast _ _ Hi ltac:(lia)) as [_ ->]. destruct (Hlast _ _ Hj ltac:(lia)) as [_ ->]. contradiction.
Qed.

Lemma add_pair_all_pairs enc p : all_pairs enc -> (length p <= 2)%nat -> all_pairs (add_pair enc p).
Proof.
  intros H Hp. unfold add_pair. destruct p as [|x p']; [assumption|].
  destruct (existsb _ _); [assumption|]. apply Forall_app. split; [assumption|]. constructor; [assumption|constructor].
Qed.

Lemma set_encap_all_pairs enc xs : all_pairs enc -> forallb earg_pairish xs = true -> all_pairs (set_encap enc xs).
Proof.
  intros H Hx. unfold set_encap. destruct xs as [|a t]; [constructor|].
  generalize dependent (a :: t). intro l. revert enc H.
  induction l as [|y l IH]; intros enc H Hx; simpl; [assumption|].
  simpl in Hx. apply andb_true_iff in Hx as [Hy Hx]. apply IH; [|assumption].
  unfold add_earg. destruct y as [s0|l0|]; cbn [pair_of]; try assumption.
  - apply add_pair_all_pairs; [assumption | simpl; lia].
  - apply add_pair_all_pairs; [assumption | simpl in Hy; apply Nat.leb_le; assumption].
Qed.

Lemma srun_all_pairs unk s h :
  all_pairs (s_enc s) -> forallb call_pairish h = true -> all_pairs (s_enc (srun unk s h)).
Proof.
  revert s. induction h as [|c h IH]; intros s H Hh; simpl; [assumption|].
  simpl in Hh. apply andb_true_iff in Hh as [Hc Hh]. apply IH; [|assumption].
  destruct c as [o0 t| | | | | | | | |]; simpl;
    repeat match goal with |- context [if ?b then _ else _] => destruct b end; simpl; try assumption.
  apply set_encap_all_pairs; assumption.
Qed.

(* a refused pair changes nothing *)
Lemma add_pair_refused enc p s : In s (firstn 2 p) -> used enc s = true -> add_pair enc p = enc.
Proof.
  intros Hs Hu. unfold add_pair. destruct p as [|x p']; [reflexivity|].
  replace (existsb (used enc) (firstn 2 (x :: p'))) with true; [reflexivity|].
  symmetry. apply existsb_exists. exists s. split; assumption.
Qed.

(* ===================================================================== *)
(* Part 3: the model refines the specification                            *)
(* ===================================================================== *)

(* ---- log levels: words below 2^16 versus level sets ---- *)

Definition lvl_rel (r : N) (m : lset) : Prop := (r < 65536)%N /\ forall i, m i = lv_of_N r i.

Lemma levels_in i : In i levels <-> (i < 16)%nat.
Proof. unfold levels, nlevels. rewrite in_seq. lia. Qed.

Lemma lv_is_empty_spec m : lv_is_empty m = true <-> (forall i, (i < 16)%nat -> m i = false).
Proof.
  unfold lv_is_empty. rewrite forallb_forall. split.
  - intros H i Hi. apply negb_true_iff, H, levels_in, Hi.
  - intros H i Hi. apply negb_true_iff, H, levels_in, Hi.
Qed.

Lemma lv_is_full_spec m : lv_is_full m = true <-> (forall i, (i < 16)%nat -> m i = true).
Proof.
  unfold lv_is_full. rewrite forallb_forall. split.
  - intros H i Hi. apply H, levels_in, Hi.
  - intros H i Hi. apply H, levels_in, Hi.
Qed.

Lemma lv_of_N_low r i : (i < 16)%nat -> lv_of_N r i = N.testbit r (N.of_nat i).
Proof.
  intro Hi. unfold lv_of_N, nlevels.
  replace (i <? 16)%nat with true by (symmetry; apply Nat.ltb_lt; assumption). reflexivity.
Qed.

Lemma lv_of_N_high r i : ~ (i < 16)%nat -> lv_of_N r i = false.
Proof.
  intro Hi. unfold lv_of_N, nlevels.
  replace (i <? 16)%nat with false by (symmetry; apply Nat.ltb_ge; lia). reflexivity.
Qed.

Lemma bits16_inj a b :
  (a < 65536)%N -> (b < 65536)%N ->
  (forall i, (i < 16)%nat -> N.testbit a (N.of_nat i) = N.testbit b (N.of_nat i)) -> a = b.
Proof.
  intros Ha Hb H. apply N.bits_inj. intro j.
  destruct (N.lt_ge_cases j 16) as [Hj|Hj].
  - rewrite <- (N2Nat.id j). apply H. lia.
  - change 65536%N with (2 ^ 16)%N in Ha, Hb.
    rewrite (proj1 (lt_pow2_bits a 16) Ha j Hj), (proj1 (lt_pow2_bits b 16) Hb j Hj). reflexivity.
Qed.

Lemma all_bits_65535 i : (i < 16)%nat -> N.testbit 65535 (N.of_nat i) = true.
Proof.
  intro Hi. assert (forallb (fun i => N.testbit 65535 (N.of_nat i)) levels = true) as H by (vm_compute; reflexivity).
  rewrite forallb_forall in H. apply H, levels_in, Hi.
Qed.

Lemma lvl_rel_empty r m : lvl_rel r m -> lv_is_empty m = (r =? 0)%N.
Proof.
  intros [Hr Hm]. destruct (r =? 0)%N eqn:E.
  - apply N.eqb_eq in E. subst. apply lv_is_empty_spec. intros i Hi.
    rewrite Hm, lv_of_N_low by assumption. apply N.bits_0.
  - destruct (lv_is_empty m) eqn:F; [|reflexivity]. exfalso.
    apply N.eqb_neq in E. apply E. apply bits16_inj; [assumption|reflexivity|].
    intros i Hi. rewrite N.bits_0. rewrite <- lv_of_N_low, <- Hm by assumption.
    apply (proj1 (lv_is_empty_spec m) F). assumption.
Qed.

Lemma lvl_rel_full r m : lvl_rel r m -> lv_is_full m = (r =? 65535)%N.
Proof.
  intros [Hr Hm]. destruct (r =? 65535)%N eqn:E.
  - apply N.eqb_eq in E. subst. apply lv_is_full_spec. intros i Hi.
    rewrite Hm, lv_of_N_low by assumption. apply all_bits_65535. assumption.
  - destruct (lv_is_full m) eqn:F; [|reflexivity]. exfalso.
    apply N.eqb_neq in E. apply E. apply bits16_inj; [assumption|reflexivity|].
    intros i Hi. rewrite all_bits_65535 by assumption. rewrite <- lv_of_N_low, <- Hm by assumption.
    apply (proj1 (lv_is_full_spec m) F). assumption.
Qed.

Lemma lvl_rel_0 : lvl_rel 0 lv_empty.
Proof.
  split; [reflexivity|]. intro i. unfold lv_empty, lv_of_N. rewrite N.bits_0. symmetry. apply andb_false_r.
Qed.

Lemma lvl_rel_all : lvl_rel 65535 lv_full.
Proof.
  split; [reflexivity|]. intro i. unfold lv_full.
  destruct (Nat.lt_ge_cases i 16) as [Hi|Hi].
  - rewrite lv_of_N_low, all_bits_65535 by assumption. apply Nat.ltb_lt. assumption.
  - rewrite lv_of_N_high by lia. apply Nat.ltb_ge. assumption.
Qed.

Lemma lvl_rel_single k : (k < 16)%nat -> lvl_rel (2 ^ N.of_nat k) (lv_single k).
Proof.
  intro Hk. split.
  - change 65536%N with (2 ^ 16)%N. apply N.pow_lt_mono_r; lia.
  - intro i. unfold lv_single. destruct (Nat.lt_ge_cases i 16) as [Hi|Hi].
    + rewrite lv_of_N_low by assumption. rewrite N.pow2_bits_eqb.
      destruct (Nat.eqb_spec i k) as [->|Hne].
      * symmetry. apply N.eqb_refl.
      * symmetry. apply N.eqb_neq. lia.
    + rewrite lv_of_N_high by lia. apply Nat.eqb_neq. lia.
Qed.

Lemma lvl_rel_of_N n : (n < 65536)%N -> lvl_rel n (lv_of_N n).
Proof. intro H. split; [assumption | reflexivity]. Qed.

Lemma lvl_rel_of_Z z : lvl_rel (Z.to_N (z mod 65536)) (lv_of_Z z).
Proof.
  pose proof (Z.mod_pos_bound z 65536 ltac:(lia)) as Hb.
  split; [lia|]. intro i. unfold lv_of_Z, lv_of_N.
  destruct (i <? nlevels)%nat eqn:Hi; [|reflexivity]. simpl.
  apply Nat.ltb_lt in Hi. unfold nlevels in Hi.
  rewrite <- (N2Z.inj_testbit (Z.to_N (z mod 65536)) (N.of_nat i)).
  rewrite Z2N.id by lia. rewrite nat_N_Z.
  change 65536 with (2 ^ 16). rewrite Z.mod_pow2_bits_low by lia. reflexivity.
Qed.

Lemma lvl_rel_union r m ll ml : lvl_rel r m -> lvl_rel ll ml -> lvl_rel (N.lor r ll) (lv_union m ml).
Proof.
  intros [Hr Hm] [Hl Hml]. split.
  - change 65536%N with (2 ^ 16)%N in *. apply lt_pow2_bits. intros i Hi.
    rewrite N.lor_spec, (proj1 (lt_pow2_bits r 16) Hr i Hi), (proj1 (lt_pow2_bits ll 16) Hl i Hi). reflexivity.
  - intro i. unfold lv_union. rewrite Hm, Hml. unfold lv_of_N. rewrite N.lor_spec.
    destruct (i <? nlevels)%nat; reflexivity.
Qed.

Lemma lvl_rel_diff r m ll ml : lvl_rel r m -> lvl_rel ll ml -> lvl_rel (N.ldiff r ll) (lv_diff m ml).
Proof.
  intros [Hr Hm] [Hl Hml]. split.
  - change 65536%N with (2 ^ 16)%N in *. apply lt_pow2_bits. intros i Hi.
    rewrite N.ldiff_spec, (proj1 (lt_pow2_bits r 16) Hr i Hi). reflexivity.
  - intro i. unfold lv_diff. rewrite Hm, Hml. unfold lv_of_N. rewrite N.ldiff_spec.
    destruct (i <? nlevels)%nat; simpl; [reflexivity|]. reflexivity.
Qed.

(* ---- names: the generated table against the documented names ---- *)

Inductive nclass := NCNone | NCAll | NCLevel (k : nat).

Definition name_class (u : bytes) : option nclass :=
  if bytes_eqb u (B "NONE") then Some NCNone
  else if bytes_eqb u (B "ALL") then Some NCAll
  else match index_of u level_names 0 with Some k => Some (NCLevel k) | None => None end.

Definition lset_of_class (c : nclass) : lset :=
  match c with NCNone => lv_empty | NCAll => lv_full | NCLevel k => lv_single k end.

Lemma resolve_name_class s : resolve_name s = option_map lset_of_class (name_class (map ascii_upper s)).
Proof.
  unfold resolve_name, name_class.
  destruct (bytes_eqb _ (B "NONE")); [reflexivity|].
  destruct (bytes_eqb _ (B "ALL")); [reflexivity|].
  destruct (index_of _ level_names 0); reflexivity.
Qed.

Definition lookup_upper (u : bytes) : option N :=
  match find (fun p => bytes_eqb (snd p) u) t_loglevel_map with Some (n, _) => Some n | None => None end.

Definition names18 : list bytes := map snd t_loglevel_map.
Definition spec_names : list bytes := B "NONE" :: B "ALL" :: level_names.

Definition agree_b (u : bytes) : bool :=
  match lookup_upper u, name_class u with
  | Some n, Some NCNone => (n =? 0)%N
  | Some n, Some NCAll => (n =? 65535)%N
  | Some n, Some (NCLevel k) => (k <? 16)%nat && (n =? 2 ^ N.of_nat k)%N
  | None, None => true
  | _, _ => false
  end.

Lemma index_of_In u l i k : index_of u l i = Some k -> In u l.
Proof.
  revert i. induction l as [|x t IH]; intro i; simpl; [discriminate|].
  destruct (bytes_eqb u x) eqn:E.
  - intros _. left. symmetry. apply bytes_eqb_spec. assumption.
  - intro H. right. eapply IH. eassumption.
Qed.

Lemma name_class_In u c : name_class u = Some c -> In u spec_names.
Proof.
  unfold name_class, spec_names.
  destruct (bytes_eqb u (B "NONE")) eqn:E1; [intros _; left; symmetry; apply bytes_eqb_spec; assumption|].
  destruct (bytes_eqb u (B "ALL")) eqn:E2; [intros _; right; left; symmetry; apply bytes_eqb_spec; assumption|].
  destruct (index_of u level_names 0) eqn:E3; [|discriminate].
  intros _. right. right. eapply index_of_In. eassumption.
Qed.

Lemma find_none_notin {A} (f : A -> bool) l : (forall x, In x l -> f x = false) -> find f l = None.
Proof.
  induction l as [|x t IH]; intro H; simpl; [reflexivity|].
  rewrite (H x) by (left; reflexivity). apply IH. intros y Hy. apply H. right. assumption.
Qed.

Lemma agree_all u : agree_b u = true.
Proof.
  destruct (existsb (bytes_eqb u) names18) eqn:E.
  - apply existsb_exists in E as (x & Hx & Ex). apply bytes_eqb_spec in Ex. subst x.
    assert (forallb agree_b names18 = true) as H by (vm_compute; reflexivity).
    rewrite forallb_forall in H. apply H. assumption.
  - assert (Hnot : ~ In u names18).
    { intro Hin. assert (existsb (bytes_eqb u) names18 = true) as C
          by (apply existsb_exists; exists u; split; [assumption | apply bytes_eqb_spec; reflexivity]).
      congruence. }
    unfold agree_b.
    assert (lookup_upper u = None) as ->.
    { unfold lookup_upper. rewrite find_none_notin; [reflexivity|].
      intros [n nm] Hin. simpl. destruct (bytes_eqb nm u) eqn:F; [|reflexivity].
      apply bytes_eqb_spec in F. subst nm. exfalso. apply Hnot.
      unfold names18. apply in_map_iff. exists (n, u). split; [reflexivity | assumption]. }
    destruct (name_class u) as [c|] eqn:F; [|reflexivity].
    exfalso. apply Hnot. apply name_class_In in F.
    assert (forallb (fun nm => existsb (bytes_eqb nm) names18) spec_names = true) as H by (vm_compute; reflexivity).
    rewrite forallb_forall in H. specialize (H u F).
    apply existsb_exists in H as (x & Hx & Ex). apply bytes_eqb_spec in Ex. subst. assumption.
Qed.

(* what the type switch of shift/unshift yields, against the specification *)
Lemma resolve_rel a :
  larg_wf a = true ->
  match resolve a with
  | None => ll_resolve a = (0%N, false)
  | Some m => exists ll, ll_resolve a = (ll, true) /\ lvl_rel ll m
  end.
Proof.
  intro Hwf. destruct a as [s|n|z|]; simpl.
  - rewrite resolve_name_class. unfold ll_lookup_name.
    pose proof (agree_all (map ascii_upper s)) as H. unfold agree_b, lookup_upper in H.
    destruct (find _ t_loglevel_map) as [[n nm]|]; destruct (name_class (map ascii_upper s)) as [[| |k]|];
      simpl; try discriminate; try reflexivity.
    + apply N.eqb_eq in H. subst. exists 0%N. split; [reflexivity | apply lvl_rel_0].
    + apply N.eqb_eq in H. subst. exists 65535%N. split; [reflexivity | apply lvl_rel_all].
    + apply andb_true_iff in H as [Hk H]. apply N.eqb_eq in H. subst. apply Nat.ltb_lt in Hk.
      eexists. split; [reflexivity | apply lvl_rel_single; assumption].
  - exists n. split; [reflexivity|]. apply lvl_rel_of_N. simpl in Hwf. apply N.ltb_lt. assumption.
  - eexists. split; [reflexivity | apply lvl_rel_of_Z].
  - reflexivity.
Qed.

Lemma ll_shift_rel xs : forall r m,
  forallb larg_wf xs = true -> lvl_rel r m -> lvl_rel (ll_shift r xs) (set_levels true m xs).
Proof.
  induction xs as [|a t IH]; intros r m Hwf Hr; simpl; [assumption|].
  simpl in Hwf. apply andb_true_iff in Hwf as [Ha Ht].
  pose proof (resolve_rel a Ha) as Hres.
  destruct (resolve a) as [ma|].
  - destruct Hres as (ll & -> & Hll).
    rewrite (lvl_rel_empty _ _ Hll), (lvl_rel_full _ _ Hll).
    destruct (ll =? 0)%N; [apply lvl_rel_0|].
    destruct (ll =? 65535)%N; [apply lvl_rel_all|].
    apply IH; [assumption|]. apply lvl_rel_union; assumption.
  - rewrite Hres. simpl. apply lvl_rel_0.
Qed.

Lemma ll_unshift_rel xs : forall r m,
  forallb larg_wf xs = true -> lvl_rel r m -> lvl_rel (ll_unshift r xs) (unset_levels m xs).
Proof.
  induction xs as [|a t IH]; intros r m Hwf Hr; simpl; [assumption|].
  simpl in Hwf. apply andb_true_iff in Hwf as [Ha Ht].
  pose proof (resolve_rel a Ha) as Hres.
  destruct (resolve a) as [ma|].
  - destruct Hres as (ll & -> & Hll).
    rewrite (lvl_rel_empty _ _ Hll), (lvl_rel_full _ _ Hll).
    destruct (ll =? 0)%N; [apply IH; assumption|].
    destruct (ll =? 65535)%N; [apply lvl_rel_0|].
    apply IH; [assumption|]. apply lvl_rel_diff; assumption.
  - rewrite Hres. simpl. apply IH; assumption.
Qed.

(* ---- LogLevels() text ---- *)

Lemma flat_map_ext_in {A B} (f g : A -> list B) l : (forall x, In x l -> f x = g x) -> flat_map f l = flat_map g l.
Proof.
  induction l as [|x t IH]; intro H; simpl; [reflexivity|].
  rewrite (H x) by (left; reflexivity). f_equal. apply IH. intros y Hy. apply H. right. assumption.
Qed.

Lemma flat_map_map {A B C} (f : B -> list C) (g : A -> B) l : flat_map f (map g l) = flat_map (fun x => f (g x)) l.
Proof. induction l as [|x t IH]; simpl; [reflexivity|]. rewrite IH. reflexivity. Qed.

Lemma ll_string_rel r m : lvl_rel r m -> ll_string r = levels_text m.
Proof.
  intro H. unfold ll_string, levels_text.
  rewrite (lvl_rel_full _ _ H), (lvl_rel_empty _ _ H).
  change c_AllLogLevels with 65535%N.
  destruct (r =? 65535)%N eqn:E1; [reflexivity|].
  destruct (r =? 0)%N eqn:E0; [reflexivity|].
  f_equal. change bit_indices with (map N.of_nat levels). rewrite flat_map_map.
  apply flat_map_ext_in. intros i Hi.
  assert (Hname : ll_name_of (N.shiftl 1 (N.of_nat i)) = Some (nth i level_names [])).
  { assert (forallb (fun i => match ll_name_of (N.shiftl 1 (N.of_nat i)) with
                              | Some nm => bytes_eqb nm (nth i level_names [])
                              | None => false end) levels = true) as Hall by (vm_compute; reflexivity).
    rewrite forallb_forall in Hall. specialize (Hall i Hi).
    destruct (ll_name_of _); [|discriminate]. apply bytes_eqb_spec in Hall. subst. reflexivity. }
  rewrite Hname. unfold ll_positive. rewrite E0, E1.
  rewrite N.shiftl_1_l, land_pow2_eq0, negb_involutive.
  destruct H as [_ Hm]. rewrite Hm, lv_of_N_low by (apply levels_in; assumption). reflexivity.
Qed.

(* ---- the string-valued setters ---- *)

Lemma assert_list_delimiter_spec x : assert_list_delimiter x = delim_text x.
Proof. destruct x as [s|r| |]; simpl; try reflexivity. destruct (r =? 0); reflexivity. Qed.

Lemma symbol_text_spec xs acc : symbol_text xs acc = acc ++ concat (map sym_text xs).
Proof.
  revert acc. induction xs as [|x t IH]; intro acc; simpl; [symmetry; apply app_nil_r|].
  destruct x as [s|r| |]; rewrite IH; simpl; rewrite ?app_assoc; reflexivity.
Qed.

Lemma encap_slice_spec enc p : encap_slice enc p = Ok (add_pair enc p).
Proof.
  destruct p as [|x0 [|x1 p']]; simpl; [reflexivity| |].
  - unfold encap_one. destruct enc as [|e enc']; [reflexivity|].
    unfold used, str_in_slice. rewrite orb_false_r. reflexivity.
  - unfold encap_two. destruct enc as [|e enc']; [reflexivity|].
    unfold used, str_in_slice. rewrite orb_false_r. reflexivity.
Qed.

Lemma encap_args_spec xs enc : encap_args enc xs = Ok (fold_left add_earg xs enc).
Proof.
  revert enc. induction xs as [|a t IH]; intro enc; [reflexivity|].
  destruct a as [s|l|]; cbn [encap_args fold_left].
  - rewrite encap_slice_spec. cbn [bind]. rewrite IH. reflexivity.
  - rewrite encap_slice_spec. cbn [bind]. rewrite IH. reflexivity.
  - rewrite IH. reflexivity.
Qed.

Lemma set_encap_m_spec c xs : set_encap_m c xs = Ok (oset_enc c (set_encap (o_enc c) xs)).
Proof.
  unfold set_encap_m, set_encap. destruct xs as [|a t]; [reflexivity|].
  rewrite encap_args_spec. reflexivity.
Qed.

(* ---- the option word ---- *)

Lemma oset_opt_id c : oset_opt c (o_opt c) = c.
Proof. destruct c; reflexivity. Qed.

Lemma flag_eq_ronly o : (flag_of o =? c_ronly)%N = optname_eqb o OReadOnly.
Proof. destruct o; reflexivity. Qed.

(* set_state either leaves the record alone or replaces the option word by
   the helper's result *)
Lemma set_state_shape c o t :
  cfg_valid c = true ->
  set_state c (flag_of o) t =
  if cfg_positive c c_ronly && negb (optname_eqb o OReadOnly) then c
  else oset_opt c (apply_tri t (o_opt c) (flag_of o)).
Proof.
  intro Hv. unfold set_state. rewrite flag_eq_ronly.
  destruct (cfg_positive c c_ronly); destruct (optname_eqb o OReadOnly); simpl; try reflexivity;
    destruct t as [[|]|]; unfold cfg_setOpt, cfg_unsetOpt, cfg_toggleOpt; rewrite Hv; reflexivity.
Qed.

Lemma cfg_positive_bit c o : cfg_valid c = true -> cfg_positive c (flag_of o) = N.testbit (o_opt c) (bit_of o).
Proof. intro Hv. unfold cfg_positive. rewrite Hv, flag_of_bit. apply positive_testbit. Qed.

Lemma set_state_positive c o t o' :
  cfg_valid c = true ->
  cfg_positive (set_state c (flag_of o) t) (flag_of o') =
  if cfg_positive c c_ronly && negb (optname_eqb o OReadOnly) then cfg_positive c (flag_of o')
  else if optname_eqb o o' then tri t (cfg_positive c (flag_of o)) else cfg_positive c (flag_of o').
Proof.
  intro Hv. rewrite set_state_shape by assumption.
  destruct (cfg_positive c c_ronly && negb (optname_eqb o OReadOnly)); [reflexivity|].
  assert (Hv' : cfg_valid (oset_opt c (apply_tri t (o_opt c) (flag_of o))) = true) by exact Hv.
  rewrite (cfg_positive_bit _ o' Hv'). simpl o_opt.
  rewrite (cfg_positive_bit c o Hv), (cfg_positive_bit c o' Hv).
  rewrite (flag_of_bit o).
  destruct (set_clear_toggle_spec t (o_opt c) (bit_of o)) as [Hk Hj].
  destruct (optname_eqb o o') eqn:E.
  - apply optname_eqb_spec in E. subst o'. exact Hk.
  - apply optname_eqb_false in E. apply Hj.
    intro Hb. apply E. symmetry. apply bit_of_inj. assumption.
Qed.

(* ---- the refinement relation ---- *)

Record R (rk : rkind) (c : ocfg) (s : sstate) : Prop := {
  R_rk : s_rk s = rk;
  R_kind : s_kind s = o_typ c;
  R_valid : cfg_valid c = true;
  R_opt : forall o, cfg_positive c (flag_of o) = s_opt s o;
  R_fifo : o_ord c = s_fifo s;
  R_id : o_id c = s_id s;
  R_cat : o_cat c = s_cat s;
  R_delim : o_ljc c = s_delim s;
  R_sym : o_sym c = s_sym s;
  R_enc : o_enc c = s_enc s;
  R_aux : o_aux c = s_aux s;
  R_lvl : lvl_rel (o_lvl c) (s_lvl s)
}.

Lemma R_ro rk c s : R rk c s -> cfg_positive c c_ronly = s_opt s OReadOnly.
Proof. intro H. exact (R_opt _ _ _ H OReadOnly). Qed.

Lemma R_init rk kind : kind <> 0%N -> R rk (onew kind) (sinit rk kind).
Proof.
  intro Hk. constructor; try reflexivity.
  - unfold cfg_valid. simpl. apply negb_true_iff, N.eqb_neq. assumption.
  - intro o. unfold cfg_positive, cfg_valid. simpl o_typ. simpl o_opt.
    destruct (negb (kind =? 0)%N); [|reflexivity]. destruct o; reflexivity.
  - apply lvl_rel_0.
Qed.

Ltac R_frame H :=
  constructor;
  [ exact (R_rk _ _ _ H) | exact (R_kind _ _ _ H) | exact (R_valid _ _ _ H) | exact (R_opt _ _ _ H)
  | exact (R_fifo _ _ _ H) | exact (R_id _ _ _ H) | exact (R_cat _ _ _ H) | exact (R_delim _ _ _ H)
  | exact (R_sym _ _ _ H) | exact (R_enc _ _ _ H) | exact (R_aux _ _ _ H) | exact (R_lvl _ _ _ H) ].

(* one call *)
Lemma refine_step rk c s call :
  R rk c s -> supported rk call = true ->
  exists c', ostep rk c call = Ok c' /\ R rk c' (sstep true s call).
Proof.
  intros H Hsup. unfold ostep. rewrite Hsup. simpl negb. cbv iota.
  pose proof (R_ro _ _ _ H) as Hro.
  pose proof (R_valid _ _ _ H) as Hv.
  destruct call as [o t|b|x|x|x|xs|xs|a|xs|xs]; simpl sstep; rewrite ?Hro.
  - (* SetOpt *)
    eexists. split; [reflexivity|].
    rewrite set_state_shape by assumption. rewrite Hro.
    destruct (s_opt s OReadOnly && negb (optname_eqb o OReadOnly)) eqn:G; [assumption|].
    constructor; try (first [exact (R_rk _ _ _ H) | exact (R_kind _ _ _ H) | exact (R_fifo _ _ _ H)
                            | exact (R_id _ _ _ H) | exact (R_cat _ _ _ H) | exact (R_delim _ _ _ H)
                            | exact (R_sym _ _ _ H) | exact (R_enc _ _ _ H) | exact (R_aux _ _ _ H)
                            | exact (R_lvl _ _ _ H)]).
    + exact Hv.
    + intro o'. simpl s_opt. unfold upd_opt.
      pose proof (set_state_positive c o t o' Hv) as P.
      rewrite set_state_shape, Hro, G in P by assumption. rewrite P.
      rewrite (R_opt _ _ _ H o), (R_opt _ _ _ H o'). reflexivity.
  - (* SetFIFO *)
    destruct (s_opt s OReadOnly); [eexists; split; [reflexivity | assumption]|].
    eexists. split; [reflexivity|]. unfold set_fifo.
    destruct (o_ord c) eqn:E; simpl.
    + constructor; try (first [exact (R_rk _ _ _ H) | exact (R_kind _ _ _ H) | exact (R_opt _ _ _ H)
                              | exact (R_id _ _ _ H) | exact (R_cat _ _ _ H) | exact (R_delim _ _ _ H)
                              | exact (R_sym _ _ _ H) | exact (R_enc _ _ _ H) | exact (R_aux _ _ _ H)
                              | exact (R_lvl _ _ _ H) | exact Hv]).
      simpl. rewrite <- (R_fifo _ _ _ H), E. reflexivity.
    + constructor; try (first [exact (R_rk _ _ _ H) | exact (R_kind _ _ _ H) | exact (R_opt _ _ _ H)
                              | exact (R_id _ _ _ H) | exact (R_cat _ _ _ H) | exact (R_delim _ _ _ H)
                              | exact (R_sym _ _ _ H) | exact (R_enc _ _ _ H) | exact (R_aux _ _ _ H)
                              | exact (R_lvl _ _ _ H) | exact Hv]).
      simpl. rewrite <- (R_fifo _ _ _ H), E. reflexivity.
  - (* SetID *)
    destruct (s_opt s OReadOnly); [eexists; split; [reflexivity | assumption]|].
    eexists. split; [reflexivity|].
    constructor; try (first [exact (R_rk _ _ _ H) | exact (R_kind _ _ _ H) | exact (R_opt _ _ _ H)
                            | exact (R_fifo _ _ _ H) | exact (R_cat _ _ _ H) | exact (R_delim _ _ _ H)
                            | exact (R_sym _ _ _ H) | exact (R_enc _ _ _ H) | exact (R_aux _ _ _ H)
                            | exact (R_lvl _ _ _ H) | exact Hv]).
    reflexivity.
  - (* SetCat *)
    destruct (s_opt s OReadOnly); [eexists; split; [reflexivity | assumption]|].
    eexists. split; [reflexivity|].
    constructor; try (first [exact (R_rk _ _ _ H) | exact (R_kind _ _ _ H) | exact (R_opt _ _ _ H)
                            | exact (R_fifo _ _ _ H) | exact (R_id _ _ _ H) | exact (R_delim _ _ _ H)
                            | exact (R_sym _ _ _ H) | exact (R_enc _ _ _ H) | exact (R_aux _ _ _ H)
                            | exact (R_lvl _ _ _ H) | exact Hv]).
    reflexivity.
  - (* SetDelim *)
    destruct (s_opt s OReadOnly); [eexists; split; [reflexivity | assumption]|].
    eexists. split; [reflexivity|]. unfold set_list_delimiter.
    rewrite (R_kind _ _ _ H). change c_list with k_list.
    destruct (o_typ c =? k_list)%N; [|assumption].
    constructor; try (first [exact (R_rk _ _ _ H) | exact (R_kind _ _ _ H) | exact (R_opt _ _ _ H)
                            | exact (R_fifo _ _ _ H) | exact (R_id _ _ _ H) | exact (R_cat _ _ _ H)
                            | exact (R_sym _ _ _ H) | exact (R_enc _ _ _ H) | exact (R_aux _ _ _ H)
                            | exact (R_lvl _ _ _ H) | exact Hv]).
    simpl. apply assert_list_delimiter_spec.
  - (* SetSymbol *)
    destruct (s_opt s OReadOnly); [eexists; split; [reflexivity | assumption]|].
    eexists. split; [reflexivity|]. unfold set_symbol.
    rewrite (R_kind _ _ _ H). change c_list with k_list.
    destruct (o_typ c =? k_list)%N; simpl; [assumption|].
    constructor; try (first [exact (R_rk _ _ _ H) | exact (R_kind _ _ _ H) | exact (R_opt _ _ _ H)
                            | exact (R_fifo _ _ _ H) | exact (R_id _ _ _ H) | exact (R_cat _ _ _ H)
                            | exact (R_delim _ _ _ H) | exact (R_enc _ _ _ H) | exact (R_aux _ _ _ H)
                            | exact (R_lvl _ _ _ H) | exact Hv]).
    simpl. apply symbol_text_spec.
  - (* SetEncap *)
    destruct (s_opt s OReadOnly); [eexists; split; [reflexivity | assumption]|].
    rewrite set_encap_m_spec. eexists. split; [reflexivity|].
    constructor; try (first [exact (R_rk _ _ _ H) | exact (R_kind _ _ _ H) | exact (R_opt _ _ _ H)
                            | exact (R_fifo _ _ _ H) | exact (R_id _ _ _ H) | exact (R_cat _ _ _ H)
                            | exact (R_delim _ _ _ H) | exact (R_sym _ _ _ H) | exact (R_aux _ _ _ H)
                            | exact (R_lvl _ _ _ H) | exact Hv]).
    simpl. rewrite (R_enc _ _ _ H). reflexivity.
  - (* SetAux *)
    destruct (s_opt s OReadOnly); [eexists; split; [reflexivity | assumption]|].
    eexists. split; [reflexivity|].
    assert (set_auxiliary c a = oset_aux c (aux_of a)) as -> by (destruct a; reflexivity).
    constructor; try (first [exact (R_rk _ _ _ H) | exact (R_kind _ _ _ H) | exact (R_opt _ _ _ H)
                            | exact (R_fifo _ _ _ H) | exact (R_id _ _ _ H) | exact (R_cat _ _ _ H)
                            | exact (R_delim _ _ _ H) | exact (R_sym _ _ _ H) | exact (R_enc _ _ _ H)
                            | exact (R_lvl _ _ _ H) | exact Hv]).
    reflexivity.
  - (* SetLogLevel *)
    destruct (s_opt s OReadOnly); [eexists; split; [reflexivity | assumption]|].
    eexists. split; [reflexivity|].
    constructor; try (first [exact (R_rk _ _ _ H) | exact (R_kind _ _ _ H) | exact (R_opt _ _ _ H)
                            | exact (R_fifo _ _ _ H) | exact (R_id _ _ _ H) | exact (R_cat _ _ _ H)
                            | exact (R_delim _ _ _ H) | exact (R_sym _ _ _ H) | exact (R_enc _ _ _ H)
                            | exact (R_aux _ _ _ H) | exact Hv]).
    simpl. apply ll_shift_rel; [|exact (R_lvl _ _ _ H)].
    destruct rk; exact Hsup.
  - (* UnsetLogLevel *)
    destruct (s_opt s OReadOnly); [eexists; split; [reflexivity | assumption]|].
    eexists. split; [reflexivity|].
    constructor; try (first [exact (R_rk _ _ _ H) | exact (R_kind _ _ _ H) | exact (R_opt _ _ _ H)
                            | exact (R_fifo _ _ _ H) | exact (R_id _ _ _ H) | exact (R_cat _ _ _ H)
                            | exact (R_delim _ _ _ H) | exact (R_sym _ _ _ H) | exact (R_enc _ _ _ H)
                            | exact (R_aux _ _ _ H) | exact Hv]).
    simpl. apply ll_unshift_rel; [|exact (R_lvl _ _ _ H)].
    destruct rk; exact Hsup.
Qed.

(* every history *)
Theorem refine_run rk h : forall c s,
  R rk c s -> forallb (supported rk) h = true ->
  exists c', orun rk c h = Ok c' /\ R rk c' (srun true s h).
Proof.
  induction h as [|x h IH]; intros c s H Hsup; simpl.
  - exists c. split; [reflexivity | assumption].
  - simpl in Hsup. apply andb_true_iff in Hsup as [Hx Hh].
    destruct (refine_step rk c s x H Hx) as (c1 & E1 & R1).
    rewrite E1. simpl. apply IH; assumption.
Qed.

(* ===================================================================== *)
(* Part 4: statements about the model                                     *)
(* ===================================================================== *)

(* a configuration as the constructors and setters produce it: a kind is
   set, the level word is a uint16 *)
Definition owf (c : ocfg) : Prop := cfg_valid c = true /\ (o_lvl c < 65536)%N.

Definition abs (rk : rkind) (c : ocfg) : sstate :=
  {| s_rk := rk; s_kind := o_typ c; s_opt := fun o => cfg_positive c (flag_of o); s_fifo := o_ord c;
     s_id := o_id c; s_cat := o_cat c; s_delim := o_ljc c; s_sym := o_sym c; s_enc := o_enc c;
     s_aux := o_aux c; s_lvl := lv_of_N (o_lvl c) |}.

Lemma abs_R rk c : owf c -> R rk c (abs rk c).
Proof.
  intros [Hv Hl]. constructor; try reflexivity; try assumption.
  apply lvl_rel_of_N. assumption.
Qed.

Lemma onew_owf kind : kind <> 0%N -> owf (onew kind).
Proof.
  intro H. split; [|reflexivity]. unfold cfg_valid. simpl. apply negb_true_iff, N.eqb_neq. assumption.
Qed.

(* the model never panics and never leaves the modelled fragment on
   supported calls, and ends in a well-formed configuration *)
Lemma orun_total rk c h :
  owf c -> forallb (supported rk) h = true -> exists c', orun rk c h = Ok c' /\ owf c' /\ R rk c' (srun true (abs rk c) h).
Proof.
  intros Hc Hh. destruct (refine_run rk h c (abs rk c) (abs_R rk c Hc) Hh) as (c' & E & HR).
  exists c'. split; [assumption|]. split; [|assumption].
  split; [exact (R_valid _ _ _ HR) | exact (proj1 (R_lvl _ _ _ HR))].
Qed.

(* ---- frame facts, directly on the model ---- *)

Lemma ostep_cases rk c call c' :
  ostep rk c call = Ok c' ->
  (exists o t, call = CSetOpt o t /\ c' = set_state c (flag_of o) t) \/
  c' = c \/
  (exists b, call = CSetFIFO b /\ c' = set_fifo c b) \/
  (exists x, c' = oset_id c x) \/ (exists x, c' = oset_cat c x) \/
  (exists x, c' = oset_ljc c x) \/ (exists x, c' = oset_sym c x) \/
  (exists x, c' = oset_enc c x) \/ (exists x, c' = oset_aux c x) \/ (exists x, c' = oset_lvl c x).
Proof.
  unfold ostep. destruct (supported rk call); simpl negb; cbv iota; [|discriminate].
  destruct call as [o t|b|x|x|x|xs|xs|a|xs|xs].
  - intro E. inversion E. left. eauto.
  - destruct (cfg_positive c c_ronly); intro E; inversion E; [right; left; reflexivity|].
    right. right. left. eauto.
  - destruct (cfg_positive c c_ronly); intro E; inversion E; [right; left; reflexivity|].
    do 3 right. left. eauto.
  - destruct (cfg_positive c c_ronly); intro E; inversion E; [right; left; reflexivity|].
    do 4 right. left. eauto.
  - destruct (cfg_positive c c_ronly); intro E; inversion E; [right; left; reflexivity|].
    unfold set_list_delimiter. destruct (o_typ c =? c_list)%N; [|right; left; reflexivity].
    do 5 right. left. eauto.
  - destruct (cfg_positive c c_ronly); intro E; inversion E; [right; left; reflexivity|].
    unfold set_symbol. destruct (negb (o_typ c =? c_list)%N); [|right; left; reflexivity].
    do 6 right. left. eauto.
  - destruct (cfg_positive c c_ronly); [intro E; inversion E; right; left; reflexivity|].
    rewrite set_encap_m_spec. intro E; inversion E. do 7 right. left. eauto.
  - destruct (cfg_positive c c_ronly); intro E; inversion E; [right; left; reflexivity|].
    do 8 right. left. destruct a; simpl; eauto.
  - destruct (cfg_positive c c_ronly); intro E; inversion E; [right; left; reflexivity|].
    do 9 right. eauto.
  - destruct (cfg_positive c c_ronly); intro E; inversion E; [right; left; reflexivity|].
    do 9 right. eauto.
Qed.

Lemma set_state_fields c f t :
  o_typ (set_state c f t) = o_typ c /\ o_ord (set_state c f t) = o_ord c /\ o_enc (set_state c f t) = o_enc c.
Proof.
  unfold set_state, cfg_setOpt, cfg_unsetOpt, cfg_toggleOpt.
  destruct (negb (cfg_positive c c_ronly) || (f =? c_ronly)%N); [|auto].
  destruct t as [[|]|]; destruct (cfg_valid c); auto.
Qed.

Lemma ostep_typ rk c call c' : ostep rk c call = Ok c' -> o_typ c' = o_typ c.
Proof.
  intro E. apply ostep_cases in E.
  destruct E as [(o & t & _ & ->)|[->|[(b & _ & ->)|[(x & ->)|[(x & ->)|[(x & ->)|[(x & ->)|[(x & ->)|[(x & ->)|(x & ->)]]]]]]]]];
    try reflexivity.
  - apply set_state_fields.
  - unfold set_fifo. destruct (negb (o_ord c)); reflexivity.
Qed.

(* FIFO: one call cannot switch it off *)
Lemma ostep_fifo rk c call c' : ostep rk c call = Ok c' -> o_ord c = true -> o_ord c' = true.
Proof.
  intros E Hf. apply ostep_cases in E.
  destruct E as [(o & t & _ & ->)|[->|[(b & _ & ->)|[(x & ->)|[(x & ->)|[(x & ->)|[(x & ->)|[(x & ->)|[(x & ->)|(x & ->)]]]]]]]]];
    try assumption.
  - destruct (set_state_fields c (flag_of o) t) as (_ & -> & _). assumption.
  - unfold set_fifo. rewrite Hf. simpl. assumption.
Qed.

Lemma orun_app rk h1 : forall c h2 c2,
  orun rk c (h1 ++ h2) = Ok c2 -> exists c1, orun rk c h1 = Ok c1 /\ orun rk c1 h2 = Ok c2.
Proof.
  induction h1 as [|x h1 IH]; intros c h2 c2 E; simpl in *.
  - exists c. split; [reflexivity | assumption].
  - destruct (ostep rk c x) as [c0| |]; simpl in *; try discriminate. apply IH. assumption.
Qed.

Theorem fifo_latch rk h : forall c c', orun rk c h = Ok c' -> o_ord c = true -> o_ord c' = true.
Proof.
  induction h as [|x h IH]; intros c c' E Hf; simpl in E.
  - inversion E. subst. assumption.
  - destruct (ostep rk c x) as [c0| |] eqn:E0; simpl in E; try discriminate.
    eapply IH; [eassumption|]. eapply ostep_fifo; eassumption.
Qed.

(* once IsFIFO reports true it reports true after any further calls *)
Theorem fifo_latch_prefix rk c h1 h2 c2 ct :
  orun rk c (h1 ++ h2) = Ok c2 ->
  exists c1, orun rk c h1 = Ok c1 /\
             (ob_isfifo (observe RStack c1 ct) = true -> ob_isfifo (observe RStack c2 ct) = true).
Proof.
  intro E. destruct (orun_app rk h1 c h2 c2 E) as (c1 & E1 & E2).
  exists c1. split; [assumption|]. simpl. intro Hf. eapply fifo_latch; eassumption.
Qed.

(* bits that belong to no public switch (join 64, enhanced traversal 512,
   the six unused ones) are never touched *)
Lemma ostep_other_bits rk c call c' k :
  cfg_valid c = true -> ostep rk c call = Ok c' -> (forall o, bit_of o <> k) ->
  N.testbit (o_opt c') k = N.testbit (o_opt c) k.
Proof.
  intros Hv E Hk. apply ostep_cases in E.
  destruct E as [(o & t & _ & ->)|[->|[(b & _ & ->)|[(x & ->)|[(x & ->)|[(x & ->)|[(x & ->)|[(x & ->)|[(x & ->)|(x & ->)]]]]]]]]];
    try reflexivity.
  - rewrite set_state_shape by assumption.
    destruct (cfg_positive c c_ronly && negb (optname_eqb o OReadOnly)); [reflexivity|].
    simpl o_opt. rewrite flag_of_bit.
    apply (proj2 (set_clear_toggle_spec t (o_opt c) (bit_of o))). intro E. apply (Hk o). symmetry. assumption.
  - unfold set_fifo. destruct (negb (o_ord c)); reflexivity.
Qed.

Lemma orun_other_bits rk h : forall c c' k,
  cfg_valid c = true -> orun rk c h = Ok c' -> (forall o, bit_of o <> k) ->
  N.testbit (o_opt c') k = N.testbit (o_opt c) k.
Proof.
  induction h as [|x h IH]; intros c c' k Hv E Hk; simpl in E.
  - inversion E. reflexivity.
  - destruct (ostep rk c x) as [c0| |] eqn:E0; simpl in E; try discriminate.
    rewrite (IH c0 c' k); [eapply ostep_other_bits; eassumption| |assumption|assumption].
    unfold cfg_valid in *. rewrite (ostep_typ _ _ _ _ E0). assumption.
Qed.

(* ---- option_history ---- *)
Theorem option_history rk c h :
  owf c -> forallb (supported rk) h = true ->
  exists c', orun rk c h = Ok c' /\
    (forall o, cfg_positive c' (flag_of o) = own_fold o h (cfg_positive c (flag_of o)) (cfg_positive c c_ronly)) /\
    (forall k, (forall o, bit_of o <> k) -> N.testbit (o_opt c') k = N.testbit (o_opt c) k).
Proof.
  intros Hc Hh. destruct (orun_total rk c h Hc Hh) as (c' & E & _ & HR).
  exists c'. split; [assumption|]. split.
  - intro o. rewrite (R_opt _ _ _ HR o), sopt_history. reflexivity.
  - intros k Hk. eapply orun_other_bits; try eassumption. exact (proj1 Hc).
Qed.

(* calls to other options (and every other setter) can be deleted without
   changing what option o ends up as *)
Theorem option_independent rk c h o :
  owf c -> forallb (supported rk) h = true ->
  exists c1 c2, orun rk c h = Ok c1 /\ orun rk c (filter (concerns o) h) = Ok c2 /\
                cfg_positive c1 (flag_of o) = cfg_positive c2 (flag_of o).
Proof.
  intros Hc Hh.
  assert (Hh' : forallb (supported rk) (filter (concerns o) h) = true).
  { apply forallb_forall. intros x Hx. apply filter_In in Hx as [Hx _].
    rewrite forallb_forall in Hh. apply Hh. assumption. }
  destruct (option_history rk c h Hc Hh) as (c1 & E1 & H1 & _).
  destruct (option_history rk c _ Hc Hh') as (c2 & E2 & H2 & _).
  exists c1, c2. split; [assumption|]. split; [assumption|].
  rewrite H1, H2, own_fold_filter. reflexivity.
Qed.

(* ---- getters return the last effective setter argument ---- *)
Theorem getter_setter rk c h ct :
  owf c -> forallb (supported rk) h = true ->
  exists c', orun rk c h = Ok c' /\
    let ro := cfg_positive c c_ronly in
    let ob := observe rk c' ct in
    ob_gid ob = eff_fold upd_id h ro (o_id c) /\
    ob_gcat ob = eff_fold upd_cat h ro (o_cat c) /\
    ob_ljc ob = eff_fold (upd_delim (o_typ c)) h ro (o_ljc c) /\
    (rk = RStack -> ob_gdelim ob = ob_ljc ob) /\
    ob_sym ob = eff_fold (upd_sym (o_typ c)) h ro (o_sym c) /\
    ob_gaux ob = eff_fold upd_aux h ro (o_aux c) /\
    ob_ord ob = eff_fold upd_fifo h ro (o_ord c) /\
    (rk = RStack -> ob_isfifo ob = ob_ord ob) /\
    ob_enc ob = eff_fold upd_enc h ro (o_enc c) /\
    ob_content ob = ct.
Proof.
  intros Hc Hh. destruct (orun_total rk c h Hc Hh) as (c' & E & _ & HR).
  exists c'. split; [assumption|]. cbv zeta. simpl.
  rewrite (R_id _ _ _ HR), (R_cat _ _ _ HR), (R_delim _ _ _ HR), (R_sym _ _ _ HR), (R_aux _ _ _ HR),
    (R_fifo _ _ _ HR), (R_enc _ _ _ HR).
  rewrite sid_history, scat_history, sdelim_history, ssym_history, saux_history, sfifo_history, senc_history.
  simpl. repeat split; try reflexivity; intros ->; reflexivity.
Qed.

(* one-step readings: on a receiver that is not read-only the getter hands
   back what the setter was given *)
Theorem set_then_get rk c ct :
  cfg_positive c c_ronly = false ->
  (forall x, supported rk (CSetID x) = true ->
             exists c', ostep rk c (CSetID x) = Ok c' /\ ob_gid (observe rk c' ct) = x) /\
  (forall x, exists c', ostep rk c (CSetCat x) = Ok c' /\ ob_gcat (observe rk c' ct) = x) /\
  (forall x, o_typ c = c_list -> exists c', ostep RStack c (CSetDelim x) = Ok c' /\
             ob_gdelim (observe RStack c' ct) = delim_text x) /\
  (forall xs, o_typ c <> c_list -> exists c', ostep RStack c (CSetSymbol xs) = Ok c' /\
             ob_sym (observe RStack c' ct) = concat (map sym_text xs)) /\
  (forall k, exists c', ostep rk c (CSetAux (AMap k)) = Ok c' /\ ob_gaux (observe rk c' ct) = Some k).
Proof.
  intro Hro. repeat split.
  - intros x Hs. unfold ostep. rewrite Hs, Hro. simpl. eauto.
  - intro x. unfold ostep. rewrite Hro. simpl. destruct rk; eauto.
  - intros x Hl. unfold ostep. rewrite Hro. simpl. unfold set_list_delimiter. rewrite Hl. simpl.
    eexists. split; [reflexivity|]. simpl. apply assert_list_delimiter_spec.
  - intros xs Hl. unfold ostep. rewrite Hro. simpl. unfold set_symbol.
    replace (o_typ c =? c_list)%N with false by (symmetry; apply N.eqb_neq; assumption). simpl.
    eexists. split; [reflexivity|]. simpl. apply symbol_text_spec.
  - intro k. unfold ostep. rewrite Hro. simpl. destruct rk; eauto.
Qed.

(* ---- encapsulation ---- *)
Theorem encap_invariant rk c h :
  owf c -> forallb (supported rk) h = true -> enc_inv (o_enc c) ->
  exists c', orun rk c h = Ok c' /\ enc_inv (o_enc c').
Proof.
  intros Hc Hh Hi. destruct (orun_total rk c h Hc Hh) as (c' & E & _ & HR).
  exists c'. split; [assumption|]. rewrite (R_enc _ _ _ HR). apply srun_enc_inv. exact Hi.
Qed.

Theorem encap_no_shared_char rk c h :
  owf c -> forallb (supported rk) h = true -> forallb call_pairish h = true ->
  enc_inv (o_enc c) -> all_pairs (o_enc c) ->
  exists c', orun rk c h = Ok c' /\ no_shared (o_enc c').
Proof.
  intros Hc Hh Hp Hi Ha. destruct (orun_total rk c h Hc Hh) as (c' & E & _ & HR).
  exists c'. split; [assumption|]. rewrite (R_enc _ _ _ HR).
  apply enc_inv_no_shared; [apply srun_enc_inv; exact Hi | apply srun_all_pairs; assumption].
Qed.

Lemma oset_enc_id c : oset_enc c (o_enc c) = c.
Proof. destruct c; reflexivity. Qed.

Theorem encap_refused_keeps rk c p s :
  In s (firstn 2 p) -> used (o_enc c) s = true -> ostep rk c (CSetEncap [ESlice p]) = Ok c.
Proof.
  intros Hs Hu. unfold ostep.
  assert (supported rk (CSetEncap [ESlice p]) = true) as -> by (destruct rk; reflexivity).
  simpl negb. cbv iota.
  destruct (cfg_positive c c_ronly); [reflexivity|].
  rewrite set_encap_m_spec. unfold set_encap. cbn [fold_left]. unfold add_earg. cbn [pair_of].
  rewrite (add_pair_refused _ _ _ Hs Hu), oset_enc_id. reflexivity.
Qed.

Theorem encap_refused_keeps_str rk c x :
  used (o_enc c) x = true -> ostep rk c (CSetEncap [EStr x]) = Ok c.
Proof.
  intros Hu. unfold ostep.
  assert (supported rk (CSetEncap [EStr x]) = true) as -> by (destruct rk; reflexivity).
  simpl negb. cbv iota.
  destruct (cfg_positive c c_ronly); [reflexivity|].
  rewrite set_encap_m_spec. unfold set_encap. cbn [fold_left]. unfold add_earg. cbn [pair_of].
  rewrite (add_pair_refused _ [x] x) by (simpl; auto). rewrite oset_enc_id. reflexivity.
Qed.

(* ---- log levels ---- *)
Theorem loglevel_bitset rk c h :
  owf c -> forallb (supported rk) h = true ->
  exists c', orun rk c h = Ok c' /\ (o_lvl c' < 65536)%N /\
    (forall i, (i < 16)%nat ->
       N.testbit (o_lvl c') (N.of_nat i) =
       eff_fold (upd_level true i) h (cfg_positive c c_ronly) (N.testbit (o_lvl c) (N.of_nat i))) /\
    (forall ct, ob_glog (observe rk c' ct) = levels_text (lv_of_N (o_lvl c'))).
Proof.
  intros Hc Hh. destruct (orun_total rk c h Hc Hh) as (c' & E & Hc' & HR).
  exists c'. split; [assumption|]. split; [exact (proj2 Hc')|]. split.
  - intros i Hi. destruct (R_lvl _ _ _ HR) as [_ Hm].
    rewrite <- (lv_of_N_low (o_lvl c') i Hi), <- Hm, slevel_history. simpl.
    rewrite lv_of_N_low by assumption. reflexivity.
  - intro ct. simpl. apply ll_string_rel. apply lvl_rel_of_N. exact (proj2 Hc').
Qed.

(* UnsetLogLevel("all") (any spelling of the full set) leaves no level (D24) *)
Theorem unset_all_clears r :
  ll_unshift r [LName (B "all")] = 0%N /\ ll_unshift r [LName (B "ALL")] = 0%N /\
  ll_unshift r [LConst 65535] = 0%N /\ ll_unshift r [LInt (-1)] = 0%N /\ ll_unshift r [LInt 65535] = 0%N.
Proof. repeat split; vm_compute; reflexivity. Qed.

(* outside the property's text: an argument that names no level (unknown
   name, foreign type) makes SetLogLevel silence everything *)
Theorem set_unknown_name_silences r :
  ll_shift r [LName (B "bogus")] = 0%N /\ ll_shift r [LOther] = 0%N.
Proof. split; vm_compute; reflexivity. Qed.

(* LogLevels() is faithful: different level sets have different texts.
   The domain is finite (uint16), so the left inverse is checked on all of it. *)
Fixpoint all_below (k : nat) : list N :=
  match k with
  | O => [0%N]
  | S k' => let r := all_below k' in map N.double r ++ map N.succ_double r
  end.

Lemma all_below_complete k : forall n, (n < 2 ^ N.of_nat k)%N -> In n (all_below k).
Proof.
  induction k as [|k IH]; intros n Hn.
  - simpl in *. left. lia.
  - rewrite Nat2N.inj_succ, N.pow_succ_r' in Hn. cbn [all_below]. apply in_or_app.
    destruct n as [|[q|q|]].
    + left. apply in_map_iff. exists 0%N. split; [reflexivity | apply IH; apply N.neq_0_lt_0, N.pow_nonzero; discriminate].
    + right. apply in_map_iff. exists (N.pos q). split; [reflexivity | apply IH; lia].
    + left. apply in_map_iff. exists (N.pos q). split; [reflexivity | apply IH; lia].
    + right. apply in_map_iff. exists 0%N. split; [reflexivity | apply IH; apply N.neq_0_lt_0, N.pow_nonzero; discriminate].
Qed.

Fixpoint split_commas (s acc : list N) : list (list N) :=
  match s with
  | [] => [rev acc]
  | b :: t => if (b =? 44)%N then rev acc :: split_commas t [] else split_commas t (b :: acc)
  end.
Definition names_N : list (N * list N) :=
  Eval vm_compute in map (fun p => (fst p, map Byte.to_N (snd p))) t_loglevel_names.
Definition name_value (nm : list N) : N :=
  match find (fun p => list_eqb N.eqb (snd p) nm) names_N with Some (n, _) => n | None => 0%N end.
Definition ll_parse (s : bytes) : N :=
  if bytes_eqb s (B "ALL") then 65535%N else if bytes_eqb s (B "NONE") then 0%N
  else fold_right N.lor 0%N (map name_value (split_commas (map Byte.to_N s) [])).

Lemma ll_parse_string n : (n < 65536)%N -> ll_parse (ll_string n) = n.
Proof.
  intro Hn.
  assert (forallb (fun n => (ll_parse (ll_string n) =? n)%N) (all_below 16) = true) as H
      by (vm_cast_no_check (@eq_refl bool true)).   (* evaluated once, by the kernel, at Qed *)
  rewrite forallb_forall in H. apply N.eqb_eq, H. apply all_below_complete. exact Hn.
Qed.

Theorem loglevels_text_faithful a b :
  (a < 65536)%N -> (b < 65536)%N -> ll_string a = ll_string b -> a = b.
Proof. intros Ha Hb E. rewrite <- (ll_parse_string a Ha), <- (ll_parse_string b Hb), E. reflexivity. Qed.

(* ---- remarks on encapsulation, outside the property's text ---- *)

(* a third element of a slice is stored without being checked *)
Theorem encap_third_element_unchecked :
  exists c', orun RStack (onew c_and) [CSetEncap [EStr (B "a")]; CSetEncap [ESlice [B "b"; B "c"; B "a"]]] = Ok c' /\
             o_enc c' = [[B "a"]; [B "b"; B "c"; B "a"]].
Proof. eexists. split; vm_compute; reflexivity. Qed.

(* "character" means the whole string: "<<" and "<" are different strings *)
Theorem encap_compares_whole_strings :
  exists c', orun RStack (onew c_and) [CSetEncap [ESlice [B "<<"; B ">>"]]; CSetEncap [ESlice [B "<"; B ">"]]] = Ok c' /\
             o_enc c' = [[B "<<"; B ">>"]; [B "<"; B ">"]].
Proof. eexists. split; vm_compute; reflexivity. Qed.

(* ---- the literal reading: single characters ---- *)
Definition all_single (enc : list (list bytes)) : Prop := Forall (fun p => forallb one_byte p = true) enc.

Lemma add_pair_single enc p : all_single enc -> forallb one_byte p = true -> all_single (add_pair enc p).
Proof.
  intros H Hp. unfold add_pair. destruct p as [|x p']; [assumption|].
  destruct (existsb _ _); [assumption|]. apply Forall_app. split; [assumption|]. constructor; [assumption|constructor].
Qed.

Lemma set_encap_single enc xs : all_single enc -> forallb earg_chars xs = true -> all_single (set_encap enc xs).
Proof.
  intros H Hx. unfold set_encap. destruct xs as [|a t]; [constructor|].
  generalize dependent (a :: t). intro l. revert enc H.
  induction l as [|y l IH]; intros enc H Hx; simpl; [assumption|].
  simpl in Hx. apply andb_true_iff in Hx as [Hy Hx]. apply IH; [|assumption].
  unfold add_earg. destruct y as [s0|l0|]; cbn [pair_of]; try assumption.
  - apply add_pair_single; [assumption|]. simpl in *. rewrite Hy. reflexivity.
  - apply add_pair_single; assumption.
Qed.

Lemma srun_single unk s h :
  all_single (s_enc s) -> forallb call_chars h = true -> all_single (s_enc (srun unk s h)).
Proof.
  revert s. induction h as [|c h IH]; intros s H Hh; simpl; [assumption|].
  simpl in Hh. apply andb_true_iff in Hh as [Hc Hh]. apply IH; [|assumption].
  destruct c as [o0 t| | | | | | | | |]; simpl;
    repeat match goal with |- context [if ?b then _ else _] => destruct b end; simpl; try assumption.
  apply set_encap_single; assumption.
Qed.

Lemma single_member p b : forallb one_byte p = true -> In b (concat p) -> In [b] p.
Proof.
  intros Hp Hb. apply in_concat in Hb as (s & Hs & Hbs).
  rewrite forallb_forall in Hp. specialize (Hp s Hs). unfold one_byte in Hp. apply Nat.eqb_eq in Hp.
  destruct s as [|x [|y s']]; simpl in Hp; try discriminate.
  destruct Hbs as [->|[]]. assumption.
Qed.

Lemma no_shared_single enc : no_shared enc -> all_single enc -> no_shared_byte enc.
Proof.
  intros Hn Hs i j pi pj b Hij Hi Hj Hbi Hbj.
  unfold all_single in Hs. rewrite Forall_forall in Hs.
  apply (Hn i j pi pj [b] Hij Hi Hj).
  - apply single_member; [apply Hs; eapply nth_error_In; eassumption | assumption].
  - apply single_member; [apply Hs; eapply nth_error_In; eassumption | assumption].
Qed.

Theorem encap_no_shared_byte rk c h :
  owf c -> forallb (supported rk) h = true ->
  forallb call_pairish h = true -> forallb call_chars h = true ->
  enc_inv (o_enc c) -> all_pairs (o_enc c) -> all_single (o_enc c) ->
  exists c', orun rk c h = Ok c' /\ no_shared_byte (o_enc c').
Proof.
  intros Hc Hh Hp Hch Hi Ha Hs. destruct (orun_total rk c h Hc Hh) as (c' & E & _ & HR).
  exists c'. split; [assumption|]. rewrite (R_enc _ _ _ HR).
  apply no_shared_single.
  - apply enc_inv_no_shared; [apply srun_enc_inv; exact Hi | apply srun_all_pairs; assumption].
  - apply srun_single; assumption.
Qed.
