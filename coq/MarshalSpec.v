(* MarshalSpec.v -- what properties C04 and C16 say, with no reference to how
   stack.go does it.  Imports neither Generated.v nor the model.

   C04: the canonical flat form of a tree ([spec_flat]: kind label, then one
   entry per element in order; nested Stacks and Conditions expanded, anything
   else passed through), label case-insensitivity ([canon]), tree comparison
   ([same_tree], through the erasure [skel] of JVal.v), the domain
   ([tree_ok]) and the "no capacity, no folding" guard ([plain]).
   C16: single-list envelopes ([strip]) and the reading of the first entry
   ([classify]).  Executable definitions; a few lemmas showing that the
   definitions are the natural objects are in MarshalProofs.v. *)
From Stackage Require Import Base Values JVal.
Open Scope Z_scope.

(* ---- kinds and labels ---- *)
Definition k_and : N := 1.  Definition k_or : N := 2.  Definition k_not : N := 3.
Definition k_list : N := 4. Definition k_cond : N := 5. Definition k_basic : N := 6.

Definition kind_name (typ : N) : option bytes :=
  if (typ =? k_and)%N then Some (B "AND") else
  if (typ =? k_or)%N then Some (B "OR") else
  if (typ =? k_not)%N then Some (B "NOT") else
  if (typ =? k_list)%N then Some (B "LIST") else
  if (typ =? k_basic)%N then Some (B "BASIC") else None.

Definition kind_ok (typ : N) : bool := match kind_name typ with Some _ => true | None => false end.

Definition kind_name_tot (typ : N) : bytes := match kind_name typ with Some s => s | None => [] end.

(* the Stack kind a label names, compared without regard to (ASCII) case *)
Definition label_kind (lab : bytes) : option N :=
  let u := upper lab in
  if bytes_eqb u (B "AND") then Some k_and else
  if bytes_eqb u (B "OR") then Some k_or else
  if bytes_eqb u (B "NOT") then Some k_not else
  if bytes_eqb u (B "LIST") then Some k_list else
  if bytes_eqb u (B "BASIC") then Some k_basic else None.

Definition label_is_condition (lab : bytes) : bool := bytes_eqb (upper lab) (B "CONDITION").

(* ---- C04: the flat form ---- *)
Definition spec_op_val (op : option oper) : jval :=
  match op with Some o => JLeaf (GOper o) | None => JNil end.

(* one entry of the flat form: a Stack becomes [label; entries...], a
   Condition [CONDITION; keyword; operator; expression] with a Stack-valued
   expression expanded; every other value is passed through unchanged *)
Fixpoint spec_entry (e : jval) : jval :=
  match e with
  | JStack _ c els => JList (jstr (kind_name_tot (c_typ c)) :: map spec_entry els)
  | JCond _ _ kw op ex =>
      JList [jstr (B "CONDITION"); jstr kw; spec_op_val op;
             match ex with JStack _ _ _ => spec_entry ex | _ => ex end]
  | _ => e
  end.

Definition spec_flat (t : jval) : list jval :=
  match spec_entry t with JList l => l | _ => [] end.

(* "labels compared case-insensitively": equality after putting the first
   entry of every (nested) list, when it is a string, into upper case *)
Fixpoint canon (j : jval) : jval :=
  match j with
  | JList l =>
      match l with
      | JLeaf (GStr s) :: rest => JList (jstr (upper s) :: map canon rest)
      | _ => JList (map canon l)
      end
  | _ => j
  end.
Definition canon_list (l : list jval) : list jval :=
  match canon (JList l) with JList l' => l' | _ => [] end.

(* comparison of trees: same kinds, same order, same leaves, same Condition
   keyword / operator / expression at every position; capacity, options and
   alias kinds are ignored *)
Definition same_tree (a b : jval) : Prop := skel a = skel b.

(* ---- C04: the domain ---- *)
Definition no_umf (c : config) : bool := match c_umf c with None => true | Some _ => false end.

(* an Operator a Condition can hold: setOperator refuses one whose text or
   context is empty *)
Definition op_ok (op : option oper) : bool :=
  match op with
  | Some (OpUser t c) => negb (Nat.eqb (length t) 0) && negb (Nat.eqb (length c) 0)
  | _ => true
  end.

(* [node_ok j]: j may occur as an element: a Stack of kind AND/OR/NOT/LIST/
   BASIC whose elements are again such nodes; a Condition whose expression is
   a Stack node, nil, or any value other than the empty string and a []any
   (a Condition cannot hold the empty string); any other non-list value *)
Fixpoint node_ok (j : jval) : bool :=
  match j with
  | JStack _ c els => kind_ok (c_typ c) && no_umf c && forallb node_ok els
  | JCond _ c _ op ex =>
      (c_typ c =? k_cond)%N && no_umf c && op_ok op &&
      match ex with
      | JStack _ _ _ => node_ok ex
      | JList _ => false
      | JLeaf (GStr []) => false
      | _ => true
      end
  | JList _ => false
  | _ => true
  end.

Definition tree_ok (t : jval) : Prop := j_is_stack t = true /\ node_ok t = true.

(* no capacity and no case folding anywhere IsEqual looks *)
Definition cfg_plain (c : config) : bool := (c_cap c =? 0) && negb (N.testbit (c_opt c) 1).
Fixpoint plain (j : jval) : bool :=
  match j with
  | JStack _ c els => cfg_plain c && forallb plain els
  | JCond _ _ _ _ ex => plain ex
  | JList l => forallb plain l
  | _ => true
  end.

(* ---- C16 ---- *)
(* a list holding exactly one list stands for that list *)
Fixpoint strip (j : jval) : list jval :=
  match j with
  | JList l =>
      match l with
      | [x] => match x with JList _ => strip x | _ => l end
      | _ => l
      end
  | _ => []
  end.
Definition strip_in (l : list jval) : list jval := strip (JList l).

Inductive lclass :=
| LEmpty                 (* nothing left after removing envelopes *)
| LNotString             (* the first entry is not a string *)
| LCond                  (* CONDITION, any case *)
| LKind (typ : N)        (* a Stack label, any case *)
| LUnknown               (* an ASCII string that is no label *)
| LOpen.                 (* a string with non-ASCII bytes that is no label: not constrained *)

Definition classify (l : list jval) : lclass :=
  match l with
  | [] => LEmpty
  | JLeaf (GStr lab) :: _ =>
      if label_is_condition lab then LCond else
      match label_kind lab with
      | Some k => LKind k
      | None => if is_ascii lab then LUnknown else LOpen
      end
  | _ :: _ => LNotString
  end.

(* values Marshal must leave alone when they are entries of a decoded Stack *)
Definition passes (j : jval) : bool :=
  match j with JList _ => false | _ => true end.
