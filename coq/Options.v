(* Options.v -- model of the option / settings setters of cfg.go, stack.go and
   cond.go as written: the tri-state setState over the TRANSLATED bit helpers
   and constants of Generated.v (g_flag_positive / shift / unshift / toggle,
   c_parens ... c_nnest, c_list), the read-only gate of every public wrapper,
   the FIFO latch, setID / setCat / setListDelimiter / setSymbol / setEncap
   with its duplicate checks / setAuxiliary, the log-level calls (LogLevels.v)
   and the getters.  Outcome [Panic] where Go would panic, [Unmodelled] for
   calls outside the model (methods a Condition does not have; SetID with
   `_random` / `_addr`).  Executable definitions only. *)
From Stackage Require Import Base Generated StackImpl OptionsTypes LogLevels.
Open Scope Z_scope.

(* the part of nodeConfig these setters read or write *)
Record ocfg := {
  o_typ : N;                  (* typ *)
  o_opt : N;                  (* opt: the uint16 option word *)
  o_sym : bytes;              (* sym *)
  o_ljc : bytes;              (* ljc *)
  o_enc : list (list bytes);  (* enc *)
  o_ord : bool;               (* ord: FIFO *)
  o_id : bytes; o_cat : bytes;
  o_lvl : N;                  (* log.lvl *)
  o_aux : option N            (* aux: None = nil map, Some identity *)
}.

Definition oset_opt (c : ocfg) (x : N) : ocfg :=
  {| o_typ := o_typ c; o_opt := x; o_sym := o_sym c; o_ljc := o_ljc c; o_enc := o_enc c; o_ord := o_ord c;
     o_id := o_id c; o_cat := o_cat c; o_lvl := o_lvl c; o_aux := o_aux c |}.
Definition oset_sym (c : ocfg) (x : bytes) : ocfg :=
  {| o_typ := o_typ c; o_opt := o_opt c; o_sym := x; o_ljc := o_ljc c; o_enc := o_enc c; o_ord := o_ord c;
     o_id := o_id c; o_cat := o_cat c; o_lvl := o_lvl c; o_aux := o_aux c |}.
Definition oset_ljc (c : ocfg) (x : bytes) : ocfg :=
  {| o_typ := o_typ c; o_opt := o_opt c; o_sym := o_sym c; o_ljc := x; o_enc := o_enc c; o_ord := o_ord c;
     o_id := o_id c; o_cat := o_cat c; o_lvl := o_lvl c; o_aux := o_aux c |}.
Definition oset_enc (c : ocfg) (x : list (list bytes)) : ocfg :=
  {| o_typ := o_typ c; o_opt := o_opt c; o_sym := o_sym c; o_ljc := o_ljc c; o_enc := x; o_ord := o_ord c;
     o_id := o_id c; o_cat := o_cat c; o_lvl := o_lvl c; o_aux := o_aux c |}.
Definition oset_ord (c : ocfg) (x : bool) : ocfg :=
  {| o_typ := o_typ c; o_opt := o_opt c; o_sym := o_sym c; o_ljc := o_ljc c; o_enc := o_enc c; o_ord := x;
     o_id := o_id c; o_cat := o_cat c; o_lvl := o_lvl c; o_aux := o_aux c |}.
Definition oset_id (c : ocfg) (x : bytes) : ocfg :=
  {| o_typ := o_typ c; o_opt := o_opt c; o_sym := o_sym c; o_ljc := o_ljc c; o_enc := o_enc c; o_ord := o_ord c;
     o_id := x; o_cat := o_cat c; o_lvl := o_lvl c; o_aux := o_aux c |}.
Definition oset_cat (c : ocfg) (x : bytes) : ocfg :=
  {| o_typ := o_typ c; o_opt := o_opt c; o_sym := o_sym c; o_ljc := o_ljc c; o_enc := o_enc c; o_ord := o_ord c;
     o_id := o_id c; o_cat := x; o_lvl := o_lvl c; o_aux := o_aux c |}.
Definition oset_lvl (c : ocfg) (x : N) : ocfg :=
  {| o_typ := o_typ c; o_opt := o_opt c; o_sym := o_sym c; o_ljc := o_ljc c; o_enc := o_enc c; o_ord := o_ord c;
     o_id := o_id c; o_cat := o_cat c; o_lvl := x; o_aux := o_aux c |}.
Definition oset_aux (c : ocfg) (x : option N) : ocfg :=
  {| o_typ := o_typ c; o_opt := o_opt c; o_sym := o_sym c; o_ljc := o_ljc c; o_enc := o_enc c; o_ord := o_ord c;
     o_id := o_id c; o_cat := o_cat c; o_lvl := o_lvl c; o_aux := x |}.

(* newStack / initCondition *)
Definition onew (typ : N) : ocfg :=
  {| o_typ := typ; o_opt := 0; o_sym := []; o_ljc := []; o_enc := []; o_ord := false;
     o_id := []; o_cat := []; o_lvl := c_NoLogLevels; o_aux := None |}.

(* ---- cfg.go: bit helpers on the configuration record ---- *)

(* nodeConfig.valid *)
Definition cfg_valid (c : ocfg) : bool := negb (o_typ c =? 0)%N.

(* nodeConfig.positive *)
Definition cfg_positive (c : ocfg) (x : N) : bool :=
  if cfg_valid c then g_flag_positive (o_opt c) x else false.

(* nodeConfig.setOpt / unsetOpt / toggleOpt *)
Definition cfg_setOpt (c : ocfg) (x : N) : ocfg :=
  if cfg_valid c then oset_opt c (g_flag_shift (o_opt c) x) else c.
Definition cfg_unsetOpt (c : ocfg) (x : N) : ocfg :=
  if cfg_valid c then oset_opt c (g_flag_unshift (o_opt c) x) else c.
Definition cfg_toggleOpt (c : ocfg) (x : N) : ocfg :=
  if cfg_valid c then oset_opt c (g_flag_toggle (o_opt c) x) else c.

(* which constant each public wrapper passes to setState
   (stack.go SetParen ... SetReadOnly; cond.go SetParen, SetNoPadding,
   SetNoNesting, SetReadOnly) *)
Definition flag_of (o : optname) : N :=
  match o with
  | OParen => c_parens | OFold => c_cfold | ONoPad => c_nspad | OLeadOnce => c_lonce
  | ONegIdx => c_negidx | OFwdIdx => c_fwdidx | ONoNest => c_nnest | OReadOnly => c_ronly
  end.

(* Stack.setState / Condition.setState on an initialised receiver *)
Definition set_state (c : ocfg) (cf : N) (t : option bool) : ocfg :=
  if negb (cfg_positive c c_ronly) || (cf =? c_ronly)%N then
    match t with
    | Some true => cfg_setOpt c cf
    | Some false => cfg_unsetOpt c cf
    | None => cfg_toggleOpt c cf
    end
  else c.

(* ---- stack.go setFIFO ---- *)
Definition set_fifo (c : ocfg) (fifo : bool) : ocfg :=
  if negb (o_ord c) then oset_ord c fifo else c.

(* ---- assertListDelimiter + nodeConfig.setListDelimiter ---- *)
Definition assert_list_delimiter (x : targ) : bytes :=
  match x with
  | TStr s => s
  | TRune r => if negb (r =? 0) then utf8_of_rune r else []
  | TNil => []
  | TOther => []
  end.
Definition set_list_delimiter (c : ocfg) (x : targ) : ocfg :=
  let v := assert_list_delimiter x in
  if (o_typ c =? c_list)%N then oset_ljc c v else c.

(* ---- stack.setSymbol ---- *)
Fixpoint symbol_text (xs : list targ) (acc : bytes) : bytes :=
  match xs with
  | [] => acc
  | TStr s :: t => symbol_text t (acc ++ s)
  | TRune r :: t => symbol_text t (acc ++ utf8_of_rune r)
  | _ :: t => symbol_text t acc
  end.
Definition set_symbol (c : ocfg) (xs : list targ) : ocfg :=
  let str := symbol_text xs [] in
  if negb (o_typ c =? c_list)%N then oset_sym c str else c.

(* ---- cfg.go setEncap and the duplicate checks ---- *)
Definition str_in_slice (s : bytes) (l : list bytes) : bool := existsb (bytes_eqb s) l.

(* setStringSliceEncapOne: x[0] is evaluated only inside the loop over r.enc *)
Definition encap_one (enc : list (list bytes)) (x : list bytes) : res (list (list bytes)) :=
  match enc with
  | [] => Ok (enc ++ [x])
  | _ => match x with
         | x0 :: _ => Ok (if existsb (str_in_slice x0) enc then enc else enc ++ [x])
         | [] => Panic
         end
  end.

(* setStringSliceEncapTwo: for i < 2 && !found, for u < len(enc) && !found *)
Definition encap_two (enc : list (list bytes)) (x : list bytes) : res (list (list bytes)) :=
  match enc with
  | [] => Ok (enc ++ [x])
  | _ => match x with
         | x0 :: x1 :: _ =>
             Ok (if existsb (str_in_slice x0) enc || existsb (str_in_slice x1) enc then enc else enc ++ [x])
         | [x0] => if existsb (str_in_slice x0) enc then Ok enc else Panic   (* x[1] out of range *)
         | [] => Panic
         end
  end.

(* setStringSliceEncap: switch len(x) { case 0: return; case 1: One; default: Two } *)
Definition encap_slice (enc : list (list bytes)) (x : list bytes) : res (list (list bytes)) :=
  match x with
  | [] => Ok enc
  | [_] => encap_one enc x
  | _ => encap_two enc x
  end.

Fixpoint encap_args (enc : list (list bytes)) (xs : list earg) : res (list (list bytes)) :=
  match xs with
  | [] => Ok enc
  | EStr s :: t => do e <- encap_slice enc [s]; encap_args e t
  | ESlice l :: t => do e <- encap_slice enc l; encap_args e t
  | EOther :: t => encap_args enc t
  end.

(* nodeConfig.setEncap *)
Definition set_encap_m (c : ocfg) (xs : list earg) : res ocfg :=
  match xs with
  | [] => Ok (oset_enc c [])
  | _ => do e <- encap_args (o_enc c) xs; Ok (oset_enc c e)
  end.

(* ---- setAuxiliary ---- *)
Definition set_auxiliary (c : ocfg) (a : aarg) : ocfg :=
  match a with
  | ANone => oset_aux c (Some 0%N)      (* make(Auxiliary, 0) *)
  | ANil => oset_aux c (Some 0%N)
  | AMap k => oset_aux c (Some k)
  end.

(* ---- the public wrappers on an initialised receiver ---- *)
Definition ostep (rk : rkind) (c : ocfg) (call : ocall) : res ocfg :=
  if negb (supported rk call) then Unmodelled else
  let ro := cfg_positive c c_ronly in
  match call with
  | CSetOpt o t => Ok (set_state c (flag_of o) t)
  | CSetFIFO b => if ro then Ok c else Ok (set_fifo c b)
  | CSetID s => if ro then Ok c else Ok (oset_id c s)
  | CSetCat s => if ro then Ok c else Ok (oset_cat c s)
  | CSetDelim x => if ro then Ok c else Ok (set_list_delimiter c x)
  | CSetSymbol xs => if ro then Ok c else Ok (set_symbol c xs)
  | CSetEncap xs => if ro then Ok c else set_encap_m c xs
  | CSetAux a => if ro then Ok c else Ok (set_auxiliary c a)
  | CSetLog xs => if ro then Ok c else Ok (oset_lvl c (ll_shift (o_lvl c) xs))
  | CUnsetLog xs => if ro then Ok c else Ok (oset_lvl c (ll_unshift (o_lvl c) xs))
  end.

Fixpoint orun (rk : rkind) (c : ocfg) (h : list ocall) : res ocfg :=
  match h with
  | [] => Ok c
  | x :: h' => do c' <- ostep rk c x; orun rk c' h'
  end.

(* ---- getters ---- *)

(* ok of Stack.Index(i) on a stack whose [n] elements are all non-nil *)
Definition index_ok (c : ocfg) (n : Z) (i : Z) : bool :=
  match g_index n (cfg_positive c c_negidx) (cfg_positive c c_fwdidx) i with
  | TCut 0 [i'; _] _ => (1 <=? i') && (i' <=? n)
  | _ => false
  end.

Definition observe (rk : rkind) (c : ocfg) (content : list Z) : oobs :=
  let stack := match rk with RStack => true | RCond => false end in
  {| ob_opt := o_opt c; ob_lvl := o_lvl c; ob_sym := o_sym c; ob_ljc := o_ljc c; ob_enc := o_enc c;
     ob_id := o_id c; ob_cat := o_cat c; ob_ord := o_ord c; ob_aux := o_aux c;
     ob_isparen := cfg_positive c c_parens;
     ob_ispadded := negb (cfg_positive c c_nspad);
     ob_isro := cfg_positive c c_ronly;
     ob_cannest := negb (cfg_positive c c_nnest);
     ob_isencap := (0 <? zlen (o_enc c));
     ob_isfifo := stack && o_ord c;          (* Condition.IsFIFO looks at a Stack expression only *)
     ob_gid := o_id c; ob_gcat := o_cat c;
     ob_gdelim := if stack then o_ljc c else [];
     ob_glog := ll_string (o_lvl c);
     ob_gaux := o_aux c;
     ob_idxneg := stack && index_ok c (zlen content) (-1);
     ob_idxfwd := stack && index_ok c (zlen content) (zlen content + 1);
     ob_content := content |}.
