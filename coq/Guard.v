(* Guard.v -- the guard IR: a control-flow skeleton of every function of the
   package, regenerated from /repo by the translator (GeneratedIR.v), with a
   trace semantics and a conservative analysis proved sound once and for all:

     safe bad fuel env s = true  ->  no trace of s under env contains an
                                     event e with bad e = true.

   Instantiated with "any store through the receiver" it decides C09 (under
   init & read-only), C11 (queries) and, with "dereference of the embedded
   pointer", C17 (under not-initialised).  Model + proofs of the analysis;
   the per-property applications are in GuardProps.v. *)
From Stackage Require Import Base.

Inductive loc :=
| LHdr       (* the slice header: *r = ... *)
| LSlot      (* an element slot: ( *r)[i] = ..., r[i] = ... *)
| LCfg       (* a field of the configuration record (options, policies, id, logger, ...) *)
| LCfgErr    (* its err field *)
| LCfgLdr    (* its lock bookkeeping field *)
| LCond      (* kw / op / ex of a condition *)
| LHandle    (* the handle itself: r.stack = nil, *r = Condition{...} *)
| LAux       (* an entry of an Auxiliary map *)
| LGlobal    (* a package-level variable *)
| LOther.

Inductive ev :=
| EWrite (l : loc)
| EDeref             (* an access that panics when the embedded pointer / receiver pointer is nil *)
| ELock | EUnlock    (* calls of stack.lock / stack.unlock *)
| EMLock | EMUnlock  (* sync.Mutex.Lock / Unlock *)
| EExt               (* a call leaving the package or a user closure *)
| ERes.              (* entry-point bodies only: a result may become non-zero here *)

Inductive gcond :=
| CInit           (* r.IsInit() *)
| CZero           (* r.IsZero(), r.stack == nil, r.condition == nil *)
| CRecvNil        (* r == nil for a pointer / map receiver *)
| CRO             (* r.getState(ronly), r.IsReadOnly() *)
| CNonEmpty       (* !r.IsEmpty() *)
| COther          (* anything else: may go either way *)
| CTrue | CFalse  (* decided by the translator (a constant argument) *)
| CNot (c : gcond)
| CAnd (a b : gcond)
| COr (a b : gcond).

Inductive gstmt :=
| GSkip
| GSeq (a b : gstmt)
| GIf (c : gcond) (t e : gstmt)
| GLoop (b : gstmt)
| GReturn | GBreak | GContinue
| GFinally (b fin : gstmt)      (* defer: fin runs when b is left, however it is left *)
| GEv (e : ev)                  (* a store, a dereference, a lock operation, an external call *)
| GCall (f : N)                 (* call of a package function on the SAME object (receiver or its embedded pointer) *)
| GCallOther (f : N).           (* call of a package function on another object / a package-level function *)

(* what is known about the object a body runs on *)
Record genv := { e_init : option bool; e_ro : option bool }.
Definition env_top : genv := {| e_init := None; e_ro := None |}.

Definition and3 (a b : option bool) : option bool :=
  match a, b with
  | Some false, _ | _, Some false => Some false
  | Some true, Some true => Some true
  | _, _ => None
  end.
Definition or3 (a b : option bool) : option bool :=
  match a, b with
  | Some true, _ | _, Some true => Some true
  | Some false, Some false => Some false
  | _, _ => None
  end.

Fixpoint eval (env : genv) (c : gcond) : option bool :=
  match c with
  | CInit => e_init env
  | CZero | CRecvNil => option_map negb (e_init env)
  | CRO => match e_init env with Some false => Some false | _ => e_ro env end
  | CNonEmpty => match e_init env with Some false => Some false | _ => None end
  | COther => None
  | CTrue => Some true
  | CFalse => Some false
  | CNot c => option_map negb (eval env c)
  | CAnd a b => and3 (eval env a) (eval env b)
  | COr a b => or3 (eval env a) (eval env b)
  end.

(* how a statement is left *)
Inductive outc := ONorm | ORet | OBrk | OCont.

(* Events are tagged with whether they happen on ANOTHER object than the one
   the entry point was called on (inside a GCallOther).  The object the entry
   point runs on is in state env0; other objects are in an unknown state. *)
Definition env_of (env0 : genv) (top : bool) : genv := if top then env_top else env0.

(* a statement that can never be left normally (used to prune dead code
   after "if !r.IsInit() { return }") *)
Fixpoint must_exit (env : genv) (s : gstmt) : bool :=
  match s with
  | GReturn | GBreak | GContinue => true
  | GSeq a b => must_exit env a || must_exit env b
  | GIf c t e =>
      match eval env c with
      | Some true => must_exit env t
      | Some false => must_exit env e
      | None => must_exit env t && must_exit env e
      end
  | GFinally b _ => must_exit env b
  | _ => false
  end.

Section Sem.
  Variable tbl : N -> option gstmt.
  Variable env0 : genv.

  Inductive exec : bool -> gstmt -> list (bool * ev) -> outc -> Prop :=
  | XSkip top : exec top GSkip [] ONorm
  | XSeqStop top a b tr o : exec top a tr o -> o <> ONorm -> exec top (GSeq a b) tr o
  | XSeq top a b tr1 tr2 o : exec top a tr1 ONorm -> exec top b tr2 o -> exec top (GSeq a b) (tr1 ++ tr2) o
  | XIfT top c t e tr o : eval (env_of env0 top) c <> Some false -> exec top t tr o -> exec top (GIf c t e) tr o
  | XIfF top c t e tr o : eval (env_of env0 top) c <> Some true -> exec top e tr o -> exec top (GIf c t e) tr o
  | XLoop0 top b : exec top (GLoop b) [] ONorm
  | XLoopNext top b tr1 tr2 o o1 :
      exec top b tr1 o1 -> (o1 = ONorm \/ o1 = OCont) -> exec top (GLoop b) tr2 o ->
      exec top (GLoop b) (tr1 ++ tr2) o
  | XLoopBrk top b tr : exec top b tr OBrk -> exec top (GLoop b) tr ONorm
  | XLoopRet top b tr : exec top b tr ORet -> exec top (GLoop b) tr ORet
  | XReturn top : exec top GReturn [] ORet
  | XBreak top : exec top GBreak [] OBrk
  | XContinue top : exec top GContinue [] OCont
  | XFinally top b fin tr1 tr2 o o2 :
      exec top b tr1 o -> exec top fin tr2 o2 -> exec top (GFinally b fin) (tr1 ++ tr2) o
  | XEv top e : exec top (GEv e) [(top, e)] ONorm
  | XCall top f body tr o : tbl f = Some body -> exec top body tr o -> exec top (GCall f) tr ONorm
  | XCallOther top f body tr o : tbl f = Some body -> exec true body tr o -> exec top (GCallOther f) tr ONorm.

  Lemma must_exit_sound top s tr o :
    exec top s tr o -> o = ONorm -> must_exit (env_of env0 top) s = false.
  Proof.
    intros H. induction H; intros E; cbn [must_exit]; try reflexivity; try discriminate; subst.
    - congruence.
    - rewrite IHexec1, IHexec2 by reflexivity. reflexivity.
    - destruct (eval (env_of env0 top) c) as [[|]|]; [auto|congruence|]. rewrite IHexec by reflexivity. reflexivity.
    - destruct (eval (env_of env0 top) c) as [[|]|]; [congruence|auto|]. rewrite IHexec by reflexivity. apply andb_false_r.
    - auto.
  Qed.
End Sem.

(* the three instances *)
Definition is_write (e : ev) : bool := match e with EWrite _ => true | _ => false end.
Definition is_deref (e : ev) : bool := match e with EDeref => true | _ => false end.
(* stores into an instance (not into package-level variables) *)
Definition is_inst_write (e : ev) : bool :=
  match e with EWrite LGlobal => false | EWrite _ => true | _ => false end.
(* C17: on the zero receiver itself neither a store nor a nil dereference *)
Definition bad_zero (other : bool) (e : ev) : bool := negb other && (is_inst_write e || is_deref e).
Definition bad_zero_deref (other : bool) (e : ev) : bool := negb other && is_deref e.
(* C09: no store into the read-only receiver itself *)
Definition bad_ro (other : bool) (e : ev) : bool := negb other && is_inst_write e.
(* C11: no store anywhere (receiver or nested objects), no lock operation *)
Definition bad_query (other : bool) (e : ev) : bool :=
  is_inst_write e || match e with ELock | EUnlock | EMLock | EMUnlock => true | _ => false end.

Definition env_ro : genv := {| e_init := Some true; e_ro := Some true |}.
Definition env_init : genv := {| e_init := Some true; e_ro := None |}.
Definition env_zero : genv := {| e_init := Some false; e_ro := Some false |}.

(* table lookup over an association list *)
Fixpoint lookup {A} (l : list (N * A)) (k : N) : option A :=
  match l with
  | [] => None
  | (k', v) :: t => if (k =? k')%N then Some v else lookup t k
  end.

(* exported entry points: name, receiver class, function id *)
Record entry := MkEntry { en_name : bytes; en_recv : N; en_fid : N }.
(* receiver classes *)
Definition rc_Stack : N := 0.  Definition rc_StackPtr : N := 1.
Definition rc_Cond : N := 2.   Definition rc_CondPtr : N := 3.
Definition rc_Aux : N := 4.    Definition rc_Func : N := 5.
Definition rc_Oper : N := 6.


(* ---- whole-table analysis by summaries ----
   [safe] inlines callees and is exponential on the real call graph; the
   check used on the regenerated table works with summaries instead: U is a
   set of (function, on-another-object?) pairs claimed UNSAFE; everything else
   is claimed safe.  A claim set is accepted when it is a post-fixpoint: the
   body of every function claimed safe passes [body_ok], which trusts the
   claims for callees.  Soundness is by induction on the (finite) execution
   derivation, so recursion in the call graph needs no fuel. *)
Section Summaries.
  Variable tbl : list (N * gstmt).
  Variable bad : bool -> ev -> bool.    (* is this event, on the receiver (false) / another object (true), forbidden? *)
  Variable env0 : genv.                 (* state of the object the entry point runs on *)
  Variable U : list (N * bool).         (* claimed unsafe *)

  Definition claimed_safe (f : N) (top : bool) : bool :=
    negb (existsb (fun p => (fst p =? f)%N && Bool.eqb (snd p) top) U) &&
    match lookup tbl f with Some _ => true | None => false end.

  Local Notation env_of := (env_of env0).

  Fixpoint body_ok (top : bool) (s : gstmt) : bool :=
    match s with
    | GSkip | GReturn | GBreak | GContinue => true
    | GSeq a b => body_ok top a && (must_exit (env_of top) a || body_ok top b)
    | GIf c t e =>
        match eval (env_of top) c with
        | Some true => body_ok top t
        | Some false => body_ok top e
        | None => body_ok top t && body_ok top e
        end
    | GLoop b => body_ok top b
    | GFinally b fin => body_ok top b && body_ok top fin
    | GEv e => negb (bad top e)
    | GCall f => claimed_safe f top
    | GCallOther f => claimed_safe f true
    end.

  (* every function claimed safe has a body that passes *)
  Definition post_fixpoint : bool :=
    forallb (fun p => let '(f, body) := p in
                      (negb (claimed_safe f false) || body_ok false body) &&
                      (negb (claimed_safe f true) || body_ok true body)) tbl.

  Hypothesis PF : post_fixpoint = true.

  Lemma lookup_in {A} (l : list (N * A)) k v : lookup l k = Some v -> In (k, v) l.
  Proof.
    induction l as [|[k' v'] t IH]; cbn [lookup]; [discriminate|].
    destruct (N.eqb_spec k k'); intros H; [inversion H; subst; left; reflexivity|right; auto].
  Qed.

  Lemma claimed_body f top body :
    claimed_safe f top = true -> lookup tbl f = Some body -> body_ok top body = true.
  Proof.
    intros C L. unfold post_fixpoint in PF. rewrite forallb_forall in PF.
    specialize (PF (f, body) (lookup_in _ _ _ L)). cbn in PF.
    apply andb_true_iff in PF as [P1 P2]. destruct top; [rewrite C in P2|rewrite C in P1]; assumption.
  Qed.

  Theorem body_ok_sound : forall top s tr o,
    exec (lookup tbl) env0 top s tr o -> body_ok top s = true ->
    forall e, In e tr -> bad (fst e) (snd e) = false.
  Proof.
    intros top s tr o H. induction H; intros Hs x Hin; cbn [body_ok] in Hs.
    - contradiction.
    - apply andb_true_iff in Hs as [Ha _]. eapply IHexec; eauto.
    - apply andb_true_iff in Hs as [Ha Hb].
      rewrite (must_exit_sound _ _ _ _ _ _ H eq_refl) in Hb. cbn [orb] in Hb.
      apply in_app_or in Hin as [Hin|Hin]; [eapply IHexec1|eapply IHexec2]; eauto.
    - destruct (eval (env_of top) c) as [[|]|]; [eapply IHexec; eauto|congruence|].
      apply andb_true_iff in Hs as [Ht _]. eapply IHexec; eauto.
    - destruct (eval (env_of top) c) as [[|]|]; [congruence|eapply IHexec; eauto|].
      apply andb_true_iff in Hs as [_ He]. eapply IHexec; eauto.
    - contradiction.
    - apply in_app_or in Hin as [Hin|Hin]; [eapply IHexec1; eauto|eapply IHexec2; eauto].
    - eapply IHexec; eauto.
    - eapply IHexec; eauto.
    - contradiction.
    - contradiction.
    - contradiction.
    - apply andb_true_iff in Hs as [Hb Hf]. apply in_app_or in Hin as [Hin|Hin]; [eapply IHexec1|eapply IHexec2]; eauto.
    - destruct Hin as [<-|[]]. cbn [fst snd]. now apply negb_true_iff in Hs.
    - eapply IHexec; eauto. eapply claimed_body; eauto.
    - eapply IHexec; eauto. eapply claimed_body; eauto.
  Qed.

  (* an entry point is accepted when it is claimed safe on the object itself *)
  Definition entry_accepted (e : entry) : bool := claimed_safe (en_fid e) false.

  (* the statement: no run of this entry point, on an object in state env0,
     produces a bad event *)
  Definition entry_ok (e : entry) : Prop :=
    exists body, lookup tbl (en_fid e) = Some body /\
                 forall tr o, exec (lookup tbl) env0 false body tr o ->
                              forall x, In x tr -> bad (fst x) (snd x) = false.

  Theorem entry_accepted_sound e : entry_accepted e = true -> entry_ok e.
  Proof.
    unfold entry_accepted, entry_ok. intros C.
    assert (exists body, lookup tbl (en_fid e) = Some body) as [body L].
    { unfold claimed_safe in C. apply andb_true_iff in C as [_ C]. destruct (lookup tbl (en_fid e)); [eauto|discriminate]. }
    exists body. split; [exact L|]. intros tr o X.
    eapply (body_ok_sound _ _ _ _ X). eapply claimed_body; eauto.
  Qed.
End Summaries.

(* computing a claim set: start from "nothing is unsafe" and add every pair
   whose body fails under the current claims, until nothing changes (the
   result is only a candidate; [post_fixpoint] is what is checked) *)
Definition refine_step (tbl : list (N * gstmt)) (bad : bool -> ev -> bool) (env0 : genv) (U : list (N * bool)) : list (N * bool) :=
  flat_map (fun p => let '(f, body) := p in
                     (if claimed_safe tbl U f false && negb (body_ok tbl bad env0 U false body) then [(f, false)] else []) ++
                     (if claimed_safe tbl U f true && negb (body_ok tbl bad env0 U true body) then [(f, true)] else [])) tbl.

Fixpoint refine (fuel : nat) (tbl : list (N * gstmt)) (bad : bool -> ev -> bool) (env0 : genv) (U : list (N * bool)) : list (N * bool) :=
  match fuel with
  | O => U
  | S k => match refine_step tbl bad env0 U with
           | [] => U
           | more => refine k tbl bad env0 (more ++ U)
           end
  end.
