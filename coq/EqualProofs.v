(* EqualProofs.v -- lemmas and theorems of C05.
   A  sizes, lists, the domain predicates
   B  the executable decision [equivb] decides the relation [equiv]
   C  the model computes [equivb] (hence decides [equiv], never panics)
   D  the relation is reflexive on the property's domain, symmetric, and
      refuted by every point mutation
   E  the deviations of the code as it is (witnesses) *)
From Stackage Require Import Base Generated StackImpl Values EqualBase EqualSpec EqualSpecCorr Equal.
Open Scope Z_scope.

(* ================================================================== *)
(* A. sizes, lists, domains *)

Lemma gsize_pos g : (1 <= gsize g)%nat.
Proof. destruct g; cbn [gsize]; lia. Qed.

Lemma vsz_pos v : (1 <= vsz v)%nat.
Proof. destruct v; cbn [vsz]; try lia. apply gsize_pos. Qed.

Lemma sum_in {A} (f : A -> nat) (l : list A) x :
  In x l -> (f x <= fold_right (fun y n => f y + n) O l)%nat.
Proof.
  induction l as [|a l IH]; cbn [In fold_right]; intros H; [contradiction|].
  destruct H as [->|H]; [lia|]. specialize (IH H). lia.
Qed.

Lemma gsize_slice_in t c l e : In e l -> (gsize e < gsize (GSlice t c l))%nat.
Proof. intros H. cbn [gsize]. pose proof (sum_in gsize l e H). lia. Qed.
Lemma gsize_array_in t l e : In e l -> (gsize e < gsize (GArray t l))%nat.
Proof. intros H. cbn [gsize]. pose proof (sum_in gsize l e H). lia. Qed.
Lemma gsize_map_in t kvs k v : In (k, v) kvs -> (gsize v < gsize (GMap t kvs))%nat.
Proof.
  intros H. cbn [gsize].
  induction kvs as [|a kvs IH]; cbn [In fold_right] in *; [contradiction|].
  destruct H as [->|H]; [cbn [fst snd]; lia|]. specialize (IH H). lia.
Qed.
Lemma gsize_struct_in t fs f : In f fs -> (gsize (fval f) < gsize (GStruct t fs))%nat.
Proof.
  intros H. cbn [gsize]. unfold fval.
  induction fs as [|a fs IH]; cbn [In fold_right] in *; [contradiction|].
  destruct H as [->|H]; [lia|]. specialize (IH H). lia.
Qed.

Lemma seq_parts_in s c l e : seq_parts s = Some (c, l) -> In e l -> (gsize e < gsize s)%nat.
Proof.
  destruct s; cbn [seq_parts]; intros E H; inversion E; subst.
  - eapply gsize_slice_in; eauto.
  - eapply gsize_array_in; eauto.
Qed.

Lemma gunder_size g t : gunder g = Some t -> (gsize t <= gsize g)%nat.
Proof.
  induction g; cbn [gunder]; intros E; try (inversion E; subst; lia).
  specialize (IHg E). cbn [gsize]. lia.
Qed.

Lemma gunder_idem g t : gunder g = Some t -> gunder t = Some t.
Proof.
  induction g; cbn [gunder]; intros E; try (inversion E; subst; reflexivity); auto.
Qed.

Lemma gunder_not_ptr g t : gunder g = Some t -> match t with GPtr _ | GNilPtr _ _ => False | _ => True end.
Proof.
  induction g; cbn [gunder]; intros E; try (inversion E; subst; exact I); apply IHg; exact E.
Qed.

Lemma vsz_elem a c els x : In x els -> (vsz x < vsz (VStack a c els))%nat.
Proof. intros H. cbn [vsz]. pose proof (sum_in vsz els x H). lia. Qed.

(* Forall2 helpers *)
Lemma Forall2_mid {A B} (R : A -> B -> Prop) pre x s pre' y s' :
  Forall2 R (pre ++ x :: s) (pre' ++ y :: s') -> length pre = length pre' -> R x y.
Proof.
  revert pre'. induction pre as [|a pre IH]; intros [|b pre'] H L; cbn in *; try discriminate.
  - inversion H; subst; assumption.
  - inversion H; subst. eapply IH; eauto.
Qed.

Lemma Forall2_length' {A B} (R : A -> B -> Prop) l l' : Forall2 R l l' -> length l = length l'.
Proof. induction 1; cbn; congruence. Qed.

Lemma all2b_Forall2 {A B} (f : A -> B -> bool) (R : A -> B -> Prop) l l' :
  (forall x y, In x l -> (f x y = true <-> R x y)) ->
  (all2b f l l' = true <-> Forall2 R l l').
Proof.
  revert l'. induction l as [|a l IH]; intros [|b l'] H; cbn [all2b]; split; intros E;
    try discriminate; try constructor; try solve [inversion E].
  - apply andb_true_iff in E as [E1 E2]. apply H in E1; [assumption|left; reflexivity].
  - apply andb_true_iff in E as [E1 E2]. eapply IH; [|exact E2]. intros; apply H; right; assumption.
  - inversion E; subst. apply andb_true_iff; split.
    + apply H; [left; reflexivity|assumption].
    + eapply IH; [|eassumption]. intros; apply H; right; assumption.
Qed.

(* prim_eqb *)
Lemma N_eqb_refl' n : (n =? n)%N = true. Proof. apply N.eqb_refl. Qed.

Lemma prim_eqb_eq p q : prim_eqb p q = true -> p = q.
Proof.
  destruct p, q; cbn [prim_eqb]; intros H; try discriminate.
  - apply bytes_eqb_spec in H. congruence.
  - apply andb_true_iff in H as [H1 H2]. apply N.eqb_eq in H1. apply Z.eqb_eq in H2. congruence.
  - apply Bool.eqb_prop in H. congruence.
  - repeat (apply andb_true_iff in H as [H ?]).
    apply N.eqb_eq in H. apply bytes_eqb_spec in H2. apply Z.eqb_eq in H1. congruence.
Qed.

Lemma prim_eqb_prim_l p q : prim_eqb p q = true -> is_prim p = true.
Proof. destruct p, q; cbn; congruence. Qed.
Lemma prim_eqb_prim_r p q : prim_eqb p q = true -> is_prim q = true.
Proof. destruct p, q; cbn; congruence. Qed.

Lemma prim_eqb_sym p q : prim_eqb p q = prim_eqb q p.
Proof.
  destruct p, q; cbn [prim_eqb]; try reflexivity.
  - destruct (bytes_eqb s s0) eqn:E; destruct (bytes_eqb s0 s) eqn:F; try reflexivity.
    + apply bytes_eqb_spec in E. subst. assert (bytes_eqb s0 s0 = true) by (apply bytes_eqb_spec; reflexivity). congruence.
    + apply bytes_eqb_spec in F. subst. assert (bytes_eqb s s = true) by (apply bytes_eqb_spec; reflexivity). congruence.
  - rewrite (N.eqb_sym ty ty0), (Z.eqb_sym z z0). reflexivity.
  - destruct b, b0; reflexivity.
  - rewrite (N.eqb_sym ty ty0), (Z.eqb_sym id id0).
    destruct (bytes_eqb text text0) eqn:E; destruct (bytes_eqb text0 text) eqn:F.
    + destruct (id0 =? id) eqn:G; [apply Z.eqb_eq in G; subst; reflexivity|rewrite !andb_false_r; reflexivity].
    + apply bytes_eqb_spec in E. subst. assert (bytes_eqb text0 text0 = true) by (apply bytes_eqb_spec; reflexivity). congruence.
    + apply bytes_eqb_spec in F. subst. assert (bytes_eqb text text = true) by (apply bytes_eqb_spec; reflexivity). congruence.
    + rewrite !andb_false_r. reflexivity.
Qed.

Lemma bytes_eqb_refl s : bytes_eqb s s = true.
Proof. apply bytes_eqb_spec. reflexivity. Qed.

Lemma key_eqb_refl k : is_key k = true -> prim_eqb k k = true.
Proof.
  destruct k; cbn; try discriminate; intros _.
  - apply bytes_eqb_refl.
  - rewrite N.eqb_refl, Z.eqb_refl. reflexivity.
  - destruct b; reflexivity.
Qed.

Lemma prim_eqb_refl p : is_prim p = true -> is_nan p = false -> prim_eqb p p = true.
Proof.
  destruct p; cbn; try discriminate; intros _ N.
  - apply bytes_eqb_refl.
  - rewrite N.eqb_refl, Z.eqb_refl. reflexivity.
  - destruct b; reflexivity.
  - rewrite N.eqb_refl, bytes_eqb_refl, Z.eqb_refl. cbn. apply Z.leb_le. apply Z.ltb_ge in N. exact N.
Qed.

(* gall / vall *)
Lemma gall_here P g : gall P g = true -> P g = true.
Proof. destruct g; cbn [gall]; intros H; apply andb_true_iff in H as [H _]; exact H. Qed.

Lemma gall_ptr P g : gall P (GPtr g) = true -> gall P g = true.
Proof. cbn [gall]. intros H. apply andb_true_iff in H as [_ H]. exact H. Qed.

Lemma gall_under P g t : gall P g = true -> gunder g = Some t -> gall P t = true.
Proof.
  induction g; cbn [gunder]; intros H E; try (inversion E; subst; exact H).
  apply IHg; [apply gall_ptr; exact H|exact E].
Qed.

Lemma gall_seq P s c l e : gall P s = true -> seq_parts s = Some (c, l) -> In e l -> gall P e = true.
Proof.
  destruct s; cbn [seq_parts]; intros H E I; inversion E; subst;
    cbn [gall] in H; apply andb_true_iff in H as [_ H];
    rewrite forallb_forall in H; auto.
Qed.

Lemma gall_map P t kvs k v : gall P (GMap t kvs) = true -> In (k, v) kvs -> gall P v = true.
Proof.
  cbn [gall]. intros H I. apply andb_true_iff in H as [_ H].
  rewrite forallb_forall in H. apply (H (k, v) I).
Qed.

Lemma gall_struct P t fs f : gall P (GStruct t fs) = true -> In f fs -> gall P (fval f) = true.
Proof.
  cbn [gall]. intros H I. apply andb_true_iff in H as [_ H].
  rewrite forallb_forall in H. apply (H f I).
Qed.

Lemma vall_here PV PG v : vall PV PG v = true -> PV v = true.
Proof. destruct v; cbn [vall]; intros H; apply andb_true_iff in H as [H _]; exact H. Qed.
Lemma vall_leaf PV PG g : vall PV PG (VLeaf g) = true -> gall PG g = true.
Proof. cbn [vall]. intros H; apply andb_true_iff in H as [_ H]; exact H. Qed.
Lemma vall_elem PV PG a c els x : vall PV PG (VStack a c els) = true -> In x els -> vall PV PG x = true.
Proof.
  cbn [vall]. intros H I; apply andb_true_iff in H as [_ H]. rewrite forallb_forall in H. auto.
Qed.
Lemma vall_expr PV PG a c kw op ex : vall PV PG (VCond a c kw op ex) = true -> vall PV PG ex = true.
Proof. cbn [vall]. intros H; apply andb_true_iff in H as [_ H]; exact H. Qed.
Lemma vall_of_leaf PV PG g : PV (VLeaf g) = true -> gall PG g = true -> vall PV PG (VLeaf g) = true.
Proof. cbn [vall]. intros -> ->. reflexivity. Qed.

(* ================================================================== *)
(* B. [gequivb] / [equivb] decide [gequiv] / [equiv] *)

Lemma all2b_impl {A B} (f : A -> B -> bool) (R : A -> B -> Prop) l l' :
  (forall x y, In x l -> f x y = true -> R x y) -> all2b f l l' = true -> Forall2 R l l'.
Proof.
  revert l'. induction l as [|a l IH]; intros [|b l'] H E; cbn [all2b] in E; try discriminate; constructor.
  - apply andb_true_iff in E as [E1 _]. apply H; [left; reflexivity|exact E1].
  - apply andb_true_iff in E as [_ E2]. apply IH; [|exact E2]. intros; apply H; [right|]; assumption.
Qed.

Lemma Forall2_all2b {A B} (f : A -> B -> bool) (R : A -> B -> Prop) l l' :
  (forall x y, In x l -> R x y -> f x y = true) -> Forall2 R l l' -> all2b f l l' = true.
Proof.
  intros H F. induction F as [|a b l l' Rab F IH]; cbn [all2b]; [reflexivity|].
  apply andb_true_iff; split.
  - apply H; [left; reflexivity|exact Rab].
  - apply IH. intros; apply H; [right|]; assumption.
Qed.

Lemma seq_not_prim s c l : seq_parts s = Some (c, l) -> is_prim s = false.
Proof. destruct s; cbn; congruence. Qed.

Lemma gequivb_sound n : forall x y, gequivb n x y = true -> gequiv x y.
Proof.
  induction n as [|n IH]; intros x y H; [discriminate|].
  cbn [gequivb] in H. unfold gequivb_body in H.
  destruct (gunder x) as [p|] eqn:Ux; [|discriminate].
  destruct (gunder y) as [q|] eqn:Uy; [|discriminate].
  destruct (is_prim p) eqn:Pp; [eapply GE_prim; eauto|].
  destruct p; try discriminate Pp;
    try (cbn [seq_parts] in H; discriminate H).
  - (* slice *)
    cbn [seq_parts] in H. destruct (seq_parts q) as [[cy ly]|] eqn:Sq; [|discriminate].
    apply andb_true_iff in H as [H1 H2]. apply Z.eqb_eq in H1. subst cy.
    eapply GE_seq; eauto; [reflexivity|]. eapply all2b_impl; [|exact H2]. intros; apply IH; assumption.
  - (* array *)
    cbn [seq_parts] in H. destruct (seq_parts q) as [[cy ly]|] eqn:Sq; [|discriminate].
    apply andb_true_iff in H as [H1 H2]. apply Z.eqb_eq in H1. subst cy.
    eapply GE_seq; eauto; [reflexivity|]. eapply all2b_impl; [|exact H2]. intros; apply IH; assumption.
  - (* map *)
    destruct q; try (cbn [seq_parts] in H; discriminate H).
    apply andb_true_iff in H as [H H3]. apply andb_true_iff in H as [H1 H2].
    apply N.eqb_eq in H1. subst ty0. apply Nat.eqb_eq in H2.
    eapply GE_map; eauto. rewrite forallb_forall in H3. apply Forall_forall. intros kv I.
    specialize (H3 kv I). destruct (glookup (fst kv) kvs0) as [v'|]; [|discriminate].
    exists v'. split; [reflexivity|apply IH; exact H3].
  - (* struct *)
    destruct q; try (cbn [seq_parts] in H; discriminate H).
    eapply GE_struct; eauto. eapply all2b_impl; [|exact H]. intros f f' _ E. cbn beta in E.
    apply orb_true_iff in E as [E|E].
    + apply andb_true_iff in E as [E1 E2]. left. split; [destruct (fexp f)|destruct (fexp f')]; cbn in *; congruence.
    + repeat (apply andb_true_iff in E as [E ?]). right. apply bytes_eqb_spec in E. auto.
  - (* func *)
    destruct q; try (cbn [seq_parts] in H; discriminate H).
    apply andb_true_iff in H as [H H3]. apply andb_true_iff in H as [H1 H2].
    destruct x; try discriminate H1. destruct y; try discriminate H2.
    cbn [gunder] in Ux, Uy. inversion Ux; inversion Uy; subst. apply N.eqb_eq in H3. subst. constructor.
  - (* chan *)
    destruct q; try (cbn [seq_parts] in H; discriminate H).
    repeat (apply andb_true_iff in H as [H ?]).
    destruct x; try discriminate H. destruct y; try discriminate H2.
    cbn [gunder] in Ux, Uy. inversion Ux; inversion Uy; subst.
    apply N.eqb_eq in H1. apply N.eqb_eq in H0. subst. constructor.
Qed.

Lemma gequivb_complete n : forall x y, gequiv x y -> (gsize x <= n)%nat -> gequivb n x y = true.
Proof.
  induction n as [|n IH]; intros x y H L; [pose proof (gsize_pos x); lia|].
  cbn [gequivb]. unfold gequivb_body.
  inversion H; subst.
  - rewrite H0, H1, H2. exact H3.
  - rewrite H0, H1. rewrite (seq_not_prim _ _ _ H2).
    pose proof (gunder_size _ _ H0) as Sz.
    assert (A : all2b (gequivb n) lx ly = true).
    { eapply Forall2_all2b; [|exact H4]. intros e e' I R. apply IH; [exact R|].
      pose proof (seq_parts_in _ _ _ _ H2 I). lia. }
    destruct sx; cbn [seq_parts] in H2; try discriminate H2; inversion H2; subst;
      cbn [seq_parts]; rewrite H3, Z.eqb_refl, A; reflexivity.
  - rewrite H0, H1. cbn [is_prim]. rewrite N.eqb_refl, H2, Nat.eqb_refl. cbn [andb].
    pose proof (gunder_size _ _ H0) as Sz.
    apply forallb_forall. intros [k v] I. rewrite Forall_forall in H3.
    destruct (H3 _ I) as (v' & E & R). cbn [fst snd] in *. rewrite E. apply IH; [exact R|].
    pose proof (gsize_map_in t kx k v I). lia.
  - rewrite H0, H1. cbn [is_prim].
    pose proof (gunder_size _ _ H0) as Sz.
    eapply Forall2_all2b; [|exact H2]. intros f f' I [[E1 E2]|(E1 & E2 & E3 & R)]; cbn beta.
    + rewrite E1, E2. reflexivity.
    + rewrite E1, E2, E3, bytes_eqb_refl. rewrite IH; [rewrite orb_true_r; reflexivity|exact R|].
      pose proof (gsize_struct_in tx fx f I). lia.
  - cbn. rewrite N.eqb_refl. reflexivity.
  - cbn. rewrite !N.eqb_refl. reflexivity.
Qed.

Lemma gequivb_iff n x y : (gsize x <= n)%nat -> (gequivb n x y = true <-> gequiv x y).
Proof. intros L; split; [apply gequivb_sound|intros H; apply gequivb_complete; assumption]. Qed.

Lemma gequivb_fuel n m x y : (gsize x <= n)%nat -> (gsize x <= m)%nat -> gequivb n x y = gequivb m x y.
Proof.
  intros Ln Lm. destruct (gequivb n x y) eqn:E; destruct (gequivb m x y) eqn:F; try reflexivity.
  - apply gequivb_sound in E. apply (gequivb_complete m) in E; [congruence|exact Lm].
  - apply gequivb_sound in F. apply (gequivb_complete n) in F; [congruence|exact Ln].
Qed.

Lemma op_sameb_iff a b : op_sameb a b = true <-> op_same a b.
Proof.
  destruct a as [x|], b as [y|]; cbn [op_sameb op_same]; split; intros H; try discriminate; try contradiction; try exact I; try reflexivity.
  - apply andb_true_iff in H as [H1 H2]. apply bytes_eqb_spec in H1. apply bytes_eqb_spec in H2. auto.
  - destruct H as [H1 H2]. rewrite H1, H2, !bytes_eqb_refl. reflexivity.
Qed.

Lemma same_kindb_iff c c' : same_kindb c c' = true <-> same_kind c c'.
Proof.
  unfold same_kindb, same_kind. split; intros H.
  - apply andb_true_iff in H as [H1 H2]. apply N.eqb_eq in H1. apply Bool.eqb_prop in H2. auto.
  - destruct H as [H1 H2]. rewrite H1, H2, N.eqb_refl. destruct (fold_on c'); reflexivity.
Qed.

Lemma equivb_sound n : forall x y, equivb_fuel n x y = true -> equiv x y.
Proof.
  induction n as [|n IH]; intros x y H; [discriminate|].
  cbn [equivb_fuel] in H. unfold equivb_body in H.
  destruct x, y; try discriminate H.
  - constructor.
  - constructor. eapply gequivb_sound; exact H.
  - apply andb_true_iff in H as [H H3]. apply andb_true_iff in H as [H1 H2].
    constructor; [apply same_kindb_iff; exact H1|apply Z.eqb_eq; exact H2|].
    eapply all2b_impl; [|exact H3]. intros; apply IH; assumption.
  - apply andb_true_iff in H as [H H3]. apply andb_true_iff in H as [H1 H2].
    apply bytes_eqb_spec in H1. subst. constructor; [apply op_sameb_iff; exact H2|apply IH; exact H3].
Qed.

Lemma equivb_complete n : forall x y, equiv x y -> (vsz x <= n)%nat -> equivb_fuel n x y = true.
Proof.
  induction n as [|n IH]; intros x y H L; [pose proof (vsz_pos x); lia|].
  cbn [equivb_fuel]. unfold equivb_body. inversion H; subst.
  - reflexivity.
  - apply gequivb_complete; [assumption|lia].
  - apply andb_true_iff; split; [apply andb_true_iff; split|].
    + apply same_kindb_iff; assumption.
    + apply Z.eqb_eq; assumption.
    + eapply Forall2_all2b; [|eassumption]. intros e e' I R. apply IH; [exact R|].
      pose proof (vsz_elem a c els e I). lia.
  - rewrite bytes_eqb_refl. cbn [andb]. apply andb_true_iff; split; [apply op_sameb_iff; assumption|].
    apply IH; [assumption|]. cbn [vsz] in L. lia.
Qed.

Theorem equivb_iff x y : equivb x y = true <-> equiv x y.
Proof.
  unfold equivb. split; [apply equivb_sound|]. intros H. apply equivb_complete; [exact H|lia].
Qed.

Lemma equivb_fuel_indep n x y : (vsz x <= n)%nat -> equivb_fuel n x y = equivb x y.
Proof.
  intros L. unfold equivb.
  destruct (equivb_fuel n x y) eqn:E; destruct (equivb_fuel (vsz x) x y) eqn:F; try reflexivity.
  - apply equivb_sound in E. apply (equivb_complete (vsz x)) in E; [congruence|lia].
  - apply equivb_sound in F. apply (equivb_complete n) in F; [congruence|exact L].
Qed.

(* ================================================================== *)
(* C. the model computes the decision *)

Lemma capLen_eq c1 c2 l1 l2 : g_capLenEqual c1 c2 l1 l2 = (c1 =? c2) && (l1 =? l2).
Proof.
  unfold g_capLenEqual.
  destruct (c1 =? 0) eqn:E1; destruct (c2 =? 0) eqn:E2; cbn [negb orb]; try reflexivity.
  apply Z.eqb_eq in E1. apply Z.eqb_eq in E2. subst. reflexivity.
Qed.

Lemma all2b_length {A B} (f : A -> B -> bool) l l' : all2b f l l' = true -> length l = length l'.
Proof.
  revert l'. induction l as [|a l IH]; intros [|b l'] H; cbn [all2b] in H; try discriminate; [reflexivity|].
  apply andb_true_iff in H as [_ H]. cbn. f_equal. auto.
Qed.

Lemma all2b_length_false {A B} (f : A -> B -> bool) l l' : length l <> length l' -> all2b f l l' = false.
Proof. intros H. destruct (all2b f l l') eqn:E; [apply all2b_length in E; contradiction|reflexivity]. Qed.

Lemma zlen_eqb {A B} (l : list A) (l' : list B) : (zlen l =? zlen l') = (length l =? length l')%nat.
Proof.
  unfold zlen. destruct (Nat.eqb_spec (length l) (length l')) as [E|E].
  - rewrite E. apply Z.eqb_refl.
  - apply Z.eqb_neq. lia.
Qed.

Lemma glookup_in k l v : glookup k l = Some v -> exists k', In (k', v) l.
Proof.
  induction l as [|[k' v'] l IH]; cbn [glookup]; [discriminate|].
  destruct (prim_eqb k k'); intros E.
  - inversion E; subst. exists k'. left. reflexivity.
  - destruct (IH E) as [k'' I]. exists k''. right. exact I.
Qed.

(* the domain of a leaf, relative to the repairs that are in *)
Definition gdom (fx : fixes) (g : gval) : Prop :=
  gsupp g = true /\
  (fx_nilelem fx = true \/ gall nilelem_local g = true) /\
  (fx_stkstruct fx = true \/ gall lone_local g = true).

Lemma gdom_under fx g t : gdom fx g -> gunder g = Some t -> gdom fx t.
Proof.
  intros (S & [N|N] & [L|L]) U; repeat split; auto; try (right; eapply gall_under; eauto); eapply gall_under; eauto.
Qed.
Lemma gdom_seq fx s c l e : gdom fx s -> seq_parts s = Some (c, l) -> In e l -> gdom fx e.
Proof.
  intros (S & [N|N] & [L|L]) U I; repeat split; auto; try (right; eapply gall_seq; eauto); eapply gall_seq; eauto.
Qed.
Lemma gdom_map fx t kvs k v : gdom fx (GMap t kvs) -> In (k, v) kvs -> gdom fx v.
Proof.
  intros (S & [N|N] & [L|L]) I; repeat split; auto; try (right; eapply gall_map; eauto); eapply gall_map; eauto.
Qed.
Lemma gdom_struct fx t fs f : gdom fx (GStruct t fs) -> In f fs -> gdom fx (fval f).
Proof.
  intros (S & [N|N] & [L|L]) I; repeat split; auto; try (right; eapply gall_struct; eauto); eapply gall_struct; eauto.
Qed.

Lemma supp_kother g t : gsupp g = true -> gunder g = Some t -> is_kother (RG t) = false.
Proof.
  intros S U. pose proof (gall_here _ _ (gall_under _ _ _ S U)) as H.
  pose proof (gunder_not_ptr _ _ U) as NP.
  destruct t; try reflexivity; try contradiction; cbn in H; discriminate.
Qed.

Lemma supp_direct g t : gsupp g = true -> gunder g = Some t -> is_func t || is_chan t = true -> g = t.
Proof.
  intros S U F. destruct g; cbn [gunder] in U; try (inversion U; reflexivity); try discriminate.
  pose proof (gall_here _ _ S) as H. cbn [supp_local] in H. unfold ends_in in H. rewrite U, F in H. discriminate.
Qed.

Lemma gequivb_body_under rec x y p q :
  gsupp x = true -> gsupp y = true -> gunder x = Some p -> gunder y = Some q ->
  gequivb_body rec x y = gequivb_body rec p q.
Proof.
  intros Sx Sy Ux Uy. unfold gequivb_body. rewrite Ux, Uy, (gunder_idem _ _ Ux), (gunder_idem _ _ Uy).
  destruct (is_prim p); [reflexivity|].
  destruct p; try reflexivity; destruct q; try reflexivity.
  - rewrite (supp_direct _ _ Sx Ux eq_refl), (supp_direct _ _ Sy Uy eq_refl). reflexivity.
  - rewrite (supp_direct _ _ Sx Ux eq_refl), (supp_direct _ _ Sy Uy eq_refl). reflexivity.
Qed.

Lemma andthen_ok b k : andthen (Ok b) k = if b then k else Ok false.
Proof. destruct b; reflexivity. Qed.

Lemma name_not_stack n : name_exported n = true -> bytes_eqb n (B "stack") = false /\ bytes_eqb n (B "condition") = false.
Proof.
  intros H. split.
  - destruct (bytes_eqb n (B "stack")) eqn:E; [|reflexivity]. apply bytes_eqb_spec in E. subst. discriminate H.
  - destruct (bytes_eqb n (B "condition")) eqn:E; [|reflexivity]. apply bytes_eqb_spec in E. subst. discriminate H.
Qed.

Section Loops.
  Variable fx : fixes.
  Variable n : nat.
  Variable rec : value -> value -> res bool.
  Hypothesis Hrec : forall gx gy, gdom fx gx -> gdom fx gy -> (gsize gx <= n)%nat ->
                                  rec (VLeaf gx) (VLeaf gy) = Ok (gequivb n gx gy).

  Lemma elem_equal_correct ex ey :
    gdom fx ex -> gdom fx ey -> (gsize ex <= n)%nat ->
    ends_in is_chan ex = false ->
    (fx_nilelem fx = true \/ (gunder ex <> None /\ gunder ey <> None)) ->
    elem_equal fx rec ex ey = Ok (gequivb n ex ey).
  Proof.
    intros Dx Dy L NC NN.
    destruct n as [|n'] eqn:En; [pose proof (gsize_pos ex); lia|]. rewrite <- En in *.
    assert (EB : gequivb n ex ey = gequivb_body (gequivb n') ex ey) by (rewrite En; reflexivity).
    unfold elem_equal, elem_rval.
    destruct (gunder ex) as [gx|] eqn:Ux; destruct (gunder ey) as [gy|] eqn:Uy.
    - pose proof (supp_kother _ _ (proj1 Dx) Ux) as Kx.
      unfold primitives_equal, rprim.
      destruct (is_prim gx) eqn:Px.
      + rewrite EB. unfold gequivb_body. rewrite Ux, Uy, Px.
        destruct (is_prim gy) eqn:Py; [reflexivity|].
        destruct (prim_eqb gx gy) eqn:E; [apply prim_eqb_prim_r in E; congruence|reflexivity].
      + assert (C : is_chan gx = false) by (unfold ends_in in NC; rewrite Ux in NC; exact NC).
        rewrite C. cbn [andb].
        rewrite Hrec; [|eapply gdom_under; [exact Dx|exact Ux]|eapply gdom_under; [exact Dy|exact Uy]|pose proof (gunder_size _ _ Ux); lia].
        f_equal. rewrite EB, En. cbn [gequivb].
        symmetry. apply gequivb_body_under; auto; [apply Dx|apply Dy].
    - cbn. destruct NN as [F|[_ F]]; [rewrite F|congruence].
      rewrite EB. unfold gequivb_body. rewrite Ux, Uy. reflexivity.
    - cbn. destruct NN as [F|[F _]]; [rewrite F|congruence].
      rewrite EB. unfold gequivb_body. rewrite Ux. reflexivity.
    - cbn. destruct NN as [F|[F _]]; [rewrite F|congruence].
      rewrite EB. unfold gequivb_body. rewrite Ux. reflexivity.
  Qed.

  Lemma slice_loop_correct lx : forall ly,
    length lx = length ly ->
    (forall e, In e lx -> gdom fx e /\ (gsize e <= n)%nat /\ ends_in is_chan e = false) ->
    (forall e, In e ly -> gdom fx e) ->
    (fx_nilelem fx = true \/ ((forall e, In e lx -> gunder e <> None) /\ (forall e, In e ly -> gunder e <> None))) ->
    slice_loop fx rec lx ly = Ok (all2b (gequivb n) lx ly).
  Proof.
    induction lx as [|ex lx IH]; intros [|ey ly] Len Hx Hy NN; cbn in Len; try discriminate; [reflexivity|].
    cbn [slice_loop all2b].
    destruct (Hx ex (or_introl eq_refl)) as (Dx & Lx & Cx).
    rewrite elem_equal_correct; auto.
    - rewrite andthen_ok. destruct (gequivb n ex ey); [|reflexivity].
      apply IH; [lia| | |].
      + intros e I. apply Hx. right. exact I.
      + intros e I. apply Hy. right. exact I.
      + destruct NN as [F|[N1 N2]]; [left; exact F|right; split; intros e I; [apply N1|apply N2]; right; exact I].
    - apply Hy. left. reflexivity.
    - destruct NN as [F|[N1 N2]]; [left; exact F|right; split; [apply N1|apply N2]; left; reflexivity].
  Qed.

  Lemma map_loop_correct ky : forall kx,
    (forall k v, In (k, v) kx -> gdom fx v /\ (gsize v <= n)%nat) ->
    (forall k v, In (k, v) ky -> gdom fx v) ->
    map_loop rec kx ky =
    Ok (forallb (fun kv => match glookup (fst kv) ky with Some v' => gequivb n (snd kv) v' | None => false end) kx).
  Proof.
    induction kx as [|[k v] kx IH]; intros Hx Hy; [reflexivity|].
    cbn [map_loop forallb fst snd].
    destruct (glookup k ky) as [v'|] eqn:E; [|reflexivity].
    destruct (Hx k v (or_introl eq_refl)) as (Dv & Lv).
    destruct (glookup_in _ _ _ E) as (k' & I').
    rewrite Hrec; [|exact Dv|eapply Hy; exact I'|exact Lv].
    rewrite andthen_ok. destruct (gequivb n v v'); [|reflexivity].
    apply IH; [|exact Hy]. intros k0 v0 I. apply (Hx k0 v0). right. exact I.
  Qed.

  Definition mkfield (f : bytes * bool * gval) : rfield := (fname f, fexp f, false, VLeaf (fval f)).

  Lemma struct_loop_correct fs : forall gs,
    length fs = length gs ->
    (forall f, In f fs -> gdom fx (fval f) /\ (gsize (fval f) <= n)%nat /\ fexp f = name_exported (fname f)) ->
    (forall f, In f gs -> gdom fx (fval f) /\ fexp f = name_exported (fname f)) ->
    struct_loop rec (map mkfield fs) (map mkfield gs) =
    Ok (all2b (fun f f' => (negb (fexp f) && negb (fexp f')) ||
                           (bytes_eqb (fname f) (fname f') && fexp f && fexp f' && gequivb n (fval f) (fval f'))) fs gs).
  Proof.
    induction fs as [|f fs IH]; intros [|g gs] Len Hx Hy; cbn in Len; try discriminate; [reflexivity|].
    destruct (Hx f (or_introl eq_refl)) as (Df & Lf & Ef).
    destruct (Hy g (or_introl eq_refl)) as (Dg & Eg).
    assert (T : struct_loop rec (map mkfield fs) (map mkfield gs) =
                Ok (all2b (fun f f' => (negb (fexp f) && negb (fexp f')) ||
                           (bytes_eqb (fname f) (fname f') && fexp f && fexp f' && gequivb n (fval f) (fval f'))) fs gs)).
    { apply IH; [lia| |]; intros h I; [apply Hx|apply Hy]; right; exact I. }
    destruct f as [[fn fe] fv]. destruct g as [[gn ge] gv].
    unfold fname, fexp, fval in Df, Lf, Ef, Dg, Eg. cbn [fst snd] in Df, Lf, Ef, Dg, Eg.
    cbn [map struct_loop all2b mkfield fname fexp fval fst snd].
    destruct fe; destruct ge; cbn [negb andb orb].
    - destruct (bytes_eqb fn gn) eqn:EN; cbn [negb andb orb]; [|reflexivity].
      rewrite Hrec; auto. rewrite andthen_ok. destruct (gequivb n fv gv); [exact T|reflexivity].
    - destruct (bytes_eqb fn gn) eqn:EN; cbn [negb andb orb]; [|reflexivity].
      apply bytes_eqb_spec in EN. congruence.
    - destruct (bytes_eqb fn gn) eqn:EN; cbn [negb andb orb]; [|reflexivity].
      apply bytes_eqb_spec in EN. congruence.
    - exact T.
  Qed.
End Loops.

Lemma nilelem_of fx s c l :
  gdom fx s -> seq_parts s = Some (c, l) ->
  fx_nilelem fx = true \/ (forall e, In e l -> gunder e <> None).
Proof.
  intros (_ & [N|N] & _) P; [left; exact N|right].
  pose proof (gall_here _ _ N) as H.
  destruct s; cbn [seq_parts] in P; inversion P; subst; cbn [nilelem_local] in H;
    rewrite forallb_forall in H; intros e I; specialize (H e I); destruct (gunder e); congruence.
Qed.

Lemma nochan_of s c l : gsupp s = true -> seq_parts s = Some (c, l) -> forall e, In e l -> ends_in is_chan e = false.
Proof.
  intros S P. pose proof (gall_here _ _ S) as H.
  destruct s; cbn [seq_parts] in P; inversion P; subst; cbn [supp_local] in H;
    rewrite forallb_forall in H; intros e I; specialize (H e I); destruct (ends_in is_chan e); cbn in H; congruence.
Qed.

Lemma flags_of t fs : gsupp (GStruct t fs) = true -> forall f, In f fs -> fexp f = name_exported (fname f).
Proof.
  intros S. pose proof (gall_here _ _ S) as H. cbn [supp_local] in H. rewrite forallb_forall in H.
  intros f I. apply Bool.eqb_prop. apply H. exact I.
Qed.

Lemma leaf_correct fx : forall n a b,
  gdom fx a -> gdom fx b -> (gsize a <= n)%nat ->
  values_equal fx n (VLeaf a) (VLeaf b) = Ok (gequivb n a b).
Proof.
  induction n as [|n IH]; intros a b Da Db L; [pose proof (gsize_pos a); lia|].
  cbn [values_equal gequivb]. unfold values_equal_body, gequivb_body. cbn [is_nil andb deref].
  destruct (gunder a) as [p|] eqn:Ua; destruct (gunder b) as [q|] eqn:Ub.
  - (* both valid *)
    rewrite (supp_kother _ _ (proj1 Da) Ua), (supp_kother _ _ (proj1 Db) Ub). cbn [orb].
    pose proof (gdom_under _ _ _ Da Ua) as Dp. pose proof (gdom_under _ _ _ Db Ub) as Dq.
    pose proof (gunder_size _ _ Ua) as Sp.
    unfold primitives_equal, rprim.
    destruct (is_prim p) eqn:Pp.
    + destruct (is_prim q) eqn:Pq; [reflexivity|].
      destruct (prim_eqb p q) eqn:E; [apply prim_eqb_prim_r in E; congruence|reflexivity].
    + pose proof (supp_kother _ _ (proj1 Da) Ua) as Kp.
      destruct p; try discriminate Pp; try discriminate Kp; cbn [rkind_of gkind].
      * (* slice *)
        unfold slices_equal. cbn [deref]. rewrite Ua, Ub. cbn [seq_parts].
        destruct (seq_parts q) as [[cy ly]|] eqn:Sq; [|destruct q; reflexivity].
        rewrite capLen_eq, zlen_eqb.
        destruct (cap =? cy) eqn:EC; cbn [andb negb]; [|destruct q; reflexivity].
        destruct (Nat.eqb_spec (length l) (length ly)) as [EL|EL]; cbn [negb].
        -- assert (R : slice_loop fx (values_equal fx n) l ly = Ok (all2b (gequivb n) l ly)).
           { apply (slice_loop_correct fx n _ IH); auto.
             - intros e I. split; [eapply gdom_seq; [exact Dp|reflexivity|exact I]|]. split.
               + pose proof (gsize_slice_in ty cap l e I). lia.
               + eapply nochan_of; [apply Dp|reflexivity|exact I].
             - intros e I. eapply gdom_seq; [exact Dq|exact Sq|exact I].
             - destruct (nilelem_of fx _ _ _ Dp eq_refl) as [F|N1]; [left; exact F|].
               destruct (nilelem_of fx _ _ _ Dq Sq) as [F|N2]; [left; exact F|]. right; split; assumption. }
           rewrite R. destruct q; reflexivity.
        -- rewrite (all2b_length_false _ _ _ EL). destruct q; reflexivity.
      * (* array *)
        unfold slices_equal. cbn [deref]. rewrite Ua, Ub. cbn [seq_parts].
        destruct (seq_parts q) as [[cy ly]|] eqn:Sq; [|destruct q; reflexivity].
        rewrite capLen_eq, zlen_eqb.
        destruct (zlen l =? cy) eqn:EC; cbn [andb negb]; [|destruct q; reflexivity].
        destruct (Nat.eqb_spec (length l) (length ly)) as [EL|EL]; cbn [negb].
        -- assert (R : slice_loop fx (values_equal fx n) l ly = Ok (all2b (gequivb n) l ly)).
           { apply (slice_loop_correct fx n _ IH); auto.
             - intros e I. split; [eapply gdom_seq; [exact Dp|reflexivity|exact I]|]. split.
               + pose proof (gsize_array_in ty l e I). lia.
               + eapply nochan_of; [apply Dp|reflexivity|exact I].
             - intros e I. eapply gdom_seq; [exact Dq|exact Sq|exact I].
             - destruct (nilelem_of fx _ _ _ Dp eq_refl) as [F|N1]; [left; exact F|].
               destruct (nilelem_of fx _ _ _ Dq Sq) as [F|N2]; [left; exact F|]. right; split; assumption. }
           rewrite R. destruct q; reflexivity.
        -- rewrite (all2b_length_false _ _ _ EL). destruct q; reflexivity.
      * (* map *)
        unfold maps_equal. cbn [deref]. rewrite Ua, Ub.
        destruct q; try reflexivity.
        destruct (ty =? ty0)%N; cbn [negb andb]; [|reflexivity].
        rewrite zlen_eqb. destruct (length kvs =? length kvs0)%nat; cbn [negb andb]; [|reflexivity].
        apply (map_loop_correct fx n _ IH).
        -- intros k v I. split; [eapply gdom_map; [exact Dp|exact I]|]. pose proof (gsize_map_in ty kvs k v I). lia.
        -- intros k v I. eapply gdom_map; [exact Dq|exact I].
      * (* struct *)
        unfold stackage_structs_equal. cbn [conv_cond conv_stack orb andb]. rewrite andb_false_r.
        unfold structs_equal. cbn [deref]. rewrite Ua, Ub. cbn [rkind_of].
        destruct q; try reflexivity. cbn [gkind is_kstruct negb fields_of].
        change (map (fun f => (fname f, fexp f, false, VLeaf (fval f))) fields) with (map mkfield fields).
        change (map (fun f => (fname f, fexp f, false, VLeaf (fval f))) fields0) with (map mkfield fields0).
        rewrite zlen_eqb, !map_length.
        destruct (Nat.eqb_spec (length fields) (length fields0)) as [EL|EL]; cbn [negb].
        -- apply (struct_loop_correct fx n _ IH); auto.
           ++ intros f I. split; [eapply gdom_struct; [exact Dp|exact I]|]. split.
              ** pose proof (gsize_struct_in ty fields f I). lia.
              ** eapply flags_of; [apply Dp|exact I].
           ++ intros f I. split; [eapply gdom_struct; [exact Dq|exact I]|]. eapply flags_of; [apply Dq|exact I].
        -- rewrite (all2b_length_false _ _ _ EL). reflexivity.
      * (* func *)
        pose proof (supp_direct _ _ (proj1 Da) Ua eq_refl) as Ea. subst a.
        pose proof (supp_kother _ _ (proj1 Db) Ub) as Kq.
        destruct q; try discriminate Kq; try reflexivity; cbn [rkind_of gkind match_extra functions_equal channels_equal].
        pose proof (supp_direct _ _ (proj1 Db) Ub eq_refl) as Eb. subst b. reflexivity.
      * (* chan *)
        pose proof (supp_direct _ _ (proj1 Da) Ua eq_refl) as Ea. subst a.
        pose proof (supp_kother _ _ (proj1 Db) Ub) as Kq.
        destruct q; try discriminate Kq; try reflexivity; cbn [rkind_of gkind match_extra functions_equal channels_equal].
        pose proof (supp_direct _ _ (proj1 Db) Ub eq_refl) as Eb. subst b. reflexivity.
  - (* b is a nil pointer *)
    rewrite (supp_kother _ _ (proj1 Da) Ua). cbn [is_kother rkind_of orb].
    pose proof (supp_kother _ _ (proj1 Da) Ua) as Kp.
    destruct p; try discriminate Kp; cbn; try reflexivity.
    + unfold slices_equal. cbn [deref]. rewrite Ua, Ub. reflexivity.
    + unfold slices_equal. cbn [deref]. rewrite Ua, Ub. reflexivity.
    + unfold maps_equal. cbn [deref]. rewrite Ua, Ub. reflexivity.
    + rewrite andb_false_r. unfold structs_equal. cbn [deref]. rewrite Ub. reflexivity.
  - (* a is a nil pointer *)
    rewrite (supp_kother _ _ (proj1 Db) Ub). cbn [is_kother rkind_of orb primitives_equal].
    destruct q; cbn; try reflexivity; destruct a; try reflexivity; cbn [gunder] in Ua; discriminate.
  - cbn. reflexivity.
Qed.

(* ---- trees ---- *)
Definition vdom (fx : fixes) (v : value) : Prop :=
  vsupp v = true /\
  (fx_nilelem fx = true \/ no_nil_elem v = true) /\
  (fx_stkstruct fx = true \/ no_lone_private v = true).

Lemma vdom_leaf fx g : vdom fx (VLeaf g) -> gdom fx g.
Proof.
  intros (S & [N|N] & [L|L]); repeat split; auto; try (right; eapply vall_leaf; eauto); eapply vall_leaf; eauto.
Qed.
Lemma vdom_elem fx a c els x : vdom fx (VStack a c els) -> In x els -> vdom fx x.
Proof.
  intros (S & [N|N] & [L|L]) I; repeat split; auto; try (right; eapply vall_elem; eauto); eapply vall_elem; eauto.
Qed.
Lemma vdom_expr fx a c kw op ex : vdom fx (VCond a c kw op ex) -> vdom fx ex.
Proof.
  intros (S & [N|N] & [L|L]); repeat split; auto; try (right; eapply vall_expr; eauto); eapply vall_expr; eauto.
Qed.

Lemma op_string_text o : op_string o = op_text o.
Proof.
  destruct o as [n|t c]; [|reflexivity].
  destruct n as [|p]; [reflexivity|].
  destruct p as [[p|p|]|[p|p|]|]; try reflexivity; destruct p; reflexivity.
Qed.
Lemma op_context_ctx o : op_context o = op_ctx o.
Proof. destruct o; reflexivity. Qed.

Lemma flag_fold o : g_flag_positive o c_cfold = N.testbit o 1.
Proof. destruct o as [|[[p|p|]|[p|p|]|]]; reflexivity. Qed.

Lemma stack_typ_cases t : stack_typ_ok t = true -> t = 1%N \/ t = 2%N \/ t = 3%N \/ t = 4%N \/ t = 6%N.
Proof.
  unfold stack_typ_ok. intros H.
  repeat (apply orb_true_iff in H as [H|H]); apply N.eqb_eq in H; auto 6.
Qed.

Lemma kind_name_eq c c' :
  stack_typ_ok (c_typ c) = true -> stack_typ_ok (c_typ c') = true ->
  bytes_eqb (kind_name c) (kind_name c') = same_kindb c c'.
Proof.
  intros T T'. unfold kind_name, same_kindb, fold_on. rewrite !flag_fold.
  apply stack_typ_cases in T. apply stack_typ_cases in T'.
  destruct (N.testbit (c_opt c) 1); destruct (N.testbit (c_opt c') 1);
    destruct T as [->|[->|[->|[->| ->]]]]; destruct T' as [->|[->|[->|[->| ->]]]]; reflexivity.
Qed.

Section TreeLoops.
  Variable fx : fixes.
  Variable n : nat.
  Variable rec : value -> value -> res bool.
  Hypothesis Hrec : forall x y, vdom fx x -> vdom fx y -> (vsz x <= n)%nat -> rec x y = Ok (equivb_fuel n x y).

  Lemma stack_loop_correct ex : forall ey,
    length ex = length ey ->
    (forall e, In e ex -> vdom fx e /\ (vsz e <= n)%nat) ->
    (forall e, In e ey -> vdom fx e) ->
    stack_loop rec ex ey = Ok (all2b (equivb_fuel n) ex ey).
  Proof.
    induction ex as [|a ex IH]; intros [|b ey] Len Hx Hy; cbn in Len; try discriminate; [reflexivity|].
    cbn [stack_loop all2b].
    destruct (Hx a (or_introl eq_refl)) as (Da & La).
    rewrite Hrec; [|exact Da|apply Hy; left; reflexivity|exact La].
    rewrite andthen_ok. destruct (equivb_fuel n a b); [|reflexivity].
    apply IH; [lia| |]; intros e I; [apply Hx|apply Hy]; right; exact I.
  Qed.
End TreeLoops.

Lemma vsupp_stack a c els : vsupp (VStack a c els) = true -> stack_typ_ok (c_typ c) = true /\ c_eqf c = None.
Proof.
  intros S. pose proof (vall_here _ _ _ S) as H. cbn [vsupp_local] in H.
  apply andb_true_iff in H as [H1 H2]. split; [exact H1|]. unfold no_policy in H2. destruct (c_eqf c); [discriminate|reflexivity].
Qed.
Lemma vsupp_cond a c kw op ex : vsupp (VCond a c kw op ex) = true -> c_eqf c = None.
Proof.
  intros S. pose proof (vall_here _ _ _ S) as H. cbn [vsupp_local] in H.
  unfold no_policy in H. destruct (c_eqf c); [discriminate|reflexivity].
Qed.
Lemma vsupp_nozero v : vsupp v = true -> match v with VZeroStack _ | VZeroCond _ => False | _ => True end.
Proof. intros S. pose proof (vall_here _ _ _ S) as H. destruct v; try exact I; discriminate H. Qed.

(* a leaf against a Stack or Condition: an error *)
Lemma leaf_vs_stackage fx rec g y :
  gdom fx g -> (conv_stack y || conv_cond y) = true ->
  values_equal_body fx rec (VLeaf g) y = Ok false.
Proof.
  intros Dg Cy. unfold values_equal_body. cbn [is_nil andb deref].
  assert (Ey : deref y = RS y) by (destruct y; try discriminate Cy; reflexivity).
  rewrite Ey. cbn [is_kother rkind_of].
  destruct (gunder g) as [p|] eqn:Ug; [|destruct y; try discriminate Cy; reflexivity].
  pose proof (supp_kother _ _ (proj1 Dg) Ug) as Kp. rewrite Kp. cbn [orb].
  pose proof (gdom_under _ _ _ Dg Ug) as Dp.
  destruct p; try discriminate Kp; cbn [primitives_equal rprim is_prim rkind_of gkind]; try reflexivity.
  - unfold slices_equal. rewrite Ey. cbn [deref]. rewrite Ug. reflexivity.
  - unfold slices_equal. rewrite Ey. cbn [deref]. rewrite Ug. reflexivity.
  - unfold maps_equal. rewrite Ey. cbn [deref]. rewrite Ug. reflexivity.
  - unfold stackage_structs_equal. cbn [conv_cond conv_stack].
    rewrite (orb_comm (conv_cond y)), Cy, andb_true_r.
    destruct (fx_stkstruct fx) eqn:F; [reflexivity|].
    unfold structs_equal. rewrite Ey. cbn [deref]. rewrite Ug. cbn [rkind_of is_kstruct negb].
    destruct Dp as (Sp & _ & [L|L]); [congruence|].
    pose proof (gall_here _ _ L) as LL. pose proof (flags_of _ _ Sp) as FL.
    rewrite zlen_eqb.
    destruct fields as [|f [|f' fs]].
    + destruct y; try discriminate Cy; reflexivity.
    + cbn [lone_local] in LL. specialize (FL f (or_introl eq_refl)). rewrite LL in FL. symmetry in FL.
      destruct (name_not_stack _ FL) as [N1 N2].
      destruct y; try discriminate Cy; cbn [fields_of map length Nat.eqb negb struct_loop];
        rewrite LL; cbn [negb andb]; [rewrite N1|rewrite N2]; reflexivity.
    + destruct y; try discriminate Cy; cbn [fields_of map length Nat.eqb negb]; reflexivity.
Qed.

Lemma tree_correct fx : forall n x y,
  vdom fx x -> vdom fx y -> (vsz x <= n)%nat ->
  values_equal fx n x y = Ok (equivb_fuel n x y).
Proof.
  induction n as [|n IH]; intros x y Dx Dy L; [pose proof (vsz_pos x); lia|].
  pose proof (vsupp_nozero _ (proj1 Dx)) as Zx. pose proof (vsupp_nozero _ (proj1 Dy)) as Zy.
  destruct x as [|a|ax cx ex|ax cx kw op ex| |]; try contradiction.
  - (* nil *)
    destruct y as [|b|ay cy ey|ay cy kw' op' ey| |]; try contradiction; try reflexivity.
    cbn [values_equal equivb_fuel equivb_body]. unfold values_equal_body. cbn [is_nil andb deref].
    pose proof (vdom_leaf _ _ Dy) as Db.
    destruct (gunder b) as [q|] eqn:Ub; [|reflexivity].
    pose proof (supp_kother _ _ (proj1 Db) Ub) as Kq. cbn [is_kother rkind_of orb] in *. rewrite Kq.
    destruct q; try discriminate Kq; reflexivity.
  - (* leaf *)
    pose proof (vdom_leaf _ _ Dx) as Da.
    destruct y as [|b|ay cy ey|ay cy kw' op' ey| |]; try contradiction.
    + cbn [values_equal equivb_fuel equivb_body]. unfold values_equal_body. cbn [is_nil andb deref].
      destruct (gunder a) as [p|] eqn:Ua; [|reflexivity].
      pose proof (supp_kother _ _ (proj1 Da) Ua) as Kp. rewrite Kp. cbn [is_kother rkind_of orb].
      destruct p; try discriminate Kp; cbn; try reflexivity.
      * unfold slices_equal. cbn [deref]. rewrite Ua. reflexivity.
      * unfold slices_equal. cbn [deref]. rewrite Ua. reflexivity.
      * unfold maps_equal. cbn [deref]. rewrite Ua. reflexivity.
      * rewrite andb_false_r. unfold structs_equal. cbn [deref]. reflexivity.
    + rewrite leaf_correct; [|exact Da|apply vdom_leaf; exact Dy|exact L].
      cbn [equivb_fuel equivb_body]. f_equal. apply gequivb_fuel; [exact L|lia].
    + cbn [values_equal]. rewrite leaf_vs_stackage; [reflexivity|exact Da|reflexivity].
    + cbn [values_equal]. rewrite leaf_vs_stackage; [reflexivity|exact Da|reflexivity].
  - (* stack *)
    destruct (vsupp_stack _ _ _ (proj1 Dx)) as (Tx & Px).
    cbn [values_equal equivb_fuel equivb_body]. unfold values_equal_body. cbn [is_nil andb deref is_kother rkind_of orb].
    assert (Ky : is_kother (deref y) = false).
    { destruct y as [|b| | | |]; try reflexivity. pose proof (vdom_leaf _ _ Dy) as Db. cbn [deref].
      destruct (gunder b) eqn:Ub; [eapply supp_kother; [apply Db|exact Ub]|reflexivity]. }
    rewrite Ky.
    assert (Pr : fst (primitives_equal (RS (VStack ax cx ex)) (deref y)) = false) by (destruct (deref y); reflexivity).
    destruct (primitives_equal (RS (VStack ax cx ex)) (deref y)) as [tr ok]. cbn [fst] in Pr. subst tr.
    unfold stackage_structs_equal. cbn [conv_cond conv_stack].
    destruct y as [|b|ay cy ey|ay cy kw' op' ey| |]; try contradiction; try reflexivity.
    destruct (vsupp_stack _ _ _ (proj1 Dy)) as (Ty & Py).
    cbn [conv_stack stack_IsEqual]. rewrite Px. unfold stack_isEqual.
    rewrite capLen_eq, (kind_name_eq _ _ Tx Ty).
    assert (EL : (zlen ex + 1 =? zlen ey + 1) = (length ex =? length ey)%nat).
    { rewrite <- zlen_eqb. unfold zlen. destruct (Z.eqb_spec (Z.of_nat (length ex)) (Z.of_nat (length ey))); [apply Z.eqb_eq|apply Z.eqb_neq]; lia. }
    rewrite EL.
    destruct (c_cap cx =? c_cap cy); cbn [andb negb]; [|rewrite andb_false_r; reflexivity].
    destruct (Nat.eqb_spec (length ex) (length ey)) as [E|E]; cbn [negb].
    + destruct (same_kindb cx cy); cbn [negb andb]; [|reflexivity].
      apply (stack_loop_correct fx n _ (IH)); [exact E| |].
      * intros e I. split; [eapply vdom_elem; [exact Dx|exact I]|]. pose proof (vsz_elem ax cx ex e I). lia.
      * intros e I. eapply vdom_elem; [exact Dy|exact I].
    + rewrite (all2b_length_false _ _ _ E), andb_false_r. reflexivity.
  - (* condition *)
    pose proof (vsupp_cond _ _ _ _ _ (proj1 Dx)) as Px.
    cbn [values_equal equivb_fuel equivb_body]. unfold values_equal_body. cbn [is_nil andb deref is_kother rkind_of orb].
    assert (Ky : is_kother (deref y) = false).
    { destruct y as [|b| | | |]; try reflexivity. pose proof (vdom_leaf _ _ Dy) as Db. cbn [deref].
      destruct (gunder b) eqn:Ub; [eapply supp_kother; [apply Db|exact Ub]|reflexivity]. }
    rewrite Ky.
    assert (Pr : fst (primitives_equal (RS (VCond ax cx kw op ex)) (deref y)) = false) by (destruct (deref y); reflexivity).
    destruct (primitives_equal (RS (VCond ax cx kw op ex)) (deref y)) as [tr ok]. cbn [fst] in Pr. subst tr.
    unfold stackage_structs_equal. cbn [conv_cond conv_stack].
    destruct y as [|b|ay cy ey|ay cy kw' op' ey| |]; try contradiction; try reflexivity.
    cbn [conv_cond cond_IsEqual]. rewrite Px. unfold cond_isEqual.
    destruct (bytes_eqb kw kw'); cbn [negb andb]; [|reflexivity].
    assert (R : values_equal fx n ex ey = Ok (equivb_fuel n ex ey)).
    { apply IH; [eapply vdom_expr; exact Dx|eapply vdom_expr; exact Dy|cbn [vsz] in L; lia]. }
    destruct op as [o|], op' as [o'|]; cbn [op_sameb andb]; try reflexivity; [|exact R].
    rewrite (op_string_text o), (op_string_text o'), (op_context_ctx o), (op_context_ctx o').
    destruct (bytes_eqb (op_text o) (op_text o')); cbn [negb andb]; [|reflexivity].
    destruct (bytes_eqb (op_ctx o) (op_ctx o')); cbn [negb andb]; [exact R|reflexivity].
Qed.

(* ---- the wrappers ---- *)
Lemma kother_dom fx y : vdom fx y -> is_kother (deref y) = false.
Proof.
  intros Dy. destruct y as [|b| | | |]; try reflexivity. pose proof (vdom_leaf _ _ Dy) as Db. cbn [deref].
  destruct (gunder b) eqn:Ub; [eapply supp_kother; [apply Db|exact Ub]|reflexivity].
Qed.

Lemma body_stack fx rec ax cx ex y :
  vdom fx y ->
  values_equal_body fx rec (VStack ax cx ex) y = stack_IsEqual rec (VStack ax cx ex) y.
Proof.
  intros Dy. unfold values_equal_body. cbn [is_nil andb deref is_kother rkind_of orb].
  rewrite (kother_dom _ _ Dy).
  assert (Pr : fst (primitives_equal (RS (VStack ax cx ex)) (deref y)) = false) by (destruct (deref y); reflexivity).
  destruct (primitives_equal (RS (VStack ax cx ex)) (deref y)) as [tr ok]. cbn [fst] in Pr. subst tr.
  unfold stackage_structs_equal. cbn [conv_cond conv_stack].
  destruct y; reflexivity.
Qed.

Lemma body_cond fx rec ax cx kw op ex y :
  vdom fx y ->
  values_equal_body fx rec (VCond ax cx kw op ex) y =
  if conv_cond y then cond_IsEqual fx rec (VCond ax cx kw op ex) y else Ok false.
Proof.
  intros Dy. unfold values_equal_body. cbn [is_nil andb deref is_kother rkind_of orb].
  rewrite (kother_dom _ _ Dy).
  assert (Pr : fst (primitives_equal (RS (VCond ax cx kw op ex)) (deref y)) = false) by (destruct (deref y); reflexivity).
  destruct (primitives_equal (RS (VCond ax cx kw op ex)) (deref y)) as [tr ok]. cbn [fst] in Pr. subst tr.
  unfold stackage_structs_equal. cbn [conv_cond conv_stack].
  destruct y; reflexivity.
Qed.

Theorem values_equal_decides fx x y :
  vdom fx x -> vdom fx y -> values_equal fx (vsz x) x y = Ok (equivb x y).
Proof.
  intros Dx Dy. rewrite tree_correct; [reflexivity|exact Dx|exact Dy|lia].
Qed.

Theorem is_equal_decides fx x y :
  is_receiver x = true -> vdom fx x -> vdom fx y ->
  (fx_condarg fx = true \/ conv_cond x = false \/ conv_cond y = true) ->
  is_equal fx x y = Ok (equivb x y).
Proof.
  intros Rx Dx Dy C.
  assert (E : is_equal fx x y = values_equal fx (S (vsz x)) x y).
  { destruct x; try discriminate Rx; unfold is_equal; cbn [values_equal].
    - rewrite body_stack; [reflexivity|exact Dy].
    - rewrite body_cond; [|exact Dy]. destruct (conv_cond y) eqn:Cy; [reflexivity|].
      destruct C as [F|[F|F]]; [|discriminate F|discriminate F].
      destruct y; try discriminate Cy; cbn [cond_IsEqual]; rewrite F; reflexivity. }
  rewrite E, tree_correct; [|exact Dx|exact Dy|lia]. f_equal. apply equivb_fuel_indep. lia.
Qed.

Lemma vdom_repaired x : vsupp x = true -> vdom repaired x.
Proof. intros S. split; [exact S|]. split; left; reflexivity. Qed.

Lemma vdom_as_is x : vsupp x = true -> no_nil_elem x = true -> no_lone_private x = true -> vdom as_is x.
Proof. intros S N L. split; [exact S|]. split; right; assumption. Qed.

(* ================================================================== *)
(* D. the relation *)

Lemma is_prim_under p : is_prim p = true -> gunder p = Some p.
Proof. destruct p; cbn; congruence. Qed.
Lemma seq_under s c l : seq_parts s = Some (c, l) -> gunder s = Some s.
Proof. destruct s; cbn; congruence. Qed.

Lemma gequiv_seq_inv sx sy c lx c' ly :
  seq_parts sx = Some (c, lx) -> seq_parts sy = Some (c', ly) -> gequiv sx sy -> c = c' /\ Forall2 gequiv lx ly.
Proof.
  intros Px Py H. pose proof (seq_under _ _ _ Px) as Ux. pose proof (seq_under _ _ _ Py) as Uy.
  inversion H; subst.
  - rewrite Ux in H0. inversion H0; subst. rewrite (seq_not_prim _ _ _ Px) in H2. discriminate.
  - rewrite Ux in H0. rewrite Uy in H1. inversion H0; inversion H1; subst.
    rewrite Px in H2. rewrite Py in H3. inversion H2; inversion H3; subst. auto.
  - rewrite Ux in H0. inversion H0; subst. discriminate Px.
  - rewrite Ux in H0. inversion H0; subst. discriminate Px.
  - discriminate Px.
  - discriminate Px.
Qed.

Lemma gequiv_map_inv t kx t' ky :
  gequiv (GMap t kx) (GMap t' ky) ->
  t = t' /\ length kx = length ky /\
  Forall (fun kv => exists v', glookup (fst kv) ky = Some v' /\ gequiv (snd kv) v') kx.
Proof.
  intros H. inversion H; subst; cbn [gunder] in *.
  - inversion H0; subst. discriminate.
  - inversion H0; subst. discriminate.
  - inversion H0; inversion H1; subst. auto.
  - inversion H0.
Qed.

Lemma gequiv_struct_inv t fs t' gs :
  gequiv (GStruct t fs) (GStruct t' gs) ->
  Forall2 (fun f f' => (fexp f = false /\ fexp f' = false) \/
                       (fname f = fname f' /\ fexp f = true /\ fexp f' = true /\ gequiv (fval f) (fval f'))) fs gs.
Proof.
  intros H. inversion H; subst; cbn [gunder] in *.
  - inversion H0; subst. discriminate.
  - inversion H0; subst. discriminate.
  - inversion H0.
  - inversion H0; inversion H1; subst. assumption.
Qed.

Lemma gequiv_ptr_l x y : gequiv (GPtr x) y -> gequiv x y.
Proof.
  intros H. inversion H; subst; cbn [gunder] in *.
  - eapply GE_prim; eauto.
  - eapply GE_seq; eauto.
  - eapply GE_map; eauto.
  - eapply GE_struct; eauto.
Qed.
Lemma gequiv_ptr_r x y : gequiv x (GPtr y) -> gequiv x y.
Proof.
  intros H. inversion H; subst; cbn [gunder] in *.
  - eapply GE_prim; eauto.
  - eapply GE_seq; eauto.
  - eapply GE_map; eauto.
  - eapply GE_struct; eauto.
Qed.

Lemma glookup_mid k pre b post :
  is_key k = true -> existsb (prim_eqb k) (map fst pre) = false ->
  glookup k (pre ++ (k, b) :: post) = Some b.
Proof.
  intros K. induction pre as [|[k' v'] pre IH]; cbn [map existsb glookup app fst]; intros E.
  - rewrite (key_eqb_refl _ K). reflexivity.
  - apply orb_false_iff in E as [E1 E2]. rewrite E1. apply IH. exact E2.
Qed.

Theorem gmut_not_gequiv a b : gmut a b -> ~ gequiv a b.
Proof.
  induction 1 as [p q Pp Pq E|x y M IH|x y M IH|sx sy c pre a b post c' post' Px Py M IH|sx sy c lx c' ly Px Py NL
                 |sx sy c lx c' ly Px Py NC|t pre k a b post t' post' K NE M IH|t kx t' ky k v I NF|t kx t' ky NL|t kx t' ky NT
                 |t pre n a b post t' post' M IH|t i u j NT|t i u j NE]; intros H.
  - pose proof (is_prim_under _ Pp) as Up. pose proof (is_prim_under _ Pq) as Uq.
    inversion H; subst.
    + rewrite Up in H0. rewrite Uq in H1. inversion H0; inversion H1; subst. congruence.
    + rewrite Up in H0. inversion H0; subst. rewrite (seq_not_prim _ _ _ H2) in Pp. discriminate.
    + rewrite Up in H0. inversion H0; subst. discriminate.
    + rewrite Up in H0. inversion H0; subst. discriminate.
    + discriminate.
    + discriminate.
  - apply IH. apply gequiv_ptr_l. exact H.
  - apply IH. apply gequiv_ptr_r. exact H.
  - destruct (gequiv_seq_inv _ _ _ _ _ _ Px Py H) as [_ F]. apply IH. eapply Forall2_mid; [exact F|reflexivity].
  - destruct (gequiv_seq_inv _ _ _ _ _ _ Px Py H) as [_ F]. apply NL. eapply Forall2_length'; exact F.
  - destruct (gequiv_seq_inv _ _ _ _ _ _ Px Py H) as [E _]. contradiction.
  - destruct (gequiv_map_inv _ _ _ _ H) as (_ & _ & F). rewrite Forall_forall in F.
    destruct (F (k, a)) as (v' & L & G); [apply in_or_app; right; left; reflexivity|].
    cbn [fst snd] in *. rewrite (glookup_mid _ _ _ _ K NE) in L. inversion L; subst. apply IH. exact G.
  - destruct (gequiv_map_inv _ _ _ _ H) as (_ & _ & F). rewrite Forall_forall in F.
    destruct (F (k, v) I) as (v' & L & _). cbn [fst] in L. congruence.
  - destruct (gequiv_map_inv _ _ _ _ H) as (_ & L & _). contradiction.
  - destruct (gequiv_map_inv _ _ _ _ H) as (E & _). contradiction.
  - pose proof (gequiv_struct_inv _ _ _ _ H) as F.
    pose proof (Forall2_mid _ _ _ _ _ _ _ F eq_refl) as [[E _]|(_ & _ & _ & G)]; [discriminate E|].
    apply IH. exact G.
  - inversion H; subst; cbn [gunder] in *; try (inversion H0; subst; discriminate); try congruence.
  - inversion H; subst; cbn [gunder] in *; try (inversion H0; subst; discriminate); try (destruct NE; congruence).
Qed.

Theorem mutate1_not_equiv x y : mutate1 x y -> ~ equiv x y.
Proof.
  induction 1 as [a b M|x y NS|a c pre x y post a' c' post' M IH|a c kw op ex a' c' kw' op' ex' M IH
                 |a c kw op ex a' c' kw' op' ex' NK|a c kw op ex a' c' kw' op' ex' NO|a c els a' c' els' NK
                 |a c els a' c' els' NC|a c els a' c' els' NL|a c pre x mid y post a' c' NE]; intros H.
  - inversion H; subst. eapply gmut_not_gequiv; eauto.
  - inversion H; subst; apply NS; reflexivity.
  - inversion H; subst. apply IH. eapply Forall2_mid; [eassumption|reflexivity].
  - inversion H; subst. apply IH. assumption.
  - inversion H; subst. apply NK. reflexivity.
  - inversion H; subst. apply NO. assumption.
  - inversion H; subst. apply NK. match goal with S : same_kind _ _ |- _ => destruct S as [S _]; exact S end.
  - inversion H; subst. contradiction.
  - inversion H; subst. apply NL. eapply Forall2_length'; eassumption.
  - inversion H; subst. apply NE. eapply Forall2_mid; [eassumption|reflexivity].
Qed.

(* ---- reflexivity on the property's domain ---- *)
Lemma Forall2_refl_in {A} (R : A -> A -> Prop) l : (forall e, In e l -> R e e) -> Forall2 R l l.
Proof.
  induction l as [|a l IH]; intros H; constructor; [apply H; left; reflexivity|apply IH; intros; apply H; right; assumption].
Qed.

Lemma Forall2_flip_in {A B} (R : A -> B -> Prop) (R' : B -> A -> Prop) l l' :
  Forall2 R l l' -> (forall a b, In a l -> In b l' -> R a b -> R' b a) -> Forall2 R' l' l.
Proof.
  induction 1 as [|a b l l' Rab F IH]; intros H; constructor.
  - apply H; [left; reflexivity|left; reflexivity|exact Rab].
  - apply IH. intros; apply H; [right|right|]; assumption.
Qed.

Lemma refl_under x : gall refl_local x = true -> exists p, gunder x = Some p.
Proof.
  induction x; intros H; cbn [gunder]; try (eexists; reflexivity).
  - apply IHx. apply gall_ptr in H. exact H.
  - apply gall_here in H. discriminate H.
Qed.

Lemma map_keys t kvs :
  gsupp (GMap t kvs) = true ->
  (forall kv, In kv kvs -> is_key (fst kv) = true) /\ nodup_keys (map fst kvs) = true.
Proof.
  intros S. pose proof (gall_here _ _ S) as H. cbn [supp_local] in H.
  apply andb_true_iff in H as [H1 H2]. rewrite forallb_forall in H1. auto.
Qed.

Lemma existsb_key_in k ks : is_key k = true -> In k ks -> existsb (prim_eqb k) ks = true.
Proof.
  intros K I. apply existsb_exists. exists k. split; [exact I|apply key_eqb_refl; exact K].
Qed.

Lemma nodup_lookup l : forall k v,
  (forall kv, In kv l -> is_key (fst kv) = true) -> nodup_keys (map fst l) = true ->
  In (k, v) l -> glookup k l = Some v.
Proof.
  induction l as [|[k' v'] l IH]; intros k v K N I; [contradiction|].
  cbn [map fst nodup_keys] in N. apply andb_true_iff in N as [N1 N2].
  cbn [glookup]. destruct I as [E|I].
  - inversion E; subst. rewrite key_eqb_refl; [reflexivity|apply (K (k, v)); left; reflexivity].
  - destruct (prim_eqb k k') eqn:E.
    + apply prim_eqb_eq in E. subst k'.
      rewrite existsb_key_in in N1; [discriminate| |].
      * apply (K (k, v')). left. reflexivity.
      * apply in_map_iff. exists (k, v). split; [reflexivity|exact I].
    + apply IH; [|exact N2|exact I]. intros kv J. apply K. right. exact J.
Qed.

Lemma gequiv_refl n : forall x,
  (gsize x <= n)%nat -> gsupp x = true -> gall refl_local x = true -> gequiv x x.
Proof.
  induction n as [|n IH]; intros x L S R; [pose proof (gsize_pos x); lia|].
  destruct (refl_under _ R) as [p Ux].
  pose proof (gall_under _ _ _ S Ux) as Sp. pose proof (gall_under _ _ _ R Ux) as Rp.
  pose proof (gunder_size _ _ Ux) as Zp. pose proof (gunder_not_ptr _ _ Ux) as NP.
  pose proof (gall_here _ _ Rp) as Rl. pose proof (gall_here _ _ Sp) as Sl.
  assert (PR : is_prim p = true -> gequiv x x).
  { intros Pp. eapply GE_prim; eauto. apply prim_eqb_refl; [exact Pp|].
    unfold refl_local in Rl. apply andb_true_iff in Rl as [Rl _]. destruct (is_nan p); [discriminate|reflexivity]. }
  destruct p; try contradiction; try (apply PR; reflexivity); try discriminate Sl.
  - apply (GE_seq x x _ _ cap l l Ux Ux eq_refl eq_refl). apply Forall2_refl_in. intros e I. apply IH.
    + pose proof (gsize_slice_in ty cap l e I). lia.
    + eapply gall_seq; [exact Sp|reflexivity|exact I].
    + eapply gall_seq; [exact Rp|reflexivity|exact I].
  - apply (GE_seq x x _ _ (zlen l) l l Ux Ux eq_refl eq_refl). apply Forall2_refl_in. intros e I. apply IH.
    + pose proof (gsize_array_in ty l e I). lia.
    + eapply gall_seq; [exact Sp|reflexivity|exact I].
    + eapply gall_seq; [exact Rp|reflexivity|exact I].
  - destruct (map_keys _ _ Sp) as [K N].
    apply (GE_map x x ty kvs kvs Ux Ux eq_refl). apply Forall_forall. intros [k v] I. exists v. cbn [fst snd]. split.
    + apply nodup_lookup; assumption.
    + apply IH.
      * pose proof (gsize_map_in ty kvs k v I). lia.
      * eapply gall_map; [exact Sp|exact I].
      * eapply gall_map; [exact Rp|exact I].
  - apply (GE_struct x x ty ty fields fields Ux Ux). apply Forall2_refl_in. intros f I.
    destruct (fexp f) eqn:E; [right|left; auto]. repeat split; auto. apply IH.
    + pose proof (gsize_struct_in ty fields f I). lia.
    + eapply gall_struct; [exact Sp|exact I].
    + eapply gall_struct; [exact Rp|exact I].
  - rewrite (supp_direct _ _ S Ux eq_refl). constructor.
  - rewrite (supp_direct _ _ S Ux eq_refl). constructor.
Qed.

Lemma op_same_refl o : op_same o o.
Proof. destruct o; cbn; auto. Qed.

Lemma equiv_refl_n n : forall x, (vsz x <= n)%nat -> refl_domain x = true -> equiv x x.
Proof.
  induction n as [|n IH]; intros x L D; [pose proof (vsz_pos x); lia|].
  unfold refl_domain in D. apply andb_true_iff in D as [S R].
  pose proof (vsupp_nozero _ S) as Z.
  destruct x; try contradiction.
  - constructor.
  - constructor. eapply gequiv_refl; [apply Nat.le_refl|eapply vall_leaf; exact S|eapply vall_leaf; exact R].
  - constructor; [split; reflexivity|reflexivity|]. apply Forall2_refl_in. intros e I. apply IH.
    + pose proof (vsz_elem a c els e I). lia.
    + unfold refl_domain, vsupp. rewrite (vall_elem _ _ _ _ _ _ S I), (vall_elem _ _ _ _ _ _ R I). reflexivity.
  - constructor; [apply op_same_refl|]. apply IH; [cbn [vsz] in L; lia|].
    unfold refl_domain, vsupp. rewrite (vall_expr _ _ _ _ _ _ _ S), (vall_expr _ _ _ _ _ _ _ R). reflexivity.
Qed.

Theorem equiv_refl x : refl_domain x = true -> equiv x x.
Proof. apply (equiv_refl_n (vsz x)). apply Nat.le_refl. Qed.

(* ---- symmetry ---- *)
Lemma glookup_in_key k l v : glookup k l = Some v -> exists k', In (k', v) l /\ prim_eqb k k' = true.
Proof.
  induction l as [|[k' v'] l IH]; cbn [glookup]; [discriminate|].
  destruct (prim_eqb k k') eqn:E; intros H.
  - inversion H; subst. exists k'. split; [left; reflexivity|exact E].
  - destruct (IH H) as (k'' & I & P). exists k''. split; [right; exact I|exact P].
Qed.

Lemma nodup_keys_NoDup ks : (forall k, In k ks -> is_key k = true) -> nodup_keys ks = true -> NoDup ks.
Proof.
  induction ks as [|k ks IH]; intros K N; constructor.
  - cbn [nodup_keys] in N. apply andb_true_iff in N as [N _]. intros I.
    rewrite existsb_key_in in N; [discriminate|apply K; left; reflexivity|exact I].
  - cbn [nodup_keys] in N. apply andb_true_iff in N as [_ N]. apply IH; [|exact N]. intros; apply K; right; assumption.
Qed.

Lemma gequiv_sym n : forall x y,
  (gsize x <= n)%nat -> gsupp x = true -> gsupp y = true -> gequiv x y -> gequiv y x.
Proof.
  induction n as [|n IH]; intros x y L Sx Sy H; [pose proof (gsize_pos x); lia|].
  inversion H; subst.
  - eapply GE_prim; eauto; [eapply prim_eqb_prim_r; eauto|rewrite prim_eqb_sym; assumption].
  - pose proof (gunder_size _ _ H0) as Z.
    eapply GE_seq; eauto. eapply Forall2_flip_in; [exact H4|]. intros a b Ia Ib R. apply IH; auto.
    + pose proof (seq_parts_in _ _ _ _ H2 Ia). lia.
    + eapply gall_seq; [eapply gall_under; [exact Sx|exact H0]|exact H2|exact Ia].
    + eapply gall_seq; [eapply gall_under; [exact Sy|exact H1]|exact H3|exact Ib].
  - pose proof (gunder_size _ _ H0) as Z.
    pose proof (gall_under _ _ _ Sx H0) as Sp. pose proof (gall_under _ _ _ Sy H1) as Sq.
    destruct (map_keys _ _ Sp) as [Kx Nx]. destruct (map_keys _ _ Sq) as [Ky Ny].
    rewrite Forall_forall in H3.
    assert (INC : incl (map fst kx) (map fst ky)).
    { intros k I. apply in_map_iff in I as ([k0 v] & E & I). cbn [fst] in E. subst k0.
      destruct (H3 _ I) as (v' & Lk & _). cbn [fst] in Lk.
      destruct (glookup_in_key _ _ _ Lk) as (k' & I' & P). apply prim_eqb_eq in P. subst k'.
      apply in_map_iff. exists (k, v'). split; [reflexivity|exact I']. }
    assert (ND : NoDup (map fst kx)).
    { apply nodup_keys_NoDup; [|exact Nx]. intros k I. apply in_map_iff in I as (kv & E & I). subst k. apply Kx. exact I. }
    assert (INC' : incl (map fst ky) (map fst kx)).
    { apply NoDup_length_incl; [exact ND| |exact INC]. rewrite !map_length. lia. }
    eapply GE_map; eauto. apply Forall_forall. intros [k' v'] I'. cbn [fst snd].
    assert (I0 : In k' (map fst kx)) by (apply INC'; apply in_map_iff; exists (k', v'); split; [reflexivity|exact I']).
    apply in_map_iff in I0 as ([k0 v] & E & I0). cbn [fst] in E. subst k0.
    exists v. split; [apply nodup_lookup; assumption|].
    destruct (H3 _ I0) as (v'' & Lk & R). cbn [fst snd] in *.
    rewrite (nodup_lookup _ _ _ Ky Ny I') in Lk. inversion Lk; subst v''.
    apply IH; auto.
    + pose proof (gsize_map_in t kx k' v I0). lia.
    + eapply gall_map; [exact Sp|exact I0].
    + eapply gall_map; [exact Sq|exact I'].
  - pose proof (gunder_size _ _ H0) as Z.
    pose proof (gall_under _ _ _ Sx H0) as Sp. pose proof (gall_under _ _ _ Sy H1) as Sq.
    eapply GE_struct; eauto. eapply Forall2_flip_in; [exact H2|]. intros f f' If If' [[E1 E2]|(E1 & E2 & E3 & R)]; cbn beta.
    + left. auto.
    + right. repeat split; auto. apply IH; auto.
      * pose proof (gsize_struct_in tx fx f If). lia.
      * eapply gall_struct; [exact Sp|exact If].
      * eapply gall_struct; [exact Sq|exact If'].
  - constructor.
  - constructor.
Qed.

Lemma op_same_sym a b : op_same a b -> op_same b a.
Proof. destruct a, b; cbn; intuition congruence. Qed.

Lemma equiv_sym_n n : forall x y, (vsz x <= n)%nat -> vsupp x = true -> vsupp y = true -> equiv x y -> equiv y x.
Proof.
  induction n as [|n IH]; intros x y L Sx Sy H; [pose proof (vsz_pos x); lia|].
  inversion H; subst.
  - constructor.
  - constructor. eapply gequiv_sym; [apply Nat.le_refl|eapply vall_leaf; exact Sx|eapply vall_leaf; exact Sy|assumption].
  - constructor.
    + match goal with K : same_kind _ _ |- _ => destruct K as [K1 K2]; split; congruence end.
    + congruence.
    + eapply Forall2_flip_in; [eassumption|]. intros e e' I I' R. apply IH; auto.
      * pose proof (vsz_elem a c els e I). lia.
      * eapply vall_elem; [exact Sx|exact I].
      * eapply vall_elem; [exact Sy|exact I'].
  - constructor; [apply op_same_sym; assumption|]. apply IH; auto.
    + cbn [vsz] in L. lia.
    + eapply vall_expr; exact Sx.
    + eapply vall_expr; exact Sy.
Qed.

Theorem equiv_sym x y : vsupp x = true -> vsupp y = true -> equiv x y -> equiv y x.
Proof. apply (equiv_sym_n (vsz x)). apply Nat.le_refl. Qed.

(* ================================================================== *)
(* E. the theorems of C05 *)

(* with the three repairs in: on every supported pair the model returns a
   verdict (no panic, nothing unmodelled) and the verdict is nil exactly for
   equivalent trees *)
Theorem is_equal_correct x y :
  is_receiver x = true -> vsupp x = true -> vsupp y = true ->
  (is_equal repaired x y = Ok true <-> equiv x y) /\
  (exists b, is_equal repaired x y = Ok b).
Proof.
  intros R Sx Sy.
  rewrite (is_equal_decides repaired x y R (vdom_repaired _ Sx) (vdom_repaired _ Sy) (or_introl eq_refl)).
  split; [|eexists; reflexivity]. rewrite <- equivb_iff. split; [intros E; inversion E; reflexivity|intros ->; reflexivity].
Qed.

(* the same for any two elements (valuesEqual), not only receivers *)
Theorem values_equal_correct x y :
  vsupp x = true -> vsupp y = true ->
  (values_equal repaired (vsz x) x y = Ok true <-> equiv x y) /\
  (exists b, values_equal repaired (vsz x) x y = Ok b).
Proof.
  intros Sx Sy. rewrite (values_equal_decides repaired x y (vdom_repaired _ Sx) (vdom_repaired _ Sy)).
  split; [|eexists; reflexivity]. rewrite <- equivb_iff. split; [intros E; inversion E; reflexivity|intros ->; reflexivity].
Qed.

(* the code as it is: the same, away from the three deviating shapes *)
Theorem is_equal_as_is_partial x y :
  is_receiver x = true -> vsupp x = true -> vsupp y = true ->
  no_nil_elem x = true -> no_nil_elem y = true ->
  no_lone_private x = true -> no_lone_private y = true ->
  (conv_cond x = false \/ conv_cond y = true) ->
  (is_equal as_is x y = Ok true <-> equiv x y) /\
  (exists b, is_equal as_is x y = Ok b).
Proof.
  intros R Sx Sy Nx Ny Lx Ly C.
  rewrite (is_equal_decides as_is x y R (vdom_as_is _ Sx Nx Lx) (vdom_as_is _ Sy Ny Ly) (or_intror C)).
  split; [|eexists; reflexivity]. rewrite <- equivb_iff. split; [intros E; inversion E; reflexivity|intros ->; reflexivity].
Qed.

Lemma not_equiv_of_b x y : equivb x y = false -> ~ equiv x y.
Proof. intros E H. apply equivb_iff in H. congruence. Qed.

(* witnesses of the deviations (each is also a corpus case of family equal) *)
Definition w_nilslice : value :=
  VStack Native (cfgS 6 0 [] [] [] false 0) [VLeaf (GSlice 102 1 [GNilPtr 1 0])].   (* Basic().Push([]*int{nil}) *)
Definition w_private : value :=
  VStack Native (cfgS 6 0 [] [] [] false 0) [VLeaf (GStruct 163 [(B "a", false, GInt 0 1)])].   (* Basic().Push(struct{a int}{1}) *)
Definition w_stack : value :=
  VStack Native (cfgS 6 0 [] [] [] false 0) [VStack Native (cfgS 6 0 [] [] [] false 0) []].     (* Basic().Push(Basic()) *)
Definition w_cond : value :=
  VCond Native (cfgS 5 0 [] [] [] false 0) (B "k") (Some (OpBuiltin 1)) (VLeaf (GStr (B "v"))). (* Cond("k", Eq, "v") *)
Definition w_and : value := VStack Native (cfgS 1 0 [] [] [] false 0) [].                       (* And() *)

Theorem as_is_nil_elem_panic_refuted :
  exists x y, is_receiver x = true /\ vsupp x = true /\ vsupp y = true /\ is_equal as_is x y = Panic.
Proof. exists w_nilslice, w_nilslice. repeat split; vm_compute; reflexivity. Qed.

Theorem as_is_private_struct_refuted :
  exists x y, is_receiver x = true /\ is_receiver y = true /\ vsupp x = true /\ vsupp y = true /\
              ~ equiv x y /\ is_equal as_is x y = Ok true /\ is_equal as_is y x = Ok false.
Proof.
  exists w_private, w_stack. repeat split; try (vm_compute; reflexivity).
  apply not_equiv_of_b. vm_compute. reflexivity.
Qed.

Theorem as_is_cond_argument_refuted :
  exists x y, is_receiver x = true /\ is_receiver y = true /\ vsupp x = true /\ vsupp y = true /\
              ~ equiv x y /\ is_equal as_is x y = Ok true /\ is_equal as_is y x = Ok false.
Proof.
  exists w_cond, w_and. repeat split; try (vm_compute; reflexivity).
  apply not_equiv_of_b. vm_compute. reflexivity.
Qed.

(* an independently rebuilt copy is accepted *)
Theorem rebuilt_copy_accepted x :
  is_receiver x = true -> refl_domain x = true -> is_equal repaired x x = Ok true.
Proof.
  intros R D. pose proof D as D'. unfold refl_domain in D'. apply andb_true_iff in D' as [S _].
  apply (is_equal_correct x x R S S). apply equiv_refl. exact D.
Qed.

(* the verdict is the same in both directions *)
Theorem is_equal_symmetric x y :
  is_receiver x = true -> is_receiver y = true -> vsupp x = true -> vsupp y = true ->
  is_equal repaired x y = is_equal repaired y x.
Proof.
  intros Rx Ry Sx Sy.
  rewrite (is_equal_decides repaired x y Rx (vdom_repaired _ Sx) (vdom_repaired _ Sy) (or_introl eq_refl)).
  rewrite (is_equal_decides repaired y x Ry (vdom_repaired _ Sy) (vdom_repaired _ Sx) (or_introl eq_refl)).
  f_equal. destruct (equivb x y) eqn:E; destruct (equivb y x) eqn:F; try reflexivity.
  - apply equivb_iff in E. apply (equiv_sym _ _ Sx Sy) in E. apply equivb_iff in E. congruence.
  - apply equivb_iff in F. apply (equiv_sym _ _ Sy Sx) in F. apply equivb_iff in F. congruence.
Qed.

(* every point mutation is reported, in both directions *)
Theorem mutation_reported x y :
  is_receiver x = true -> vsupp x = true -> vsupp y = true -> mutate1 x y ->
  is_equal repaired x y = Ok false /\ (is_receiver y = true -> is_equal repaired y x = Ok false).
Proof.
  intros Rx Sx Sy M. pose proof (mutate1_not_equiv _ _ M) as NE.
  assert (E : is_equal repaired x y = Ok false).
  { destruct (is_equal_correct x y Rx Sx Sy) as [I [b B]]. rewrite B. destruct b; [|reflexivity].
    exfalso. apply NE. apply I. exact B. }
  split; [exact E|]. intros Ry. rewrite <- (is_equal_symmetric x y Rx Ry Sx Sy). exact E.
Qed.
