(* GuardProps.v -- the guard analyses applied to the table regenerated from
   /repo (GeneratedIR.v): every exported method of Stack, *Stack, Condition,
   *Condition (and Auxiliary) is covered, because the quantifier ranges over
   the generated entry list.  Claim sets are computed here by vm_compute and
   then CHECKED to be post-fixpoints; soundness is Guard.entry_accepted_sound. *)
From Stackage Require Import Base Guard GeneratedIR.

Definition is_inst_class (e : entry) : bool :=
  existsb (N.eqb (en_recv e)) [rc_Stack; rc_StackPtr; rc_Cond; rc_CondPtr].

Definition named (l : list (N * bytes)) (e : entry) : bool :=
  existsb (fun p => (fst p =? en_recv e)%N && bytes_eqb (snd p) (en_name e)) l.

(* ---- C17: the zero receiver ---- *)
(* the two methods whose purpose is to initialise *)
Definition zero_exceptions : list (N * bytes) := [(rc_CondPtr, B "Init"); (rc_StackPtr, B "Marshal")].
Definition U_zero := Eval vm_compute in refine 80 ir_table bad_zero env_zero [].
Definition U_zero_aux := Eval vm_compute in refine 80 ir_table bad_zero_deref env_zero [].

Definition zero_check : bool :=
  post_fixpoint ir_table bad_zero env_zero U_zero &&
  forallb (fun e => negb (is_inst_class e) || named zero_exceptions e || entry_accepted ir_table U_zero e) ir_entries &&
  post_fixpoint ir_table bad_zero_deref env_zero U_zero_aux &&
  forallb (fun e => negb (en_recv e =? rc_Aux)%N || entry_accepted ir_table U_zero_aux e) ir_entries.

Lemma zero_inert_static :
  zero_check = true ->
  (forall e, In e ir_entries -> is_inst_class e = true -> named zero_exceptions e = false ->
             entry_ok ir_table bad_zero env_zero e) /\
  (forall e, In e ir_entries -> en_recv e = rc_Aux -> entry_ok ir_table bad_zero_deref env_zero e).
Proof.
  unfold zero_check. intros H.
  apply andb_true_iff in H as [H H4]. apply andb_true_iff in H as [H H3]. apply andb_true_iff in H as [H1 H2].
  rewrite forallb_forall in H2, H4. split.
  - intros e He Hc Hn. specialize (H2 e He). rewrite Hc, Hn in H2. cbn in H2.
    apply (entry_accepted_sound _ _ _ _ H1 _ H2).
  - intros e He Hc. specialize (H4 e He). rewrite Hc, N.eqb_refl in H4. cbn in H4.
    apply (entry_accepted_sound _ _ _ _ H3 _ H4).
Qed.

(* ---- C17, results: on a zero receiver every result stays the zero value ----
   The entry points are analysed in their result-tracking translation
   (ir_entries_res): an ERes event marks every place where a result may become
   non-zero - a return of, or an assignment to a named result from, anything
   that is not syntactically the zero value (or the value receiver itself),
   "return f(...)" / "results = f(...)" of a package function continuing in
   that function's result-tracking body.  The documented exceptions: the two
   initialisers, the error-returning Valid / IsEqual, the truthful IsZero /
   IsEmpty, and the sentinel strings of ID / Kind / Addr. *)
Definition is_res (e : ev) : bool := match e with ERes => true | _ => false end.
Definition bad_zero_res (other : bool) (e : ev) : bool := is_res e.
Definition zero_res_exceptions : list (N * bytes) :=
  [(rc_CondPtr, B "Init"); (rc_StackPtr, B "Marshal");
   (rc_Stack, B "Valid"); (rc_Cond, B "Valid"); (rc_Stack, B "IsEqual"); (rc_Cond, B "IsEqual");
   (rc_Stack, B "IsZero"); (rc_Cond, B "IsZero"); (rc_Stack, B "IsEmpty");
   (rc_Stack, B "ID"); (rc_Stack, B "Kind"); (rc_Stack, B "Addr")].
Definition U_zero_res := Eval vm_compute in refine 80 ir_table bad_zero_res env_zero [].

Definition zero_res_check : bool :=
  post_fixpoint ir_table bad_zero_res env_zero U_zero_res &&
  forallb (fun e => negb (is_inst_class e) || named zero_res_exceptions e || entry_accepted ir_table U_zero_res e) ir_entries_res.

Lemma zero_results_static :
  zero_res_check = true ->
  forall e, In e ir_entries_res -> is_inst_class e = true -> named zero_res_exceptions e = false ->
            entry_ok ir_table bad_zero_res env_zero e.
Proof.
  unfold zero_res_check. intros H. apply andb_true_iff in H as [H1 H2]. rewrite forallb_forall in H2.
  intros e He Hc Hn. specialize (H2 e He). rewrite Hc, Hn in H2. cbn in H2.
  apply (entry_accepted_sound _ _ _ _ H1 _ H2).
Qed.

(* the two entry lists name the same methods, in the same order *)
Definition same_entry_names : bool :=
  (length ir_entries =? length ir_entries_res)%nat &&
  forallb (fun p => bytes_eqb (en_name (fst p)) (en_name (snd p)) && (en_recv (fst p) =? en_recv (snd p))%N)
          (combine ir_entries ir_entries_res).

Fixpoint has_res (s : gstmt) : bool :=
  match s with
  | GSeq a b | GFinally a b => has_res a || has_res b
  | GIf _ t e => has_res t || has_res e
  | GLoop b => has_res b
  | GEv ERes => true
  | _ => false
  end.

(* ---- C09: the read-only receiver ---- *)
Definition ro_exceptions : list (N * bytes) :=
  [(rc_Stack, B "SetReadOnly"); (rc_Stack, B "ReadOnly"); (rc_Cond, B "SetReadOnly");
   (rc_Stack, B "SetErr"); (rc_Cond, B "SetErr"); (rc_CondPtr, B "Init")].
Definition U_ro := Eval vm_compute in refine 80 ir_table bad_ro env_ro [].

Definition ro_check : bool :=
  post_fixpoint ir_table bad_ro env_ro U_ro &&
  forallb (fun e => negb (is_inst_class e) || named ro_exceptions e || entry_accepted ir_table U_ro e) ir_entries.

Lemma ro_no_write_static :
  ro_check = true ->
  forall e, In e ir_entries -> is_inst_class e = true -> named ro_exceptions e = false ->
            entry_ok ir_table bad_ro env_ro e.
Proof.
  unfold ro_check. intros H. apply andb_true_iff in H as [H1 H2]. rewrite forallb_forall in H2.
  intros e He Hc Hn. specialize (H2 e He). rewrite Hc, Hn in H2. cbn in H2.
  apply (entry_accepted_sound _ _ _ _ H1 _ H2).
Qed.

(* ---- C15: Transfer leaves its source alone ----
   the receiver of Stack.Transfer is the source; everything done to the
   destination happens in calls on another object (tagged).  No store into
   the source and no lock operation on it, on any path, for any destination. *)
Definition is_lockev (e : ev) : bool := match e with ELock | EUnlock | EMLock | EMUnlock => true | _ => false end.
Definition bad_src (other : bool) (e : ev) : bool := negb other && (is_inst_write e || is_lockev e).
Definition U_src := Eval vm_compute in refine 80 ir_table bad_src env_init [].
Definition is_transfer (e : entry) : bool := (en_recv e =? rc_Stack)%N && bytes_eqb (en_name e) (B "Transfer").

Definition transfer_src_check : bool :=
  post_fixpoint ir_table bad_src env_init U_src &&
  forallb (fun e => negb (is_transfer e) || entry_accepted ir_table U_src e) ir_entries &&
  existsb is_transfer ir_entries.

Lemma transfer_source_static :
  transfer_src_check = true ->
  (exists e, In e ir_entries /\ is_transfer e = true) /\
  forall e, In e ir_entries -> is_transfer e = true -> entry_ok ir_table bad_src env_init e.
Proof.
  unfold transfer_src_check. intros H. apply andb_true_iff in H as [H H3]. apply andb_true_iff in H as [H1 H2].
  split.
  - apply existsb_exists in H3 as (e & He & Ht). exists e. auto.
  - rewrite forallb_forall in H2. intros e He Ht. specialize (H2 e He). rewrite Ht in H2. cbn in H2.
    apply (entry_accepted_sound _ _ _ _ H1 _ H2).
Qed.

(* ---- C13 / C18: only the content mutators can change content ----
   no other exported method - in particular no option switch and no setter of
   a string-valued or closure-valued setting - stores into a slice header, an
   element slot, a part of a Condition or a handle, of the receiver or of any
   nested object, on any path *)
Definition is_content_store (e : ev) : bool :=
  match e with EWrite LHdr | EWrite LSlot | EWrite LCond | EWrite LHandle => true | _ => false end.
Definition bad_content (other : bool) (e : ev) : bool := is_content_store e.
Definition content_mutators : list (N * bytes) :=
  map (fun n => (rc_Stack, B n)) ["Push"; "Pop"; "Insert"; "Remove"; "Replace"; "Swap"; "Reverse"; "Reset";
                                   "Defrag"; "Reveal"; "Transfer"]%string ++
  [(rc_StackPtr, B "Marshal"); (rc_StackPtr, B "Free"); (rc_CondPtr, B "Init"); (rc_CondPtr, B "Free");
   (rc_Cond, B "SetKeyword"); (rc_Cond, B "SetOperator"); (rc_Cond, B "SetExpression")].
Definition U_content := Eval vm_compute in refine 80 ir_table bad_content env_init [].

Definition content_check : bool :=
  post_fixpoint ir_table bad_content env_init U_content &&
  forallb (fun e => negb (is_inst_class e) || named content_mutators e || entry_accepted ir_table U_content e) ir_entries.

Lemma content_untouched_static :
  content_check = true ->
  forall e, In e ir_entries -> is_inst_class e = true -> named content_mutators e = false ->
            entry_ok ir_table bad_content env_init e.
Proof.
  unfold content_check. intros H. apply andb_true_iff in H as [H1 H2]. rewrite forallb_forall in H2.
  intros e He Hc Hn. specialize (H2 e He). rewrite Hc, Hn in H2. cbn in H2.
  apply (entry_accepted_sound _ _ _ _ H1 _ H2).
Qed.

(* the setters the two properties name are covered (not among the exceptions) *)
Definition option_setters : list bytes :=
  map B ["SetParen"; "Paren"; "SetFold"; "Fold"; "SetNoPadding"; "NoPadding"; "SetLeadOnce"; "LeadOnce";
         "SetNegativeIndices"; "NegativeIndices"; "SetForwardIndices"; "ForwardIndices"; "SetNoNesting"; "NoNesting";
         "SetReadOnly"; "ReadOnly"; "SetFIFO"; "SetMutex"; "SetID"; "SetCategory"; "SetDelimiter"; "SetSymbol";
         "SetEncap"; "SetAuxiliary"; "SetLogLevel"; "UnsetLogLevel"; "SetLogger"; "SetErr"]%string.
Definition option_setters_covered : bool :=
  forallb (fun q => existsb (fun e => (en_recv e =? rc_Stack)%N && bytes_eqb (en_name e) q &&
                                      negb (named content_mutators e)) ir_entries) option_setters.

(* ---- C11: queries ---- *)
(* the declared mutator list: everything NOT listed here is a query and must
   not store anything (into the receiver or any nested object) nor touch the
   lock *)
Definition stack_mutators : list bytes :=
  map B ["Push"; "Pop"; "Insert"; "Remove"; "Replace"; "Swap"; "Reverse"; "Reset"; "Defrag"; "Reveal"; "Transfer";
         "SetParen"; "Paren"; "SetFold"; "Fold"; "SetNoPadding"; "NoPadding"; "SetLeadOnce"; "LeadOnce";
         "SetNegativeIndices"; "NegativeIndices"; "SetForwardIndices"; "ForwardIndices"; "SetNoNesting"; "NoNesting";
         "SetReadOnly"; "ReadOnly"; "SetFIFO"; "SetMutex"; "Mutex"; "SetID"; "SetCategory"; "SetDelimiter";
         "SetSymbol"; "Symbol"; "SetEncap"; "Encap"; "SetAuxiliary"; "SetErr"; "SetLogger"; "SetLogLevel"; "UnsetLogLevel";
         "SetLessFunc"; "SetPushPolicy"; "SetPresentationPolicy"; "SetValidityPolicy"; "SetEqualityPolicy";
         "SetMarshaler"; "SetUnmarshaler"; "Marshal"; "Free"]%string.
Definition cond_mutators : list bytes :=
  map B ["Init"; "Free"; "SetKeyword"; "SetOperator"; "SetExpression"; "SetParen"; "Paren"; "SetNoPadding"; "NoPadding";
         "SetNoNesting"; "NoNesting"; "SetReadOnly"; "SetID"; "SetCategory"; "SetEncap"; "Encap"; "SetAuxiliary";
         "SetErr"; "SetLogger"; "SetLogLevel"; "UnsetLogLevel"; "SetEvaluator"; "SetPresentationPolicy";
         "SetValidityPolicy"; "SetEqualityPolicy"; "SetUnmarshaler"]%string.

Definition is_mutator (e : entry) : bool :=
  if ((en_recv e =? rc_Stack) || (en_recv e =? rc_StackPtr))%N then existsb (bytes_eqb (en_name e)) stack_mutators
  else existsb (bytes_eqb (en_name e)) cond_mutators.

Definition U_query := Eval vm_compute in refine 80 ir_table bad_query env_init [].

Definition query_check : bool :=
  post_fixpoint ir_table bad_query env_init U_query &&
  forallb (fun e => negb (is_inst_class e) || is_mutator e || entry_accepted ir_table U_query e) ir_entries.

Lemma query_no_write_static :
  query_check = true ->
  forall e, In e ir_entries -> is_inst_class e = true -> is_mutator e = false ->
            entry_ok ir_table bad_query env_init e.
Proof.
  unfold query_check. intros H. apply andb_true_iff in H as [H1 H2]. rewrite forallb_forall in H2.
  intros e He Hc Hn. specialize (H2 e He). rewrite Hc, Hn in H2. cbn in H2.
  apply (entry_accepted_sound _ _ _ _ H1 _ H2).
Qed.

(* the property's named queries are really classified as queries (so the
   theorem is not vacuous about them) *)
Definition named_queries : list bytes :=
  map B ["String"; "Index"; "Front"; "Back"; "Traverse"; "Len"; "Cap"; "Avail"; "Kind"; "Valid"; "IsEqual"; "Unmarshal";
         "Less"; "IsEmpty"; "IsInit"; "IsZero"; "IsFIFO"; "IsParen"; "IsEncap"; "IsPadded"; "IsNesting"; "IsReadOnly";
         "IsFull"; "CanNest"; "CanMutex"]%string.
Definition named_queries_present : bool :=
  forallb (fun q => existsb (fun e => (en_recv e =? rc_Stack)%N && bytes_eqb (en_name e) q && negb (is_mutator e)) ir_entries)
          named_queries.

(* which entries fail, for the check's diagnostics *)
Definition failing (U : list (N * bool)) (exc : entry -> bool) : list (N * bytes) :=
  map (fun e => (en_recv e, en_name e))
      (filter (fun e => is_inst_class e && negb (exc e) && negb (entry_accepted ir_table U e)) ir_entries).
