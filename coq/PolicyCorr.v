(* PolicyCorr.v -- the closures family: table-driven closures whose results
   are determined by their identity; a recorded case is a list of calls with
   the outcome class observed (which closure answered, or the built-in). *)
From Stackage Require Import Base Generated Policy.
Open Scope N_scope.

(* the harness's closures: validity closure f rejects iff f is odd (error id = f);
   presentation closure f renders the marker f; equality closure f reports an
   error iff f is odd; unmarshal closure f returns marker f and an error iff odd;
   marshal closure likewise; evaluator f returns marker f, error iff odd *)
Definition t_vp (f : N) (_ : unit) : option N := if N.odd f then Some f else None.
Definition t_rp (f : N) (_ : unit) : N := f.
Definition t_ep (f : N) (_ _ : unit) : option N := if N.odd f then Some f else None.
Definition t_up (f : N) : N * option N := (f, if N.odd f then Some f else None).
Definition t_mp (f : N) (_ : N) : option N := if N.odd f then Some f else None.
Definition t_vl (f : N) (_ : N) : N * option N := (f, if N.odd f then Some f else None).

Inductive pcall :=
| PValid | PString | PIsEqual | PUnmarshal | PMarshal | PEvaluate | PErrSet
| PSet (slot : N) (f : option N).   (* slot: 1 vpf 2 rpf 3 eqf 4 umf 5 maf 6 evl *)

(* observed outcome classes *)
Inductive pobs :=
| OErr (b : bool)                 (* Valid / IsEqual / Marshal: error? *)
| OMark (m : N) (err : bool)      (* a closure's marker came back *)
| OBuiltin                        (* the built-in answered (non-empty / structural result) *)
| OEmpty                          (* String() == "" *)
| OUnit.

Record pcase := MkP { pc_cond : bool; pc_kind : N; pc_calls : list pcall; pc_obs : list pobs }.

Definition setslot (c : pcfg) (slot : N) (f : option N) (is_cond : bool) : pcfg :=
  let mk v r e u m l er := {| p_kind := p_kind c; p_vpf := v; p_rpf := r; p_eqf := e; p_umf := u; p_maf := m; p_evl := l; p_err := er |} in
  match slot with
  | 1 => mk f (p_rpf c) (p_eqf c) (p_umf c) (p_maf c) (p_evl c) (p_err c)
  | 2 => if is_cond then mk (p_vpf c) f (p_eqf c) (p_umf c) (p_maf c) (p_evl c) (p_err c) else set_rpf c f
  | 3 => mk (p_vpf c) (p_rpf c) f (p_umf c) (p_maf c) (p_evl c) (p_err c)
  | 4 => mk (p_vpf c) (p_rpf c) (p_eqf c) f (p_maf c) (p_evl c) (p_err c)
  | 5 => mk (p_vpf c) (p_rpf c) (p_eqf c) (p_umf c) f (p_evl c) (p_err c)
  | _ => mk (p_vpf c) (p_rpf c) (p_eqf c) (p_umf c) (p_maf c) f (p_err c)
  end.

Definition isSome {A} (o : option A) : bool := match o with Some _ => true | None => false end.

(* the stack under test is always valid and non-empty by its built-in rules,
   equal to its comparand, and its built-in Marshal input is well-formed *)
Definition pstep (is_cond : bool) (c : pcfg) (call : pcall) : pcfg * pobs :=
  match call with
  | PSet slot f => (setslot c slot f is_cond, OUnit)
  | PErrSet => (c, OErr (p_err c))
  | PValid =>
      if is_cond then
        (c, match Cond_Valid unit t_vp c tt with VClosure e => OErr (isSome e) | VBuiltIn => OErr false end)
      else (c, OErr (isSome (Stack_Valid unit t_vp c tt)))
  | PString =>
      (c, match (if is_cond then Cond_String unit N t_vp t_rp c tt true else Stack_String unit N t_vp t_rp c tt) with
          | ByClosure m => OMark m false | BuiltIn => OBuiltin | Empty => OEmpty end)
  | PIsEqual =>
      (c, match (if is_cond then Cond_IsEqual unit t_ep c tt tt else Stack_IsEqual unit t_ep c tt tt) with
          | EqClosure e => OErr (isSome e) | EqBuiltIn => OErr false end)
  | PUnmarshal =>
      (c, match (if is_cond then Cond_Unmarshal N t_up c else Stack_Unmarshal N t_up c) with
          | UClosure m e => OMark m (isSome e) | UBuiltIn => OBuiltin end)
  | PMarshal =>
      (c, match Stack_Marshal N t_mp c 0 with MClosure e => OErr (isSome e) | MBuiltIn => OErr false end)
  | PEvaluate =>
      (c, match Cond_Evaluate N t_vl c 0 with EvClosure m e => OMark m (isSome e) | EvNone => OErr true end)
  end.

Fixpoint prun (is_cond : bool) (c : pcfg) (calls : list pcall) : list pobs :=
  match calls with
  | [] => []
  | x :: t => let '(c', o) := pstep is_cond c x in o :: prun is_cond c' t
  end.

Definition pobs_eqb (a b : pobs) : bool :=
  match a, b with
  | OErr x, OErr y => Bool.eqb x y
  | OMark m e, OMark m' e' => (m =? m') && Bool.eqb e e'
  | OBuiltin, OBuiltin | OEmpty, OEmpty | OUnit, OUnit => true
  | _, _ => false
  end.

Definition p0 (k : N) : pcfg := {| p_kind := k; p_vpf := None; p_rpf := None; p_eqf := None; p_umf := None; p_maf := None; p_evl := None; p_err := false |}.

Definition pcheck (c : pcase) : N :=
  if list_eqb pobs_eqb (prun (pc_cond c) (p0 (pc_kind c)) (pc_calls c)) (pc_obs c) then 0 else 3.

Fixpoint nonzero_from {A} (f : A -> N) (i : N) (l : list A) : list (N * N) :=
  match l with
  | [] => []
  | x :: t => let v := f x in
              if (v =? 0) then nonzero_from f (i + 1) t else (i, v) :: nonzero_from f (i + 1) t
  end.
Definition verdicts {A} (f : A -> N) (l : list A) : list (N * N) := nonzero_from f 0 l.
