(* StackSpecCorr.v -- specification-side evaluation of recorded histories.
   Independent of Generated.v and StackImpl.v, so that the specification can
   still be used as the oracle when the translated fragments or the model no
   longer compile.  Executable definitions only. *)
From Stackage Require Import Base StackSpec.
Open Scope Z_scope.

Inductive el := ENil | EV (n : Z) | ES (n : Z).

Definition el_isnil (e : el) : bool := match e with ENil => true | _ => false end.
Definition el_isstack (e : el) : bool := match e with ES _ => true | _ => false end.
Definition el_eqb (a b : el) : bool :=
  match a, b with
  | ENil, ENil => true
  | EV x, EV y => x =? y
  | ES x, ES y => x =? y
  | _, _ => false
  end.

(* table-driven policies of the harness: policy p (a bit mask) rejects int n
   iff bit n mod 16 is set, nil iff bit 0, stacks iff bit 15 *)
Definition el_pol (p : N) (e : el) : option N :=
  let bit := match e with ENil => 0%N | EV n => Z.to_N (n mod 16) | ES _ => 15%N end in
  if N.testbit p bit then Some (100 + bit)%N else None.

Fixpoint all2 {A B} (f : A -> B -> bool) (a : list A) (b : list B) : bool :=
  match a, b with
  | [], [] => true
  | x :: a', y :: b' => f x y && all2 f a' b'
  | _, _ => false
  end.

Fixpoint nonzero_from {A} (f : A -> N) (i : N) (l : list A) : list (N * N) :=
  match l with
  | [] => []
  | x :: t => let v := f x in
              if (v =? 0)%N then nonzero_from f (i + 1)%N t else (i, v) :: nonzero_from f (i + 1)%N t
  end.
Definition verdicts {A} (f : A -> N) (l : list A) : list (N * N) := nonzero_from f 0%N l.

Definition spec_init (k : N) (c : option Z) : sstate el :=
  {| s_cfg := {| a_kind := k; a_cap := match c with Some z => if 0 <? z then Some z else None | None => None end;
                 a_opts := 0; a_fifo := false; a_err := None; a_ppf := None |};
     s_elems := [] |}.

Definition i_srun := srun el ENil el_isnil el_isstack el_pol.

(* The harness prints one case text; under this module the same text parses
   as a specification-level case. *)
Module SpecSyntax.
  Inductive rslot := SVal (e : el) | SCfg (u : unit).
  Definition leak_cfg := tt.
  Inductive rout := RUnit | RVal (s : rslot) (ok : bool) | RBool (b : bool) | RInt (z : Z) | RLog (l : list el).
  Notation OPush := (@SPush el). Notation OPop := (@SPop el). Notation OInsert := (@SInsert el).
  Notation ORemove := (@SRemove el). Notation OReplace := (@SReplace el). Notation OSwap := (@SSwap el).
  Notation OReverse := (@SReverse el). Notation OReset := (@SReset el). Notation OSetFIFO := (@SSetFIFO el).
  Notation OSetOpt := (@SSetOpt el). Notation OSetPolicy := (@SSetPolicy el). Notation OLen := (@SLen el).
  Notation OIndex := (@SIndex el). Notation OFront := (@SFront el). Notation OBack := (@SBack el).
  Notation OIsEmpty := (@SIsEmpty el). Notation OCap := (@SCap el). Notation OAvail := (@SAvail el).
  Notation OIsFull := (@SIsFull el). Notation OCanNest := (@SCanNest el). Notation OIsNesting := (@SIsNesting el).
  Notation OIsFIFO := (@SIsFIFO el). Notation OGetOpt := (@SGetOpt el). Notation OErrIsNil := (@SErrIsNil el).

  Record scase := MkH {
    h_kind : N; h_cap : option Z;
    h_ops : list (sop el); h_outs : list rout; h_panic : bool }.

  Definition sout_matches (x : sout el) (o : rout) : bool :=
    match x, o with
    | XUnit, RUnit => true
    | XVal v ok, RVal (SVal v') ok' => el_eqb v v' && Bool.eqb ok ok'
    | XBool a, RBool b => Bool.eqb a b
    | XInt a, RInt b => a =? b
    | XLog a, RLog b => list_eqb el_eqb a b
    | _, _ => false
    end.

  Definition spec_ok (c : scase) : bool :=
    negb (h_panic c) &&
    all2 sout_matches (snd (i_srun (spec_init (h_kind c) (h_cap c)) (h_ops c))) (h_outs c).

  Definition check (c : scase) : N := if spec_ok c then 0%N else 2%N.
End SpecSyntax.
