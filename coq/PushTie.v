(* PushTie.v -- the hand-written loops of StackImpl.push are the loops of the
   source: one iteration of genericAppend / methodAppend and canPushNester are
   regenerated from /repo (Generated.g_genericAppend_body,
   g_methodAppend_body, g_canPushNester: the body of the single top-level loop
   "for i := 0; i < len(x); i++", nothing but declarations around it), and the
   model's iteration is proved to be that decision tree.  What each cut point
   goes on to do is pinned as text. *)
From Stackage Require Import Base Generated StackImpl.
Open Scope Z_scope.

Section Tie.
  Variable V : Type.
  Variable nilv : V.
  Variable isnil isstack : V -> bool.
  Variable pol : N -> V -> option N.
  Local Notation raw := (raw V).

  Lemma can_push_nester_is_source (c : scfg) (x : V) :
    can_push_nester V isstack c x = g_canPushNester (positive c c_nnest) (isstack x).
  Proof. unfold can_push_nester, g_canPushNester. destruct (positive c c_nnest); reflexivity. Qed.

  (* one iteration of genericAppend *)
  Lemma generic_append_iteration (c : scfg) (r : raw) (x : V) (xs : list V) :
    generic_append V isstack c r (x :: xs) =
    match g_genericAppend_body (g_canPushNester (positive c c_nnest) (isstack x)) (g_isFull (zlen r) (k_cap c)) with
    | TCut 0 _ _ => generic_append V isstack c (r ++ [SVal x]) xs      (* *r = append( *r, x[i]) *)
    | _ => generic_append V isstack c r xs
    end.
  Proof.
    cbn [generic_append]. rewrite can_push_nester_is_source. unfold g_genericAppend_body.
    destruct (g_canPushNester _ _); [|reflexivity]. destruct (g_isFull _ _); reflexivity.
  Qed.

  (* one iteration of methodAppend *)
  Lemma method_append_iteration (p : N) (c : scfg) (r : raw) (x : V) (xs log : list V) :
    method_append V pol p c r (x :: xs) log =
    let full := g_isFull (zlen r) (k_cap c) in
    let rejected := match pol p x with Some _ => true | None => false end in
    match g_methodAppend_body full rejected with
    | TCut 0 _ _ =>                                   (* r.setErr(err); break *)
        (r, pol p x, log ++ [x])
    | TCut 1 _ _ =>                                   (* *r = append( *r, x[i]) *)
        method_append V pol p c (r ++ [SVal x]) xs (log ++ [x])
    | _ => method_append V pol p c r xs log
    end.
  Proof.
    cbn [method_append]. unfold g_methodAppend_body. cbv zeta.
    destruct (g_isFull _ _); [reflexivity|]. cbn [negb]. destruct (pol p x); reflexivity.
  Qed.
End Tie.

(* what the code does from each cut point on *)
Lemma generic_append_cut_tails : g_genericAppend_body_tails = ["*r = append(*r, x[i]); pct++"%string].
Proof. reflexivity. Qed.
Lemma method_append_cut_tails :
  g_methodAppend_body_tails = ["r.setErr(err); break"%string; "*r = append(*r, x[i]); pct++"%string].
Proof. reflexivity. Qed.
