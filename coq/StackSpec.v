(* StackSpec.v -- what the properties say a Stack is: an ordered list of
   values plus a handful of settings.  Nothing here mentions the hidden
   configuration slot, +1 offsets, or Generated.v. *)
From Stackage Require Import Base.
Open Scope Z_scope.

(* option bits as the documentation numbers them (README / cfg.go comments) *)
Definition f_negidx : N := 16.
Definition f_fwdidx : N := 32.
Definition f_ronly : N := 128.
Definition f_nnest : N := 256.

Record acfg := {
  a_kind : N;
  a_cap : option Z;     (* capacity, if any *)
  a_opts : N;           (* option bit-set *)
  a_fifo : bool;
  a_err : option N;
  a_ppf : option N
}.

Definition has (o f : N) : bool := negb (N.land o f =? 0)%N.

Section Spec.
  Variable V : Type.
  Variable nilv : V.
  Variable isnil : V -> bool.
  Variable isstack : V -> bool.
  Variable pol : N -> V -> option N.

  Record sstate := { s_cfg : acfg; s_elems : list V }.

  Inductive sop :=
  | SPush (vs : list V) | SPop | SInsert (v : V) (i : Z) | SRemove (i : Z)
  | SReplace (v : V) (i : Z) | SSwap (i j : Z) | SReverse | SReset
  | SSetFIFO (b : bool) | SSetOpt (f : N) (t : option bool) | SSetPolicy (p : option N)
  | SLen | SIndex (i : Z) | SFront | SBack | SIsEmpty | SCap | SAvail | SIsFull
  | SCanNest | SIsNesting | SIsFIFO | SGetOpt (f : N) | SErrIsNil.

  Inductive sout :=
  | XUnit | XVal (v : V) (ok : bool) | XBool (b : bool) | XInt (z : Z) | XLog (l : list V).

  Definition upd_cfg (s : sstate) (c : acfg) : sstate := {| s_cfg := c; s_elems := s_elems s |}.
  Definition upd_elems (s : sstate) (l : list V) : sstate := {| s_cfg := s_cfg s; s_elems := l |}.
  Definition set_opts (c : acfg) (o : N) : acfg :=
    {| a_kind := a_kind c; a_cap := a_cap c; a_opts := o; a_fifo := a_fifo c; a_err := a_err c; a_ppf := a_ppf c |}.
  Definition set_fifo (c : acfg) (b : bool) : acfg :=
    {| a_kind := a_kind c; a_cap := a_cap c; a_opts := a_opts c; a_fifo := b; a_err := a_err c; a_ppf := a_ppf c |}.
  Definition set_err (c : acfg) (e : option N) : acfg :=
    {| a_kind := a_kind c; a_cap := a_cap c; a_opts := a_opts c; a_fifo := a_fifo c; a_err := e; a_ppf := a_ppf c |}.
  Definition set_ppf (c : acfg) (p : option N) : acfg :=
    {| a_kind := a_kind c; a_cap := a_cap c; a_opts := a_opts c; a_fifo := a_fifo c; a_err := a_err c; a_ppf := p |}.

  (* which position, if any, an index addresses (README "negative / forward
     indices"): plain 0..n-1; with negative indices -k is the k-th from the
     end; with forward indices anything past the end is the last one *)
  Definition resolve (neg fwd : bool) (n i : Z) : option Z :=
    if n <=? 0 then None
    else if i <? 0 then (if neg && (- n <=? i) then Some (n + i) else None)
    else if n <=? i then (if fwd then Some (n - 1) else None)
    else Some i.

  Definition nthz (l : list V) (p : Z) : V := nth (Z.to_nat p) l nilv.

  Definition sindex (s : sstate) (i : Z) : V * option Z :=
    let c := s_cfg s in
    match resolve (has (a_opts c) f_negidx) (has (a_opts c) f_fwdidx) (zlen (s_elems s)) i with
    | Some p => (nthz (s_elems s) p, Some p)
    | None => (nilv, None)
    end.

  (* room left: None = unlimited *)
  Definition room (c : acfg) (n : Z) : option Z :=
    match a_cap c with Some k => Some (k - n) | None => None end.
  Definition take_room {A} (rm : option Z) (l : list A) : list A :=
    match rm with Some k => firstn (Z.to_nat k) l | None => l end.

  (* Push under a policy: consulted once per value, in order, while room
     remains; first rejection stops the batch and is recorded *)
  Fixpoint pol_push (p : N) (rm : option Z) (els vs log : list V) : list V * option N * list V :=
    match vs with
    | [] => (els, None, log)
    | v :: vs' =>
        if match rm with Some k => k <=? 0 | None => false end then pol_push p rm els vs' log
        else match pol p v with
             | Some e => (els, Some e, log ++ [v])
             | None => pol_push p (option_map (fun k => k - 1) rm) (els ++ [v]) vs' (log ++ [v])
             end
    end.

  Definition clamp (lo hi x : Z) : Z := Z.max lo (Z.min hi x).

  Definition swap_list (l : list V) (i j : Z) : list V :=
    set_nth (Z.to_nat j) (nthz l i) (set_nth (Z.to_nat i) (nthz l j) l).

  Definition first_nonnil (l : list V) : V * bool :=
    match find (fun v => negb (isnil v)) l with Some v => (v, true) | None => (nilv, false) end.

  Definition sstep (s : sstate) (o : sop) : sstate * sout :=
    let c := s_cfg s in
    let els := s_elems s in
    let n := zlen els in
    let ro := has (a_opts c) f_ronly in
    match o with
    | SPush vs =>
        if ro then (s, XLog []) else
        match a_ppf c with
        | Some p =>
            let '(els', e, log) := pol_push p (room c n) els vs [] in
            ({| s_cfg := match e with Some _ => set_err c e | None => c end; s_elems := els' |}, XLog log)
        | None =>
            let cand := if has (a_opts c) f_nnest then filter (fun v => negb (isstack v)) vs else vs in
            (upd_elems s (els ++ take_room (room c n) cand), XLog [])
        end
    | SPop =>
        if ro then (s, XVal nilv false) else
        if a_fifo c then
          match els with
          | [] => (s, XVal nilv false)
          | v :: t => (upd_elems s t, XVal v (negb (isnil v)))
          end
        else
          match rev els with
          | [] => (s, XVal nilv false)
          | v :: t => (upd_elems s (rev t), XVal v (negb (isnil v)))
          end
    | SInsert v i =>
        if isnil v || ro then (s, XBool false) else
        if match a_cap c with Some k => k <=? n | None => false end then (s, XBool false)
        else (upd_elems s (insert_at (Z.to_nat (clamp 0 n i)) v els), XBool true)
    | SRemove i =>
        if ro then (s, XVal nilv false) else
        match sindex s i with
        | (v, Some p) => if isnil v then (s, XVal v false)
                         else (upd_elems s (remove_nth (Z.to_nat p) els), XVal v true)
        | (_, None) => (s, XVal nilv false)
        end
    | SReplace v i =>
        if isnil v || ro then (s, XBool false) else
        if (0 <=? i) && (i <? n) then (upd_elems s (set_nth (Z.to_nat i) v els), XBool true)
        else (s, XBool false)
    | SSwap i j =>
        if ro then (s, XUnit) else
        if (0 <=? i) && (i <? n) && (0 <=? j) && (j <? n) then (upd_elems s (swap_list els i j), XUnit)
        else (s, XUnit)
    | SReverse => if ro then (s, XUnit) else (upd_elems s (rev els), XUnit)
    | SReset => if ro then (s, XUnit) else (upd_elems s [], XUnit)
    | SSetFIFO b => if ro then (s, XUnit) else (upd_cfg s (set_fifo c (a_fifo c || b)), XUnit)
    | SSetOpt f t =>
        if negb ro || (f =? f_ronly)%N then
          (upd_cfg s (set_opts c match t with
                                 | Some true => N.lor (a_opts c) f
                                 | Some false => N.ldiff (a_opts c) f
                                 | None => if has (a_opts c) f then N.ldiff (a_opts c) f else N.lor (a_opts c) f
                                 end), XUnit)
        else (s, XUnit)
    | SSetPolicy p => if ro then (s, XUnit) else (upd_cfg s (set_ppf c p), XUnit)
    | SLen => (s, XInt n)
    | SIndex i => let '(v, _) := sindex s i in (s, XVal v (negb (isnil v)))
    | SFront => let '(v, ok) := first_nonnil (if a_fifo c then els else rev els) in (s, XVal v ok)
    | SBack => let '(v, ok) := first_nonnil (if a_fifo c then rev els else els) in (s, XVal v ok)
    | SIsEmpty => (s, XBool (n =? 0))
    | SCap => (s, XInt match a_cap c with Some k => k | None => -1 end)
    | SAvail => (s, XInt match a_cap c with Some k => k - n | None => -1 end)
    | SIsFull => (s, XBool match a_cap c with Some k => n =? k | None => false end)
    | SCanNest => (s, XBool (negb (has (a_opts c) f_nnest)))
    | SIsNesting => (s, XBool (existsb isstack els))
    | SIsFIFO => (s, XBool (a_fifo c))
    | SGetOpt f => (s, XBool (has (a_opts c) f))
    | SErrIsNil => (s, XBool match a_err c with None => true | Some _ => false end)
    end.

  Fixpoint srun (s : sstate) (ops : list sop) : sstate * list sout :=
    match ops with
    | [] => (s, [])
    | o :: ops' => let '(s', x) := sstep s o in let '(s'', xs) := srun s' ops' in (s'', x :: xs)
    end.

End Spec.

Arguments XUnit {V}.
Arguments XVal {V} v ok.
Arguments XBool {V} b.
Arguments XInt {V} z.
Arguments XLog {V} l.

Arguments SPush {V}.
Arguments SPop {V}.
Arguments SInsert {V}.
Arguments SRemove {V}.
Arguments SReplace {V}.
Arguments SSwap {V}.
Arguments SReverse {V}.
Arguments SReset {V}.
Arguments SSetFIFO {V}.
Arguments SSetOpt {V}.
Arguments SSetPolicy {V}.
Arguments SLen {V}.
Arguments SIndex {V}.
Arguments SFront {V}.
Arguments SBack {V}.
Arguments SIsEmpty {V}.
Arguments SCap {V}.
Arguments SAvail {V}.
Arguments SIsFull {V}.
Arguments SCanNest {V}.
Arguments SIsNesting {V}.
Arguments SIsFIFO {V}.
Arguments SGetOpt {V}.
Arguments SErrIsNil {V}.
Arguments s_cfg {V}.
Arguments s_elems {V}.
