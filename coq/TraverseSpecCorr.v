(* TraverseSpecCorr.v -- specification-side evaluation of recorded cases of
   the family `traverse`.  Independent of Generated.v and of the model
   (Traverse.v), so that the specification stays usable as the oracle when
   the model no longer compiles.  Executable definitions only.

   A case is a tree (every node but the nil slots labelled uniquely by the
   harness) and a list of probes (path, observed outcome of Stack.Traverse,
   observed outcome of the descent carried out step by step in Go through
   Stack.Valid / Stack.Index / ConvertStack / ConvertCondition /
   Condition.Expression).  An observed outcome is one number:
      k >= 0     the node with pre-order number k, ok = true
      -1         (nil, false)
      -2-k       the node k with ok = false
      -1000000   the call panicked
      -1000001   (nil, true)
      -1000002   a value that is no node of the tree *)
From Stackage Require Import Base Values StackSpec StackSpecCorr TraverseSpec.
Open Scope Z_scope.

(* configuration of a node in a case term: the shared cfgS fields, plus the
   identifier and the validity policy the harness installed *)
Definition tcfg (c : config) (id : bytes) (vpf : option N) : config :=
  {| c_typ := c_typ c; c_cap := c_cap c; c_opt := c_opt c; c_sym := c_sym c; c_ljc := c_ljc c; c_enc := c_enc c;
     c_ord := c_ord c; c_mtx := c_mtx c; c_err := c_err c; c_id := id; c_cat := c_cat c;
     c_ppf := c_ppf c; c_vpf := vpf; c_rpf := c_rpf c; c_eqf := c_eqf c;
     c_umf := c_umf c; c_maf := c_maf c; c_evl := c_evl c; c_lss := c_lss c;
     c_lvl := c_lvl c; c_log := c_log c; c_aux := c_aux c |}.

(* the validity policies of the harness: closure number p returns an error
   iff p is odd *)
Definition h_vpol (p : N) (c : config) (els : list value) : bool := N.odd p.

Record tcase := MkTC { t_tree : value; t_probes : list (list Z * Z * Z) }.

(* kind and label of a node, as the harness reads them off a Go value *)
Definition ntag (v : value) : N :=
  match v with
  | VNil => 0 | VLeaf _ => 1 | VStack _ _ _ => 2 | VCond _ _ _ _ _ => 3 | VZeroStack _ => 4 | VZeroCond _ => 5
  end%N.
Definition nlabel (v : value) : bytes :=
  match v with
  | VLeaf (GStr s) => s
  | VLeaf (GInt _ z) => B "n" ++ Z_to_bytes z
  | VStack _ c _ => c_id c
  | VCond _ c _ _ _ => c_id c
  | _ => []
  end.
Definition same_node (a b : value) : bool :=
  (ntag a =? ntag b)%N && bytes_eqb (nlabel a) (nlabel b).

(* all nodes of a tree in pre-order; nil slots are nodes too *)
Fixpoint preorder (v : value) : list value :=
  v :: match v with
       | VStack _ _ els => flat_map preorder els
       | VCond _ _ _ _ ex => preorder ex
       | _ => []
       end.

(* the labelling identifies nodes: no two non-nil nodes look the same *)
Fixpoint labels_distinct (l : list value) : bool :=
  match l with
  | [] => true
  | x :: t => (is_nil x || negb (existsb (same_node x) t)) && labels_distinct t
  end.

Definition code_matches (pre : list value) (r : value * bool) (code : Z) : bool :=
  let '(v, ok) := r in
  if code =? -1 then is_nil v && negb ok
  else if 0 <=? code then
    match nth_error pre (Z.to_nat code) with
    | Some w => ok && negb (is_nil w) && same_node w v
    | None => false
    end
  else false.

Fixpoint all_probes (f : list Z -> Z -> Z -> bool) (l : list (list Z * Z * Z)) : bool :=
  match l with
  | [] => true
  | (p, a, b) :: t => f p a b && all_probes f t
  end.

Definition spec_ok (c : tcase) : bool :=
  let pre := preorder (t_tree c) in
  labels_distinct pre &&
  all_probes (fun path tcode scode =>
                let r := spec_traverse h_vpol (t_tree c) path in
                code_matches pre r tcode && code_matches pre r scode) (t_probes c).

Definition check (c : tcase) : N := if spec_ok c then 0%N else 2%N.
