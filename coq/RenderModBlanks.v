(* RenderModBlanks.v -- what the LIST seam (D19) can and cannot do: on EVERY
   tree of the domain -- LIST nodes of the D19 shape included -- the model's
   String() and the grammar's rendering hold the same non-white bytes in the
   same order, and one is empty exactly when the other is.  So that finding
   only ever loses blanks between neighbouring element texts. *)
From Stackage Require Import Base Generated StackImpl Values Render RenderSpec RenderCondense RenderProofs.
Open Scope N_scope.

Notation F := (filter nonws).

Definition wsim (s r : bytes) : Prop := F s = F r /\ (s = [] <-> r = []).

Lemma F_blank_run s : all_blank s = true -> F s = [].
Proof.
  induction s as [|a t IH]; [reflexivity|]. cbn [all_blank forallb]. intros H.
  apply andb_true_iff in H. destruct H as [Ha Ht]. cbn [filter]. unfold nonws at 1.
  rewrite (blank_wspace a Ha). cbn [negb]. apply IH, Ht.
Qed.

Lemma F_sp c : F (sp c) = [].
Proof. unfold sp. destruct (o_nopad c); reflexivity. Qed.

Lemma condensed_empty_iff s : condensed s -> (s = [] <-> F s = []).
Proof.
  intros Hc. split; [intros ->; reflexivity|].
  intros HF. destruct s as [|a t]; [reflexivity|].
  exfalso. apply (F_nonempty_of_condensed _ Hc); [discriminate|exact HF].
Qed.

Lemma wsim_of_condensed s r : condensed s -> condensed r -> F s = F r -> wsim s r.
Proof.
  intros Hs Hr HF. split; [exact HF|].
  rewrite (condensed_empty_iff s Hs), (condensed_empty_iff r Hr), HF. reflexivity.
Qed.

(* model body against grammar body, up to white space *)
Lemma F_body_model c tm ts :
  renders (c_typ c) = true ->
  map F tm = map F ts -> length tm = length ts ->
  let nsp := positive c c_nspad in
  let ot := padValue (negb nsp && negb (nonempty (c_sym c))) (fst (typ c)) in
  let oc := c_typ c in
  F (if positive c c_lonce
     then (if negb (oc =? c_list) && (match tm with [] => false | _ => true end) then ot else []) ++ concat tm
     else if oc =? c_list
          then join (if nonempty (c_ljc c) then c_ljc c else if negb nsp then [x20] else []) tm
          else if nonempty (c_sym c)
               then join (padValue (negb nsp) (if negb nsp then [x20] else []) ++ ot ++
                          padValue (negb nsp) (if negb nsp then [x20] else [])) tm
               else join (padValue true [x20] ++ ot ++ padValue true [x20]) tm)
  = F (body c ts).
Proof.
  intros Hr Hm Hlen nsp ot oc.
  pose proof (renders_nonzero _ Hr) as Hz.
  pose proof (kind_word c Hr) as Hk.
  assert (Hot : ot = if has_sym c then c_sym c else sp c ++ word c ++ sp c).
  { unfold ot, nsp, typ, has_sym. cbn [fst]. rewrite <- notempty_nonempty.
    destruct (c_sym c) as [|s0 sy] eqn:Es; cbn [notempty negb].
    - rewrite andb_true_r, Hk. apply padValue_sp; [assumption|apply word_nonempty, Hr].
    - rewrite andb_false_r. unfold padValue. cbn [app]. rewrite app_nil_r. reflexivity. }
  unfold body. rewrite (positive_lonce c Hz).
  change (oc =? c_list) with (is_list c).
  destruct (o_lead c) eqn:Elead.
  - destruct ts as [|t0 ts']; destruct tm as [|m0 tm']; try discriminate Hlen.
    + rewrite andb_false_r. reflexivity.
    + rewrite andb_true_r. unfold lead. rewrite Hot, !F_app, !F_concat, Hm.
      destruct (is_list c); reflexivity.
  - destruct (is_list c) eqn:Elist.
    + rewrite join_sjoin, !F_sjoin, Hm. f_equal.
      unfold sep. rewrite Elist, <- notempty_nonempty.
      destruct (notempty (c_ljc c)); [reflexivity|]. destruct (negb nsp); reflexivity.
    + rewrite <- notempty_nonempty. fold (has_sym c). unfold sep. rewrite Elist, Hot.
      destruct (has_sym c) eqn:Esym; rewrite join_sjoin, !F_sjoin, Hm; f_equal.
      * unfold nsp. rewrite (positive_nspad c Hz). unfold sp.
        destruct (o_nopad c); cbn [negb padValue]; rewrite !F_app; reflexivity.
      * change (padValue true [x20]) with [x20; x20; x20]. rewrite !F_app, !F_sp.
        change (F [x20; x20; x20]) with (@nil byte). change (F [x20]) with (@nil byte).
        cbn [app]. rewrite !app_nil_r. reflexivity.
Qed.

Lemma F_paren_model c a b : renders (c_typ c) = true -> F a = F b -> F (paren c a) = F (parens c b).
Proof. intros Hr H. rewrite (paren_parens c a Hr). apply F_parens, H. Qed.

(* one element *)
Lemma dah_wsim c x s :
  renders (c_typ c) = true -> dom x = true ->
  node_string x = Ok s -> wsim s (render x) ->
  exists tm, defaultAssertionHandler c x (node_string x) = Ok tm /\
             wsim tm (elem_text c x (render x)).
Proof.
  intros Hr Hd Hs [HF He].
  destruct x as [|g|a ic els|a ic kw op ex|a|a]; try discriminate Hd.
  - (* leaf: the model's text is the grammar's *)
    exists (elem_text c (VLeaf g) (render (VLeaf g))). split.
    + change (node_string (VLeaf g)) with (@Ok bytes []). change (render (VLeaf g)) with (@nil byte).
      exact (dah_ok c (VLeaf g) Hr Hd).
    + split; reflexivity.
  - destruct a; try discriminate Hd. rewrite Hs.
    cbn [defaultAssertionHandler elem_text]. unfold typ, not_prefix, has_sym.
    rewrite <- !notempty_nonempty. change c_not with 3.
    destruct ((c_typ ic =? 3) && negb (notempty (c_sym ic))) eqn:En.
    + cbn [bind andb]. apply andb_true_iff in En. destruct En as [E3 Esym].
      apply negb_true_iff in Esym. rewrite Esym.
      assert (Hri : renders (c_typ ic) = true) by (apply N.eqb_eq in E3; rewrite E3; reflexivity).
      rewrite (kind_word ic Hri).
      destruct s as [|s0 st]; destruct (render (VStack Native ic els)) as [|r0 rt] eqn:Er; cbn [notempty nonempty].
      * eexists; split; [reflexivity|split; reflexivity].
      * destruct He as [He _]. discriminate (He eq_refl).
      * destruct He as [_ He]. discriminate (He eq_refl).
      * eexists; split; [reflexivity|]. split.
        -- rewrite !F_app, HF. reflexivity.
        -- split; intros H; destruct (word ic); discriminate H.
    + cbn [andb]. eexists; split; [reflexivity|]. split; assumption.
  - destruct a; try discriminate Hd. rewrite Hs. cbn [defaultAssertionHandler elem_text].
    eexists; split; [reflexivity|]. split; assumption.
Qed.

(* the loop over the elements *)
Lemma collect_wsim c els :
  renders (c_typ c) = true ->
  Forall (fun x => dom x = true /\ exists s, node_string x = Ok s /\ wsim s (render x)) els ->
  exists tm, collect c (map (fun x => (x, node_string x)) els) = Ok tm /\
             map F tm = map F (texts_of c (map (fun x => (x, render x)) els)) /\
             length tm = length (texts_of c (map (fun x => (x, render x)) els)).
Proof.
  intros Hr H. induction H as [|x l [Hd (s & Hs & Hw)] Hl (tm & Hc & Hm & Hlen)].
  - exists []. repeat split.
  - destruct (dah_wsim c x s Hr Hd Hs Hw) as (t & Ht & HF & He).
    cbn [map collect]. rewrite Ht, Hc. cbn [bind].
    unfold texts_of in *. cbn [map filter fst snd].
    destruct t as [|t0 tt]; destruct (elem_text c x (render x)) as [|e0 et] eqn:Ee; cbn [nonempty notempty].
    + exists tm. repeat split; assumption.
    + destruct He as [He _]. discriminate (He eq_refl).
    + destruct He as [_ He]. discriminate (He eq_refl).
    + eexists. split; [reflexivity|]. cbn [map length]. rewrite HF, Hm, Hlen. split; reflexivity.
Qed.

Lemma stack_string_wsim c els :
  plain c = true -> stack_kind (c_typ c) = true ->
  Forall (fun x => dom x = true /\ exists s, node_string x = Ok s /\ wsim s (render x)) els ->
  exists s, stack_string c (map (fun x => (x, node_string x)) els) = Ok s /\
            wsim s (render (VStack Native c els)).
Proof.
  intros Hp Hk Hels. destruct (plain_inv c Hp) as [Hv Hrp].
  unfold stack_string. rewrite Hv. unfold typ at 1.
  destruct (renders (c_typ c)) eqn:Hr.
  - assert (Hb : ((c_typ c =? 0) || (c_typ c =? c_basic)) = false)
      by (destruct (renders_cases _ Hr) as [E|[E|[E|E]]]; rewrite E; reflexivity).
    rewrite Hb, Hrp.
    destruct (collect_wsim c els Hr Hels) as (tm & Hc & Hm & Hlen). rewrite Hc. cbn [bind].
    eexists. split; [reflexivity|].
    pose proof (render_stack_condensed Native c els) as Hcr.
    cbn [render] in *. rewrite Hr in *.
    set (ts := texts_of c (map (fun x => (x, render x)) els)) in *.
    apply wsim_of_condensed; [|exact Hcr|].
    + unfold assembleStringStack. rewrite condense_eq. apply condense_condensed.
    + unfold assembleStringStack, assemble. rewrite condense_eq, !filter_nonws_condense.
      apply F_paren_model; [exact Hr|].
      change (padValue (negb (positive c c_nspad)) []) with (@nil byte).
      cbn [app]. rewrite app_nil_r.
      exact (F_body_model c tm ts Hr Hm Hlen).
  - unfold stack_kind in Hk. rewrite Hr in Hk. cbn [orb] in Hk. apply N.eqb_eq in Hk.
    rewrite Hk. cbn [render]. rewrite Hr. exists []. split; [reflexivity|split; reflexivity].
Qed.

Lemma cond_string_wsim c kw op ex :
  plain c = true -> c_typ c = 5 ->
  (is_nil ex = true \/ (dom ex = true /\ exists s, node_string ex = Ok s /\ wsim s (render ex))) ->
  exists s, cond_string c kw op ex (node_string ex) = Ok s /\
            wsim s (render (VCond Native c kw op ex)).
Proof.
  intros Hp Ht Hex. destruct (plain_inv c Hp) as [Hv Hrp].
  assert (Hz : c_typ c <> 0) by (rewrite Ht; discriminate).
  unfold cond_string, cond_valid. rewrite Ht, Hv. change (negb (5 =? c_cond)) with false. cbv iota.
  cbn [render]. unfold cvalid. rewrite <- notempty_nonempty.
  assert (Hnil : exists s, @Ok bytes [] = Ok s /\ wsim s []) by (exists []; split; [reflexivity|split; reflexivity]).
  destruct kw as [|k0 kt]; cbn [notempty negb andb bind]; [exact Hnil|].
  destruct op as [o|]; [|exact Hnil].
  assert (Hbog : (match o with OpBuiltin n => negb ((1 <=? n) && (n <=? 6)) | OpUser _ _ => false end)
                 = negb (op_ok (Some o))) by (destruct o; reflexivity).
  rewrite Hbog. destruct (op_ok (Some o)) eqn:Eop; cbn [negb andb bind]; [|exact Hnil].
  destruct (is_nil ex) eqn:Enil; cbn [negb bind]; [exact Hnil|].
  destruct Hex as [Hn|(Hd & s & Hs & HF & He)]; [congruence|].
  rewrite Hrp.
  assert (Hraw : exists raw,
            match ex with
            | VStack Native _ _ => node_string ex
            | VCond Native _ _ _ _ => node_string ex
            | VLeaf g => match stringer_text g with
                         | Some t => Ok t
                         | None => match prim_text g with Some t => Ok t | None => Ok s_unsupported end
                         end
            | VNil | VZeroStack Native | VZeroCond Native => Ok s_unsupported
            | _ => Unmodelled
            end = Ok raw /\ F raw = F (value_text ex (render ex))).
  { destruct ex as [|g|a ic els|a ic kw' op' ex'|a|a]; try discriminate Hd.
    - cbn [dom] in Hd. destruct (prim_text g) as [t|] eqn:Ep; [|discriminate].
      rewrite (prim_no_stringer g t Ep). cbn [value_text]. rewrite Ep. exists t. split; reflexivity.
    - destruct a; try discriminate Hd. exists s. split; assumption.
    - destruct a; try discriminate Hd. exists s. split; assumption. }
  destruct Hraw as (raw & Hraw & HFraw). rewrite Hraw. cbn [bind].
  eexists. split; [reflexivity|].
  unfold cond_text. rewrite (positive_nspad c Hz), (positive_parens c Hz), (op_text_optext o Eop).
  rewrite encapValue_encap. pose proof (F_encap (c_enc c) _ _ HFraw) as HFe.
  fold (sp c). split.
  - destruct (o_paren c); rewrite !F_app, HFe; reflexivity.
  - split; intros H; destruct (o_paren c); discriminate H.
Qed.

Theorem model_eq_spec_modulo_blanks :
  forall v, dom v = true ->
    exists s, node_string v = Ok s /\ filter nonws s = filter nonws (render v) /\
              (s = [] <-> render v = []).
Proof.
  induction v as [|g|a c els IH|a c kw op ex IH|a|a] using value_ind'; intros Hd;
    try discriminate Hd.
  - exists []. split; [reflexivity|split; reflexivity].
  - destruct a; try discriminate Hd.
    cbn [dom] in Hd. apply andb_true_iff in Hd. destruct Hd as [Hd Hels].
    apply andb_true_iff in Hd. destruct Hd as [Hp Hkind].
    change (node_string (VStack Native c els)) with
      (stack_string c (map (fun x => (x, node_string x)) els)).
    apply stack_string_wsim; try assumption.
    apply Forall_forall. intros x Hx. rewrite Forall_forall in IH.
    rewrite forallb_forall in Hels. split; [apply Hels, Hx|].
    apply IH; [exact Hx|apply Hels, Hx].
  - destruct a; try discriminate Hd.
    cbn [dom] in Hd. apply andb_true_iff in Hd. destruct Hd as [Hd Hex].
    apply andb_true_iff in Hd. destruct Hd as [Hp Ht]. apply N.eqb_eq in Ht.
    change (node_string (VCond Native c kw op ex)) with
      (cond_string c kw op ex (node_string ex)).
    apply cond_string_wsim; try assumption.
    apply orb_true_iff in Hex. destruct Hex as [Hn|Hdx]; [left; exact Hn|].
    right. split; [exact Hdx|]. apply IH; exact Hdx.
Qed.

(* hence the non-white bytes of the model's String() are those of the raw
   concatenation, D19 nodes included *)
Corollary model_nonblank_preserved_d19 :
  forall v s, dom v = true -> node_string v = Ok s ->
    filter nonws s = filter nonws (raw v).
Proof.
  intros v s Hd Hs. destruct (model_eq_spec_modulo_blanks v Hd) as (s' & Hs' & HF & _).
  rewrite Hs in Hs'. inversion Hs'. subst s'. rewrite HF. apply nonblank_preserved.
Qed.
