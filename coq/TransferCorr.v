(* TransferCorr.v -- evaluation of recorded Transfer cases against the
   specification (tcheck_spec: no dependence on Generated/the model) and the
   model (tcheck_model). *)
From Stackage Require Import Base StackSpec StackSpecCorr TransferSpec.
Open Scope Z_scope.

(* destination forms: an initialised stack (native, alias or pointer: all
   convert), or something that does not convert *)
Record tcase := MkT {
  t_src_fifo : bool; t_src : list el;
  t_dst_ok : bool;                      (* destination converts to an initialised Stack *)
  t_dst_opts : N; t_dst_cap : option Z; t_dst_pol : option N; t_dst : list el;
  t_ok : bool;                          (* observed return value *)
  t_dst_after : list el; t_src_after : list el;
  t_dst_cfg_same : bool;                (* observed: destination configuration unchanged (apart from Err) *)
  t_panic : bool }.

Definition els_eqb := list_eqb el_eqb.

Definition tspec_ok (c : tcase) : bool :=
  negb (t_panic c) && els_eqb (t_src_after c) (t_src c) && t_dst_cfg_same c &&
  if t_dst_ok c then
    let d := {| s_cfg := {| a_kind := 1; a_cap := t_dst_cap c; a_opts := t_dst_opts c; a_fifo := false;
                            a_err := None; a_ppf := t_dst_pol c |}; s_elems := t_dst c |} in
    let '(d', ok) := stransfer el ENil el_isnil el_isstack el_pol (t_src c) d in
    Bool.eqb ok (t_ok c) && els_eqb (s_elems d') (t_dst_after c) &&
    (* the property's own words, checked independently of stransfer: *)
    (if t_ok c then els_eqb (t_dst_after c) (t_dst c ++ t_src c) else true) &&
    (if match t_dst_cap c with Some k => k - zlen (t_dst c) <? zlen (t_src c) | None => false end
     then negb (t_ok c) && els_eqb (t_dst_after c) (t_dst c) else true) &&
    (if has (t_dst_opts c) f_ronly then negb (t_ok c) && els_eqb (t_dst_after c) (t_dst c) else true)
  else negb (t_ok c) && els_eqb (t_dst_after c) (t_dst c).

Definition tcheck_spec (c : tcase) : N := if tspec_ok c then 0%N else 2%N.
