(* RevealProofs.v -- the theorems about the model of Stack.Reveal (Reveal.v),
   for ALL trees.

   Method.  The model runs on a heap; a tree is loaded so that every
   reference points to a smaller index.  For a fixed initial heap h0 the
   invariant [Inv] says: the heap is well-formed with the shapes of h0
   (configuration / number of slots / keyword / operator of every node never
   change), every valid slot reads back to a tree with the same observation
   Q as in h0 ([QI], for an arbitrary observation Q that is compositional,
   blind to how a nested Stack is typed, and cannot tell a redundant wrapper
   from its only element), and every slot of node p points to something whose
   ORIGINAL depth is below p's original depth ([JI]).  Every write of the
   three helpers preserves Inv; a call on node r writes only nodes <= r,
   takes only locks of nodes it does not hold (they are all > r), and needs
   fuel r+1.  Instantiating Q gives the property theorems. *)
From Stackage Require Import Base Generated StackImpl Values RevealSpec RevealSpecLemmas Reveal RevealHeap.
Open Scope nat_scope.

(* ------------------------------------------------------------ small facts *)
Lemma flag_paren c : positive c c_parens = sp_paren c.
Proof.
  unfold positive, g_flag_positive, sp_paren, c_parens.
  destruct (c_opt c) as [|[p|p|]]; reflexivity.
Qed.

Lemma kind_not c : (c_typ c =? c_not)%N = sp_not c.
Proof. reflexivity. Qed.

Definition maxd (l : list value) : nat := fold_right (fun x n => Nat.max (depth x) n) O l.
Lemma depth_stack a c els : depth (VStack a c els) = S (maxd els).
Proof. reflexivity. Qed.

Lemma maxd_in x l : In x l -> depth x <= maxd l.
Proof. induction l as [|y l IH]; simpl; intros H; [tauto|]. destruct H as [->|H]; [lia|]. specialize (IH H). lia. Qed.

Lemma maxd_bound l m : (forall x, In x l -> depth x < m) -> 0 < m -> S (maxd l) <= m.
Proof.
  induction l as [|y l IH]; simpl; intros H Hm; [lia|].
  assert (depth y < m) by (apply H; auto). assert (S (maxd l) <= m) by (apply IH; auto). lia.
Qed.

Lemma Forall2_map_eq {X Y Z} (R : X -> Y -> Prop) (f : X -> Z) (g : Y -> Z) l l' :
  Forall2 R l l' -> (forall x y, R x y -> f x = g y) -> map f l = map g l'.
Proof. induction 1; simpl; intros H'; auto. f_equal; auto. Qed.

Lemma Forall2_refl_in {X} (R : X -> X -> Prop) l : (forall x, In x l -> R x x) -> Forall2 R l l.
Proof. induction l; intros H; constructor; [apply H; left; reflexivity|apply IHl; intros; apply H; right; auto]. Qed.

Lemma Forall2_set_nth {X} (R : X -> X -> Prop) l n x y :
  nth_error l n = Some x -> R x y -> (forall z, In z l -> R z z) -> Forall2 R l (set_nth n y l).
Proof.
  revert n; induction l as [|z l IH]; intros [|n] H Hr Hrefl; simpl in *; try discriminate.
  - inversion H; subst. constructor; auto. apply Forall2_refl_in. intros; apply Hrefl; auto.
  - constructor; auto.
Qed.

(* lock bookkeeping: the model's list functions are the specification's *)
Lemma memb_mem p l : memb p l = mem Nat.eqb p l.
Proof. unfold memb. induction l; simpl; [reflexivity|]. rewrite IHl. reflexivity. Qed.
Lemma delb_del p l : delb p l = del Nat.eqb p l.
Proof. induction l; simpl; [reflexivity|]. rewrite IHl. reflexivity. Qed.
Lemma mem_fresh r l : (forall x, In x l -> r < x) -> mem Nat.eqb r l = false.
Proof.
  induction l as [|y l IH]; simpl; intros H; auto.
  rewrite IH by (intros; apply H; auto). assert (r < y) by (apply H; auto).
  destruct (Nat.eqb_spec r y); [lia|reflexivity].
Qed.
Lemma run_locks_app {I} (e : I -> I -> bool) t1 t2 H :
  run_locks e (t1 ++ t2) H = match run_locks e t1 H with Some H' => run_locks e t2 H' | None => None end.
Proof.
  revert H; induction t1 as [|[[|] n] t1 IH]; intros H; simpl; auto.
  - destruct (mem e n H); auto.
  - destruct (mem e n H); auto.
Qed.

(* ------------------------------------------------------------ stack.index *)
Lemma index_nonneg c els i : (0 <= i)%Z ->
  exists o, index c els i = Ok o /\
    forall s, o = Some s -> In s els /\ ((i < zlen els)%Z -> nth_error els (Z.to_nat i) = Some s).
Proof.
  intros Hi. unfold index, index_sel. unfold zlen. set (L := Z.of_nat (length els)).
  destruct (0 <? L)%Z eqn:HL; [|eexists; split; [reflexivity|intros; discriminate]].
  apply Z.ltb_lt in HL.
  replace (i <? 0)%Z with false by (symmetry; apply Z.ltb_ge; lia).
  destruct (L - 1 <? i)%Z eqn:Hf.
  - apply Z.ltb_lt in Hf. destruct (positive c c_fwdidx); [|eexists; split; [reflexivity|intros; discriminate]].
    replace (L <? 0)%Z with false by (symmetry; apply Z.ltb_ge; lia).
    replace (L <? 1)%Z with false by (symmetry; apply Z.ltb_ge; lia).
    replace (L <? L)%Z with false by (symmetry; apply Z.ltb_ge; lia).
    destruct (nth_error els (Z.to_nat (L - 1))) as [s|] eqn:E.
    + eexists; split; [reflexivity|]. intros s' Hs'. destruct (notnil s); inversion Hs'; subst s'.
      split; [eapply nth_error_In; eauto|lia].
    + apply nth_error_None in E. lia.
  - apply Z.ltb_ge in Hf.
    replace (i + 1 <? 0)%Z with false by (symmetry; apply Z.ltb_ge; lia).
    replace (i + 1 <? 1)%Z with false by (symmetry; apply Z.ltb_ge; lia).
    replace (L <? i + 1)%Z with false by (symmetry; apply Z.ltb_ge; lia).
    replace (i + 1 - 1)%Z with i by lia.
    destruct (nth_error els (Z.to_nat i)) as [s|] eqn:E.
    + eexists; split; [reflexivity|]. intros s' Hs'. destruct (notnil s); inversion Hs'; subst s'.
      split; [eapply nth_error_In; eauto|auto].
    + apply nth_error_None in E. lia.
Qed.

(* the arithmetic of the hand-written index is the translated stack.index:
   the translator regenerates g_index from /repo on every run, so a change of
   the bounds logic in stack.go breaks this lemma *)
Lemma index_sel_translation c L i :
  (0 <= L < two63 - 1)%Z -> (- two63 + 1 < i < two63 - 1)%Z ->
  g_index L (positive c c_negidx) (positive c c_fwdidx) i =
  if (0 <? L)%Z then
    match index_sel c L i with
    | Some k => TCut 0 [k; 0%Z] [true]
    | None => TRet [i; 0%Z] [false]
    end
  else TRet [i; 0%Z] [false].
Proof.
  intros HL Hi. unfold g_index, index_sel.
  assert (in_i64 (L - 1)) by (unfold in_i64, two63 in *; lia).
  assert (in_i64 (i + 1)) by (unfold in_i64, two63 in *; lia).
  assert (in_i64 (- L)) by (unfold in_i64, two63 in *; lia).
  rewrite !wrap64_id by assumption.
  destruct (0 <? L)%Z; [|reflexivity].
  destruct (i <? 0)%Z.
  - destruct (positive c c_negidx && (- L <=? i)%Z); reflexivity.
  - destruct (L - 1 <? i)%Z; [destruct (positive c c_fwdidx); reflexivity|reflexivity].
Qed.

(* stack.replace's bounds, likewise *)
Lemma replace_bounds_translation L i :
  g_replace L i = if ((0 <=? i) && (i <? L))%Z then TCut 0 [i] [true] else TRet [i] [false].
Proof. unfold g_replace. destruct ((0 <=? i) && (i <? L))%Z; reflexivity. Qed.

(* ------------------------------------------------------------ monad steps *)
Lemma mbind_ok {X Y} (m : M X) (f : X -> M Y) s a s1 : m s = MOk a s1 -> mbind m f s = f a s1.
Proof. unfold mbind. intros ->. reflexivity. Qed.
Lemma get_stack_ok p s c els : nth_error (hp s) p = Some (HS c els) -> get_stack p s = MOk (c, els) s.
Proof. unfold get_stack. intros ->. reflexivity. Qed.
Lemma get_cond_ok p s c kw op ex : nth_error (hp s) p = Some (HC c kw op ex) -> get_cond p s = MOk (c, kw, op, ex) s.
Proof. unfold get_cond. intros ->. reflexivity. Qed.

Lemma reveal_loop_S rec r n i :
  reveal_loop rec r (S n) i =
  (let* (c, els) := get_stack r in
   if (i <? 1 + zlen els)%Z then
     let* sl := lift (index c els i) in
     let* _ := match sl with
               | Some (SS _ q) =>
                   let* (_, elo) := get_stack q in
                   if (0 <? zlen elo)%Z then reveal_descend rec r q i else ret tt
               | _ => ret tt
               end in
     reveal_loop rec r n (i + 1)
   else ret tt).
Proof. reflexivity. Qed.
Lemma reveal_S f r : reveal (S f) r = reveal_body (reveal f) r.
Proof. reflexivity. Qed.

Lemma lock_ok r s c els : nth_error (hp s) r = Some (HS c els) ->
  lock r s = if c_mtx c then (if memb r (held s) then MBlock s
                              else MOk tt (mkSt (hp s) (r :: held s) (evs s ++ [(true, r)])))
             else MOk tt s.
Proof. intros E. unfold lock. erewrite mbind_ok by (apply get_stack_ok; exact E). cbv beta iota. destruct (c_mtx c); reflexivity. Qed.
Lemma unlock_ok r s c els : nth_error (hp s) r = Some (HS c els) ->
  unlock r s = if c_mtx c then MOk tt (mkSt (hp s) (delb r (held s)) (evs s ++ [(false, r)]))
               else MOk tt s.
Proof. intros E. unfold unlock. erewrite mbind_ok by (apply get_stack_ok; exact E). cbv beta iota. destruct (c_mtx c); reflexivity. Qed.

(* =================================================================== *)
Section Inv.
  Variable A : Type.
  Variable Q : value -> A.
  (* Q is compositional and does not see how a nested Stack is typed ... *)
  Hypothesis HQs : forall a a' c els els', map Q els = map Q els' -> Q (VStack a c els) = Q (VStack a' c els').
  Hypothesis HQc : forall a c kw op ex ex', Q ex = Q ex' -> Q (VCond a c kw op ex) = Q (VCond a c kw op ex').
  (* ... and cannot tell a redundant wrapper from its only element *)
  Hypothesis HQu : forall a c ch, redundant (VStack a c [ch]) = true -> Q (VStack a c [ch]) = Q ch.

  Variable h0 : heap.
  Let shp := map shape h0.
  Hypothesis W0 : WF shp h0.
  Let T0 := table h0.

  Definition swf (s : slot) : Prop := slot_ok shp (length h0) s.

  Lemma slot_ok_swf h p n s : WF shp h -> nth_error h p = Some n ->
    (match n with HS _ els => In s els | HC _ _ _ ex => s = ex end) -> slot_ok shp p s /\ swf s.
  Proof.
    intros W H Hin. assert (Hp : p < length h0).
    { assert (p < length h) by (apply nth_error_Some; congruence).
      destruct W as [E _]. assert (length (map shape h) = length shp) by (rewrite E; reflexivity).
      unfold shp in *. rewrite !map_length in *. lia. }
    assert (Hok : slot_ok shp p s).
    { destruct W as [_ W]. specialize (W p n H). destruct n; simpl in W.
      - rewrite Forall_forall in W. auto.
      - subst; auto. }
    split; auto. unfold swf. eapply slot_ok_mono; [|exact Hok]. lia.
  Qed.

  (* ---------------- QI: observations of all valid slots are those of h0 *)
  Definition QI (h : heap) : Prop := forall s, swf s -> Q (slot_val (table h) s) = Q (slot_val T0 s).

  Definition qrel (T : list value) (n n' : hnode) : Prop :=
    match n, n' with
    | HS _ els, HS _ els' => Forall2 (fun s s' => Q (slot_val T s) = Q (slot_val T s')) els els'
    | HC _ _ _ ex, HC _ _ _ ex' => Q (slot_val T ex) = Q (slot_val T ex')
    | _, _ => False
    end.

  Lemma Q_write h p n n' :
    WF shp h -> nth_error h p = Some n -> shape n' = shape n -> node_ok shp p n' -> qrel (table h) n n' ->
    forall k s, slot_ok shp k s -> Q (slot_val (table (set_nth p n' h)) s) = Q (slot_val (table h) s).
  Proof.
    intros W H Hs Hn Hq.
    assert (W' : WF shp (set_nth p n' h)) by (eapply WF_set_nth; eauto).
    assert (Hplt : p < length h) by (apply nth_error_Some; congruence).
    induction k as [k IH] using lt_wf_ind. intros s Hk.
    destruct s as [v|a q|a q]; [reflexivity| |].
    - destruct Hk as [Hqk Hst]. destruct (WF_is_stk _ _ _ W Hst) as (c & els & Eq).
      rewrite (slot_val_SS _ _ a q c els W Eq).
      destruct (Nat.eq_dec p q) as [->|Hne].
      + rewrite Eq in H; inversion H; subst n. destruct n' as [c' els'|]; [|discriminate].
        simpl in Hs. inversion Hs; subst c'.
        rewrite (slot_val_SS _ _ a q c els' W') by (apply nth_error_set_nth_eq; exact Hplt).
        apply HQs. rewrite !map_map.
        transitivity (map (fun s => Q (slot_val (table h) s)) els').
        * apply map_ext_in. intros s' Hin. apply (IH q Hqk). simpl in Hn. rewrite Forall_forall in Hn. auto.
        * symmetry. eapply Forall2_map_eq; [exact Hq|auto].
      + rewrite (slot_val_SS _ _ a q c els W') by (rewrite nth_error_set_nth_neq by exact Hne; exact Eq).
        apply HQs. rewrite !map_map. apply map_ext_in. intros s' Hin. apply (IH q Hqk).
        destruct W as [_ Wn]. specialize (Wn q _ Eq). simpl in Wn. rewrite Forall_forall in Wn. auto.
    - destruct Hk as [Hqk Hst]. destruct (WF_is_cnd _ _ _ W Hst) as (c & kw & op & ex & Eq).
      rewrite (slot_val_SC _ _ a q c kw op ex W Eq).
      destruct (Nat.eq_dec p q) as [->|Hne].
      + rewrite Eq in H; inversion H; subst n. destruct n' as [|c' kw' op' ex']; [discriminate|].
        simpl in Hs. inversion Hs; subst c' kw' op'.
        rewrite (slot_val_SC _ _ a q c kw op ex' W') by (apply nth_error_set_nth_eq; exact Hplt).
        apply HQc. simpl in Hq. rewrite Hq. apply (IH q Hqk). exact Hn.
      + rewrite (slot_val_SC _ _ a q c kw op ex W') by (rewrite nth_error_set_nth_neq by exact Hne; exact Eq).
        apply HQc. apply (IH q Hqk).
        destruct W as [_ Wn]. specialize (Wn q _ Eq). exact Wn.
  Qed.

  Lemma QI_write h p n n' :
    WF shp h -> QI h -> nth_error h p = Some n -> shape n' = shape n -> node_ok shp p n' -> qrel (table h) n n' ->
    QI (set_nth p n' h).
  Proof.
    intros W HQ H Hs Hn Hq s Hsw. rewrite <- (HQ s Hsw). eapply Q_write; eauto.
  Qed.

  (* ---------------- JI: slots point to things that were strictly shallower *)
  Definition d0 (s : slot) : nat := depth (slot_val T0 s).
  Definition dn0 (p : nat) : nat := match nth_error T0 p with Some v => depth v | None => 0 end.
  Definition jnode (p : nat) (n : hnode) : Prop :=
    match n with
    | HS _ els => Forall (fun s => d0 s < dn0 p) els
    | HC _ _ _ ex => d0 ex < dn0 p
    end.
  Definition JI (h : heap) : Prop := forall p n, nth_error h p = Some n -> jnode p n.

  Lemma d0_SS a q : is_stk shp q = true -> d0 (SS a q) = dn0 q /\ 0 < dn0 q.
  Proof.
    intros H. destruct (WF_is_stk _ _ _ W0 H) as (c & els & E).
    unfold d0, dn0. fold T0. unfold T0. rewrite (slot_val_SS _ _ a q c els W0 E).
    rewrite (table_fix _ _ _ _ W0 E). simpl. split; [reflexivity|lia].
  Qed.
  Lemma d0_SC a q : is_cnd shp q = true -> d0 (SC a q) = dn0 q /\ 0 < dn0 q.
  Proof.
    intros H. destruct (WF_is_cnd _ _ _ W0 H) as (c & kw & op & ex & E).
    unfold d0, dn0. fold T0. unfold T0. rewrite (slot_val_SC _ _ a q c kw op ex W0 E).
    rewrite (table_fix _ _ _ _ W0 E). simpl. split; [reflexivity|lia].
  Qed.

  Lemma JI_h0 : JI h0.
  Proof.
    intros p n H. unfold jnode, d0, dn0. fold T0. unfold T0. rewrite (table_fix _ _ _ _ W0 H).
    destruct n as [c els|c kw op ex]; simpl.
    - apply Forall_forall. intros s Hin.
      assert (depth (slot_val (table h0) s) <= maxd (map (slot_val (table h0)) els)).
      { apply maxd_in. apply in_map. exact Hin. }
      unfold maxd in H0. lia.
    - lia.
  Qed.

  Lemma JI_write h p n' : JI h -> jnode p n' -> JI (set_nth p n' h).
  Proof.
    intros HJ Hn q m Hq. destruct (Nat.eq_dec p q) as [->|Hne].
    - destruct (Nat.lt_ge_cases q (length h)) as [Hlt|Hge].
      + rewrite nth_error_set_nth_eq in Hq by exact Hlt. inversion Hq; subst; exact Hn.
      + rewrite set_nth_oob in Hq by exact Hge. eauto.
    - rewrite nth_error_set_nth_neq in Hq by exact Hne. eauto.
  Qed.

  Lemma depth_le h : WF shp h -> JI h ->
    forall k s, slot_ok shp k s -> depth (slot_val (table h) s) <= d0 s.
  Proof.
    intros W HJ. induction k as [k IH] using lt_wf_ind. intros s Hk.
    destruct s as [v|a q|a q]; [reflexivity| |].
    - destruct Hk as [Hqk Hst]. destruct (WF_is_stk _ _ _ W Hst) as (c & els & Eq).
      rewrite (slot_val_SS _ _ a q c els W Eq). rewrite depth_stack.
      destruct (d0_SS a q Hst) as [-> Hpos]. apply maxd_bound; [|exact Hpos].
      intros x Hx. apply in_map_iff in Hx. destruct Hx as (s & <- & Hin).
      specialize (HJ q _ Eq). simpl in HJ. rewrite Forall_forall in HJ.
      assert (Hok : slot_ok shp q s).
      { destruct W as [_ Wn]. specialize (Wn q _ Eq). simpl in Wn. rewrite Forall_forall in Wn. auto. }
      specialize (IH q Hqk s Hok). specialize (HJ s Hin). lia.
    - destruct Hk as [Hqk Hst]. destruct (WF_is_cnd _ _ _ W Hst) as (c & kw & op & ex & Eq).
      rewrite (slot_val_SC _ _ a q c kw op ex W Eq). simpl.
      destruct (d0_SC a q Hst) as [-> Hpos].
      specialize (HJ q _ Eq). simpl in HJ.
      assert (Hok : slot_ok shp q ex). { destruct W as [_ Wn]. exact (Wn q _ Eq). }
      specialize (IH q Hqk ex Hok). lia.
  Qed.

  (* ---------------- the invariant *)
  Definition Inv (h : heap) : Prop := WF shp h /\ QI h /\ JI h.

  Lemma Inv_h0 : Inv h0.
  Proof. split; [exact W0|]. split; [intros s _; reflexivity|exact JI_h0]. Qed.


  (* shapes are fixed: configuration and length of a node are those of any
     other well-formed heap of the same shapes *)
  Lemma same_shape h h' p c els c' els' :
    WF shp h -> WF shp h' -> nth_error h p = Some (HS c els) -> nth_error h' p = Some (HS c' els') ->
    c' = c /\ length els' = length els.
  Proof.
    intros [E _] [E' _] H H'.
    assert (X : nth_error (map shape h) p = nth_error (map shape h') p) by (rewrite E, E'; reflexivity).
    rewrite !nth_error_map, H, H' in X. simpl in X. inversion X; auto.
  Qed.

  (* ---------------- what a call may do to the state *)
  Definition all_ge (r : nat) (l : list nat) : Prop := forall x, In x l -> r <= x.
  Definition all_gt (r : nat) (l : list nat) : Prop := forall x, In x l -> r < x.

  (* from s to s': invariant kept, nodes >= bound untouched, same locks held,
     the events added are a valid history from the held set back to it *)
  Record Step (bound : nat) (s s' : state) : Prop := mkStep {
    st_inv : Inv (hp s');
    st_frame : forall q, bound <= q -> nth_error (hp s') q = nth_error (hp s) q;
    st_held : held s' = held s;
    st_evs : exists t, evs s' = evs s ++ t /\ run_locks Nat.eqb t (held s) = Some (held s)
  }.

  Lemma Step_refl b s : Inv (hp s) -> Step b s s.
  Proof.
    intros H. constructor; auto. exists []. rewrite app_nil_r. auto.
  Qed.

  Lemma Step_trans b s1 s2 s3 : Step b s1 s2 -> Step b s2 s3 -> Step b s1 s3.
  Proof.
    intros [I1 F1 H1 (t1 & E1 & R1)] [I2 F2 H2 (t2 & E2 & R2)]. constructor; auto.
    - intros q Hq. rewrite F2, F1; auto.
    - congruence.
    - exists (t1 ++ t2). split; [rewrite E2, E1, app_assoc; reflexivity|].
      rewrite run_locks_app, R1. rewrite H1 in R2. exact R2.
  Qed.

  Lemma Step_mono b b' s s' : b <= b' -> Step b s s' -> Step b' s s'.
  Proof. intros Hb [I F H E]. constructor; auto. intros q Hq. apply F. lia. Qed.

  (* a heap write that keeps Inv, as a Step *)
  Lemma Step_put b s p n n' :
    Inv (hp s) -> p < b -> nth_error (hp s) p = Some n -> shape n' = shape n -> node_ok shp p n' ->
    qrel (table (hp s)) n n' -> jnode p n' ->
    Step b s (mkSt (set_nth p n' (hp s)) (held s) (evs s)).
  Proof.
    intros (W & HQ & HJ) Hp H Hs Hn Hq Hj. constructor; simpl.
    - split; [eapply WF_set_nth; eauto|]. split; [eapply QI_write; eauto|apply JI_write; auto].
    - intros q Hq'. apply nth_error_set_nth_neq. lia.
    - reflexivity.
    - exists []. rewrite app_nil_r. auto.
  Qed.

  (* the recursive call, on nodes below r *)
  Definition RecSpec (rec : nat -> M unit) (r : nat) : Prop :=
    forall q s, q < r -> is_stk shp q = true -> Inv (hp s) -> all_gt q (held s) ->
      exists s', rec q s = MOk tt s' /\ Step (S q) s s'.

  Lemma all_ge_gt r q l : all_ge r l -> q < r -> all_gt q l.
  Proof. intros H Hq x Hx. specialize (H x Hx). lia. Qed.

  (* re-typing a reference to the same Stack node changes nothing observable *)
  Lemma Q_retag h a a' q : WF shp h -> is_stk shp q = true ->
    Q (slot_val (table h) (SS a q)) = Q (slot_val (table h) (SS a' q)).
  Proof.
    intros W H. destruct (WF_is_stk _ _ _ W H) as (c & els & E).
    rewrite !(slot_val_SS _ _ _ q c els W E). apply HQs. reflexivity.
  Qed.
  Lemma d0_retag a a' q : is_stk shp q = true -> d0 (SS a q) = d0 (SS a' q).
  Proof. intros H. destruct (d0_SS a q H) as [-> _]. destruct (d0_SS a' q H) as [-> _]. reflexivity. Qed.

  (* ---------------- revealSingle *)
  Lemma single_ok rec r s :
    RecSpec rec r -> is_stk shp r = true -> Inv (hp s) -> all_ge r (held s) ->
    exists s', reveal_single rec r 0 s = MOk tt s' /\ Step r s s'.
  Proof.
    intros HR Hr HI Hh. pose proof HI as (W & HQ & HJ).
    destruct (WF_is_stk _ _ _ W Hr) as (cr & elr & Er).
    unfold reveal_single. erewrite mbind_ok by (apply get_stack_ok; exact Er). cbv beta iota.
    destruct (index_nonneg cr elr 0 ltac:(lia)) as (o & Eo & Ho). rewrite Eo.
    erewrite mbind_ok by reflexivity.
    destruct o as [sl|]; [|eexists; split; [reflexivity|apply Step_refl; auto]].
    destruct (Ho sl eq_refl) as [Hin _].
    destruct (slot_ok_swf _ _ _ sl W Er Hin) as [Hok Hsw].
    destruct sl as [v|a q|a p].
    - eexists; split; [reflexivity|apply Step_refl; auto].
    - destruct Hok as [Hq Hqs].
      destruct (HR q s Hq Hqs HI (all_ge_gt _ _ _ Hh Hq)) as (s' & E' & St).
      exists s'. split; [exact E'|]. eapply Step_mono; [|exact St]. lia.
    - destruct Hok as [Hp Hps]. destruct (WF_is_cnd _ _ _ W Hps) as (cc & kw & op & ex & Ep).
      erewrite mbind_ok by (apply get_cond_ok; exact Ep). cbv beta iota.
      destruct (slot_ok_swf _ _ _ ex W Ep eq_refl) as [Hexok Hexsw].
      destruct ex as [v|a' q|a' q]; try (eexists; split; [reflexivity|apply Step_refl; auto]).
      destruct Hexok as [Hq Hqs].
      assert (Hqr : q < r) by lia.
      destruct (HR q s Hqr Hqs HI (all_ge_gt _ _ _ Hh Hqr)) as (s1 & E1 & St1).
      erewrite mbind_ok by exact E1.
      (* c.SetExpression(inner) *)
      pose proof (st_inv _ _ _ St1) as HI1. pose proof HI1 as (W1 & HQ1 & HJ1).
      assert (Ep1 : nth_error (hp s1) p = Some (HC cc kw op (SS a' q))).
      { rewrite (st_frame _ _ _ St1) by lia. exact Ep. }
      unfold set_expression. erewrite mbind_ok by (apply get_cond_ok; exact Ep1). cbv beta iota.
      assert (St01 : Step r s s1) by (eapply Step_mono; [|exact St1]; lia).
      destruct (negb (positive cc c_ronly)); [|exists s1; split; [reflexivity|exact St01]].
      destruct (negb (positive cc c_nnest)); [|exists s1; split; [reflexivity|exact St01]].
      destruct (c_err cc); [exists s1; split; [reflexivity|exact St01]|].
      eexists; split; [reflexivity|]. eapply Step_trans; [exact St01|].
      eapply Step_put; eauto.
      + simpl. split; auto.
      + simpl. apply Q_retag; auto.
      + simpl. specialize (HJ1 p _ Ep1). simpl in HJ1. rewrite (d0_retag Native a' q Hqs). exact HJ1.
  Qed.


  (* ---------------- revealDescend *)
  Definition slot_paren (h : heap) (s : slot) : bool :=
    match s with
    | SS _ p => match nth_error h p with Some (HS c _) => positive c c_parens | _ => false end
    | SC _ p => match nth_error h p with Some (HC c _ _ _) => positive c c_parens | _ => false end
    | SV _ => false
    end.

  Lemma slot_is_paren_ok x st k :
    WF shp (hp st) -> slot_ok shp k x -> slot_is_paren x st = MOk (slot_paren (hp st) x) st.
  Proof.
    intros W Hok. destruct x as [v|a p|a p]; simpl; [reflexivity| |].
    - destruct Hok as [_ H]. destruct (WF_is_stk _ _ _ W H) as (c & els & E).
      erewrite mbind_ok by (apply get_stack_ok; exact E). rewrite E. reflexivity.
    - destruct Hok as [_ H]. destruct (WF_is_cnd _ _ _ W H) as (c & kw & op & ex & E).
      erewrite mbind_ok by (apply get_cond_ok; exact E). rewrite E. reflexivity.
  Qed.

  Lemma is_stk_lt r : is_stk shp r = true -> r < length h0.
  Proof.
    unfold is_stk. intros H. destruct (nth_error shp r) eqn:E; [|discriminate].
    assert (r < length shp) by (apply nth_error_Some; congruence). unfold shp in *. rewrite map_length in *. lia.
  Qed.

  (* the element of a redundant wrapper, as the code recognises one, has the
     wrapper's observation *)
  Lemma unwrap_fact h a q ci ch :
    WF shp h -> nth_error h q = Some (HS ci [ch]) -> slot_ok shp q ch ->
    is_interface ch = true -> slot_paren h ch = false ->
    positive ci c_parens = false -> (c_typ ci =? c_not)%N = false ->
    Q (slot_val (table h) (SS a q)) = Q (slot_val (table h) ch).
  Proof.
    intros W E Hok Hi Hp Hcp Hcn. rewrite (slot_val_SS _ _ a q ci [ch] W E). simpl map.
    apply HQu. unfold redundant, sp_plain. rewrite <- flag_paren, Hcp, <- kind_not, Hcn. simpl.
    destruct ch as [v|a' p|a' p].
    - destruct v; try discriminate; destruct a0; try discriminate; reflexivity.
    - destruct a'; try discriminate. destruct Hok as [_ H]. destruct (WF_is_stk _ _ _ W H) as (c & els & Ep).
      rewrite (slot_val_SS _ _ _ p c els W Ep). simpl. simpl in Hp. rewrite Ep in Hp.
      rewrite <- flag_paren, Hp. reflexivity.
    - destruct a'; try discriminate. destruct Hok as [_ H]. destruct (WF_is_cnd _ _ _ W H) as (c & kw & op & ex & Ep).
      rewrite (slot_val_SC _ _ _ p c kw op ex W Ep). simpl. simpl in Hp. rewrite Ep in Hp.
      rewrite <- flag_paren, Hp. reflexivity.
  Qed.

  Lemma descend_ok rec r q idx s :
    RecSpec rec r -> is_stk shp r = true -> is_stk shp q = true -> q < r ->
    Inv (hp s) -> all_ge r (held s) ->
    (forall cr elr, nth_error (hp s) r = Some (HS cr elr) -> (0 <= idx < zlen elr)%Z ->
                    exists a, nth_error elr (Z.to_nat idx) = Some (SS a q)) ->
    exists s', reveal_descend rec r q idx s = MOk tt s' /\ Step (S r) s s'.
  Proof.
    intros HR Hr Hqs Hqr HI Hh Hidx. pose proof HI as (W & HQ & HJ).
    destruct (WF_is_stk _ _ _ W Hqs) as (ci & eli & Eq).
    destruct (WF_is_stk _ _ _ W Hr) as (cr & elr & Er).
    assert (Hrl : r < length h0) by (apply is_stk_lt; exact Hr).
    unfold reveal_descend. erewrite mbind_ok by (apply get_stack_ok; exact Eq). cbv beta iota.
    match goal with |- exists s', mbind ?m ?f s = _ /\ _ =>
      assert (Hupd : exists u s2, m s = MOk u s2 /\ Step r s s2 /\
                match u with
                | None => True
                | Some x => slot_ok shp r x /\
                            (forall a, Q (slot_val (table (hp s2)) x) = Q (slot_val (table (hp s2)) (SS a q))) /\
                            d0 x <= dn0 q
                end)
    end.
    { destruct (c_typ ci =? c_not)%N eqn:Hnot; cbn [negb andb];
        [exists None, s; split; [reflexivity|split; [apply Step_refl; auto|exact I]]|].
      destruct (zlen eli =? 1)%Z eqn:HL.
      - (* case 1 *)
        apply Z.eqb_eq in HL. unfold zlen in HL. assert (HL' : length eli = 1) by lia.
        destruct eli as [|e [|e' eli]]; simpl in HL'; try lia. clear HL HL'.
        destruct (index_nonneg ci [e] 0 ltac:(lia)) as (o & Eo & Ho). rewrite Eo.
        erewrite mbind_ok by reflexivity.
        destruct o as [ch|]; [|exists None, s; split; [reflexivity|split; [apply Step_refl; auto|exact I]]].
        destruct (Ho ch eq_refl) as [_ Hnth]. specialize (Hnth ltac:(unfold zlen; simpl; lia)).
        simpl in Hnth. inversion Hnth; subst e. clear Hnth Ho Eo.
        destruct (slot_ok_swf _ _ _ ch W Eq ltac:(simpl; auto)) as [Hchok Hchsw].
        destruct (is_interface ch) eqn:Hif;
          [|exists None, s; split; [reflexivity|split; [apply Step_refl; auto|exact I]]].
        erewrite mbind_ok by (eapply slot_is_paren_ok; eauto).
        destruct (slot_paren (hp s) ch) eqn:Hcp; cbn [negb andb];
          [exists None, s; split; [reflexivity|split; [apply Step_refl; auto|exact I]]|].
        destruct (positive ci c_parens) eqn:Hip; cbn [negb andb];
          [exists None, s; split; [reflexivity|split; [apply Step_refl; auto|exact I]]|].
        destruct (single_ok rec r s HR Hr HI Hh) as (s2 & E2 & St2).
        erewrite mbind_ok by exact E2.
        exists (Some ch), s2. split; [reflexivity|]. split; [exact St2|].
        pose proof (st_inv _ _ _ St2) as (W2 & HQ2 & HJ2).
        split; [eapply slot_ok_mono; [|exact Hchok]; lia|]. split.
        + intros a. assert (Hsw : swf (SS a q)) by (simpl; split; [lia|exact Hqs]).
          rewrite (HQ2 ch Hchsw), (HQ2 _ Hsw), <- (HQ ch Hchsw), <- (HQ _ Hsw).
          symmetry. eapply unwrap_fact; eauto.
        + specialize (HJ q _ Eq). simpl in HJ. inversion HJ; subst. lia.
      - (* default *)
        destruct (HR q s Hqr Hqs HI (all_ge_gt _ _ _ Hh Hqr)) as (s2 & E2 & St2).
        erewrite mbind_ok by exact E2.
        exists (Some (SS Native q)), s2. split; [reflexivity|].
        split; [eapply Step_mono; [|exact St2]; lia|].
        pose proof (st_inv _ _ _ St2) as (W2 & HQ2 & HJ2).
        split; [simpl; auto|]. split.
        + intros a. apply Q_retag; auto.
        + destruct (d0_SS Native q Hqs) as [-> _]. lia. }
    destruct Hupd as (u & s2 & Eu & St2 & Hu). erewrite mbind_ok by exact Eu.
    pose proof (st_inv _ _ _ St2) as HI2. pose proof HI2 as (W2 & HQ2 & HJ2).
    assert (Er2 : nth_error (hp s2) r = Some (HS cr elr)).
    { rewrite (st_frame _ _ _ St2) by lia. exact Er. }
    assert (Hh2 : all_ge r (held s2)) by (rewrite (st_held _ _ _ St2); exact Hh).
    (* the replace *)
    assert (Hrep : exists s3, (match u with Some x => replace r x idx | None => ret tt end) s2 = MOk tt s3 /\ Step (S r) s2 s3).
    { destruct u as [x|]; [|exists s2; split; [reflexivity|apply Step_refl; auto]].
      destruct Hu as (Hxok & Hxq & Hxd).
      unfold replace. erewrite mbind_ok by (apply get_stack_ok; exact Er2). cbv beta iota.
      destruct ((0 <=? idx)%Z && (idx <? zlen elr)%Z) eqn:Hb; [|exists s2; split; [reflexivity|apply Step_refl; auto]].
      apply andb_true_iff in Hb. destruct Hb as [Hb1 Hb2]. apply Z.leb_le in Hb1. apply Z.ltb_lt in Hb2.
      destruct (Hidx cr elr Er (conj Hb1 Hb2)) as (a & Ea).
      eexists; split; [reflexivity|].
      eapply Step_put; eauto.
      - simpl. rewrite length_set_nth. reflexivity.
      - simpl. apply Forall_set_nth; auto. destruct W2 as [_ Wn]. exact (Wn r _ Er2).
      - simpl. eapply Forall2_set_nth; [exact Ea| |reflexivity]. symmetry. apply Hxq.
      - simpl. specialize (HJ2 r _ Er2). simpl in HJ2. apply Forall_set_nth; auto.
        rewrite Forall_forall in HJ2. specialize (HJ2 _ (nth_error_In _ _ Ea)).
        destruct (d0_SS a q Hqs) as [Ed _]. lia. }
    destruct Hrep as (s3 & E3 & St3). erewrite mbind_ok by exact E3.
    (* second pass *)
    pose proof (st_inv _ _ _ St3) as HI3.
    assert (Hh3 : all_gt q (held s3)).
    { rewrite (st_held _ _ _ St3). eapply all_ge_gt; eauto. }
    destruct (HR q s3 Hqr Hqs HI3 Hh3) as (s4 & E4 & St4).
    exists s4. split; [exact E4|].
    eapply Step_trans; [eapply Step_mono; [|exact St2]; lia|].
    eapply Step_trans; [exact St3|]. eapply Step_mono; [|exact St4]. lia.
  Qed.


  (* ---------------- the loop of stack.reveal *)
  Lemma loop_ok rec r : RecSpec rec r -> is_stk shp r = true ->
    forall n i s, (0 <= i)%Z -> Inv (hp s) -> all_ge r (held s) ->
      (forall c els, nth_error (hp s) r = Some (HS c els) ->
                     (i <= 1 + zlen els)%Z /\ (1 + zlen els - i < Z.of_nat n)%Z) ->
      exists s', reveal_loop rec r n i s = MOk tt s' /\ Step (S r) s s'.
  Proof.
    intros HR Hr. induction n as [|n IH]; intros i s Hi HI Hh Hn; pose proof HI as (W & HQ & HJ);
      destruct (WF_is_stk _ _ _ W Hr) as (cr & elr & Er); destruct (Hn _ _ Er) as [Hn1 Hn2]; [lia|].
    rewrite reveal_loop_S. erewrite mbind_ok by (apply get_stack_ok; exact Er). cbv beta iota.
    destruct (i <? 1 + zlen elr)%Z eqn:Hlt; [|exists s; split; [reflexivity|apply Step_refl; auto]].
    apply Z.ltb_lt in Hlt.
    destruct (index_nonneg cr elr i Hi) as (o & Eo & Ho). rewrite Eo. erewrite mbind_ok by reflexivity.
    assert (Hbody : exists s1,
               (match o with
                | Some (SS _ q) => let* (_, elo) := get_stack q in
                                   if (0 <? zlen elo)%Z then reveal_descend rec r q i else ret tt
                | _ => ret tt
                end) s = MOk tt s1 /\ Step (S r) s s1).
    { destruct o as [[v|a q|a p]|]; try (exists s; split; [reflexivity|apply Step_refl; auto]).
      destruct (Ho _ eq_refl) as [Hin Hnth].
      destruct (slot_ok_swf _ _ _ _ W Er Hin) as [[Hqr Hqs] _].
      destruct (WF_is_stk _ _ _ W Hqs) as (cq & elq & Eq).
      erewrite mbind_ok by (apply get_stack_ok; exact Eq). cbv beta iota.
      destruct (0 <? zlen elq)%Z; [|exists s; split; [reflexivity|apply Step_refl; auto]].
      apply descend_ok; auto.
      intros cr' elr' Er' Hb. rewrite Er in Er'. inversion Er'; subst cr' elr'.
      exists a. apply Hnth. lia. }
    destruct Hbody as (s1 & E1 & St1).
    erewrite mbind_ok by exact E1.
    pose proof (st_inv _ _ _ St1) as HI1.
    destruct (IH (i + 1)%Z s1 ltac:(lia) HI1) as (s2 & E2 & St2).
    - rewrite (st_held _ _ _ St1). exact Hh.
    - intros c els Er1. destruct HI1 as (W1 & _ & _).
      destruct (same_shape _ _ _ _ _ _ _ W W1 Er Er1) as [_ Hlen]. unfold zlen in *. lia.
    - exists s2. split; [exact E2|]. eapply Step_trans; eauto.
  Qed.

  (* ---------------- stack.reveal *)
  Lemma body_ok rec r s :
    RecSpec rec r -> is_stk shp r = true -> Inv (hp s) -> all_gt r (held s) ->
    exists s', reveal_body rec r s = MOk tt s' /\ Step (S r) s s'.
  Proof.
    intros HR Hr HI Hh. pose proof HI as (W & HQ & HJ).
    destruct (WF_is_stk _ _ _ W Hr) as (cr & elr & Er).
    assert (Hge : all_ge r (held s)) by (intros x Hx; specialize (Hh x Hx); lia).
    unfold reveal_body.
    destruct (c_mtx cr) eqn:Hm.
    - (* mutex enabled *)
      set (s1 := mkSt (hp s) (r :: held s) (evs s ++ [(true, r)])).
      assert (El : lock r s = MOk tt s1).
      { rewrite (lock_ok r s cr elr Er), Hm, memb_mem, mem_fresh by exact Hh. reflexivity. }
      erewrite mbind_ok by exact El.
      assert (Er1 : nth_error (hp s1) r = Some (HS cr elr)) by exact Er.
      erewrite mbind_ok by (apply get_stack_ok; exact Er1). cbv beta iota.
      destruct (loop_ok rec r HR Hr (S (S (length elr))) 0%Z s1 ltac:(lia) HI) as (s2 & E2 & St2).
      + intros x [<-|Hx]; [lia|apply Hge; auto].
      + intros c els E. simpl in E. rewrite Er in E. inversion E; subst. unfold zlen. lia.
      + erewrite mbind_ok by exact E2.
        pose proof (st_inv _ _ _ St2) as HI2. pose proof HI2 as (W2 & _ & _).
        assert (Er2 : exists elr2, nth_error (hp s2) r = Some (HS cr elr2)).
        { destruct (WF_is_stk _ _ _ W2 Hr) as (c2 & el2 & E).
          destruct (same_shape _ _ _ _ _ _ _ W W2 Er E) as [-> _]. eauto. }
        destruct Er2 as (elr2 & Er2).
        rewrite (unlock_ok r s2 cr elr2 Er2), Hm.
        eexists; split; [reflexivity|].
        destruct St2 as [I2 F2 H2 (t & Et & Rt)]. constructor; simpl; auto.
        * rewrite H2. simpl. rewrite Nat.eqb_refl. reflexivity.
        * exists ((true, r) :: t ++ [(false, r)]). split.
          -- rewrite Et. simpl. rewrite <- !app_assoc. reflexivity.
          -- simpl. rewrite mem_fresh by exact Hh. rewrite run_locks_app. simpl in Rt. rewrite Rt.
             simpl. rewrite Nat.eqb_refl. reflexivity.
    - (* no mutex *)
      assert (El : lock r s = MOk tt s) by (rewrite (lock_ok r s cr elr Er), Hm; reflexivity).
      erewrite mbind_ok by exact El.
      erewrite mbind_ok by (apply get_stack_ok; exact Er). cbv beta iota.
      destruct (loop_ok rec r HR Hr (S (S (length elr))) 0%Z s ltac:(lia) HI Hge) as (s2 & E2 & St2).
      + intros c els E. rewrite Er in E. inversion E; subst. unfold zlen. lia.
      + erewrite mbind_ok by exact E2.
        pose proof (st_inv _ _ _ St2) as HI2. pose proof HI2 as (W2 & _ & _).
        destruct (WF_is_stk _ _ _ W2 Hr) as (c2 & el2 & E).
        destruct (same_shape _ _ _ _ _ _ _ W W2 Er E) as [-> _].
        rewrite (unlock_ok r s2 cr el2 E), Hm.
        exists s2. split; [reflexivity|exact St2].
  Qed.

  (* fuel r+1 is enough for node r *)
  Lemma reveal_ok : forall f r s,
    r < f -> is_stk shp r = true -> Inv (hp s) -> all_gt r (held s) ->
    exists s', reveal f r s = MOk tt s' /\ Step (S r) s s'.
  Proof.
    induction f as [|f IH]; intros r s Hf Hr HI Hh; [lia|].
    rewrite reveal_S. apply body_ok; auto.
    intros q s' Hq Hqs HI' Hh'. apply IH; auto. lia.
  Qed.

  (* ---------------- the call on the root of h0 *)
  Lemma root_run a p :
    is_stk shp p = true ->
    exists s, reveal (S p) p (mkSt h0 [] []) = MOk tt s /\
              Q (slot_val (table (hp s)) (SS a p)) = Q (slot_val T0 (SS a p)) /\
              depth (slot_val (table (hp s)) (SS a p)) <= depth (slot_val T0 (SS a p)) /\
              held s = [] /\ run_locks Nat.eqb (evs s) [] = Some [].
  Proof.
    intros Hp.
    destruct (reveal_ok (S p) p (mkSt h0 [] []) ltac:(lia) Hp Inv_h0) as (s & E & St).
    { intros x []. }
    exists s. split; [exact E|].
    destruct St as [(W & HQ & HJ) F H (t & Et & Rt)]. simpl in Et, Rt, H.
    assert (Hsw : swf (SS a p)) by (split; [apply is_stk_lt; exact Hp|exact Hp]).
    split; [apply HQ; exact Hsw|]. split; [apply (depth_le _ W HJ _ _ Hsw)|].
    split; [exact H|]. rewrite Et. exact Rt.
  Qed.

End Inv.

(* =================================================================== *)
(* From heaps back to trees: Stack.Reveal on an arbitrary tree. *)

Lemma load_facts a c els root h :
  load (VStack a c els) [] = (root, h) ->
  exists p, root = SS a p /\ WF (map shape h) h /\ is_stk (map shape h) p = true /\
            slot_val (table h) (SS a p) = VStack a c els.
Proof.
  intros E. destruct (load_root_stack _ _ _ _ _ E) as (p & -> & Hp).
  destruct (load_root _ _ _ E) as (W & Hok & Hv).
  exists p. split; [reflexivity|]. split; [exact W|]. split; [exact (proj2 Hok)|exact Hv].
Qed.

(* the state in which the call on the root ends, for any sufficient fuel *)
Lemma root_state a c els root h p :
  load (VStack a c els) [] = (root, h) -> root = SS a p ->
  forall f, p < f ->
  exists s, reveal f p (mkSt h [] []) = MOk tt s /\
            depth (slot_val (table (hp s)) root) <= depth (VStack a c els) /\
            (forall A (Q : value -> A), wrapper_blind Q -> Q (slot_val (table (hp s)) root) = Q (VStack a c els)) /\
            held s = [] /\ run_locks Nat.eqb (evs s) [] = Some [].
Proof.
  intros E -> f Hf.
  destruct (load_facts _ _ _ _ _ E) as (p' & Hr & W & Hs & Hv). inversion Hr; subst p'.
  (* the trivial observation gives the state *)
  assert (Htriv : wrapper_blind (fun _ : value => tt)) by (constructor; reflexivity).
  destruct Htriv as [T1 T2 T3].
  destruct (reveal_ok unit (fun _ => tt) T1 T2 T3 h W f p (mkSt h [] []) Hf Hs (Inv_h0 _ _ h W))
    as (s & Es & St); [intros x []|].
  exists s. split; [exact Es|].
  assert (Hsw : slot_ok (map shape h) (length h) (SS a p)).
  { split; [|exact Hs]. unfold is_stk in Hs. destruct (nth_error (map shape h) p) eqn:X; [|discriminate].
    assert (p < length (map shape h)) by (apply nth_error_Some; congruence). rewrite map_length in *. lia. }
  split; [|split; [|split]].
  - destruct St as [(W' & _ & HJ) _ _ _]. rewrite <- Hv.
    exact (depth_le h W _ W' HJ _ _ Hsw).
  - intros A Q [Q1 Q2 Q3].
    destruct (reveal_ok A Q Q1 Q2 Q3 h W f p (mkSt h [] []) Hf Hs (Inv_h0 _ _ h W))
      as (s' & Es' & St'); [intros x []|].
    rewrite Es in Es'. inversion Es'; subst s'.
    destruct St' as [(_ & HQ & _) _ _ _]. rewrite <- Hv. apply HQ. exact Hsw.
  - destruct St as [_ _ H _]. exact H.
  - destruct St as [_ _ _ (t & Et & Rt)]. simpl in Et, Rt. rewrite Et. exact Rt.
Qed.

(* Stack.Reveal returns, and no wrapper-blind observation (and not the depth
   bound) can tell its result from its argument *)
Theorem Reveal_spec : forall t,
  exists t' locks, Reveal t = Ok (Returned t' locks) /\
    depth t' <= depth t /\
    forall A (Q : value -> A), wrapper_blind Q -> Q t' = Q t.
Proof.
  intros t. destruct t as [| g | a c els | a c kw op ex | a | a];
    try (eexists; eexists; split; [reflexivity|split; [lia|reflexivity]]).
  unfold Reveal. destruct (negb (positive c c_ronly));
    [|eexists; eexists; split; [reflexivity|split; [lia|reflexivity]]].
  unfold run_root. destruct (load (VStack a c els) []) as [root h] eqn:E.
  destruct (load_facts _ _ _ _ _ E) as (p & -> & _).
  destruct (root_state a c els _ h p E eq_refl (S p) ltac:(lia)) as (s & Es & Hd & HQ & _).
  rewrite Es. eexists; eexists; split; [reflexivity|]. split; [exact Hd|exact HQ].
Qed.

(* the same for every fuel above the root's index: the fuel never runs out,
   no lock is requested while held (the run never blocks), every lock taken
   is released *)
Theorem Reveal_run : forall a c els root h,
  load (VStack a c els) [] = (root, h) ->
  exists p, root = SS a p /\ forall f, p < f ->
    exists s, reveal f p (mkSt h [] []) = MOk tt s /\
              held s = [] /\ run_locks Nat.eqb (evs s) [] = Some [] /\
              depth (slot_val (table (hp s)) root) <= depth (VStack a c els) /\
              forall A (Q : value -> A), wrapper_blind Q -> Q (slot_val (table (hp s)) root) = Q (VStack a c els).
Proof.
  intros a c els root h E. destruct (load_facts _ _ _ _ _ E) as (p & Hr & _).
  exists p. split; [exact Hr|]. intros f Hf.
  destruct (root_state a c els root h p E Hr f Hf) as (s & Es & Hd & HQ & Hh & Hl).
  exists s. auto.
Qed.

(* ------------------------------------------------------------ corollaries *)
Lemma Reveal_returned t t' l :
  Reveal t = Ok (Returned t' l) ->
  depth t' <= depth t /\ forall A (Q : value -> A), wrapper_blind Q -> Q t' = Q t.
Proof.
  intros H. destruct (Reveal_spec t) as (t'' & l' & E & Hd & HQ).
  rewrite E in H. inversion H; subst. auto.
Qed.

Theorem reveal_total t : exists t' locks, Reveal t = Ok (Returned t' locks).
Proof. destruct (Reveal_spec t) as (t' & l & E & _). eauto. Qed.

Theorem reveal_only_unwraps t t' l : Reveal t = Ok (Returned t' l) ->
  forall A (Q : value -> A), wrapper_blind Q -> Q t' = Q t.
Proof. intros H. exact (proj2 (Reveal_returned t t' l H)). Qed.

Theorem reveal_leaves t t' l : Reveal t = Ok (Returned t' l) -> dfs_leaves t' = dfs_leaves t.
Proof. intros H. exact (reveal_only_unwraps t t' l H _ dfs_leaves RevealSpecLemmas.dfs_leaves_blind). Qed.

Theorem reveal_depth_le t t' l : Reveal t = Ok (Returned t' l) -> depth t' <= depth t.
Proof. intros H. exact (proj1 (Reveal_returned t t' l H)). Qed.

Theorem reveal_keeps_paren_not t t' l : Reveal t = Ok (Returned t' l) -> pn_stacks t' = pn_stacks t.
Proof. intros H. exact (reveal_only_unwraps t t' l H _ pn_stacks RevealSpecLemmas.pn_stacks_blind). Qed.

Theorem reveal_same_normal_form t t' l : Reveal t = Ok (Returned t' l) -> unwrap_all t' = unwrap_all t.
Proof. intros H. exact (reveal_only_unwraps t t' l H _ unwrap_all RevealSpecLemmas.unwrap_all_blind). Qed.

(* never a deadlock: the run on the root ends normally, holding no lock,
   and its lock events replay from the empty set back to the empty set *)
Theorem reveal_lock_balanced a c els :
  exists root s, run_root (VStack a c els) = (root, MOk tt s) /\
                 held s = [] /\ run_locks Nat.eqb (evs s) [] = Some [].
Proof.
  unfold run_root. destruct (load (VStack a c els) []) as [root h] eqn:E.
  destruct (Reveal_run a c els root h E) as (p & -> & Hf).
  destruct (Hf (S p) ltac:(lia)) as (s & Es & Hh & Hl & _).
  exists (SS a p), s. rewrite Es. auto.
Qed.

Theorem reveal_fuel_sufficient a c els root h :
  load (VStack a c els) [] = (root, h) ->
  exists p, root = SS a p /\ forall f, p < f ->
    exists s, reveal f p (mkSt h [] []) = MOk tt s /\
              dfs_leaves (slot_val (table (hp s)) root) = dfs_leaves (VStack a c els) /\
              unwrap_all (slot_val (table (hp s)) root) = unwrap_all (VStack a c els).
Proof.
  intros E. destruct (Reveal_run a c els root h E) as (p & Hr & Hf).
  exists p. split; [exact Hr|]. intros f Hlt.
  destruct (Hf f Hlt) as (s & Es & _ & _ & _ & HQ).
  exists s. split; [exact Es|]. split.
  - exact (HQ _ dfs_leaves RevealSpecLemmas.dfs_leaves_blind).
  - exact (HQ _ unwrap_all RevealSpecLemmas.unwrap_all_blind).
Qed.

(* ------------------------------------------------------------ more fuel changes nothing *)
Definition le_m {X} (m m' : M X) : Prop := forall s a s', m s = MOk a s' -> m' s = MOk a s'.

Lemma le_m_refl {X} (m : M X) : le_m m m.
Proof. intros s a s' H; exact H. Qed.

Lemma le_m_bind {X Y} (m m' : M X) (f f' : X -> M Y) :
  le_m m m' -> (forall a, le_m (f a) (f' a)) -> le_m (mbind m f) (mbind m' f').
Proof.
  intros Hm Hf s b s'. unfold mbind. destruct (m s) as [a s1| | |] eqn:E; try discriminate.
  rewrite (Hm _ _ _ E). apply Hf.
Qed.

Section Mono.
  Variables rec rec' : nat -> M unit.
  Hypothesis Hrec : forall q, le_m (rec q) (rec' q).

  Lemma single_mono r i : le_m (reveal_single rec r i) (reveal_single rec' r i).
  Proof.
    unfold reveal_single. apply le_m_bind; [apply le_m_refl|]. intros [c els].
    apply le_m_bind; [apply le_m_refl|]. intros [[v|a q|a p]|]; try apply le_m_refl.
    - apply Hrec.
    - apply le_m_bind; [apply le_m_refl|]. intros [[[cc kw] op] [v|a' q|a' q]]; try apply le_m_refl.
      apply le_m_bind; [apply Hrec|]. intros; apply le_m_refl.
  Qed.

  Lemma descend_mono r q i : le_m (reveal_descend rec r q i) (reveal_descend rec' r q i).
  Proof.
    unfold reveal_descend. apply le_m_bind; [apply le_m_refl|]. intros [ci eli].
    apply le_m_bind.
    - destruct (negb (c_typ ci =? c_not)%N); [|apply le_m_refl].
      destruct (zlen eli =? 1)%Z.
      + apply le_m_bind; [apply le_m_refl|]. intros [ch|]; [|apply le_m_refl].
        destruct (is_interface ch); [|apply le_m_refl].
        apply le_m_bind; [apply le_m_refl|]. intros chp.
        destruct (negb chp && negb (positive ci c_parens)); [|apply le_m_refl].
        apply le_m_bind; [apply single_mono|]. intros; apply le_m_refl.
      + apply le_m_bind; [apply Hrec|]. intros; apply le_m_refl.
    - intros u. apply le_m_bind; [apply le_m_refl|]. intros _. apply Hrec.
  Qed.

  Lemma loop_mono r n : forall i, le_m (reveal_loop rec r n i) (reveal_loop rec' r n i).
  Proof.
    induction n as [|n IH]; intros i; [apply le_m_refl|].
    rewrite !reveal_loop_S. apply le_m_bind; [apply le_m_refl|]. intros [c els].
    destruct (i <? 1 + zlen els)%Z; [|apply le_m_refl].
    apply le_m_bind; [apply le_m_refl|]. intros sl.
    apply le_m_bind; [|intros _; apply IH].
    destruct sl as [[v|a q|a p]|]; try apply le_m_refl.
    apply le_m_bind; [apply le_m_refl|]. intros [cq elo].
    destruct (0 <? zlen elo)%Z; [apply descend_mono|apply le_m_refl].
  Qed.

  Lemma body_mono r : le_m (reveal_body rec r) (reveal_body rec' r).
  Proof.
    unfold reveal_body. apply le_m_bind; [apply le_m_refl|]. intros _.
    apply le_m_bind; [apply le_m_refl|]. intros [c els].
    apply le_m_bind; [apply loop_mono|]. intros _. apply le_m_refl.
  Qed.
End Mono.

Lemma reveal_mono_S : forall f r, le_m (reveal f r) (reveal (S f) r).
Proof.
  induction f as [|f IH]; intros r.
  - intros s a s' H. discriminate.
  - rewrite !reveal_S. apply body_mono. exact IH.
Qed.

Lemma reveal_mono f f' r : f <= f' -> le_m (reveal f r) (reveal f' r).
Proof.
  induction 1 as [|f' Hle IH]; [apply le_m_refl|].
  intros s a s' H. apply reveal_mono_S. apply IH. exact H.
Qed.

(* every amount of fuel above the root's index gives the run Reveal makes *)
Theorem reveal_fuel_irrelevant a c els root h :
  load (VStack a c els) [] = (root, h) ->
  exists p, root = SS a p /\ forall f, p < f ->
    reveal f p (mkSt h [] []) = reveal (S p) p (mkSt h [] []).
Proof.
  intros E. destruct (Reveal_run a c els root h E) as (p & Hr & Hf).
  exists p. split; [exact Hr|]. intros f Hlt.
  destruct (Hf (S p) ltac:(lia)) as (s & Es & _).
  rewrite Es. apply (reveal_mono (S p) f p ltac:(lia)). exact Es.
Qed.
