(* StackImpl.v -- raw-slot model of the list core of stack.go.

   The state is the Go slice itself: slot 0 holds the configuration record,
   user elements live in slots 1..n.  Every operation is written the way the
   Go code is written (explicit +1 offsets, the same order of checks), and the
   scalar guards are *imported from Generated.v*, which the translator rewrites
   from /repo on every run.  Places where Go would panic (slice index out of
   range) yield [Panic]; a shape of translated fragment this file does not
   know yields [Unmodelled].  No proofs in this file. *)
From Stackage Require Import Base Generated.
Open Scope Z_scope.

Inductive res (T : Type) : Type :=
| Ok (x : T)
| Panic
| Unmodelled.
Arguments Ok {T} x.
Arguments Panic {T}.
Arguments Unmodelled {T}.

Definition bind {A B} (r : res A) (f : A -> res B) : res B :=
  match r with Ok x => f x | Panic => Panic | Unmodelled => Unmodelled end.
Notation "'do' x <- r ; k" := (bind r (fun x => k)) (at level 200, x pattern, r at level 100, k at level 200).

(* the part of nodeConfig the list core reads or writes *)
Record scfg := {
  k_typ : N;          (* stack kind constant *)
  k_cap : Z;          (* 0 = no capacity, else capacity + 1 *)
  k_opt : N;          (* option bit word *)
  k_ord : bool;       (* true = FIFO *)
  k_err : option N;   (* error currently recorded (identified by a number) *)
  k_ppf : option N    (* installed push policy (identified by a number) *)
}.

Definition with_opt (c : scfg) (o : N) : scfg :=
  {| k_typ := k_typ c; k_cap := k_cap c; k_opt := o; k_ord := k_ord c; k_err := k_err c; k_ppf := k_ppf c |}.
Definition with_ord (c : scfg) (b : bool) : scfg :=
  {| k_typ := k_typ c; k_cap := k_cap c; k_opt := k_opt c; k_ord := b; k_err := k_err c; k_ppf := k_ppf c |}.
Definition with_err (c : scfg) (e : option N) : scfg :=
  {| k_typ := k_typ c; k_cap := k_cap c; k_opt := k_opt c; k_ord := k_ord c; k_err := e; k_ppf := k_ppf c |}.
Definition with_ppf (c : scfg) (p : option N) : scfg :=
  {| k_typ := k_typ c; k_cap := k_cap c; k_opt := k_opt c; k_ord := k_ord c; k_err := k_err c; k_ppf := p |}.

Section Impl.
  (* element values: anything with a notion of "is the nil interface" and
     "is a Stack or Stack alias" *)
  Variable V : Type.
  Variable nilv : V.
  Variable isnil : V -> bool.
  Variable isstack : V -> bool.
  (* user push policies: policy id -> offered value -> error id (None = accept) *)
  Variable pol : N -> V -> option N.

  Inductive slot := SCfg (c : scfg) | SVal (v : V).
  Definition raw := list slot.

  Definition positive (c : scfg) (f : N) : bool := g_flag_positive (k_opt c) f.

  (* newStack(t, fifo, c...) *)
  Definition new_stack (t : N) (fifo : bool) (c : option Z) : raw :=
    let cap := match c with Some k => if 0 <? k then k + 1 else 0 | None => 0 end in
    [SCfg {| k_typ := t; k_cap := cap; k_opt := 0%N; k_ord := fifo; k_err := None; k_ppf := None |}].

  (* r.config(): type assertion on slot 0; a nil *nodeConfig is then
     dereferenced by every caller, so a non-config slot 0 is a panic and an
     empty slice is an index-out-of-range panic *)
  Definition config (r : raw) : res scfg :=
    match r with SCfg c :: _ => Ok c | _ => Panic end.

  Definition set_config (r : raw) (c : scfg) : raw :=
    match r with _ :: t => SCfg c :: t | [] => [] end.

  Definition ulen (r : raw) : Z := g_ulen (zlen r).

  Definition slot_val (s : slot) : V := match s with SVal v => v | SCfg _ => nilv end.
  Definition slot_notnil (s : slot) : bool := match s with SVal v => negb (isnil v) | SCfg _ => true end.

  (* stack.index *)
  Definition index (r : raw) (i : Z) : res (slot * Z * bool) :=
    do c <- config r;
    match g_index (ulen r) (positive c c_negidx) (positive c c_fwdidx) i with
    | TRet [_; idx] [ok] => Ok (SVal nilv, idx, ok)
    | TCut 0 [i'; _] [_] =>
        match znth r i' with
        | Some s => Ok (s, i', slot_notnil s)
        | None => Panic
        end
    | _ => Unmodelled
    end.

  (* canPushNester *)
  Definition can_push_nester (c : scfg) (x : V) : bool :=
    if positive c c_nnest then negb (isstack x) else true.

  (* genericAppend *)
  Fixpoint generic_append (c : scfg) (r : raw) (xs : list V) : raw :=
    match xs with
    | [] => r
    | x :: xs' =>
        if can_push_nester c x then
          if negb (g_isFull (zlen r) (k_cap c)) then generic_append c (r ++ [SVal x]) xs'
          else generic_append c r xs'
        else generic_append c r xs'
    end.

  (* methodAppend: returns the slice, the error recorded (if any) and the
     log of values the policy was consulted on *)
  Fixpoint method_append (p : N) (c : scfg) (r : raw) (xs : list V) (log : list V)
    : raw * option N * list V :=
    match xs with
    | [] => (r, None, log)
    | x :: xs' =>
        if negb (g_isFull (zlen r) (k_cap c)) then
          match pol p x with
          | Some e => (r, Some e, log ++ [x])
          | None => method_append p c (r ++ [SVal x]) xs' (log ++ [x])
          end
        else method_append p c r xs' log
    end.

  (* stack.push *)
  Definition push (r : raw) (xs : list V) : res (raw * list V) :=
    do c <- config r;
    match k_ppf c with
    | Some p =>
        let '(r', e, log) := method_append p c r xs [] in
        match e with
        | Some e' => Ok (set_config r' (with_err c (Some e')), log)
        | None => Ok (r', log)
        end
    | None => Ok (generic_append c r xs, [])
    end.

  (* stack.pop *)
  Definition pop (r : raw) : res (raw * slot * bool) :=
    do c <- config r;
    match g_pop (ulen r) (k_ord c) (zlen r) with
    | TRet _ [ok] => Ok (r, SVal nilv, ok)
    | TCut 0 [idx] [_] =>          (* FIFO *)
        match znth r idx with
        | Some s => Ok (firstn (Z.to_nat idx) r ++ skipn (Z.to_nat (idx + 1)) r, s, slot_notnil s)
        | None => Panic
        end
    | TCut 1 [idx] [_] =>          (* LIFO *)
        match znth r idx with
        | Some s => Ok (firstn (Z.to_nat idx) r, s, slot_notnil s)
        | None => Panic
        end
    | _ => Unmodelled
    end.

  (* stack.insert *)
  Definition insert (r : raw) (x : V) (left : Z) : res (raw * bool) :=
    do c <- config r;
    match g_insert (ulen r) (k_cap c) left with
    | TRet _ [ok] => Ok (r, ok)
    | TCut 0 [u1; _] [_] =>
        let r' := r ++ [SVal x] in Ok (r', u1 + 1 =? ulen r')
    | TCut 1 [u1; l] [_] =>
        if (l <? 0) || (zlen r <? l) then Panic else
        let r' := SCfg c :: SVal x :: skipn (Z.to_nat l) r in Ok (r', u1 + 1 =? ulen r')
    | TCut 2 [u1; l] [_] =>
        if (l <? 0) || (zlen r <? l + 1) then Panic else
        let r' := set_nth (Z.to_nat l) (SVal x) (firstn (Z.to_nat (l + 1)) r ++ skipn (Z.to_nat l) r) in
        Ok (r', u1 + 1 =? ulen r')
    | _ => Unmodelled
    end.

  (* the keep-loop of stack.remove: slots 1..len-1 except [index] *)
  Fixpoint keep_except (index : Z) (i : Z) (l : raw) : raw :=
    match l with
    | [] => []
    | s :: t => if index =? i then keep_except index (i + 1) t else s :: keep_except index (i + 1) t
    end.

  (* stack.remove *)
  Definition remove (r : raw) (idx : Z) : res (raw * slot * bool) :=
    do c <- config r;
    do (s, index, found) <- index r idx;
    if found then
      let u1 := ulen r in
      let r' := SCfg c :: keep_except index 1 (tl r) in
      Ok (r', s, slot_notnil s && (u1 - 1 =? ulen r'))
    else Ok (r, s, false).

  (* stack.replace *)
  Definition replace (r : raw) (x : V) (i : Z) : res (raw * bool) :=
    match g_replace (ulen r) i with
    | TRet _ [ok] => Ok (r, ok)
    | TCut 0 [i'] [ok] =>
        if (i' + 1 <? 0) || (zlen r <=? i' + 1) then Panic
        else Ok (set_nth (Z.to_nat (i' + 1)) (SVal x) r, ok)
    | _ => Unmodelled
    end.

  (* stack.swap *)
  Definition swap (r : raw) (i j : Z) : res raw :=
    match g_swap (ulen r) i j with
    | TRet _ _ => Ok r
    | TCut 0 [i'; j'] _ =>
        match znth r i', znth r j' with
        | Some a, Some b => Ok (set_nth (Z.to_nat j') a (set_nth (Z.to_nat i') b r))
        | _, _ => Panic
        end
    | _ => Unmodelled
    end.

  (* stack.reverse: the loop swaps slots 1..len-1 pairwise from both ends *)
  Definition reverse (r : raw) : raw :=
    match r with [] => [] | c :: t => c :: rev t end.

  (* stack.reset *)
  Definition reset (r : raw) : raw := firstn 1 r.

  (* ---- the public wrappers (Stack.X), on an initialised handle ---- *)

  Inductive op :=
  | OPush (vs : list V) | OPop | OInsert (v : V) (i : Z) | ORemove (i : Z)
  | OReplace (v : V) (i : Z) | OSwap (i j : Z) | OReverse | OReset
  | OSetFIFO (b : bool) | OSetOpt (f : N) (t : option bool) | OSetPolicy (p : option N)
  | OLen | OIndex (i : Z) | OFront | OBack | OIsEmpty | OCap | OAvail | OIsFull
  | OCanNest | OIsNesting | OIsFIFO | OGetOpt (f : N) | OErrIsNil.

  Inductive out :=
  | RUnit | RVal (s : slot) (ok : bool) | RBool (b : bool) | RInt (z : Z) | RLog (l : list V).

  Definition is_init (r : raw) : bool := match r with SCfg _ :: _ => true | _ => false end.

  Definition Len (r : raw) : Z := if is_init r then ulen r else 0.
  Definition IsEmpty (r : raw) : bool := if is_init r then Len r =? 0 else true.

  Definition Index (r : raw) (i : Z) : res (slot * bool) :=
    do (s, _, ok) <- index r i; Ok (s, ok).

  (* the scan loops of Front / Back; [last] is what slice, ok hold so far *)
  Fixpoint scan_up (r : raw) (fuel : nat) (i : Z) (last : slot * bool) : res (slot * bool) :=
    match fuel with
    | O => Ok last
    | S f => do (s, ok) <- Index r i; if ok then Ok (s, ok) else scan_up r f (i + 1) (s, ok)
    end.
  Fixpoint scan_down (r : raw) (fuel : nat) (last : slot * bool) : res (slot * bool) :=
    match fuel with
    | O => Ok last
    | S f => do (s, ok) <- Index r (Z.of_nat f); if ok then Ok (s, ok) else scan_down r f (s, ok)
    end.

  Definition Front (r : raw) (c : scfg) : res (slot * bool) :=
    if k_ord c then scan_up r (Z.to_nat (Len r)) 0 (SVal nilv, false)
    else scan_down r (Z.to_nat (Len r)) (SVal nilv, false).
  Definition Back (r : raw) (c : scfg) : res (slot * bool) :=
    if negb (k_ord c) then scan_up r (Z.to_nat (Len r)) 0 (SVal nilv, false)
    else scan_down r (Z.to_nat (Len r)) (SVal nilv, false).

  Definition is_nesting (r : raw) : bool :=
    existsb (fun s => match s with SVal v => isstack v | SCfg _ => false end) (tl r).

  Definition set_state (c : scfg) (f : N) (t : option bool) : scfg :=
    if negb (positive c c_ronly) || (f =? c_ronly)%N then
      with_opt c match t with
                 | Some true => g_flag_shift (k_opt c) f
                 | Some false => g_flag_unshift (k_opt c) f
                 | None => g_flag_toggle (k_opt c) f
                 end
    else c.

  Definition step (r : raw) (o : op) : res (raw * out) :=
    do c <- config r;
    let ro := positive c c_ronly in
    match o with
    | OPush vs => if ro then Ok (r, RLog []) else do (r', log) <- push r vs; Ok (r', RLog log)
    | OPop => if IsEmpty r || ro then Ok (r, RVal (SVal nilv) false)
              else do (r', s, ok) <- pop r; Ok (r', RVal s ok)
    | OInsert v i => if isnil v || ro then Ok (r, RBool false)
                     else do (r', ok) <- insert r v i; Ok (r', RBool ok)
    | ORemove i => if ro then Ok (r, RVal (SVal nilv) false)
                   else do (r', s, ok) <- remove r i; Ok (r', RVal s ok)
    | OReplace v i => if isnil v || ro then Ok (r, RBool false)
                      else do (r', ok) <- replace r v i; Ok (r', RBool ok)
    | OSwap i j => if ro then Ok (r, RUnit) else do r' <- swap r i j; Ok (r', RUnit)
    | OReverse => if IsEmpty r || ro then Ok (r, RUnit) else Ok (reverse r, RUnit)
    | OReset => if ro then Ok (r, RUnit) else Ok (reset r, RUnit)
    | OSetFIFO b => if ro then Ok (r, RUnit)
                    else Ok (set_config r (if k_ord c then c else with_ord c b), RUnit)
    | OSetOpt f t => Ok (set_config r (set_state c f t), RUnit)
    | OSetPolicy p => if ro then Ok (r, RUnit) else Ok (set_config r (with_ppf c p), RUnit)
    | OLen => Ok (r, RInt (Len r))
    | OIndex i => do (s, ok) <- Index r i; Ok (r, RVal s ok)
    | OFront => do (s, ok) <- Front r c; Ok (r, RVal s ok)
    | OBack => do (s, ok) <- Back r c; Ok (r, RVal s ok)
    | OIsEmpty => Ok (r, RBool (IsEmpty r))
    | OCap => Ok (r, RInt (g_Cap true (k_cap c)))
    | OAvail => Ok (r, RInt (g_Avail true (zlen r) (k_cap c)))
    | OIsFull => Ok (r, RBool (g_isFull (zlen r) (k_cap c)))
    | OCanNest => Ok (r, RBool (negb (positive c c_nnest)))
    | OIsNesting => Ok (r, RBool (is_nesting r))
    | OIsFIFO => Ok (r, RBool (k_ord c))
    | OGetOpt f => Ok (r, RBool (positive c f))
    | OErrIsNil => Ok (r, RBool (match k_err c with None => true | Some _ => false end))
    end.

  Fixpoint run (r : raw) (ops : list op) : res (raw * list out) :=
    match ops with
    | [] => Ok (r, [])
    | o :: ops' => do (r', x) <- step r o; do (r'', xs) <- run r' ops'; Ok (r'', x :: xs)
    end.

End Impl.

Arguments SCfg {V} c.
Arguments SVal {V} v.
Arguments RUnit {V}.
Arguments RVal {V} s ok.
Arguments RBool {V} b.
Arguments RInt {V} z.
Arguments RLog {V} l.

Arguments OPush {V}.
Arguments OPop {V}.
Arguments OInsert {V}.
Arguments ORemove {V}.
Arguments OReplace {V}.
Arguments OSwap {V}.
Arguments OReverse {V}.
Arguments OReset {V}.
Arguments OSetFIFO {V}.
Arguments OSetOpt {V}.
Arguments OSetPolicy {V}.
Arguments OLen {V}.
Arguments OIndex {V}.
Arguments OFront {V}.
Arguments OBack {V}.
Arguments OIsEmpty {V}.
Arguments OCap {V}.
Arguments OAvail {V}.
Arguments OIsFull {V}.
Arguments OCanNest {V}.
Arguments OIsNesting {V}.
Arguments OIsFIFO {V}.
Arguments OGetOpt {V}.
Arguments OErrIsNil {V}.
