(* TraverseSpec.v -- what C07 says Stack.Traverse is: take Index(i1) on the
   receiver, and while indices remain descend into the value found -- if it
   is a Stack (or Stack alias), or a Condition whose expression is one -- and
   apply the next index there.  Nothing here mentions the loop of
   stack.traverse, its helper functions, the hidden configuration slot or
   Generated.v.  Definitions only. *)
From Stackage Require Import Base Values StackSpec.
Open Scope Z_scope.

Section Spec.
  (* user validity policies: policy id -> the stack it is asked about ->
     true iff the policy returns an error.  Any function. *)
  Variable vpol : N -> config -> list value -> bool.

  (* Stack.Valid() == nil on an initialised stack *)
  Definition usable (c : config) (els : list value) : bool :=
    match c_vpf c with
    | None => true
    | Some p => negb (vpol p c els)
    end.

  (* which position an index addresses in a stack with this configuration and
     this many elements (README: negative / forward indices are per-stack
     options) *)
  Definition position (c : config) (els : list value) (i : Z) : option Z :=
    resolve (has (c_opt c) f_negidx) (has (c_opt c) f_fwdidx) (zlen els) i.

  (* Stack.Index(i) on an initialised stack: the element and "found a
     non-nil element" *)
  Definition sindex (c : config) (els : list value) (i : Z) : value * bool :=
    match position c els i with
    | Some p => let v := nth (Z.to_nat p) els VNil in (v, negb (is_nil v))
    | None => (VNil, false)
    end.

  (* the stack one may continue in: the value itself if it is a Stack or an
     alias of one, or the expression of a Condition (or alias) if that
     expression is a Stack or an alias of one.  Zero instances are not. *)
  Definition as_stack (v : value) : option (config * list value) :=
    match v with
    | VStack _ c els => Some (c, els)
    | _ => None
    end.
  Definition descend (v : value) : option (config * list value) :=
    match v with
    | VStack _ c els => Some (c, els)
    | VCond _ _ _ _ ex => as_stack ex
    | _ => None
    end.

  (* stepwise Index descent.  An empty path yields (nil, false); so does a
     step that finds no non-nil element, a remaining index on a value one
     cannot descend into, and a stack that reports itself invalid. *)
  Fixpoint stepwise (c : config) (els : list value) (path : list Z) {struct path} : value * bool :=
    if usable c els then
      match path with
      | [] => (VNil, false)
      | i :: rest =>
          let '(v, ok) := sindex c els i in
          if ok then
            match rest with
            | [] => (v, true)
            | _ :: _ =>
                match descend v with
                | Some (c', els') => stepwise c' els' rest
                | None => (VNil, false)
                end
            end
          else (VNil, false)
      end
    else (VNil, false).

  (* Stack.Traverse on any receiver value that is a Stack *)
  Definition spec_traverse (r : value) (path : list Z) : value * bool :=
    match r with
    | VStack _ c els => stepwise c els path
    | _ => (VNil, false)
    end.

  (* The same, as a relation that names the positions visited:
     [reaches c els path ps v] -- in the stack (c, els), the indices [path]
     address, level by level, the positions [ps], every one of them holds a
     non-nil element, every one but the last can be descended into, every
     stack entered is valid, and [v] is the element at the last position. *)
  Inductive reaches : config -> list value -> list Z -> list Z -> value -> Prop :=
  | reach_last : forall c els i p v,
      usable c els = true ->
      position c els i = Some p ->
      nth_error els (Z.to_nat p) = Some v -> is_nil v = false ->
      reaches c els [i] [p] v
  | reach_step : forall c els i p v c' els' j rest ps w,
      usable c els = true ->
      position c els i = Some p ->
      nth_error els (Z.to_nat p) = Some v -> is_nil v = false ->
      descend v = Some (c', els') ->
      reaches c' els' (j :: rest) ps w ->
      reaches c els (i :: j :: rest) (p :: ps) w.
End Spec.

(* tree addresses: the value found by following element positions, looking
   through a Condition to its Stack expression *)
Definition child (v : value) (p : Z) : option value :=
  match descend v with
  | Some (_, els) => if p <? 0 then None else nth_error els (Z.to_nat p)
  | None => None
  end.
Fixpoint at_pos (v : value) (ps : list Z) : option value :=
  match ps with
  | [] => Some v
  | p :: ps' => match child v p with Some w => at_pos w ps' | None => None end
  end.

(* a property of every node of a tree *)
Fixpoint forall_nodes (P : value -> bool) (v : value) : bool :=
  P v &&
  match v with
  | VStack _ _ els => forallb (forall_nodes P) els
  | VCond _ _ _ _ ex => forall_nodes P ex
  | _ => true
  end.

(* slices are shorter than 2^61 elements *)
Definition wbound : Z := 2305843009213693952.
Definition width_ok (v : value) : bool :=
  match v with VStack _ _ els => zlen els <? wbound | _ => true end.
(* no Condition of the tree is held through a user-defined alias type *)
Definition cond_native (v : value) : bool :=
  match v with
  | VCond Native _ _ _ _ => true
  | VCond _ _ _ _ _ => false
  | _ => true
  end.
(* no stack of the tree carries a validity policy *)
Definition no_policy (v : value) : bool :=
  match v with VStack _ c _ => match c_vpf c with None => true | Some _ => false end | _ => true end.
