(* AliasProofs2.v -- C12, part 2: homomorphism theorems for IsEqual (both
   directions), Unmarshal and Traverse over the models of Equal.v, Marshal.v
   and Traverse.v.  All trees, all paths. *)
From Stackage Require Import Base Generated StackImpl Values JVal EqualBase AliasSpec Alias AliasProofs.
From Stackage Require Equal Marshal Traverse.
Open Scope Z_scope.

Local Notation e := erase_alias.

(* ================= IsEqual ================= *)
Section EqualHom.
  Variable fx : Equal.fixes.
  Variable R : value -> value -> res bool.
  Hypothesis HR : forall x y, R (e x) (e y) = R x y.

  Lemma rk_e x : Equal.rkind_of (Equal.deref (e x)) = Equal.rkind_of (Equal.deref x).
  Proof. destruct x; reflexivity. Qed.

  Lemma kother_e x : Equal.is_kother (Equal.deref (e x)) = Equal.is_kother (Equal.deref x).
  Proof. unfold Equal.is_kother. now rewrite rk_e. Qed.

  Lemma prims_e x y :
    Equal.primitives_equal (Equal.deref (e x)) (Equal.deref (e y)) =
    Equal.primitives_equal (Equal.deref x) (Equal.deref y).
  Proof.
    destruct x, y; try reflexivity;
      cbn [erase_alias Equal.deref]; unfold Equal.primitives_equal;
      repeat match goal with |- context [gunder ?g] => destruct (gunder g) end; reflexivity.
  Qed.

  Lemma stack_loop_e ex ey :
    Equal.stack_loop R (map e ex) (map e ey) = Equal.stack_loop R ex ey.
  Proof.
    revert ey. induction ex as [|a tx IH]; intros ey; cbn [map Equal.stack_loop]; [reflexivity|].
    destruct ey as [|b ty]; cbn [map].
    - change VNil with (e VNil) at 1. rewrite HR. specialize (IH []). cbn [map] in IH. now rewrite IH.
    - now rewrite HR, IH.
  Qed.

  Lemma stack_IsEqual_e x y :
    Equal.stack_IsEqual R (e x) (e y) = Equal.stack_IsEqual R x y.
  Proof.
    destruct x as [|g|a c els|a c kw op ex|a|a]; try reflexivity.
    destruct y as [|g'|a' c' els'|a' c' kw' op' ex'|a'|a']; try reflexivity.
    cbn [erase_alias Equal.stack_IsEqual]. destruct (c_eqf c); [reflexivity|].
    unfold Equal.stack_isEqual. now rewrite !zlen_map, stack_loop_e.
  Qed.

  Lemma cond_IsEqual_e x y :
    Equal.cond_IsEqual fx R (e x) (e y) = Equal.cond_IsEqual fx R x y.
  Proof.
    destruct x as [|g|a c els|a c kw op ex|a|a]; try reflexivity.
    destruct y as [|g'|a' c' els'|a' c' kw' op' ex'|a'|a']; try reflexivity.
    cbn [erase_alias Equal.cond_IsEqual]. destruct (c_eqf c); [reflexivity|].
    unfold Equal.cond_isEqual. now rewrite !HR.
  Qed.

  Lemma conv_e x : Equal.conv_stack (e x) = Equal.conv_stack x /\ Equal.conv_cond (e x) = Equal.conv_cond x.
  Proof. destruct x; split; reflexivity. Qed.

  Lemma sse_e x y :
    Equal.stackage_structs_equal fx R (e x) (e y) = Equal.stackage_structs_equal fx R x y.
  Proof.
    unfold Equal.stackage_structs_equal.
    destruct (conv_e x) as [-> ->]. destruct (conv_e y) as [-> ->].
    now rewrite cond_IsEqual_e, stack_IsEqual_e.
  Qed.

  Lemma fields_e x : Equal.fields_of (Equal.deref (e x)) = Equal.fields_of (Equal.deref x).
  Proof. destruct x; reflexivity. Qed.

  Lemma structs_e x y : Equal.structs_equal R (e x) (e y) = Equal.structs_equal R x y.
  Proof. unfold Equal.structs_equal. now rewrite !rk_e, !fields_e. Qed.

  Lemma slices_e x y : Equal.slices_equal fx R (e x) (e y) = Equal.slices_equal fx R x y.
  Proof.
    destruct x as [|g|a c els|a c kw op ex|a|a]; try reflexivity;
      destruct y as [|g'|a' c' els'|a' c' kw' op' ex'|a'|a']; try reflexivity;
      cbn [erase_alias]; unfold Equal.slices_equal; cbn [Equal.deref];
      repeat match goal with |- context [gunder ?g] => destruct (gunder g) end; reflexivity.
  Qed.

  Lemma maps_e x y : Equal.maps_equal R (e x) (e y) = Equal.maps_equal R x y.
  Proof.
    destruct x as [|g|a c els|a c kw op ex|a|a]; try reflexivity;
      destruct y as [|g'|a' c' els'|a' c' kw' op' ex'|a'|a']; try reflexivity;
      cbn [erase_alias]; unfold Equal.maps_equal; cbn [Equal.deref];
      repeat match goal with |- context [gunder ?g] => destruct (gunder g) as [[]|] end; reflexivity.
  Qed.

  Lemma extra_e k x y : Equal.match_extra k (e x) (e y) = Equal.match_extra k x y.
  Proof.
    destruct k; try reflexivity; cbn [Equal.match_extra];
      destruct x as [|g|a c els|a c kw op ex|a|a]; try reflexivity;
      destruct y as [|g'|a' c' els'|a' c' kw' op' ex'|a'|a']; try reflexivity;
      destruct g; reflexivity.
  Qed.

  Lemma body_e x y :
    Equal.values_equal_body fx R (e x) (e y) = Equal.values_equal_body fx R x y.
  Proof.
    unfold Equal.values_equal_body.
    rewrite !erase_is_nil, !kother_e, prims_e, !rk_e, sse_e, structs_e, slices_e, maps_e, extra_e.
    reflexivity.
  Qed.
End EqualHom.

Lemma values_equal_e fx n x y :
  Equal.values_equal fx n (e x) (e y) = Equal.values_equal fx n x y.
Proof.
  revert x y. induction n as [|n IH]; intros x y; cbn [Equal.values_equal]; [reflexivity|].
  apply body_e. exact IH.
Qed.

Lemma vsz_e x : vsz (e x) = vsz x.
Proof.
  induction x as [|g|a c els IH|a c kw op ex IH|a|a] using value_ind'; cbn [erase_alias vsz]; try reflexivity.
  - f_equal. induction IH as [|x t Hx Ht IHt]; cbn [map fold_right]; [reflexivity|]. now rewrite Hx, IHt.
  - now rewrite IH.
Qed.

(* erase_alias_hom_IsEqual: the verdict of IsEqual depends on neither
   side's typing *)
Theorem erase_alias_hom_isequal x y :
  a_IsEqual (e x) (e y) = a_IsEqual x y.
Proof.
  unfold a_IsEqual, Equal.is_equal.
  destruct x as [|g|a c els|a c kw op ex|a|a]; try reflexivity.
  - change (VStack Native c (map e els)) with (e (VStack a c els)). rewrite vsz_e.
    apply stack_IsEqual_e. apply values_equal_e.
  - change (VCond Native c kw op (e ex)) with (e (VCond a c kw op ex)). rewrite vsz_e.
    apply cond_IsEqual_e. apply values_equal_e.
Qed.

(* against the same tree built from native values, in both directions *)
Theorem isequal_against_native t :
  a_IsEqual t (e t) = a_IsEqual (e t) (e t) /\ a_IsEqual (e t) t = a_IsEqual (e t) (e t).
Proof.
  split.
  - rewrite <- (erase_alias_hom_isequal t (e t)). now rewrite erase_alias_idem.
  - rewrite <- (erase_alias_hom_isequal (e t) t). now rewrite erase_alias_idem.
Qed.

(* ================= Unmarshal ================= *)
Lemma inj_erase v : inj (e v) = jerase (inj v).
Proof.
  induction v as [|g|a c els IH|a c kw op ex IH|a|a] using value_ind'; cbn [erase_alias inj jerase]; try reflexivity.
  - f_equal. rewrite !map_map. apply map_ext_in. intros x Hx. rewrite Forall_forall in IH. now apply IH.
  - now rewrite IH.
Qed.

Lemma unm_jerase j : Marshal.unm (jerase j) = rmap (map jerase) (Marshal.unm j).
Proof.
  induction j as [|g|l IH|a c els IH|a c kw op ex IH|a|a] using jval_ind'; try reflexivity.
  - (* JStack *)
    cbn [jerase Marshal.unm].
    set (go := fix go (l : list jval) : res (list jval) :=
                 match l with
                 | [] => Ok []
                 | x :: t =>
                     do e' <- match x with
                              | JStack _ _ _ => do s <- Marshal.unm x; Ok (JList s)
                              | JCond _ _ _ _ _ => do s <- Marshal.unm x; Ok (JList s)
                              | _ => Ok x
                              end;
                     do t' <- go t; Ok (e' :: t')
                 end).
    assert (G : go (map jerase els) = rmap (map jerase) (go els)).
    { induction IH as [|x t Hx Ht IHt]; [reflexivity|].
      cbn [map]. change (go (jerase x :: map jerase t)) with
        (do e' <- match jerase x with
                  | JStack _ _ _ => do s <- Marshal.unm (jerase x); Ok (JList s)
                  | JCond _ _ _ _ _ => do s <- Marshal.unm (jerase x); Ok (JList s)
                  | _ => Ok (jerase x)
                  end;
         do t' <- go (map jerase t); Ok (e' :: t')).
      change (go (x :: t)) with
        (do e' <- match x with
                  | JStack _ _ _ => do s <- Marshal.unm x; Ok (JList s)
                  | JCond _ _ _ _ _ => do s <- Marshal.unm x; Ok (JList s)
                  | _ => Ok x
                  end;
         do t' <- go t; Ok (e' :: t')).
      rewrite IHt.
      destruct x as [|g|l|a' c' els'|a' c' kw' op' ex'|a'|a']; cbn [jerase];
        try (destruct (go t); reflexivity).
      + change (JStack Native c' (map jerase els')) with (jerase (JStack a' c' els')).
        rewrite Hx. destruct (Marshal.unm (JStack a' c' els')); cbn [rmap bind]; try reflexivity.
        destruct (go t); reflexivity.
      + change (JCond Native c' kw' op' (jerase ex')) with (jerase (JCond a' c' kw' op' ex')).
        rewrite Hx. destruct (Marshal.unm (JCond a' c' kw' op' ex')); cbn [rmap bind]; try reflexivity.
        destruct (go t); reflexivity. }
    fold go. rewrite G. destruct (go els); reflexivity.
  - (* JCond *)
    cbn [jerase Marshal.unm]. destruct (c_umf c); [reflexivity|].
    destruct ex as [|g|l|a' c' els'|a' c' kw' op' ex'|a'|a']; try (destruct op; reflexivity).
    change (jerase (JStack a' c' els')) with (JStack Native c' (map jerase els')) at 1.
    cbv iota beta. destruct (c_umf c'); [reflexivity|].
    change (JStack Native c' (map jerase els')) with (jerase (JStack a' c' els')).
    rewrite IH. destruct (Marshal.unm (JStack a' c' els')); destruct op; reflexivity.
Qed.

(* erase_alias_hom_Unmarshal: the unmarshalled slice of the erased tree is
   the erased slice (the only values of the tree that survive in it are
   Conditions held as a Condition's expression) *)
Theorem erase_alias_hom_unmarshal t :
  a_Unmarshal (e t) = rmap (map jerase) (a_Unmarshal t).
Proof.
  destruct t as [|g|a c els|a c kw op ex|a|a]; try reflexivity.
  unfold a_Unmarshal. cbn [erase_alias]. destruct (c_umf c); [reflexivity|].
  change (VStack Native c (map e els)) with (e (VStack a c els)).
  rewrite inj_erase. apply unm_jerase.
Qed.

(* ================= Traverse ================= *)
Section TraverseHom.
  Variable vpol : N -> config -> list value -> bool.
  (* the validity policy is a user closure over the stack; it must itself
     not distinguish aliases from what they convert to *)
  Hypothesis vpol_e : forall p c els, vpol p c (map e els) = vpol p c els.

  Definition e3 (o : Traverse.out3) : Traverse.out3 := let '(v, ok, dn) := o in (e v, ok, dn).

  Lemma valid_e c els : Traverse.valid vpol c (map e els) = Traverse.valid vpol c els.
  Proof. unfold Traverse.valid. destruct (c_vpf c); [now rewrite vpol_e | reflexivity]. Qed.

  Lemma slot_e els i : Traverse.slot (map e els) i = rmap e (Traverse.slot els i).
  Proof.
    unfold Traverse.slot. destruct (i <? 0); [reflexivity|]. destruct (i =? 0); [reflexivity|].
    rewrite nth_error_map. destruct (nth_error els (Z.to_nat (i - 1))); reflexivity.
  Qed.

  Lemma index_e c els i :
    Traverse.index c (map e els) i = rmap (fun r => (e (fst r), snd r)) (Traverse.index c els i).
  Proof.
    unfold Traverse.index. rewrite zlen_map.
    destruct (g_index _ _ _ i) as [zs bs|k zs bs].
    - destruct bs as [|b [|? ?]]; reflexivity.
    - destruct k; [|reflexivity]. destruct zs as [|i' [|z [|? ?]]]; try reflexivity.
      destruct bs as [|b [|? ?]]; try reflexivity.
      rewrite slot_e. destruct (Traverse.slot els i'); cbn [rmap bind fst snd]; try reflexivity.
      now rewrite erase_is_nil.
  Qed.

  Section Handler.
    Variables rec rec' : config -> list value -> res Traverse.out3.
    Hypothesis Hrec : forall c els, rec' c (map e els) = rmap e3 (rec c els).

    Lemma traverseStack_e u n :
      Traverse.traverseStack rec' (e u) n = rmap e3 (Traverse.traverseStack rec u n).
    Proof.
      unfold Traverse.traverseStack.
      destruct u as [|g|a c els|a c kw op ex|a|a]; try reflexivity.
      cbn [erase_alias Traverse.conv_stack]. destruct (n <=? 1); [reflexivity|]. apply Hrec.
    Qed.

    Lemma traverseStackInCondition_e u n :
      Traverse.traverseStackInCondition rec' (e u) n = rmap e3 (Traverse.traverseStackInCondition rec u n).
    Proof.
      unfold Traverse.traverseStackInCondition.
      destruct u as [|g|a c els|a c kw op ex|a|a]; try reflexivity.
      cbn [erase_alias Traverse.conv_cond]. destruct (n <=? 1); [reflexivity|]. apply traverseStack_e.
    Qed.

    Lemma handler_e x n :
      Traverse.traverseAssertionHandler rec' (e x) n = rmap e3 (Traverse.traverseAssertionHandler rec x n).
    Proof.
      unfold Traverse.traverseAssertionHandler.
      rewrite traverseStack_e.
      destruct (Traverse.traverseStack rec x n) as [[[v1 ok1] d1]| |]; cbn [rmap bind e3]; try reflexivity.
      destruct ok1; [reflexivity|].
      rewrite traverseStackInCondition_e.
      destruct (Traverse.traverseStackInCondition rec x n) as [[[v2 ok2] d2]| |]; cbn [rmap bind e3]; try reflexivity.
      destruct ok2; [reflexivity|]. destruct (n <=? 1); reflexivity.
    Qed.
  End Handler.

  (* the for-loop of stack.traverse as a function of its own *)
  Definition tloop (cont : bool) (c : config) (els : list value)
             (rec : config -> list value -> res Traverse.out3) (n : Z) :=
    fix loop (rest : list Z) (last : Traverse.out3) {struct rest} : res Traverse.out3 :=
      match rest with
      | [] => Ok last
      | current :: rest' =>
          do r <- Traverse.index c els current;
          let '(instance, found) := r in
          if found then
            do h <- Traverse.traverseAssertionHandler rec instance n;
            let '(_, _, done) := h in
            if (cont && negb done)%bool then loop rest' h else Ok h
          else Ok last
      end.

  Lemma traverse_gen_cons cont c els i tail :
    Traverse.traverse_gen vpol cont c els (i :: tail) =
    if Traverse.valid vpol c els
    then tloop cont c els (fun c' els' => Traverse.traverse_gen vpol cont c' els' tail) (zlen (i :: tail)) (i :: tail) Traverse.zero3
    else Ok Traverse.zero3.
  Proof. reflexivity. Qed.

  Lemma tloop_e cont c els rec n rest last :
    (forall c' els', rec c' (map e els') = rmap e3 (rec c' els')) ->
    tloop cont c (map e els) rec n rest (e3 last) = rmap e3 (tloop cont c els rec n rest last).
  Proof.
    intros Hrec. revert last. induction rest as [|cur rest' IHr]; intros last; [reflexivity|].
    cbn [tloop]. rewrite index_e.
    destruct (Traverse.index c els cur) as [[inst found]| |]; cbn [rmap bind fst snd]; try reflexivity.
    destruct found; [|reflexivity].
    rewrite (handler_e rec rec Hrec).
    destruct (Traverse.traverseAssertionHandler rec inst n) as [[[hv hok] hd]| |]; cbn [rmap bind e3]; try reflexivity.
    destruct (cont && negb hd)%bool; [|reflexivity].
    apply (IHr (hv, hok, hd)).
  Qed.

  Lemma traverse_gen_e cont c els path :
    Traverse.traverse_gen vpol cont c (map e els) path = rmap e3 (Traverse.traverse_gen vpol cont c els path).
  Proof.
    revert c els. induction path as [|i tail IH]; intros c els.
    - cbn [Traverse.traverse_gen]. rewrite valid_e. destruct (Traverse.valid vpol c els); reflexivity.
    - rewrite !traverse_gen_cons, valid_e. destruct (Traverse.valid vpol c els); [|reflexivity].
      change Traverse.zero3 with (e3 Traverse.zero3) at 1.
      apply tloop_e. intros c' els'. apply IH.
  Qed.

  (* erase_alias_hom_Traverse *)
  Theorem erase_alias_hom_traverse t path :
    a_Traverse vpol (e t) path = rmap (fun r => (e (fst r), snd r)) (a_Traverse vpol t path).
  Proof.
    unfold a_Traverse, Traverse.Traverse, Traverse.Traverse_gen.
    destruct t as [|g|a c els|a c kw op ex|a|a]; try reflexivity.
    cbn [erase_alias]. rewrite traverse_gen_e.
    destruct (Traverse.traverse_gen vpol false c els path) as [[[v ok] d]| |]; reflexivity.
  Qed.
End TraverseHom.

(* how a result is typed: an alias-typed Stack comes back as it is stored,
   an alias-typed Condition comes back converted to the native type
   (traverseStackInCondition hands back the converter's result) *)
Theorem traverse_result_typing a c kw op ex a' c' els' :
  let nov := fun (_ : N) (_ : config) (_ : list value) => false in
  a_Traverse nov (VStack Native (cfg0 1) [VCond a c kw op ex]) [0] = Ok (VCond Native c kw op ex, true) /\
  a_Traverse nov (VStack Native (cfg0 1) [VStack a' c' els']) [0] = Ok (VStack a' c' els', true).
Proof. split; reflexivity. Qed.
