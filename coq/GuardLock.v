(* GuardLock.v -- lockset analysis over the guard IR (C10, static leg).

   Trace property: on the object an entry point was called on, every store
   into the shared content (slice header, element slots) happens between a
   call of stack.lock and the matching call of stack.unlock, the lock is never
   requested while held, and every function returns with the lock state it
   was entered with.  The analysis tracks the (must) lock state through the
   IR; callees are summarised per entry state and the claim set is checked to
   be a post-fixpoint, as in Guard.v.  Events inside calls on OTHER objects
   are tagged and do not count (they are that object's business). *)
From Stackage Require Import Base Guard.

Definition is_content_write (e : ev) : bool :=
  match e with EWrite LHdr | EWrite LSlot => true | _ => false end.

(* lock state after a trace (events on the receiver only) *)
Fixpoint held_after (h : bool) (tr : list (bool * ev)) : bool :=
  match tr with
  | [] => h
  | (false, ELock) :: t => held_after true t
  | (false, EUnlock) :: t => held_after false t
  | _ :: t => held_after h t
  end.

(* every content write on the receiver happens while held; lock is not
   requested while held; unlock is not called while free *)
Fixpoint disciplined (h : bool) (tr : list (bool * ev)) : Prop :=
  match tr with
  | [] => True
  | (false, ELock) :: t => h = false /\ disciplined true t
  | (false, EUnlock) :: t => h = true /\ disciplined false t
  | (false, e) :: t => (is_content_write e = true -> h = true) /\ disciplined h t
  | (true, _) :: t => disciplined h t
  end.

Lemma held_after_app h a b : held_after h (a ++ b) = held_after (held_after h a) b.
Proof.
  revert h; induction a as [|[tg e] a IH]; intros h; cbn [app held_after]; [reflexivity|].
  destruct tg; [apply IH|]. destruct e; apply IH.
Qed.

Lemma disciplined_app h a b : disciplined h a -> disciplined (held_after h a) b -> disciplined h (a ++ b).
Proof.
  revert h; induction a as [|[tg e] a IH]; intros h Ha Hb; cbn [app held_after disciplined] in *; [exact Hb|].
  destruct tg; [apply IH; assumption|].
  destruct e; try (destruct Ha as [H1 H2]; split; [exact H1|apply IH; assumption]).
Qed.

Section Lockset.
  Variable tbl : list (N * gstmt).
  Variable env0 : genv.
  Variable U : list (N * bool).      (* (function, entered-while-held?) pairs claimed NOT to respect the discipline *)

  Definition lclaimed (f : N) (h : bool) : bool :=
    negb (existsb (fun p => (fst p =? f)%N && Bool.eqb (snd p) h) U) &&
    match lookup tbl f with Some _ => true | None => false end.

  (* possible exits: (how the statement is left, lock state then) *)
  Definition exits := list (outc * bool).

  Definition outc_eqb (a b : outc) : bool :=
    match a, b with ONorm, ONorm | ORet, ORet | OBrk, OBrk | OCont, OCont => true | _, _ => false end.

  Definition bind_norm (r : option exits) (k : bool -> option exits) : option exits :=
    match r with
    | None => None
    | Some l =>
        fold_right (fun (x : outc * bool) acc =>
                      match acc with
                      | None => None
                      | Some a =>
                          if outc_eqb (fst x) ONorm then
                            match k (snd x) with Some l' => Some (l' ++ a) | None => None end
                          else Some (x :: a)
                      end) (Some []) l
    end.

  Fixpoint wl (h : bool) (s : gstmt) : option exits :=
    match s with
    | GSkip => Some [(ONorm, h)]
    | GReturn => Some [(ORet, h)]
    | GBreak => Some [(OBrk, h)]
    | GContinue => Some [(OCont, h)]
    | GSeq a b => bind_norm (wl h a) (fun h' => wl h' b)
    | GIf c t e =>
        match eval env0 c with
        | Some true => wl h t
        | Some false => wl h e
        | None => match wl h t, wl h e with Some x, Some y => Some (x ++ y) | _, _ => None end
        end
    | GLoop b =>
        (* the lock state is a loop invariant; returns pass through *)
        match wl h b with
        | Some l =>
            if forallb (fun x => outc_eqb (fst x) ORet || Bool.eqb (snd x) h) l
            then Some ((ONorm, h) :: filter (fun x => outc_eqb (fst x) ORet) l)
            else None
        | None => None
        end
    | GFinally b fin =>
        match wl h b with
        | Some l =>
            fold_right (fun (x : outc * bool) acc =>
                          match acc, wl (snd x) fin with
                          | Some a, Some lf =>
                              if forallb (fun y => outc_eqb (fst y) ONorm) lf
                              then Some (map (fun y => (fst x, snd y)) lf ++ a) else None
                          | _, _ => None
                          end) (Some []) l
        | None => None
        end
    | GEv ELock => if h then None else Some [(ONorm, true)]
    | GEv EUnlock => if h then Some [(ONorm, false)] else None
    | GEv e => if is_content_write e && negb h then None else Some [(ONorm, h)]
    | GCall f => if lclaimed f h then Some [(ONorm, h)] else None
    | GCallOther _ => Some [(ONorm, h)]
    end.

  (* a function body is accepted for entry state h when the analysis
     succeeds and every exit has the entry state again *)
  Definition body_balanced (h : bool) (body : gstmt) : bool :=
    match wl h body with
    | Some l => forallb (fun x => Bool.eqb (snd x) h) l
    | None => false
    end.

  Definition lock_post_fixpoint : bool :=
    forallb (fun p => let '(f, body) := p in
                      (negb (lclaimed f false) || body_balanced false body) &&
                      (negb (lclaimed f true) || body_balanced true body)) tbl.

  Hypothesis PF : lock_post_fixpoint = true.

  Lemma lclaimed_body f h body :
    lclaimed f h = true -> lookup tbl f = Some body -> body_balanced h body = true.
  Proof.
    intros C L. unfold lock_post_fixpoint in PF. rewrite forallb_forall in PF.
    specialize (PF (f, body) (lookup_in _ _ _ L)). cbn in PF.
    apply andb_true_iff in PF as [P1 P2]. destruct h; [rewrite C in P2|rewrite C in P1]; assumption.
  Qed.

  (* events of a run on another object are all tagged *)
  Lemma exec_other_tagged s tr o :
    exec (lookup tbl) env0 true s tr o -> forall x, In x tr -> fst x = true.
  Proof.
    intros H. remember true as top eqn:Et. induction H; intros x Hin; subst;
      try contradiction; try (apply in_app_or in Hin as [Hin|Hin]; eauto); eauto.
    destruct Hin as [<-|[]]. reflexivity.
  Qed.

  Lemma tagged_neutral tr : (forall x, In x tr -> fst x = true) ->
    forall h, held_after h tr = h /\ disciplined h tr.
  Proof.
    induction tr as [|[tg e] t IH]; intros H h; cbn [held_after disciplined]; [auto|].
    assert (tg = true) by (apply (H (tg, e)); left; reflexivity). subst tg.
    apply IH. intros x Hx. apply H. right. exact Hx.
  Qed.

  Lemma bind_norm_in r k l : bind_norm r k = Some l ->
    exists lr, r = Some lr /\
      (forall o h, In (o, h) lr -> o <> ONorm -> In (o, h) l) /\
      (forall h, In (ONorm, h) lr -> exists lk, k h = Some lk /\ forall x, In x lk -> In x l).
  Proof.
    unfold bind_norm. destruct r as [lr|]; [|discriminate]. intros H. exists lr. split; [reflexivity|].
    revert l H. induction lr as [|[o h] t IH]; intros l H; cbn [fold_right] in H.
    - inversion H; subst. split; intros; contradiction.
    - destruct (fold_right _ (Some []) t) as [a|] eqn:Ea; [|discriminate].
      specialize (IH a eq_refl) as [I1 I2]. cbn [fst snd] in H.
      destruct (outc_eqb o ONorm) eqn:Eo.
      + destruct (k h) as [lk|] eqn:Ek; [|discriminate]. inversion H; subst l. split.
        * intros o' h' [E|Hin] Hn; [inversion E; subst; destruct o'; try discriminate; contradiction|].
          apply in_or_app. right. eauto.
        * intros h' [E|Hin].
          -- inversion E; subst. exists lk. split; [exact Ek|]. intros x Hx. apply in_or_app. left. exact Hx.
          -- destruct (I2 h' Hin) as (lk' & K & L'). exists lk'. split; [exact K|]. intros x Hx. apply in_or_app. right. auto.
      + inversion H; subst l. split.
        * intros o' h' [E|Hin] Hn; [inversion E; subst; left; reflexivity|right; eauto].
        * intros h' [E|Hin]; [inversion E; subst; discriminate|].
          destruct (I2 h' Hin) as (lk' & K & L'). exists lk'. split; [exact K|]. intros x Hx. right. auto.
  Qed.

  Lemma finally_in l fin acc : forall res,
    fold_right (fun (x : outc * bool) acc =>
                  match acc, wl (snd x) fin with
                  | Some a, Some lf =>
                      if forallb (fun y => outc_eqb (fst y) ONorm) lf
                      then Some (map (fun y => (fst x, snd y)) lf ++ a) else None
                  | _, _ => None
                  end) (Some acc) l = Some res ->
    forall o h, In (o, h) l ->
      exists lf, wl h fin = Some lf /\ forallb (fun y => outc_eqb (fst y) ONorm) lf = true /\
                 forall h', In (ONorm, h') lf -> In (o, h') res.
  Proof.
    induction l as [|[o1 h1] t IH]; intros res H o h Hin; [contradiction|].
    cbn [fold_right fst snd] in H.
    destruct (fold_right _ (Some acc) t) as [a|] eqn:Ea; [|discriminate].
    destruct (wl h1 fin) as [lf|] eqn:Ef; [|discriminate].
    destruct (forallb _ lf) eqn:Eall; [|discriminate]. inversion H; subst res.
    destruct Hin as [E|Hin].
    - inversion E; subst. exists lf. repeat split; auto. intros h' Hh. apply in_or_app. left.
      apply in_map_iff. exists (ONorm, h'). auto.
    - destruct (IH a eq_refl o h Hin) as (lf' & W & A & I). exists lf'. repeat split; auto.
      intros h' Hh. apply in_or_app. right. auto.
  Qed.

  Lemma wl_ev h e l : wl h (GEv e) = Some l ->
    disciplined h [(false, e)] /\ In (ONorm, held_after h [(false, e)]) l.
  Proof.
    destruct e as [lc| | | | | | |]; [destruct lc|..]; destruct h; cbn; intros W; try discriminate;
      inversion W; subst; cbn; repeat split; auto; try discriminate.
  Qed.

  Theorem wl_sound : forall s tr o,
    exec (lookup tbl) env0 false s tr o -> forall h l, wl h s = Some l ->
    disciplined h tr /\ In (o, held_after h tr) l.
  Proof.
    intros s tr o H. remember false as top eqn:Et. induction H; intros h l W; subst; cbn [wl] in W.
    - inversion W; subst. cbn. auto.
    - (* seq, a leaves abnormally *)
      apply bind_norm_in in W as (lr & Wa & I1 & _). destruct (IHexec eq_refl h lr Wa) as [D M].
      split; [exact D|]. apply I1; assumption.
    - (* seq *)
      apply bind_norm_in in W as (lr & Wa & _ & I2). destruct (IHexec1 eq_refl h lr Wa) as [D1 M1].
      destruct (I2 _ M1) as (lk & Wb & Sub). destruct (IHexec2 eq_refl _ lk Wb) as [D2 M2].
      rewrite held_after_app. split; [apply disciplined_app; assumption|apply Sub; exact M2].
    - (* if true-ish *)
      cbn [env_of] in H. destruct (eval env0 c) as [[|]|]; [eauto|congruence|].
      destruct (wl h t) as [x|] eqn:Wt; [|discriminate]. destruct (wl h e) as [y|]; [|discriminate]. inversion W; subst.
      destruct (IHexec eq_refl h x Wt) as [D M]. split; [exact D|apply in_or_app; left; exact M].
    - cbn [env_of] in H. destruct (eval env0 c) as [[|]|]; [congruence|eauto|].
      destruct (wl h t) as [x|]; [|discriminate]. destruct (wl h e) as [y|] eqn:We; [|discriminate]. inversion W; subst.
      destruct (IHexec eq_refl h y We) as [D M]. split; [exact D|apply in_or_app; right; exact M].
    - (* loop 0 *)
      destruct (wl h b) as [lb|]; [|discriminate]. destruct (forallb _ lb); [|discriminate]. inversion W; subst.
      cbn. split; [exact I|left; reflexivity].
    - (* loop next *)
      assert (W0 : wl h (GLoop b) = Some l) by exact W.
      destruct (wl h b) as [lb|] eqn:Wb; [|discriminate]. destruct (forallb _ lb) eqn:Einv; [|discriminate].
      destruct (IHexec1 eq_refl h lb Wb) as [D1 M1].
      rewrite forallb_forall in Einv. specialize (Einv _ M1). cbn [fst snd] in Einv.
      assert (Hh : held_after h tr1 = h).
      { destruct H0 as [-> | ->]; cbn [outc_eqb orb] in Einv; apply eqb_prop in Einv; exact Einv. }
      destruct (IHexec2 eq_refl h l W0) as [D2 M2].
      rewrite held_after_app, Hh. split; [apply disciplined_app; [exact D1|rewrite Hh; exact D2]|exact M2].
    - (* loop break *)
      destruct (wl h b) as [lb|] eqn:Wb; [|discriminate]. destruct (forallb _ lb) eqn:Einv; [|discriminate]. inversion W; subst.
      destruct (IHexec eq_refl h lb Wb) as [D M]. rewrite forallb_forall in Einv. specialize (Einv _ M).
      cbn [fst snd outc_eqb orb] in Einv. apply eqb_prop in Einv. rewrite Einv. split; [exact D|left; reflexivity].
    - (* loop return *)
      destruct (wl h b) as [lb|] eqn:Wb; [|discriminate]. destruct (forallb _ lb) eqn:Einv; [|discriminate]. inversion W; subst.
      destruct (IHexec eq_refl h lb Wb) as [D M]. split; [exact D|]. right. apply filter_In. split; [exact M|reflexivity].
    - inversion W; subst. cbn. auto.
    - inversion W; subst. cbn. auto.
    - inversion W; subst. cbn. auto.
    - (* finally *)
      destruct (wl h b) as [lb|] eqn:Wb; [|discriminate].
      destruct (IHexec1 eq_refl h lb Wb) as [D1 M1].
      destruct (finally_in lb fin [] l W _ _ M1) as (lf & Wf & Aall & Sub).
      destruct (IHexec2 eq_refl _ lf Wf) as [D2 M2].
      rewrite forallb_forall in Aall. specialize (Aall _ M2). cbn [fst] in Aall. destruct o2; try discriminate.
      rewrite held_after_app. split; [apply disciplined_app; assumption|apply Sub; exact M2].
    - (* event *)
      apply wl_ev. exact W.
    - (* call, same object *)
      destruct (lclaimed f h) eqn:C; [|discriminate]. inversion W; subst.
      pose proof (lclaimed_body f h body C H) as B. unfold body_balanced in B.
      destruct (wl h body) as [lb|] eqn:Wb; [|discriminate].
      destruct (IHexec eq_refl h lb Wb) as [D M]. rewrite forallb_forall in B. specialize (B _ M). cbn [snd] in B.
      apply eqb_prop in B. rewrite B. split; [exact D|left; reflexivity].
    - (* call on another object: its events are tagged *)
      inversion W; subst. pose proof (tagged_neutral tr (exec_other_tagged _ _ _ H0) h) as [Hh Hd].
      rewrite Hh. split; [exact Hd|left; reflexivity].
  Qed.

  Definition lock_entry_accepted (e : entry) : bool := lclaimed (en_fid e) false.

  (* the statement: every run of this entry point from the unlocked state is
     disciplined and ends unlocked *)
  Definition lock_entry_ok (e : entry) : Prop :=
    exists body, lookup tbl (en_fid e) = Some body /\
      forall tr o, exec (lookup tbl) env0 false body tr o -> disciplined false tr /\ held_after false tr = false.

  Theorem lock_entry_sound e : lock_entry_accepted e = true -> lock_entry_ok e.
  Proof.
    unfold lock_entry_accepted, lock_entry_ok. intros C.
    assert (exists body, lookup tbl (en_fid e) = Some body) as [body L].
    { unfold lclaimed in C. apply andb_true_iff in C as [_ C]. destruct (lookup tbl (en_fid e)); [eauto|discriminate]. }
    exists body. split; [exact L|]. intros tr o X.
    pose proof (lclaimed_body _ _ _ C L) as B. unfold body_balanced in B.
    destruct (wl false body) as [lb|] eqn:Wb; [|discriminate].
    destruct (wl_sound _ _ _ X false lb Wb) as [D M]. split; [exact D|].
    rewrite forallb_forall in B. specialize (B _ M). cbn [snd] in B. apply eqb_prop in B. exact B.
  Qed.
End Lockset.

(* candidate claim set by iteration *)
Definition lrefine_step (tbl : list (N * gstmt)) (env0 : genv) (U : list (N * bool)) : list (N * bool) :=
  flat_map (fun p => let '(f, body) := p in
                     (if lclaimed tbl U f false && negb (body_balanced tbl env0 U false body) then [(f, false)] else []) ++
                     (if lclaimed tbl U f true && negb (body_balanced tbl env0 U true body) then [(f, true)] else [])) tbl.

Fixpoint lrefine (fuel : nat) (tbl : list (N * gstmt)) (env0 : genv) (U : list (N * bool)) : list (N * bool) :=
  match fuel with
  | O => U
  | S k => match lrefine_step tbl env0 U with
           | [] => U
           | more => lrefine k tbl env0 (more ++ U)
           end
  end.

(* ---- the lock bookkeeping field: written only while the mutex is held ----
   inside stack.lock every store to the field comes after Mutex.Lock, inside
   stack.unlock every store comes before Mutex.Unlock (single bodies; callees
   must be quiet) *)
Fixpoint quiet1 (callq : N -> bool) (s : gstmt) : bool :=
  match s with
  | GSeq a b | GFinally a b => quiet1 callq a && quiet1 callq b
  | GIf _ t e => quiet1 callq t && quiet1 callq e
  | GLoop b => quiet1 callq b
  | GEv (EWrite LCfgLdr) | GEv EMLock | GEv EMUnlock => false
  | GCall f | GCallOther f => callq f
  | _ => true
  end.

Fixpoint quietf (fuel : nat) (tbl : list (N * gstmt)) (f : N) : bool :=
  match fuel with
  | O => false
  | S k => match lookup tbl f with Some b => quiet1 (quietf k tbl) b | None => false end
  end.

(* seen = Mutex.Lock has definitely happened (must).  Loops and finally
   blocks are treated conservatively (lock/unlock contain neither). *)
Fixpoint ldr_after_lock (tbl : list (N * gstmt)) (seen : bool) (s : gstmt) : option bool :=
  match s with
  | GSeq a b => match ldr_after_lock tbl seen a with Some s1 => ldr_after_lock tbl s1 b | None => None end
  | GIf _ t e => match ldr_after_lock tbl seen t, ldr_after_lock tbl seen e with
                 | Some x, Some y => Some (x && y) | _, _ => None end
  | GLoop b => match ldr_after_lock tbl seen b with Some _ => Some seen | None => None end
  | GFinally a b => match ldr_after_lock tbl seen a, ldr_after_lock tbl seen b with
                    | Some _, Some _ => Some seen | _, _ => None end
  | GEv EMLock => Some true
  | GEv (EWrite LCfgLdr) => if seen then Some seen else None
  | GCall f | GCallOther f => if quietf 4 tbl f then Some seen else None
  | _ => Some seen
  end.

(* gone = Mutex.Unlock may have happened (may) *)
Fixpoint ldr_before_unlock (tbl : list (N * gstmt)) (gone : bool) (s : gstmt) : option bool :=
  match s with
  | GSeq a b => match ldr_before_unlock tbl gone a with Some s1 => ldr_before_unlock tbl s1 b | None => None end
  | GIf _ t e => match ldr_before_unlock tbl gone t, ldr_before_unlock tbl gone e with
                 | Some x, Some y => Some (x || y) | _, _ => None end
  | GLoop b => match ldr_before_unlock tbl true b with Some _ => Some true | None => None end
  | GFinally a b => match ldr_before_unlock tbl gone a, ldr_before_unlock tbl true b with
                    | Some _, Some _ => Some true | _, _ => None end
  | GEv EMUnlock => Some true
  | GEv (EWrite LCfgLdr) => if gone then None else Some gone
  | GCall f | GCallOther f => if quietf 4 tbl f then Some gone else None
  | _ => Some gone
  end.

(* ---- what the two analyses mean on traces ---- *)
Definition is_ldr_write (e : ev) : bool := match e with EWrite LCfgLdr => true | _ => false end.
Definition is_mlock (e : ev) : bool := match e with EMLock => true | _ => false end.
Definition is_munlock (e : ev) : bool := match e with EMUnlock => true | _ => false end.

Fixpoint seen_after (mark : ev -> bool) (st : bool) (tr : list (bool * ev)) : bool :=
  match tr with [] => st | (_, e) :: t => seen_after mark (st || mark e) t end.

(* every store to the bookkeeping field happens in a state `want` *)
Fixpoint ldr_ok (mark : ev -> bool) (want : bool) (st : bool) (tr : list (bool * ev)) : Prop :=
  match tr with
  | [] => True
  | (_, e) :: t => (is_ldr_write e = true -> st = want) /\ ldr_ok mark want (st || mark e) t
  end.

Definition clean (tr : list (bool * ev)) : Prop :=
  forall x, In x tr -> is_ldr_write (snd x) = false /\ is_mlock (snd x) = false /\ is_munlock (snd x) = false.

Lemma seen_after_app mark st a b : seen_after mark st (a ++ b) = seen_after mark (seen_after mark st a) b.
Proof. revert st; induction a as [|[tg e] a IH]; intros st; cbn [app seen_after]; [reflexivity|apply IH]. Qed.

Lemma seen_after_true mark tr : seen_after mark true tr = true.
Proof. induction tr as [|[tg e] t IH]; cbn [seen_after orb]; auto. Qed.

Lemma seen_after_ge mark st tr : st = true -> seen_after mark st tr = true.
Proof. intros ->. apply seen_after_true. Qed.

Lemma ldr_ok_app mark want st a b :
  ldr_ok mark want st a -> ldr_ok mark want (seen_after mark st a) b -> ldr_ok mark want st (a ++ b).
Proof.
  revert st; induction a as [|[tg e] a IH]; intros st Ha Hb; cbn [app seen_after ldr_ok] in *; [exact Hb|].
  destruct Ha as [H1 H2]. split; [exact H1|apply IH; assumption].
Qed.

(* must-analysis: a larger state is at least as good *)
Lemma ldr_ok_true_mono mark st st' tr : (st = true -> st' = true) -> ldr_ok mark true st tr -> ldr_ok mark true st' tr.
Proof.
  revert st st'; induction tr as [|[tg e] t IH]; intros st st' Hm H; cbn [ldr_ok] in *; [exact I|].
  destruct H as [H1 H2]. split; [intros Hw; apply Hm; auto|].
  apply (IH (st || mark e) (st' || mark e)); [|exact H2].
  intros Ho. apply orb_true_iff in Ho as [Ho| ->]; [rewrite (Hm Ho); reflexivity|apply orb_true_r].
Qed.

(* may-analysis: a smaller state is at least as good *)
Lemma ldr_ok_false_mono mark st st' tr : (st' = true -> st = true) -> ldr_ok mark false st tr -> ldr_ok mark false st' tr.
Proof.
  revert st st'; induction tr as [|[tg e] t IH]; intros st st' Hm H; cbn [ldr_ok] in *; [exact I|].
  destruct H as [H1 H2]. split.
  - intros Hw. specialize (H1 Hw). destruct st'; [rewrite (Hm eq_refl) in H1; discriminate|reflexivity].
  - apply (IH (st || mark e) (st' || mark e)); [|exact H2].
    intros Ho. apply orb_true_iff in Ho as [Ho| ->]; [rewrite (Hm Ho); reflexivity|apply orb_true_r].
Qed.

Lemma clean_ok mark want st tr : (mark = is_mlock \/ mark = is_munlock) -> clean tr ->
  ldr_ok mark want st tr /\ seen_after mark st tr = st.
Proof.
  intros Hmk. revert st; induction tr as [|[tg e] t IH]; intros st Hc; cbn [ldr_ok seen_after]; [auto|].
  destruct (Hc (tg, e) (or_introl eq_refl)) as (C1 & C2 & C3). cbn [snd] in *.
  assert (mark e = false) as -> by (destruct Hmk as [-> | ->]; assumption).
  rewrite orb_false_r. destruct (IH st) as [I1 I2]; [intros x Hx; apply Hc; right; exact Hx|].
  split; [split; [rewrite C1; discriminate|exact I1]|exact I2].
Qed.

Lemma clean_app a b : clean a -> clean b -> clean (a ++ b).
Proof. intros Ha Hb x Hx. apply in_app_or in Hx as [Hx|Hx]; auto. Qed.

Section Order.
  Variable tbl : list (N * gstmt).
  Variable env0 : genv.

  Lemma quiet1_clean callq :
    (forall f body top tr o, callq f = true -> lookup tbl f = Some body ->
                             exec (lookup tbl) env0 top body tr o -> clean tr) ->
    forall top s tr o, exec (lookup tbl) env0 top s tr o -> quiet1 callq s = true -> clean tr.
  Proof.
    assert (Hnil : clean []) by (intros y []).
    intros Hc top s tr o H. induction H; intros Q; cbn [quiet1] in Q;
      try (apply andb_true_iff in Q as [Q1 Q2]); try exact Hnil.
    - auto.
    - apply clean_app; auto.
    - auto.
    - auto.
    - apply clean_app; auto.
    - auto.
    - auto.
    - apply clean_app; auto.
    - destruct e as [[]| | | | | | |]; try discriminate; intros y [<-|[]]; cbn; auto.
    - eapply Hc; eauto.
    - eapply Hc; eauto.
  Qed.

  Lemma quietf_clean fuel : forall f body top tr o,
    quietf fuel tbl f = true -> lookup tbl f = Some body -> exec (lookup tbl) env0 top body tr o -> clean tr.
  Proof.
    induction fuel as [|k IH]; intros f body top tr o Q L X; cbn [quietf] in Q; [discriminate|].
    rewrite L in Q. eapply quiet1_clean; [|exact X|exact Q]. intros; eapply IH; eauto.
  Qed.

  Theorem ldr_after_lock_sound top s tr o :
    exec (lookup tbl) env0 top s tr o -> forall st r, ldr_after_lock tbl st s = Some r ->
    ldr_ok is_mlock true st tr /\ (o = ONorm -> r = true -> seen_after is_mlock st tr = true).
  Proof.
    intros H. induction H; intros st r A; cbn [ldr_after_lock] in A.
    - inversion A; subst. cbn. auto.
    - destruct (ldr_after_lock tbl st a) as [s1|] eqn:Ea; [|discriminate].
      destruct (IHexec st s1 Ea) as [I1 _]. split; [exact I1|intros; contradiction].
    - destruct (ldr_after_lock tbl st a) as [s1|] eqn:Ea; [|discriminate].
      destruct (IHexec1 st s1 Ea) as [I1 J1]. destruct (IHexec2 s1 r A) as [I2 J2].
      rewrite seen_after_app. split.
      + apply ldr_ok_app; [exact I1|]. eapply ldr_ok_true_mono; [|exact I2]. intros E. apply J1; auto.
      + intros Eo Er. destruct s1.
        * rewrite (J1 eq_refl eq_refl). apply seen_after_true.
        * specialize (J2 Eo Er). clear -J2. revert J2. generalize (seen_after is_mlock st tr1) as z.
          intros z. destruct z; [intros _; apply seen_after_true|auto].
    - destruct (ldr_after_lock tbl st t) as [x|] eqn:Et; [|discriminate].
      destruct (ldr_after_lock tbl st e) as [y|]; [|discriminate]. inversion A; subst.
      destruct (IHexec st x Et) as [I1 J1]. split; [exact I1|]. intros Eo Er. apply andb_true_iff in Er as [Ex _]. auto.
    - destruct (ldr_after_lock tbl st t) as [x|]; [|discriminate].
      destruct (ldr_after_lock tbl st e) as [y|] eqn:Ee; [|discriminate]. inversion A; subst.
      destruct (IHexec st y Ee) as [I1 J1]. split; [exact I1|]. intros Eo Er. apply andb_true_iff in Er as [_ Ey]. auto.
    - destruct (ldr_after_lock tbl st b) as [x|]; [|discriminate]. inversion A; subst. cbn. auto.
    - assert (A0 : ldr_after_lock tbl st (GLoop b) = Some r) by exact A.
      destruct (ldr_after_lock tbl st b) as [x|] eqn:Eb; [|discriminate]. inversion A; subst r.
      destruct (IHexec1 st x Eb) as [I1 _]. rewrite seen_after_app.
      assert (A1 : ldr_after_lock tbl (seen_after is_mlock st tr1) (GLoop b) = Some (seen_after is_mlock st tr1) \/ True) by auto.
      destruct (IHexec2 st st A0) as [I2 _]. split.
      + apply ldr_ok_app; [exact I1|]. eapply ldr_ok_true_mono; [|exact I2].
        intros ->. apply seen_after_true.
      + intros _ ->. rewrite seen_after_true. apply seen_after_true.
    - destruct (ldr_after_lock tbl st b) as [x|] eqn:Eb; [|discriminate]. inversion A; subst r.
      destruct (IHexec st x Eb) as [I1 _]. split; [exact I1|]. intros _ ->. apply seen_after_true.
    - destruct (ldr_after_lock tbl st b) as [x|] eqn:Eb; [|discriminate]. inversion A; subst r.
      destruct (IHexec st x Eb) as [I1 _]. split; [exact I1|]. intros; discriminate.
    - inversion A; subst. cbn. split; auto; intros; discriminate.
    - inversion A; subst. cbn. split; auto; intros; discriminate.
    - inversion A; subst. cbn. split; auto; intros; discriminate.
    - destruct (ldr_after_lock tbl st b) as [x|] eqn:Eb; [|discriminate].
      destruct (ldr_after_lock tbl st fin) as [y|] eqn:Ef; [|discriminate]. inversion A; subst r.
      destruct (IHexec1 st x Eb) as [I1 _]. destruct (IHexec2 st y Ef) as [I2 _]. rewrite seen_after_app. split.
      + apply ldr_ok_app; [exact I1|]. eapply ldr_ok_true_mono; [|exact I2]. intros ->. apply seen_after_true.
      + intros _ ->. rewrite seen_after_true. apply seen_after_true.
    - revert A. destruct e as [[]| | | | | | |]; destruct st; cbn; intros A; try discriminate;
        inversion A; subst; cbn; repeat split; auto; try discriminate.
    - destruct (quietf 4 tbl f) eqn:Q; [|discriminate]. inversion A; subst r.
      pose proof (quietf_clean _ _ _ _ _ _ Q H H0) as C.
      destruct (clean_ok is_mlock true st tr (or_introl eq_refl) C) as [K1 K2]. split; [exact K1|]. intros _ ->. apply seen_after_true.
    - destruct (quietf 4 tbl f) eqn:Q; [|discriminate]. inversion A; subst r.
      pose proof (quietf_clean _ _ _ _ _ _ Q H H0) as C.
      destruct (clean_ok is_mlock true st tr (or_introl eq_refl) C) as [K1 K2]. split; [exact K1|]. intros _ ->. apply seen_after_true.
  Qed.

  Theorem ldr_before_unlock_sound top s tr o :
    exec (lookup tbl) env0 top s tr o -> forall st r, ldr_before_unlock tbl st s = Some r ->
    ldr_ok is_munlock false st tr /\ (o = ONorm -> seen_after is_munlock st tr = true -> r = true).
  Proof.
    intros H. induction H; intros st r A; cbn [ldr_before_unlock] in A.
    - inversion A; subst. cbn. auto.
    - destruct (ldr_before_unlock tbl st a) as [s1|] eqn:Ea; [|discriminate].
      destruct (IHexec st s1 Ea) as [I1 _]. split; [exact I1|intros; contradiction].
    - destruct (ldr_before_unlock tbl st a) as [s1|] eqn:Ea; [|discriminate].
      destruct (IHexec1 st s1 Ea) as [I1 J1]. destruct (IHexec2 s1 r A) as [I2 J2].
      rewrite seen_after_app. split.
      + apply ldr_ok_app; [exact I1|]. eapply ldr_ok_false_mono; [|exact I2]. intros E. apply J1; auto.
      + intros Eo Es. apply J2; [exact Eo|].
        destruct (seen_after is_munlock st tr1) eqn:E1; [rewrite (J1 eq_refl eq_refl); apply seen_after_true|].
        destruct s1; [apply seen_after_true|exact Es].
    - destruct (ldr_before_unlock tbl st t) as [x|] eqn:Et; [|discriminate].
      destruct (ldr_before_unlock tbl st e) as [y|]; [|discriminate]. inversion A; subst.
      destruct (IHexec st x Et) as [I1 J1]. split; [exact I1|]. intros Eo Es. rewrite (J1 Eo Es). reflexivity.
    - destruct (ldr_before_unlock tbl st t) as [x|]; [|discriminate].
      destruct (ldr_before_unlock tbl st e) as [y|] eqn:Ee; [|discriminate]. inversion A; subst.
      destruct (IHexec st y Ee) as [I1 J1]. split; [exact I1|]. intros Eo Es. rewrite (J1 Eo Es). apply orb_true_r.
    - destruct (ldr_before_unlock tbl true b) as [x|]; [|discriminate]. inversion A; subst. cbn. auto.
    - assert (A0 : ldr_before_unlock tbl st (GLoop b) = Some r) by exact A.
      destruct (ldr_before_unlock tbl true b) as [x|] eqn:Eb; [|discriminate]. inversion A; subst r.
      destruct (IHexec1 true x Eb) as [I1 _]. rewrite seen_after_app.
      assert (A1 : ldr_before_unlock tbl true (GLoop b) = Some true) by (cbn [ldr_before_unlock]; rewrite Eb; reflexivity).
      destruct (IHexec2 true true A1) as [I2 _]. split; [|auto].
      apply ldr_ok_app; (eapply ldr_ok_false_mono; [|eassumption]); auto.
    - destruct (ldr_before_unlock tbl true b) as [x|] eqn:Eb; [|discriminate]. inversion A; subst r.
      destruct (IHexec true x Eb) as [I1 _]. split; [|auto]. eapply ldr_ok_false_mono; [|exact I1]. auto.
    - destruct (ldr_before_unlock tbl true b) as [x|] eqn:Eb; [|discriminate]. inversion A; subst r.
      destruct (IHexec true x Eb) as [I1 _]. split; [|auto]. eapply ldr_ok_false_mono; [|exact I1]. auto.
    - inversion A; subst. cbn. split; auto; intros; discriminate.
    - inversion A; subst. cbn. split; auto; intros; discriminate.
    - inversion A; subst. cbn. split; auto; intros; discriminate.
    - destruct (ldr_before_unlock tbl st b) as [x|] eqn:Eb; [|discriminate].
      destruct (ldr_before_unlock tbl true fin) as [y|] eqn:Ef; [|discriminate]. inversion A; subst r.
      destruct (IHexec1 st x Eb) as [I1 _]. destruct (IHexec2 true y Ef) as [I2 _]. rewrite seen_after_app. split; [|auto].
      apply ldr_ok_app; [exact I1|]. eapply ldr_ok_false_mono; [|exact I2]. auto.
    - revert A. destruct e as [[]| | | | | | |]; destruct st; cbn; intros A; try discriminate;
        inversion A; subst; cbn; repeat split; auto; try discriminate.
    - destruct (quietf 4 tbl f) eqn:Q; [|discriminate]. inversion A; subst r.
      pose proof (quietf_clean _ _ _ _ _ _ Q H H0) as C.
      destruct (clean_ok is_munlock false st tr (or_intror eq_refl) C) as [K1 K2]. split; [exact K1|]. rewrite K2. auto.
    - destruct (quietf 4 tbl f) eqn:Q; [|discriminate]. inversion A; subst r.
      pose proof (quietf_clean _ _ _ _ _ _ Q H H0) as C.
      destruct (clean_ok is_munlock false st tr (or_intror eq_refl) C) as [K1 K2]. split; [exact K1|]. rewrite K2. auto.
  Qed.
End Order.
