(* Marshal.v -- executable model of Stack.Unmarshal / stack.unmarshalDefault,
   Condition.Unmarshal / condition.unmarshalDefault, Stack.Marshal,
   marshalDefault, deenvelopeSingleStack, extractConditionValues, stackByWord
   and Cond(...) as used there (stack.go, cond.go), over the universe of
   JVal.v.  Written the way the Go code is written: same order of checks, same
   helpers; an index expression on a slice that is too short is [Panic]; a
   user-supplied marshaler / unmarshaler closure is [Unmodelled] (outside this
   model), and so is running out of the recursion fuel (MarshalProofs.v shows
   that the fuel given by [Marshal] always suffices).  Constants, names and
   the flag / capacity helpers come from Generated.v (regenerated from the Go
   source on every run).  No proofs in this file. *)
From Stackage Require Import Base Generated StackImpl Values JVal.
Open Scope Z_scope.

Fixpoint assocN {A} (k : N) (l : list (N * A)) : option A :=
  match l with
  | [] => None
  | (k', v) :: t => if (k =? k')%N then Some v else assocN k t
  end.

(* nodeConfig.positive: valid() && opt.positive(x) *)
Definition cpositive (c : config) (f : N) : bool :=
  negb (c_typ c =? 0)%N && g_flag_positive (c_opt c) f.

(* foldValue (misc.go) on the ASCII names it is applied to here *)
Definition fold_value (dofold : bool) (v : bytes) : bytes :=
  match v with
  | [] => v
  | b0 :: _ => if dofold then (if is_upper_byte b0 then lower v else upper v) else v
  end.

(* nodeConfig.kind *)
Definition kind_label (c : config) : bytes :=
  match assocN (c_typ c) t_kind_names with
  | Some name => fold_value (cpositive c c_cfold) name
  | None => B "null"
  end.

(* strings.ToUpper(lab) == W for a word W of ASCII capitals.  ToUpper maps
   a..z, and exactly two non-ASCII runes, onto ASCII capitals: U+0131 (bytes
   C4 B1) onto I and U+017F (bytes C5 BF) onto S; every other rune, and every
   invalid byte, maps outside ASCII. *)
Fixpoint uc_is (lab W : bytes) : bool :=
  match W with
  | [] => match lab with [] => true | _ => false end
  | w :: W' =>
      match lab with
      | [] => false
      | c :: lab' =>
          if ((byteN c <? 128)%N && Byte.eqb (upper_byte c) w)%bool then uc_is lab' W'
          else match lab' with
               | d :: lab'' =>
                   if (Byte.eqb c xc4 && Byte.eqb d xb1 && Byte.eqb w x49)%bool then uc_is lab'' W'
                   else if (Byte.eqb c xc5 && Byte.eqb d xbf && Byte.eqb w x53)%bool then uc_is lab'' W'
                   else false
               | [] => false
               end
      end
  end.

(* ---- Operators ---- *)
Definition op_text (o : oper) : bytes :=
  match o with
  | OpBuiltin n => match assocN n t_op_names with Some s => s | None => s_badOp end
  | OpUser t _ => t
  end.
Definition op_ctx (o : oper) : bytes :=
  match o with OpBuiltin _ => s_compOpCtx | OpUser _ c => c end.

(* condition.setOperator (with the nil check of repair D11) *)
Definition set_operator (cur op : option oper) : option oper :=
  match op with
  | None => cur
  | Some o => if ((0 <? zlen (op_ctx o)) && (0 <? zlen (op_text o)))%bool then Some o else cur
  end.

Definition j_is_nil (j : jval) : bool := match j with JNil => true | _ => false end.
Definition is_some {A} (o : option A) : bool := match o with Some _ => true | None => false end.

(* condition.assertConditionExpressionValue + defaultAssertionExpressionHandler *)
Definition assert_expr (c : config) (x : jval) : option jval :=
  let X := match x with
           | JLeaf (GStr s) => if 0 <? zlen s then Some x else None
           | JNil => None
           | JStack _ _ _ => if cpositive c c_nnest then None else Some x
           | _ => Some x
           end in
  match X with
  | Some v => if is_some (c_err c) then None else Some v
  | None => None
  end.

(* Condition.Valid without a validity policy *)
Definition cond_valid (kw : bytes) (op : option oper) (ex : jval) : bool :=
  if zlen kw =? 0 then false else
  match op with
  | None => false
  | Some o =>
      (match o with OpBuiltin n => ((1 <=? n) && (n <=? 6))%N | OpUser _ _ => true end)
      && negb (j_is_nil ex)
  end.

(* Cond(kw, op, ex): initCondition, setKeyword (a string), setOperator,
   setExpression, then Valid / SetErr *)
Definition cond_new (kw : bytes) (op : option oper) (ex : jval) : jval :=
  let c := cfg0 c_cond in
  let op' := set_operator None op in
  let ex' := match assert_expr c ex with Some v => v | None => JNil end in
  let c' := if cond_valid kw op' ex' then c else set_c_err c (Some 1%N) in
  JCond Native c' kw op' ex'.

(* ---- Unmarshal ---- *)
Definition op_val (op : option oper) : jval :=
  match op with Some o => JLeaf (GOper o) | None => JNil end.

(* unm (JStack ..) = stack.unmarshalDefault; unm (JCond ..) = Condition.Unmarshal
   (an initialised Condition).  stackTypeAliasConverter / conditionTypeAlias-
   Converter accept every initialised instance or alias (JStack / JCond of any
   akind) and nothing else (repair D27: a zero instance is not converted). *)
Fixpoint unm (j : jval) : res (list jval) :=
  match j with
  | JStack _ c els =>
      do rest <- (fix go (l : list jval) : res (list jval) :=
                    match l with
                    | [] => Ok []
                    | e :: t =>
                        do e' <- match e with
                                 | JStack _ _ _ => do s <- unm e; Ok (JList s)
                                 | JCond _ _ _ _ _ => do s <- unm e; Ok (JList s)
                                 | _ => Ok e
                                 end;
                        do t' <- go t;
                        Ok (e' :: t')
                    end) els;
      Ok (jstr (kind_label c) :: rest)
  | JCond _ c kw op ex =>
      match c_umf c with
      | Some _ => Unmodelled
      | None =>
          do nexpr <- match ex with
                      | JStack _ sc _ =>
                          (* s.Unmarshal(): the public method *)
                          match c_umf sc with
                          | Some _ => Unmodelled
                          | None => do s <- unm ex; Ok (JList s)
                          end
                      | _ => Ok ex
                      end;
          Ok [jstr (B "CONDITION"); jstr kw; op_val op; nexpr]
      end
  | _ => Ok []
  end.

(* a receiver of type Stack: the zero value or an initialised native Stack *)
Inductive recv := RZero | RInit (c : config) (els : list jval).
Definition recv_val (r : recv) : jval :=
  match r with RZero => JZeroStack Native | RInit c els => JStack Native c els end.

(* Stack.Unmarshal *)
Definition Unmarshal (r : recv) : res (list jval) :=
  match r with
  | RZero => Ok []
  | RInit c els =>
      match c_umf c with
      | Some _ => Unmodelled
      | None => unm (JStack Native c els)
      end
  end.

(* ---- Push (Stack.Push -> push -> genericAppend / methodAppend) ---- *)
Section Push.
  (* user push policies: policy id -> offered value -> error id *)
  Variable pol : N -> jval -> option N.

  Definition jcan_push_nester (c : config) (x : jval) : bool :=
    if cpositive c c_nnest then negb (j_is_stack x) else true.

  (* raw slice length = elements + the configuration slot *)
  Definition jis_full (c : config) (els : list jval) : bool := g_isFull (zlen els + 1) (c_cap c).

  Fixpoint jgeneric_append (c : config) (els xs : list jval) : list jval :=
    match xs with
    | [] => els
    | x :: xs' =>
        if jcan_push_nester c x then
          if negb (jis_full c els) then jgeneric_append c (els ++ [x]) xs'
          else jgeneric_append c els xs'
        else jgeneric_append c els xs'
    end.

  Fixpoint jmethod_append (p : N) (c : config) (els xs : list jval) : config * list jval :=
    match xs with
    | [] => (c, els)
    | x :: xs' =>
        if negb (jis_full c els) then
          match pol p x with
          | Some e => (set_c_err c (Some e), els)
          | None => jmethod_append p c (els ++ [x]) xs'
          end
        else jmethod_append p c els xs'
    end.

  Definition jpush (c : config) (els xs : list jval) : config * list jval :=
    if cpositive c c_ronly then (c, els) else
    match c_ppf c with
    | Some p => jmethod_append p c els xs
    | None => (c, jgeneric_append c els xs)
    end.

  (* ---- Marshal ---- *)

  (* what marshalDefault returns: a Stack (initialised or zero), a Condition
     (initialised or zero), an error (nil or not) *)
  Record mdres := MkMD { md_x : option jval; md_c : option jval; md_err : bool }.
  Definition md_fail : mdres := MkMD None None true.

  (* in[i] *)
  Definition idx (l : list jval) (i : nat) : res jval :=
    match nth_error l i with Some x => Ok x | None => Panic end.

  (* deenvelopeSingleStack: for len(in) == 1 { if inner, ok := in[0].([]any) ... } *)
  Fixpoint deenvelope (fuel : nat) (l : list jval) : res (list jval) :=
    if (length l =? 1)%nat then
      do x <- idx l 0;
      match x with
      | JList inner => match fuel with O => Unmodelled | S f => deenvelope f inner end
      | _ => Ok l
      end
    else Ok l.

  (* stackByWord *)
  Definition stack_by_word (lab : bytes) : config :=
    if uc_is lab (B "LIST") then cfg0 c_list
    else if uc_is lab (B "AND") then cfg0 c_and
    else if uc_is lab (B "NOT") then cfg0 c_not
    else if uc_is lab (B "OR") then cfg0 c_or
    else cfg0 c_basic.

  (* extractConditionValues; [rec] is marshalDefault *)
  Definition extract_condition (rec : list jval -> res mdres) (l : list jval) : res (option jval) :=
    if negb (length l =? 4)%nat then Ok None else
    do i1 <- idx l 1;
    let word := match i1 with JLeaf (GStr w) => w | _ => [] end in
    do i2 <- idx l 2;
    let op := match i2 with JLeaf (GOper o) => Some o | _ => None end in
    do i3 <- idx l 3;
    match i3 with
    | JList E =>
        do r <- rec E;
        match md_x r with
        | Some xm => Ok (Some (cond_new word op xm))
        | None => match md_c r with
                  | Some xn => Ok (Some (cond_new word op xn))
                  | None => Ok None
                  end
        end
    | _ => Ok (Some (cond_new word op i3))
    end.

  (* the replacement loop of marshalDefault:
       for i := 0; i < x.Len(); i++ { slice, _ := x.Index(i); if tv is []any { xz, xc, err = marshalDefault(tv); Replace } }
     err is overwritten by every nested call *)
  Fixpoint replace_loop (rec : list jval -> res mdres) (els : list jval) (err : bool) : res (list jval * bool) :=
    match els with
    | [] => Ok ([], err)
    | e :: t =>
        match e with
        | JList tv =>
            do r <- rec tv;
            let e' := match md_x r with
                      | Some xz => xz
                      | None => match md_c r with Some xc => xc | None => e end
                      end in
            do rest <- replace_loop rec t (md_err r);
            Ok (e' :: fst rest, snd rest)
        | _ =>
            do rest <- replace_loop rec t err;
            Ok (e :: fst rest, snd rest)
        end
    end.

  Definition is_str (j : jval) : option bytes := match j with JLeaf (GStr s) => Some s | _ => None end.

  Fixpoint marshal_default (fuel : nat) (l : list jval) : res mdres :=
    match fuel with
    | O => Unmodelled
    | S f =>
        if (length l =? 0)%nat then Ok md_fail else
        do l' <- deenvelope f l;
        if (length l' =? 0)%nat then Ok md_fail else
        do h <- idx l' 0;
        match is_str h with
        | None => Ok md_fail
        | Some lab =>
            if uc_is lab (B "CONDITION") then
              do c <- extract_condition (marshal_default f) l';
              Ok (MkMD None c false)
            else
              let known := (uc_is lab (B "LIST") || uc_is lab (B "AND") || uc_is lab (B "OR")
                            || uc_is lab (B "NOT") || uc_is lab (B "BASIC"))%bool in
              let '(c, els) := if known then (let c0 := stack_by_word lab in jpush c0 [] (tl l'))
                               else jpush (cfg0 c_basic) [] l' in
              do r <- replace_loop (marshal_default f) els false;
              Ok (MkMD (Some (JStack Native c (fst r))) None (snd r))
        end
    end.

  (* Stack.Marshal.  [d29] = true models the candidate repair "report an error
     when nothing was decoded"; false is the code without it. *)
  Definition Marshal_gen (d29 : bool) (r : recv) (l : list jval) : res (recv * bool) :=
    if (length l =? 0)%nat then Ok (r, true) else
    match r with
    | RZero =>
        do m <- marshal_default (S (ldepth l)) l;
        match md_x m with
        | Some (JStack _ c els) => Ok (RInit c els, md_err m)
        | Some _ => Unmodelled
        | None =>
            match md_c m with
            | Some _ => Ok (r, true)
            | None => Ok (r, if d29 then true else md_err m)
            end
        end
    | RInit c els =>
        match c_maf c with
        | Some _ => Unmodelled
        | None =>
            do m <- marshal_default (S (ldepth l)) l;
            match md_x m with
            | Some xs => let '(c', els') := jpush c els [xs] in Ok (RInit c' els', md_err m)
            | None =>
                match md_c m with
                | Some xc => let '(c', els') := jpush c els [xc] in Ok (RInit c' els', md_err m)
                | None => Ok (r, if d29 then true else md_err m)
                end
            end
        end
    end.

  Definition Marshal := Marshal_gen true.
End Push.
