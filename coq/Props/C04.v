(* C04 -- Marshal(Unmarshal(S)) reconstructs S.  Property theorems only; the
   proofs live in MarshalProofs.v, the model in Marshal.v (over JVal.v), the
   specification in MarshalSpec.v.

   Domain ([node_ok], MarshalSpec.v): EVERY tree -- no bound on depth or
   width -- of AND/OR/NOT/LIST/BASIC Stacks (native or alias, empty ones
   included, any options, symbol, capacity), Conditions (native or alias)
   whose expression is nil, a Stack of the domain, a Condition (any, passed
   through as a value) or any other value except the empty string (which a
   Condition cannot hold) and a []any, and leaves that are any value other
   than a []any (nil, primitives, typed nils, zero Stacks, ...).  No user
   unmarshaler is installed.  The receiver of Unmarshal is a native Stack. *)
From Stackage Require Import Base Generated StackImpl Values JVal MarshalSpec Marshal MarshalProofs.
From Stackage Require Import EqualBase EqualSpec Equal EqualProofs MarshalEqual.
Open Scope Z_scope.

(* Unmarshal returns the kind label followed by one entry per element in
   order; nested Stacks and Conditions (label, keyword, operator, expression)
   are expanded recursively, every other value is passed through unchanged:
   up to the case of labels the result is the flat form [spec_flat]. *)
Theorem c04_unmarshal_shape :
  forall (c : config) (els : list jval),
    node_ok (JStack Native c els) = true ->
    exists u, Unmarshal (RInit c els) = Ok u /\ length u = S (length els) /\
              canon (JList u) = canon (JList (spec_flat (JStack Native c els))).
Proof. exact (unmarshal_shape (fun _ _ => None)). Qed.
Print Assumptions c04_unmarshal_shape.

(* Feeding that result to Marshal on an uninitialised Stack, as Marshal(u...)
   or as Marshal(u), reports no error and reconstructs a tree with the same
   kinds, element order, leaf values and Condition keyword / operator /
   expression at every position ([same_tree]); unmarshalling the
   reconstruction gives exactly the flat form (upper-case labels). *)
Theorem c04_marshal_unmarshal :
  forall (pol : N -> jval -> option N) (c : config) (els u form : list jval),
    node_ok (JStack Native c els) = true ->
    Unmarshal (RInit c els) = Ok u ->
    form = u \/ form = [JList u] ->
    exists c' els',
      Marshal pol RZero form = Ok (RInit c' els', false) /\
      same_tree (JStack Native c els) (JStack Native c' els') /\
      Unmarshal (RInit c' els') = Ok (spec_flat (JStack Native c els)).
Proof. exact marshal_unmarshal. Qed.
Print Assumptions c04_marshal_unmarshal.

(* ... so the second slice equals the first one, labels compared without
   regard to case *)
Theorem c04_unmarshal_fixpoint :
  forall (c : config) (els u : list jval),
    node_ok (JStack Native c els) = true ->
    Unmarshal (RInit c els) = Ok u ->
    canon (JList (spec_flat (JStack Native c els))) = canon (JList u).
Proof. exact (unmarshal_fixpoint (fun _ _ => None)). Qed.
Print Assumptions c04_unmarshal_fixpoint.

(* When no capacity and no case folding is involved (and no equality policy:
   [eq_dom]), IsEqual between original and reconstruction succeeds in both
   directions -- for EVERY function is_equal that has the three documented
   facts about IsEqual (C05 / module Equal): values of the set [good] equal
   themselves; Stacks without capacity with equal kind labels and pairwise
   equal elements are equal; Conditions with the same keyword and operator
   and equal expressions are equal. *)
Theorem c04_roundtrip_isequal :
  forall (is_equal : jval -> jval -> bool) (good : jval -> bool),
    (forall x, good x = true -> is_equal x x = true) ->
    (forall a c els a' c' els',
        c_eqf c = None -> c_cap c = 0 -> c_cap c' = 0 -> kind_label c = kind_label c' ->
        Forall2 (fun x y => is_equal x y = true) els els' ->
        is_equal (JStack a c els) (JStack a' c' els') = true) ->
    (forall a c kw op ex a' c' ex',
        c_eqf c = None -> is_equal ex ex' = true ->
        is_equal (JCond a c kw op ex) (JCond a' c' kw op ex') = true) ->
    forall (pol : N -> jval -> option N) (c : config) (els u : list jval),
      node_ok (JStack Native c els) = true -> eq_dom good (JStack Native c els) = true ->
      Unmarshal (RInit c els) = Ok u ->
      exists c' els',
        Marshal pol RZero u = Ok (RInit c' els', false) /\
        is_equal (JStack Native c els) (JStack Native c' els') = true /\
        is_equal (JStack Native c' els') (JStack Native c els) = true.
Proof. exact roundtrip_isequal. Qed.
Print Assumptions c04_roundtrip_isequal.

(* The same clause against the IsEqual MODEL of C05 (Equal.v, the one the
   `equal` family ties to Stack.IsEqual) instead of an abstract comparison:
   for every Stack tree of Values.value in the common domain - kinds,
   operators and expressions Marshal accepts (node_ok); no capacity, no case
   folding (plain); supported leaves, no NaN, no equality policy
   (refl_domain, the domain on which IsEqual is reflexive) - Unmarshal
   succeeds, Marshal of its result succeeds on an uninitialised receiver, and
   IsEqual returns nil between original and reconstruction in both
   directions. *)
Theorem c04_roundtrip_is_equal_model :
  forall (pol : N -> jval -> option N) (c : config) (els : list value),
    node_ok (inj (VStack Native c els)) = true -> plain (inj (VStack Native c els)) = true ->
    refl_domain (VStack Native c els) = true ->
    exists u c' els',
      Unmarshal (RInit c (map inj els)) = Ok u /\
      Marshal pol RZero u = Ok (RInit c' (map inj els'), false) /\
      is_equal repaired (VStack Native c els) (VStack Native c' els') = Ok true /\
      is_equal repaired (VStack Native c' els') (VStack Native c els) = Ok true.
Proof. exact marshal_roundtrip_is_equal. Qed.
Print Assumptions c04_roundtrip_is_equal_model.

(* its three hypotheses hold of a tree with nested Stacks (an alias among
   them), Conditions over a string, a Stack and a Condition, numbers and nil *)
Example c04_is_equal_domain_inhabited :
  let t := VStack Native (cfgS 2 0 (B "||") [] [] false 0)
             [ VLeaf (GStr (B "leaf")); VNil; VStack Native (cfg0 3) [];
               VStack AliasPtr (cfgS 4 0 [] (B ",") [] false 0) [VLeaf (GInt 0 7); VLeaf (GStr (B "AND"))];
               VCond Native (cfg0 5) (B "k") (Some (OpBuiltin 1)) (VLeaf (GStr (B "v")));
               VCond AliasVal (cfg0 5) (B "k2") (Some (OpUser (B "~=") (B "custom")))
                     (VStack Native (cfgS 1 0 [] [] [] false 0) [VLeaf (GStr (B "x")); VLeaf (GBool true)]);
               VCond Native (cfg0 5) (B "outer") (Some (OpBuiltin 1))
                     (VCond Native (cfg0 5) (B "inner") (Some (OpBuiltin 2)) (VLeaf (GInt 0 3))) ] in
  node_ok (inj t) = true /\ plain (inj t) = true /\ refl_domain t = true.
Proof. vm_compute. repeat split; reflexivity. Qed.

(* The same round trip for the trees of the shared universe Values.value *)
Theorem c04_marshal_unmarshal_value :
  forall (pol : N -> jval -> option N) (c : config) (els : list value),
    node_ok (inj (VStack Native c els)) = true ->
    exists u c' els',
      Unmarshal (RInit c (map inj els)) = Ok u /\
      Marshal pol RZero u = Ok (RInit c' els', false) /\
      Marshal pol RZero [JList u] = Ok (RInit c' els', false) /\
      same_tree (inj (VStack Native c els)) (JStack Native c' els') /\
      Unmarshal (RInit c' els') = Ok (spec_flat (inj (VStack Native c els))).
Proof. exact marshal_unmarshal_value. Qed.
Print Assumptions c04_marshal_unmarshal_value.

(* The specification is the natural object: tree comparison is an
   equivalence, its erasure and the label canonicalisation are idempotent. *)
Theorem c04_spec_same_tree_equivalence :
  (forall a, same_tree a a) /\ (forall a b, same_tree a b -> same_tree b a) /\
  (forall a b c, same_tree a b -> same_tree b c -> same_tree a c).
Proof. exact (conj same_tree_refl (conj same_tree_sym same_tree_trans)). Qed.
Print Assumptions c04_spec_same_tree_equivalence.

Theorem c04_spec_idempotent :
  (forall j, skel (skel j) = skel j) /\ (forall j, canon (canon j) = canon j).
Proof. exact (conj skel_idem canon_idem). Qed.
Print Assumptions c04_spec_idempotent.

(* Non-vacuity: an OR Stack (folded, capacity 9, symbol) holding a string, nil,
   an empty NOT Stack, an alias LIST Stack, and Conditions whose expressions
   are a string, a Stack, a Condition and nil (the last without operator) is
   in the domain; the model run on it, inside Coq, reconstructs the same
   tree in both call forms, and the second Unmarshal is the flat form. *)
Definition ex_eq : option oper := Some (OpBuiltin 1).
Definition ex_tree_els : list jval :=
  [ jstr (B "leaf"); JNil;
    JStack Native (cfg0 3) [];
    JStack AliasPtr (cfgS 4 1 [] (B ",") [] false 0) [JLeaf (GInt 0 7); jstr (B "AND")];
    JCond Native (cfg0 5) (B "k") ex_eq (jstr (B "v"));
    JCond AliasVal (cfg0 5) (B "k2") (Some (OpUser (B "~=") (B "custom")))
          (JStack Native (cfgS 1 2 [] [] [] false 0) [jstr (B "x"); JCond Native (cfg0 5) (B "i") ex_eq (JLeaf (GBool true))]);
    JCond Native (cfg0 5) (B "outer") ex_eq (JCond Native (cfg0 5) (B "inner") (Some (OpBuiltin 2)) (JLeaf (GInt 0 3)));
    JCond Native (cfg0 5) (B "") None JNil ].
Definition ex_cfg : config := cfgS 2 2 (B "||") [] [] false 9.

Example c04_domain_inhabited : node_ok (JStack Native ex_cfg ex_tree_els) = true.
Proof. vm_compute. reflexivity. Qed.

Definition ex_roundtrip (single : bool) : option (bool * jval * list jval) :=
  match Unmarshal (RInit ex_cfg ex_tree_els) with
  | Ok u =>
      match Marshal (fun _ _ => None) RZero (if single then [JList u] else u) with
      | Ok (r', e) => match Unmarshal r' with Ok u2 => Some (e, skel (recv_val r'), u2) | _ => None end
      | _ => None
      end
  | _ => None
  end.

Example c04_concrete_run :
  ex_roundtrip false = Some (false, skel (JStack Native ex_cfg ex_tree_els), spec_flat (JStack Native ex_cfg ex_tree_els)) /\
  ex_roundtrip true = ex_roundtrip false /\
  (exists lab rest, Unmarshal (RInit ex_cfg ex_tree_els) = Ok (jstr lab :: rest) /\ lab = B "or" /\ length rest = 8%nat).
Proof.
  split; [vm_compute; reflexivity|]. split; [vm_compute; reflexivity|].
  eexists _, _. split; [vm_compute; reflexivity|]. split; reflexivity.
Qed.
