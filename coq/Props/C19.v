(* C19 -- Defrag removes every nil gap and nothing else.
   Property theorems only; proofs live in DefragProofs.v.

   The code VIOLATES this property and cannot be repaired inside the rules
   (D17: TestDefrag_experimental_001 pins the faulty truncation).  The model
   (Defrag.v) is therefore bug-for-bug, and this file states
     - what the model does on EVERY input (never panics; closed form),
     - exactly which inputs meet the property (c19_defrag_correct_iff, and on
       trees c19_Defrag_correct / c19_Defrag_meets),
     - concrete witnesses of every way in which the property fails.

   FULL STATEMENT OF C19 ON THE MODEL (FALSE, see c19_full_refuted):
     forall args v v',
       c19_input v = true -> Defrag args v = Ok v' ->
       meets (scan_limit args) v (obs_of v') = true.
   [meets] (DefragSpec.v) is the property as the check evaluates it: every
   Stack node whose nil runs are shorter than the limit shows exactly its
   former non-nil elements in order, each compacted the same way, Err() nil. *)
From Stackage Require Import Base Values Generated StackImpl Defrag DefragSpec DefragSpecCorr DefragProofs DefragKf.
From Stackage Require Import DefragTie.
Open Scope Z_scope.

(* ---- every list of elements, every limit, every index option ---- *)

(* stack.defrag never panics, its loop never runs out of fuel, it fabricates
   nothing and never grows the slice. *)
Theorem c19_defrag_total :
  forall (V : Type) (nilv : V) (isnil : V -> bool),
    isnil nilv = true -> (forall v, isnil v = true -> v = nilv) ->
    forall (neg fwd : bool) (m : Z) (els : list V),
      zlen els < DBnd ->
      exists r e, defrag V nilv isnil neg fwd m els = Ok (r, e) /\
                  incl r els /\ (length r <= length els)%nat.
Proof. exact defrag_total. Qed.
Print Assumptions c19_defrag_total.

(* implode alone: if the first nil lies below the limit and fewer than
   `limit` nil elements precede the last non-nil one (the ACCUMULATED gap,
   not the longest run), the slots become the non-nil elements in their
   former order followed by the nils. *)
Theorem c19_implode_compacts :
  forall (V : Type) (nilv : V) (isnil : V -> bool),
    isnil nilv = true -> (forall v, isnil v = true -> v = nilv) ->
    forall (m : Z) (els : list V) (s : nat) (spat : list Z),
      zlen els < DBnd -> first_nil V isnil els = Some s ->
      Z.of_nat s < m -> Z.of_nat (gap V isnil els) < m ->
      length spat = S (length els) ->
      exists tpat,
        implode V nilv isnil (Z.of_nat s) m spat els
        = Ok (nonnil V isnil els ++ repeat nilv (nnil V isnil els), tpat).
Proof. exact implode_compacts. Qed.
Print Assumptions c19_implode_compacts.

(* defrag_result (DESIGN §8/C19), with the extra hypothesis the code needs
   (first nil below the limit) and for both settings of the forward-index
   option: the result is the compacted list cut at
   trunc = 2*imax - len - 3 (when that is >= 0), not at the number of non-nil
   elements; with forward indices on and a non-nil last element nothing is
   cut and the error is set. *)
Theorem c19_defrag_result :
  forall (V : Type) (nilv : V) (isnil : V -> bool),
    isnil nilv = true -> (forall v, isnil v = true -> v = nilv) ->
    forall (neg fwd : bool) (m : Z) (els : list V) (s : nat),
      zlen els < DBnd -> first_nil V isnil els = Some s ->
      Z.of_nat s < m -> Z.of_nat (gap V isnil els) < m ->
      defrag V nilv isnil neg fwd m els =
      Ok (firstn (Z.to_nat (if fwd && last_set V isnil els then zlen els else trunc V isnil els))
                 (nonnil V isnil els ++ repeat nilv (nnil V isnil els)),
          Some (if fwd && last_set V isnil els then Some err_defrag else None)).
Proof. exact defrag_result. Qed.
Print Assumptions c19_defrag_result.

(* defrag_correct_iff: under those hypotheses Defrag meets the property on a
   list (exactly the former non-nil elements, no error) if and only if the
   list has no nil, or the truncation arithmetic happens to hit the number of
   non-nil elements and the forward-index error does not fire. *)
Theorem c19_defrag_correct_iff :
  forall (V : Type) (nilv : V) (isnil : V -> bool),
    isnil nilv = true -> (forall v, isnil v = true -> v = nilv) ->
    forall (neg fwd : bool) (m : Z) (els : list V),
      zlen els < DBnd ->
      (forall s, first_nil V isnil els = Some s -> Z.of_nat s < m) ->
      Z.of_nat (gap V isnil els) < m ->
      exists r e, defrag V nilv isnil neg fwd m els = Ok (r, e) /\
        ((r = nonnil V isnil els /\ no_error e = true) <->
         (has_nil V isnil els = false \/
          (trunc V isnil els = zlen (nonnil V isnil els) /\ fwd && last_set V isnil els = false))).
Proof. exact defrag_correct_iff. Qed.
Print Assumptions c19_defrag_correct_iff.

(* a list without nil elements is left untouched, whatever the limit and the
   options; the error field is left alone or cleared *)
Theorem c19_defrag_nonil_identity :
  forall (V : Type) (nilv : V) (isnil : V -> bool),
    isnil nilv = true -> (forall v, isnil v = true -> v = nilv) ->
    forall (neg fwd : bool) (m : Z) (els : list V),
      zlen els < DBnd -> has_nil V isnil els = false ->
      exists e, defrag V nilv isnil neg fwd m els = Ok (els, e) /\ (e = None \/ e = Some None).
Proof. exact defrag_nonil_identity. Qed.
Print Assumptions c19_defrag_nonil_identity.

(* defrag_fwdidx_error: forward indices on, last element not nil, first nil
   below the limit: Err is set and nothing is cut off *)
Theorem c19_defrag_fwdidx_error :
  forall (V : Type) (nilv : V) (isnil : V -> bool),
    isnil nilv = true -> (forall v, isnil v = true -> v = nilv) ->
    forall (neg : bool) (m : Z) (els : list V) (s : nat),
      zlen els < DBnd -> first_nil V isnil els = Some s -> Z.of_nat s < m ->
      last_set V isnil els = true ->
      exists r, defrag V nilv isnil neg true m els = Ok (r, Some (Some err_defrag)) /\
                length r = length els.
Proof. exact defrag_fwdidx_error. Qed.
Print Assumptions c19_defrag_fwdidx_error.

(* the guard of stack.defrag: a first nil at a position >= limit: nothing
   happens at all (found by this check, not in DESIGN §7) *)
Theorem c19_defrag_late_noop :
  forall (V : Type) (nilv : V) (isnil : V -> bool),
    isnil nilv = true -> (forall v, isnil v = true -> v = nilv) ->
    forall (neg fwd : bool) (m : Z) (els : list V) (s : nat),
      zlen els < DBnd -> first_nil V isnil els = Some s -> m <= Z.of_nat s ->
      defrag V nilv isnil neg fwd m els = Ok (els, None).
Proof. exact defrag_late_noop. Qed.
Print Assumptions c19_defrag_late_noop.

(* ---- every tree (any nesting depth), every argument list ---- *)

(* Stack.Defrag never panics and the recursion fuel always suffices *)
Theorem c19_Defrag_total :
  forall (v : value) (args : list Z),
    smallb v = true -> exists v', Defrag args v = Ok v'.
Proof. exact Defrag_total. Qed.
Print Assumptions c19_Defrag_total.

(* a tree in which no Stack holds a nil element is left untouched *)
Theorem c19_Defrag_nonil_identity :
  forall (v : value) (args : list Z),
    smallb v = true -> errfree v = true -> nonil_tree v = true -> Defrag args v = Ok v.
Proof. exact Defrag_nonil_identity. Qed.
Print Assumptions c19_Defrag_nonil_identity.

(* on every tree all of whose reachable nodes satisfy the right-hand side of
   c19_defrag_correct_iff (and in which no Stack hides behind a Condition in a
   node holding no Stack directly) Defrag yields the canonical compacted tree:
   every Stack, at every depth, directly nested or held by a Condition, keeps
   exactly its non-nil elements in order *)
Theorem c19_Defrag_correct :
  forall (v : value) (args : list Z),
    is_cond v = false -> smallb v = true -> errfree v = true ->
    tree_good (scan_limit args) v = true ->
    Defrag args v = Ok (spec_defrag v).
Proof. exact Defrag_correct. Qed.
Print Assumptions c19_Defrag_correct.

(* ... and that result meets the property as the check evaluates it *)
Theorem c19_Defrag_meets :
  forall (v : value) (args : list Z),
    is_cond v = false -> smallb v = true -> errfree v = true -> plain v = true ->
    tree_good (scan_limit args) v = true ->
    exists v', Defrag args v = Ok v' /\ meets (scan_limit args) v (obs_of v') = true.
Proof. exact Defrag_meets. Qed.
Print Assumptions c19_Defrag_meets.

(* the specification is satisfiable: the canonical compacted tree meets it,
   for every tree and every limit *)
Theorem c19_spec_canonical_meets :
  forall (m : Z) (v : value),
    errfree v = true -> plain v = true -> meets m v (obs_of (spec_defrag v)) = true.
Proof. exact meets_spec_defrag. Qed.
Print Assumptions c19_spec_canonical_meets.

(* the model's scan limit is the documented one *)
Theorem c19_scan_limit :
  forall args : list Z, defrag_max args = scan_limit args /\ 0 < scan_limit args.
Proof. intros args. split; [apply defrag_max_eq | apply scan_limit_pos]. Qed.
Print Assumptions c19_scan_limit.

(* the known-finding classification of the check (DefragSpecCorr.list_class,
   written without reference to the model) is tight on lists: every run
   shorter than the limit and class 0 ("no known finding applies") imply that
   the model meets the property, so an unclassified failure can only be an
   implementation that differs from the model *)
Theorem c19_kf_zero_meets :
  forall (neg fwd : bool) (m : Z) (els : list value),
    zlen els < DBnd -> 0 < m -> Z.of_nat (vmax_run els) < m -> list_class m fwd els = 0%N ->
    exists e, defrag value VNil is_nil neg fwd m els = Ok (vnonnil els, e) /\ no_error e = true.
Proof. exact kf_zero_meets. Qed.
Print Assumptions c19_kf_zero_meets.

(* ---- the property is violated: witnesses ---- *)

Theorem c19_full_refuted :
  exists args v v', c19_input v = true /\ Defrag args v = Ok v' /\
                    meets (scan_limit args) v (obs_of v') = false.
Proof. exact DefragProofs.c19_full_refuted. Qed.
Print Assumptions c19_full_refuted.

(* defrag_spec_refuted: the three witnesses of D17 (known finding
   C19/defrag-truncation) *)
Theorem c19_defrag_spec_refuted :
  let w1 := mkS 0 [iv 1; iv 2; iv 3; VNil; iv 5] in
  let w2 := mkS 0 [iv 1; VNil; iv 2] in
  let w3 := mkS 0 [iv 1; VNil; iv 2; iv 3; VNil; VNil; VNil; iv 4] in
  (c19_input w1 = true /\ Defrag [] w1 = Ok (mkS 0 []) /\
   meets (scan_limit []) w1 (obs_of (mkS 0 [])) = false) /\
  (c19_input w2 = true /\ Defrag [] w2 = Ok (mkS 0 [iv 1; iv 2; VNil]) /\
   meets (scan_limit []) w2 (obs_of (mkS 0 [iv 1; iv 2; VNil])) = false) /\
  (c19_input w3 = true /\ Defrag [] w3 = Ok (mkS 0 [iv 1; iv 2; iv 3]) /\
   meets (scan_limit []) w3 (obs_of (mkS 0 [iv 1; iv 2; iv 3])) = false).
Proof. exact defrag_spec_refuted. Qed.
Print Assumptions c19_defrag_spec_refuted.

(* implode_gap_refuted (known finding C19/defrag-accumulated-gap) *)
Theorem c19_implode_gap_refuted :
  let w := mkS 0 [VNil; iv 7; VNil; VNil; iv 8] in
  c19_input w = true /\ Z.of_nat (vmax_run [VNil; iv 7; VNil; VNil; iv 8]) < scan_limit [3] /\
  implode value VNil is_nil 0 3 [0; 1; 0; 0; 1; 0] [VNil; iv 7; VNil; VNil; iv 8]
    = Ok ([iv 7; VNil; VNil; VNil; iv 8], [1; 1; 0; 0; 0; 0]) /\
  Defrag [3] w = Ok (mkS 0 [iv 7; VNil; VNil; VNil; iv 8]) /\
  meets (scan_limit [3]) w (obs_of (mkS 0 [iv 7; VNil; VNil; VNil; iv 8])) = false.
Proof. exact implode_gap_refuted. Qed.
Print Assumptions c19_implode_gap_refuted.

(* found by this check (finding C19/defrag-late-first-nil) *)
Theorem c19_late_first_nil_refuted :
  let els := [iv 1; iv 2; iv 3; iv 4; iv 5; iv 6; VNil; VNil; VNil; VNil; VNil; iv 12] in
  c19_input (mkS 0 els) = true /\ Z.of_nat (vmax_run els) < scan_limit [6] /\
  Defrag [6] (mkS 0 els) = Ok (mkS 0 els) /\
  meets (scan_limit [6]) (mkS 0 els) (obs_of (mkS 0 els)) = false /\
  Defrag [7] (mkS 0 els) = Ok (mkS 0 [iv 1; iv 2; iv 3; iv 4; iv 5; iv 6; iv 12]) /\
  meets (scan_limit [7]) (mkS 0 els) (obs_of (mkS 0 [iv 1; iv 2; iv 3; iv 4; iv 5; iv 6; iv 12])) = true.
Proof. exact late_first_nil_refuted. Qed.
Print Assumptions c19_late_first_nil_refuted.

(* found by this check (finding C19/defrag-cond-only-nesting) *)
Theorem c19_cond_only_nesting_refuted :
  let inner := mkS 0 [VNil; VNil; VNil; VNil; VNil; iv 9] in
  let w := mkS 0 [mkC inner] in
  let w' := mkS 0 [mkC inner; mkS 0 [iv 1]] in
  c19_input w = true /\ Defrag [] w = Ok w /\ meets (scan_limit []) w (obs_of w) = false /\
  c19_input w' = true /\ Defrag [] w' = Ok (mkS 0 [mkC (mkS 0 [iv 9]); mkS 0 [iv 1]]) /\
  meets (scan_limit []) w' (obs_of (mkS 0 [mkC (mkS 0 [iv 9]); mkS 0 [iv 1]])) = true.
Proof. exact cond_only_nesting_refuted. Qed.
Print Assumptions c19_cond_only_nesting_refuted.

(* the forward-index option turns a correct Defrag into a failing one *)
Theorem c19_fwdidx_refuted :
  let els := [VNil; VNil; VNil; VNil; VNil; iv 9] in
  Defrag [] (mkS 0 els) = Ok (mkS 0 [iv 9]) /\
  meets (scan_limit []) (mkS 0 els) (obs_of (mkS 0 [iv 9])) = true /\
  c19_input (mkS 32 els) = true /\
  Defrag [] (mkS 32 els)
    = Ok (VStack Native (set_c_err (cfgS 6 32 [] [] [] false 0) (Some err_defrag))
                 [iv 9; VNil; VNil; VNil; VNil; VNil]) /\
  meets (scan_limit []) (mkS 32 els)
        (obs_of (VStack Native (set_c_err (cfgS 6 32 [] [] [] false 0) (Some err_defrag))
                        [iv 9; VNil; VNil; VNil; VNil; VNil])) = false.
Proof. exact fwdidx_refuted. Qed.
Print Assumptions c19_fwdidx_refuted.

(* ---- non-vacuity ---- *)

(* the hypotheses of c19_Defrag_correct / c19_Defrag_meets are satisfiable by
   a tree that is not trivial: three levels, a Condition in between, nil
   elements in every Stack; the model run (inside Coq) compacts all of them *)

(* The loops of the model ARE the loops of the source: one iteration of
   stack.implode, one iteration of stack.verifyImplode and the guard of
   stack.defrag after its scan loop are regenerated from /repo on every run
   (translator T1: the loop headers and everything around the loops are
   checked, what each cut point goes on to do is pinned as text), and the
   model's iterations are these decision trees - for every slice, pattern,
   scan limit and counter value within Go's int range. *)
Theorem c19_model_loops_are_the_source_loops :
  (forall (V : Type) (nilv : V) (isnil : V -> bool) (f : nat) (max : Z) (r : list V) (start ct : Z) (tpat : list Z),
     in_i64 (start + ct) -> in_i64 (ct + 1) ->
     implode_loop V nilv isnil (S f) max r start ct tpat =
     match g_implode_iter (rulen V r) false ct start max with
     | TCut 0 _ _ => Ok (r, tpat)
     | _ =>
         do x <- raw_get V r (start + ct + 1);
         match g_implode_iter (rulen V r) (isnil x) ct start max with
         | TCut 1 [s; c] _ => implode_loop V nilv isnil f max r s c tpat
         | TCut 2 _ _ =>
             do r1 <- raw_set V r (start + 1) x;
             do tpat1 <- pat_set tpat (start + ct) 1;
             do r2 <- raw_set V r1 (start + ct + 1) nilv;
             implode_loop V nilv isnil f max r2 (start + 1) 0 tpat1
         | _ => Unmodelled
         end
     end) /\
  (forall (i : nat) (is' : list nat) (spat tpat : list Z) (dlen last : Z) (fail : bool),
     in_i64 (dlen + Z.of_nat i) -> in_i64 (dlen + Z.of_nat i - zlen tpat) ->
     verify_loop (i :: is') spat tpat dlen last fail =
     do s <- pat_get spat (Z.of_nat i);
     do t <- pat_get tpat (Z.of_nat i);
     match g_verify_iter (s =? t) (negb (t =? 0)) dlen (zlen tpat) (Z.of_nat i) last with
     | TRet [l] [fl] => verify_loop is' spat tpat (dlen + 1) l fl
     | _ => Unmodelled
     end) /\
  (forall start max : Z,
     g_defrag_after start max =
     if negb ((start =? -1) || (max <=? start)) then TCut 0 [] [true] else TRet [] [true]) /\
  g_implode_iter_tails =
    ["break"%string; "continue"%string;
     "(*r)[start+1] = (*r)[start+ct+1]; tpat[start+ct] = 1; (*r)[start+ct+1] = nil; start = start + 1; ct = 0"%string].
Proof.
  split; [exact implode_iteration|]. split; [exact verify_iteration|].
  split; [exact defrag_guard|exact implode_cut_tails].
Qed.
Print Assumptions c19_model_loops_are_the_source_loops.

Example c19_good_tree_exists :
  c19_input good_example = true /\ tree_good (scan_limit []) good_example = true /\
  nonil_tree good_example = false /\
  Defrag [] good_example = Ok (mkS 0 [mkS 16 [mkC (mkS 0 [iv 7]); mkS 0 [iv 8; iv 9]]]).
Proof. exact good_example_ok. Qed.

(* the hypotheses of c19_defrag_result are satisfiable, and the closed form
   evaluates to what the model computes on the third witness of D17 *)
Example c19_result_concrete :
  let isn := fun z : Z => z =? 0 in
  let els := [1; 0; 2; 3; 0; 0; 0; 4] in
  first_nil Z isn els = Some 1%nat /\ gap Z isn els = 4%nat /\ imax Z isn els = Some 7%nat /\
  trunc Z isn els = 3 /\ zlen (nonnil Z isn els) = 4 /\
  defrag Z 0 isn false false 50 els = Ok ([1; 2; 3], Some None).
Proof. vm_compute. repeat split. Qed.

(* the pattern [nil x5, 9] is one of the few that Defrag handles correctly:
   2*imax - len - 3 = 1 = number of non-nil elements *)
Example c19_correct_concrete :
  let isn := fun z : Z => z =? 0 in
  trunc Z isn [0; 0; 0; 0; 0; 9] = zlen (nonnil Z isn [0; 0; 0; 0; 0; 9]) /\
  defrag Z 0 isn false false 50 [0; 0; 0; 0; 0; 9] = Ok ([9], Some None).
Proof. vm_compute. repeat split. Qed.
