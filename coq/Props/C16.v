(* C16 -- Marshal accepts or rejects any input without panicking.  Property
   theorems only; the proofs live in MarshalProofs.v, the model in Marshal.v.

   Inputs: EVERY list of jval (JVal.v) -- arbitrary nesting of []any, empty
   and single-element envelopes, labels in any case, junk strings, numbers,
   nil, typed nils, any Operator value (valid, invalid, user-defined, with
   empty text or context), ready-made Stacks and Conditions, CONDITION rows
   with missing, surplus or wrongly typed fields.  No bound on depth or
   length.  Receivers: the zero Stack, or any initialised native Stack on
   which no user marshaler is installed ([recv_no_maf]; a user marshaler is
   the user's code and outside the model).  [pol] is an arbitrary push-policy
   table.  Not representable (and excluded from the harness): a typed-nil
   pointer whose type implements Operator by value-receiver methods -- see
   the hand-back note.

   [Marshal] is [Marshal_gen true]: the model of Stack.Marshal with the
   candidate repair D29 ("report an error when nothing was decoded");
   [Marshal_gen false] is the code without it. *)
From Stackage Require Import Base Generated StackImpl Values JVal MarshalSpec Marshal MarshalProofs.
Open Scope Z_scope.

(* Marshal returns normally -- never Panic, and the recursion fuel the model
   gives itself (nesting depth + 1) always suffices -- with or without D29. *)
Theorem c16_marshal_total :
  forall (pol : N -> jval -> option N) (d29 : bool) (r : recv) (l : list jval),
    recv_no_maf r = true -> exists r' e, Marshal_gen pol d29 r l = Ok (r', e).
Proof. exact marshal_total. Qed.
Print Assumptions c16_marshal_total.

(* On an uninitialised receiver it either reports an error or leaves an
   initialised Stack that Unmarshal handles without panicking.
   (Full statement of DESIGN §8: ... /\ String r' <> Panic /\ IsEqual r' r' <>
   Panic.  String and IsEqual are modelled by the Render and Equal modules,
   not here; for them the family marshaljunk observes "returned normally" on
   the real package after every Marshal.) *)
Theorem c16_marshal_result :
  forall (pol : N -> jval -> option N) (l : list jval) (r' : recv) (e : bool),
    Marshal pol RZero l = Ok (r', e) ->
    e = true \/ (exists c els, r' = RInit c els /\ Unmarshal r' <> Panic).
Proof. exact marshal_result. Qed.
Print Assumptions c16_marshal_result.

(* Without D29 that statement is false: Marshal("CONDITION", "k") reports no
   error and leaves the receiver uninitialised ... *)
Theorem c16_marshal_result_unrepaired_refuted :
  forall (pol : N -> jval -> option N),
    exists l, Marshal_gen pol false RZero l = Ok (RZero, false).
Proof. exact marshal_result_unrepaired_refuted. Qed.
Print Assumptions c16_marshal_result_unrepaired_refuted.

(* ... and that is the only way it fails: no error and no Stack happens
   exactly when marshalDefault decoded nothing and reported nothing. *)
Theorem c16_marshal_result_unrepaired_partial :
  forall (pol : N -> jval -> option N) (l : list jval) (r' : recv) (e : bool),
    Marshal_gen pol false RZero l = Ok (r', e) ->
    e = true \/ (exists c els, r' = RInit c els /\ Unmarshal r' <> Panic) \/
    (r' = RZero /\ exists m, mdF pol l = Ok m /\ md_x m = None /\ md_c m = None /\ md_err m = false).
Proof. exact marshal_result_unrepaired_partial. Qed.
Print Assumptions c16_marshal_result_unrepaired_partial.

(* Envelopes: a list holding exactly one list stands for that list, at any
   depth (Marshal(u) and Marshal(u...) are the same call). *)
Theorem c16_marshal_envelope :
  forall (pol : N -> jval -> option N) (d29 : bool) (r : recv) (l : list jval),
    recv_no_maf r = true ->
    Marshal_gen pol d29 r [JList l] = Marshal_gen pol d29 r l /\
    Marshal_gen pol d29 r l = Marshal_gen pol d29 r (strip_in l).
Proof. intros pol d29 r l H. exact (conj (marshal_envelope pol d29 r l H) (marshal_strip pol d29 r H l)). Qed.
Print Assumptions c16_marshal_envelope.

(* A recognised label is honoured whatever its case: the receiver becomes a
   Stack of that kind with one element per remaining entry, in order, and
   every entry that is not a []any is stored unchanged. *)
Theorem c16_marshal_label_ci :
  forall (pol : N -> jval -> option N) (l : list jval) (k : N),
    classify (strip_in l) = LKind k ->
    exists els e, Marshal pol RZero l = Ok (RInit (cfg0 k) els, e) /\ Forall2 kept (tl (strip_in l)) els.
Proof. exact marshal_label_ci. Qed.
Print Assumptions c16_marshal_label_ci.

(* An unrecognised first string yields a BASIC Stack holding all entries. *)
Theorem c16_marshal_unknown_basic :
  forall (pol : N -> jval -> option N) (l : list jval),
    classify (strip_in l) = LUnknown ->
    exists els e, Marshal pol RZero l = Ok (RInit (cfg0 k_basic) els, e) /\ Forall2 kept (strip_in l) els.
Proof. exact marshal_unknown_basic. Qed.
Print Assumptions c16_marshal_unknown_basic.

(* Nothing to decode, a first entry that is not a string, or a bare CONDITION
   row: an error, and the uninitialised receiver is left as it was. *)
Theorem c16_marshal_rejects :
  forall (pol : N -> jval -> option N) (l : list jval),
    classify (strip_in l) = LEmpty \/ classify (strip_in l) = LNotString \/ classify (strip_in l) = LCond ->
    Marshal pol RZero l = Ok (RZero, true).
Proof. exact marshal_rejects. Qed.
Print Assumptions c16_marshal_rejects.

(* An already initialised receiver: either an error and no change at all, or
   the decoded Stack / Condition is pushed as ONE value; when the receiver
   takes pushes (not read-only, no push policy, nesting allowed, not full)
   it gains exactly that one new last element. *)
Theorem c16_marshal_into_init :
  forall (pol : N -> jval -> option N) (c : config) (els l : list jval) (r' : recv) (e : bool),
    c_maf c = None ->
    Marshal pol (RInit c els) l = Ok (r', e) ->
    ((r' = RInit c els /\ e = true) \/
     (exists x, (j_is_stack x = true \/ j_is_cond x = true) /\
                r' = RInit (fst (jpush pol c els [x])) (snd (jpush pol c els [x])))) /\
    (cpositive c c_ronly = false -> c_ppf c = None -> cpositive c c_nnest = false -> jis_full c els = false ->
     (r' = RInit c els /\ e = true) \/
     (exists x, (j_is_stack x = true \/ j_is_cond x = true) /\ r' = RInit c (els ++ [x]))).
Proof.
  intros pol c els l r' e Hm H. split.
  - exact (marshal_into_init pol c els l r' e Hm H).
  - intros H1 H2 H3 H4. exact (marshal_into_init_accepting pol c els l r' e Hm H1 H2 H3 H4 H).
Qed.
Print Assumptions c16_marshal_into_init.

(* Non-vacuity / concrete runs inside Coq: the inputs named in the property. *)
Definition nopolicy (p : N) (x : jval) : option N := None.
Definition s (x : string) : jval := jstr (B x).
Definition eqop : jval := JLeaf (GOper (OpBuiltin 1)).

Example c16_empty_envelopes :
  Marshal nopolicy RZero [] = Ok (RZero, true) /\
  Marshal nopolicy RZero [JList []] = Ok (RZero, true) /\
  Marshal nopolicy RZero [JList [JList []]] = Ok (RZero, true).
Proof. repeat split; vm_compute; reflexivity. Qed.

(* a non-operator in the operator position: the Condition is built without
   operator; a damaged row stays in the Stack as it came *)
Example c16_bad_operator :
  Marshal nopolicy RZero [s "AND"; JList [s "CONDITION"; s "k"; JLeaf (GInt 0 5); s "v"]; JList [s "condition"; s "k"]]
  = Ok (RInit (cfg0 1) [JCond Native (set_c_err (cfg0 5) (Some 1%N)) (B "k") None (s "v");
                        JList [s "condition"; s "k"]], false).
Proof. vm_compute. reflexivity. Qed.

Example c16_label_case_and_unknown :
  classify (strip_in [JList [s "nOt"; JLeaf (GInt 0 1)]]) = LKind 3 /\
  classify [s "junk"; JNil] = LUnknown /\
  (exists e, Marshal nopolicy RZero [s "junk"; JNil] = Ok (RInit (cfg0 6) [s "junk"; JNil], e)).
Proof. repeat split; try (vm_compute; reflexivity). eexists. vm_compute. reflexivity. Qed.

Example c16_into_init :
  Marshal nopolicy (RInit (cfg0 1) [s "old"]) [s "or"; JLeaf (GInt 0 1)]
  = Ok (RInit (cfg0 1) [s "old"; JStack Native (cfg0 2) [JLeaf (GInt 0 1)]], false) /\
  Marshal nopolicy (RInit (cfg0 1) [s "old"]) [s "CONDITION"; s "k"; eqop; s "v"]
  = Ok (RInit (cfg0 1) [s "old"; JCond Native (cfg0 5) (B "k") (Some (OpBuiltin 1)) (s "v")], false) /\
  Marshal nopolicy (RInit (cfg0 1) [s "old"]) [JLeaf (GInt 0 5)] = Ok (RInit (cfg0 1) [s "old"], true).
Proof. repeat split; vm_compute; reflexivity. Qed.
