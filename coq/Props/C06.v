(* C06 -- a Condition holds exactly what it accepted, and validity gates its
   rendering.  (Also the Condition part of C13.)  Property theorems only;
   proofs live in CondProofs.v / CondDefects.v.

   Reading guide.  [run render None ops] runs the model of cond.go (Cond.v) on
   the calls [ops], made one after the other on a variable that starts as the
   zero Condition{}, and observes Keyword/Operator/Expression/Valid/Err/
   String/CanNest/IsNesting/Len after every call; its outcome is [Ok], [Panic]
   (Go would panic) or [Unmodelled].  The [sp_*] functions of CondSpec.v read
   the same observables off the HISTORY (most recent call first: [rev ops]) as
   "the most recently accepted argument".  [render] is what String() of a
   nested Stack/Condition value returns: arbitrary. *)
From Stackage Require Import Base Generated StackImpl Values CondOps Cond CondSpec CondProofs CondDefects.
Open Scope Z_scope.

(* For EVERY history (any length, any mix of Cond/Init/setters/SetErr/option
   setters, accepted and rejected arguments, before or after initialisation)
   the model completes without panic and every observation after every call
   is exactly what the specification reads off the history so far. *)
Theorem c06_history_refines :
  forall (render : value -> bytes) (ops : list cop),
    exists r, run render None ops = Ok (r, spec_run render [] ops).
Proof. intros render ops. destruct (cond_refines render ops) as (r & H & _). eauto. Qed.
Print Assumptions c06_history_refines.

(* no such call panics *)
Theorem c06_cond_no_panic :
  forall (render : value -> bytes) (ops : list cop),
    exists r outs, run render None ops = Ok (r, outs).
Proof. exact cond_no_panic. Qed.
Print Assumptions c06_cond_no_panic.

(* Keyword, Operator and Expression return the most recently accepted
   argument; Err() is non-nil iff the history says so *)
Theorem c06_cond_last_accepted :
  forall (render : value -> bytes) (ops : list cop) (r : cnd) (outs : list cobs),
    run render None ops = Ok (r, outs) ->
    Keyword r = Ok (sp_kw (rev ops)) /\
    Operator r = Ok (sp_op (rev ops)) /\
    Expression r = Ok (sp_ex (rev ops)) /\
    (exists e, Err r = Ok e /\ (e = None <-> sp_err (rev ops) = false)).
Proof. exact cond_last_accepted. Qed.
Print Assumptions c06_cond_last_accepted.

(* ... where "accepted" is what the property text says: a rejected argument
   leaves the previous value in place, an accepted one is returned next *)
Theorem c06_spec_rejected_leaves :
  forall rh,
    (forall k, kw_accepted k = None -> sp_kw (OSetKeyword k :: rh) = sp_kw rh) /\
    (forall o, op_accepted o = None -> sp_op (OSetOperator o :: rh) = sp_op rh) /\
    (forall x, ex_accepted (sp_nonest rh) (sp_err rh) x = false -> sp_ex (OSetExpression x :: rh) = sp_ex rh).
Proof. intros rh. split; [|split]; intros; [apply sp_kw_rejected|apply sp_op_rejected|apply sp_ex_rejected]; assumption. Qed.
Print Assumptions c06_spec_rejected_leaves.

Theorem c06_spec_accepted_returned :
  forall rh, sp_inited rh = true ->
    (forall k s, kw_accepted k = Some s -> sp_kw (OSetKeyword k :: rh) = s) /\
    (forall o x, op_accepted o = Some x -> sp_op (OSetOperator o :: rh) = Some x) /\
    (forall x, ex_accepted (sp_nonest rh) (sp_err rh) x = true -> sp_ex (OSetExpression x :: rh) = x).
Proof.
  intros rh Hi. split; [|split]; intros;
    [apply sp_kw_accepted|apply sp_op_accepted|apply sp_ex_accepted]; assumption.
Qed.
Print Assumptions c06_spec_accepted_returned.

(* the rejected operators: nil, or empty text or context *)
Theorem c06_spec_op_rejected_iff :
  forall o, op_accepted o = None <-> o = None \/ exists t c, o = Some (OpUser t c) /\ (t = [] \/ c = []).
Proof. exact op_rejected_iff. Qed.
Print Assumptions c06_spec_op_rejected_iff.

(* the rejected expressions: nil, "", a Stack while no-nesting is set,
   anything while Err() is non-nil *)
Theorem c06_spec_ex_rejected_iff :
  forall nonest err x,
    ex_accepted nonest err x = false <->
    x = VNil \/ x = VLeaf (GStr []) \/ (nonest = true /\ is_stack x = true) \/ err = true.
Proof. exact ex_rejected_iff. Qed.
Print Assumptions c06_spec_ex_rejected_iff.

(* Cond(kw, op, ex) that is not valid records that as Err, which blocks SetExpression *)
Theorem c06_spec_cond_err_blocks :
  forall k o x y, cond_components_valid k o x = false ->
    sp_ex (OSetExpression y :: [OCond k o x]) = sp_ex [OCond k o x].
Proof. exact sp_cond_err_blocks. Qed.
Print Assumptions c06_spec_cond_err_blocks.

(* Valid() is nil exactly when the keyword is non-empty, an operator is
   present (a built-in one must be one of the six defined) and the expression
   is non-nil -- in every reachable state, initialised or not *)
Theorem c06_valid_iff :
  forall (render : value -> bytes) (ops : list cop) (r : cnd) (outs : list cobs),
    run render None ops = Ok (r, outs) ->
    exists kw op ex v,
      Keyword r = Ok kw /\ Operator r = Ok op /\ Expression r = Ok ex /\ Valid r = Ok v /\
      (v = None <-> kw <> [] /\ op_defined op = true /\ ex <> VNil).
Proof. exact valid_iff. Qed.
Print Assumptions c06_valid_iff.

(* String() is empty exactly when Valid() is not nil *)
Theorem c06_string_empty_iff :
  forall (render : value -> bytes) (ops : list cop) (r : cnd) (outs : list cobs),
    run render None ops = Ok (r, outs) ->
    exists s v, StringOf render r = Ok s /\ Valid r = Ok v /\ (s = [] <-> v <> None).
Proof. exact string_empty_iff. Qed.
Print Assumptions c06_string_empty_iff.

(* ... and otherwise is keyword, operator text and the encapsulated expression
   text, separated by single blanks (none under no-padding), parenthesised
   iff requested, the options being those the history has set *)
Theorem c06_string_format :
  forall (render : value -> bytes) (ops : list cop) (r : cnd) (outs : list cobs),
    run render None ops = Ok (r, outs) ->
    Valid r = Ok None ->
    exists kw o ex,
      Keyword r = Ok kw /\ Operator r = Ok (Some o) /\ Expression r = Ok ex /\
      StringOf render r =
      Ok (rendering (sp_nopad (rev ops)) (sp_paren (rev ops)) (sp_enc (rev ops)) kw o (expr_text render ex)).
Proof. exact string_format. Qed.
Print Assumptions c06_string_format.

Theorem c06_spec_rendering_shapes :
  forall enc kw o t,
    rendering false false enc kw o t = kw ++ B " " ++ sp_op_text o ++ B " " ++ encapsulated enc t /\
    rendering true false enc kw o t = kw ++ sp_op_text o ++ encapsulated enc t /\
    rendering false true enc kw o t =
      B "( " ++ kw ++ B " " ++ sp_op_text o ++ B " " ++ encapsulated enc t ++ B " )" /\
    rendering true true enc kw o t = B "(" ++ kw ++ sp_op_text o ++ encapsulated enc t ++ B ")".
Proof. exact rendering_shapes. Qed.
Print Assumptions c06_spec_rendering_shapes.

(* ---- Condition part of C13 ---- *)

Theorem c13_cond_set_expr_stack_refused :
  forall (render : value -> bytes) (ops : list cop) (r : cnd) (outs : list cobs) (x : value),
    run render None ops = Ok (r, outs) ->
    CanNest r = Ok false -> is_stack x = true ->
    exists r', SetExpression r x = Ok r' /\ Expression r' = Expression r.
Proof. exact set_expr_stack_refused. Qed.
Print Assumptions c13_cond_set_expr_stack_refused.

Theorem c13_cond_cannest_iff :
  forall (render : value -> bytes) (ops : list cop) (r : cnd) (outs : list cobs),
    run render None ops = Ok (r, outs) ->
    CanNest r = Ok (sp_inited (rev ops) && negb (sp_nonest (rev ops))).
Proof. exact cond_cannest_iff. Qed.
Print Assumptions c13_cond_cannest_iff.

Theorem c13_cond_cannest_accepts :
  forall (render : value -> bytes) (ops : list cop) (r : cnd) (outs : list cobs) (x : value),
    run render None ops = Ok (r, outs) ->
    CanNest r = Ok true -> Err r = Ok None -> is_stack x = true ->
    exists r', SetExpression r x = Ok r' /\ Expression r' = Ok x.
Proof. exact cond_cannest_accepts. Qed.
Print Assumptions c13_cond_cannest_accepts.

Theorem c13_cond_isnesting_iff :
  forall (render : value -> bytes) (ops : list cop) (r : cnd) (outs : list cobs),
    run render None ops = Ok (r, outs) ->
    exists ex, Expression r = Ok ex /\ IsNesting r = Ok (is_stack ex).
Proof. exact cond_isnesting_iff. Qed.
Print Assumptions c13_cond_isnesting_iff.

(* ---- why repairs D11 and D12 were needed: the same model with the repaired
   line removed does not have the property ---- *)

Theorem c06_set_operator_nil_panic_refuted :
  exists st, setOperator_d11 st None = Panic.
Proof. exact set_operator_nil_panic_refuted. Qed.
Print Assumptions c06_set_operator_nil_panic_refuted.

Theorem c06_valid_without_operator_refuted :
  exists ops r,
    steps None ops = Ok r /\ Operator r = Ok None /\
    Valid_d12 r = Ok None /\ forall render, StringOf_d12 render r = Panic.
Proof. exact valid_without_operator_refuted. Qed.
Print Assumptions c06_valid_without_operator_refuted.

(* ---- non-vacuity: a concrete history with rejected arguments after
   accepted ones, options, an error that blocks and is cleared ---- *)
Definition ex_stack : value := VStack Native (cfgS 1 0 [] [] [] false 0) [VLeaf (GStr (B "a"))].
Definition ex_ops : list cop :=
  [ OInit;
    OSetKeyword (KStr (B "k"));
    OSetOperator (Some (OpBuiltin 6));
    OSetExpression (VLeaf (GStr (B "val")));        (* valid from here *)
    OSetOperator None;                              (* rejected *)
    OSetOperator (Some (OpUser [] (B "ctx")));      (* rejected *)
    OSetExpression (VLeaf (GStr []));               (* rejected *)
    OSetKeyword KOther;                             (* rejected *)
    OSetEncap [ESlice [B "["; B "]"]];
    OSetParen None;
    OSetNoNesting (Some true);
    OSetExpression ex_stack;                        (* rejected: no-nesting *)
    OSetErr (Some 7%N);
    OSetExpression (VLeaf (GInt 0 5));              (* rejected: Err() non-nil *)
    OSetErr None;
    OSetExpression (VLeaf (GInt 0 5));              (* accepted *)
    OSetOperator (Some (OpBuiltin 9));              (* accepted, but not one of the six: invalid *)
    OCond (KStr (B "x")) None VNil ].               (* invalid constructor call: Err set *)

Definition str_of (b : cobs) : bytes := match b_str b with SFull s => s | SNonEmpty => [] end.

Example c06_concrete_run :
  match run (fun _ => []) None ex_ops with
  | Ok (_, outs) =>
      map str_of outs =
      [ []; []; []; B "k >= val"; B "k >= val"; B "k >= val"; B "k >= val"; B "k >= val";
        B "k >= [val]"; B "( k >= [val] )"; B "( k >= [val] )"; B "( k >= [val] )";
        B "( k >= [val] )"; B "( k >= [val] )"; B "( k >= [val] )"; B "( k >= [5] )"; []; [] ] /\
      map b_valid outs =
      [ false; false; false; true; true; true; true; true; true; true; true; true; true; true; true; true; false; false ] /\
      map b_errnil outs =
      [ true; true; true; true; true; true; true; true; true; true; true; true; false; false; true; true; true; false ]
  | _ => False
  end.
Proof. vm_compute. repeat split. Qed.

(* the hypotheses of the reachable-state theorems are satisfiable by that run *)
Example c06_reachable_valid_state :
  exists r outs, run (fun _ => []) None (firstn 16 ex_ops) = Ok (r, outs) /\ Valid r = Ok None.
Proof. eexists; eexists; split; vm_compute; reflexivity. Qed.
