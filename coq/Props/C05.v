(* C05 -- IsEqual accepts equal trees and rejects any difference.
   Property theorems only; definitions: EqualSpec.v (the relation [equiv],
   the domain [vsupp], the mutations [mutate1]), Equal.v (the model
   [is_equal] / [values_equal] of stack.go, cond.go, misc.go), proofs:
   EqualProofs.v.

   [repaired] / [as_is]: the model carries three switches for three places
   where the repository (with the repairs of DESIGN.md §7 already applied)
   still deviates from C05 -- R1 a nil pointer as slice/array element
   panics, R3 a struct whose only field is unexported is "equal" to any
   Stack/Condition in one direction, R4 Condition.IsEqual returns nil for a
   non-Condition argument.  The full statements hold for the repaired model;
   for the code as it is they are refuted by witnesses and proved away from
   exactly those shapes.  Equal.current_fixes names the variant that the
   correspondence check ties to the code. *)
From Stackage Require Import Base Generated StackImpl Values EqualBase EqualSpec EqualSpecCorr Equal EqualProofs.
From Stackage Require DerefTie EqualTie.
Open Scope Z_scope.

(* For EVERY receiver x (initialised Stack or Condition) and EVERY argument y
   of the supported universe -- trees of any depth and width whose leaves are
   primitives, pointers of any depth, slices, arrays, maps, structs (with
   unexported fields), functions, channels, nil pointers, NaN -- x.IsEqual(y)
   returns (no panic, never "unmodelled"), and returns nil exactly when the
   two trees are equivalent. *)
Theorem c05_is_equal_correct :
  forall x y : value,
    is_receiver x = true -> vsupp x = true -> vsupp y = true ->
    (is_equal repaired x y = Ok true <-> equiv x y) /\
    (exists b, is_equal repaired x y = Ok b).
Proof. exact is_equal_correct. Qed.
Print Assumptions c05_is_equal_correct.

(* the same one level down: valuesEqual on any two elements *)
Theorem c05_values_equal_correct :
  forall x y : value,
    vsupp x = true -> vsupp y = true ->
    (values_equal repaired (vsz x) x y = Ok true <-> equiv x y) /\
    (exists b, values_equal repaired (vsz x) x y = Ok b).
Proof. exact values_equal_correct. Qed.
Print Assumptions c05_values_equal_correct.

(* an independently rebuilt copy is accepted: [equiv] is reflexive on the
   property's domain (supported trees without NaN and without nil pointers),
   hence IsEqual of a tree with its copy is nil *)
Theorem c05_equiv_refl :
  forall x : value, refl_domain x = true -> equiv x x.
Proof. exact equiv_refl. Qed.
Print Assumptions c05_equiv_refl.

Theorem c05_rebuilt_copy_accepted :
  forall x : value, is_receiver x = true -> refl_domain x = true -> is_equal repaired x x = Ok true.
Proof. exact rebuilt_copy_accepted. Qed.
Print Assumptions c05_rebuilt_copy_accepted.

(* the verdict is the same in both directions *)
Theorem c05_equiv_sym :
  forall x y : value, vsupp x = true -> vsupp y = true -> equiv x y -> equiv y x.
Proof. exact equiv_sym. Qed.
Print Assumptions c05_equiv_sym.

Theorem c05_is_equal_symmetric :
  forall x y : value,
    is_receiver x = true -> is_receiver y = true -> vsupp x = true -> vsupp y = true ->
    is_equal repaired x y = is_equal repaired y x.
Proof. exact is_equal_symmetric. Qed.
Print Assumptions c05_is_equal_symmetric.

(* every point mutation of the property's list -- a leaf value or type (seen
   through any pointers), one slice/array element at any position, one map
   value, one map key, one exported struct field, one element more or
   fewer, a capacity, an operator, a keyword, a kind, two non-equivalent
   siblings exchanged, nil/leaf/Stack/Condition exchanged, at any depth of
   the tree -- makes the trees inequivalent ... *)
Theorem c05_point_mutation_detected :
  forall x y : value, mutate1 x y -> ~ equiv x y.
Proof. exact mutate1_not_equiv. Qed.
Print Assumptions c05_point_mutation_detected.

(* ... and therefore IsEqual reports an error, in both directions *)
Theorem c05_mutation_reported :
  forall x y : value,
    is_receiver x = true -> vsupp x = true -> vsupp y = true -> mutate1 x y ->
    is_equal repaired x y = Ok false /\ (is_receiver y = true -> is_equal repaired y x = Ok false).
Proof. exact mutation_reported. Qed.
Print Assumptions c05_mutation_reported.

(* the oracle used on the specification side of the correspondence check
   decides exactly the relation *)
Theorem c05_oracle_decides_equiv :
  forall x y : value, equivb x y = true <-> equiv x y.
Proof. exact equivb_iff. Qed.
Print Assumptions c05_oracle_decides_equiv.

(* ---- the code as it is ([as_is]) ---- *)
(* FULL STATEMENT (false of the code as it is):
     forall x y, is_receiver x = true -> vsupp x = true -> vsupp y = true ->
       (is_equal as_is x y = Ok true <-> equiv x y) /\ (exists b, is_equal as_is x y = Ok b).
   Refuted by three witnesses: *)
(* R1: Basic().Push([]*int{nil}).IsEqual(Basic().Push([]*int{nil})) panics *)
Theorem c05_as_is_nil_elem_panic_refuted :
  exists x y : value, is_receiver x = true /\ vsupp x = true /\ vsupp y = true /\ is_equal as_is x y = Panic.
Proof. exact as_is_nil_elem_panic_refuted. Qed.
Print Assumptions c05_as_is_nil_elem_panic_refuted.

(* R3: Basic().Push(struct{a int}{1}).IsEqual(Basic().Push(Basic())) is nil, the reverse an error *)
Theorem c05_as_is_private_struct_refuted :
  exists x y : value, is_receiver x = true /\ is_receiver y = true /\ vsupp x = true /\ vsupp y = true /\
                      ~ equiv x y /\ is_equal as_is x y = Ok true /\ is_equal as_is y x = Ok false.
Proof. exact as_is_private_struct_refuted. Qed.
Print Assumptions c05_as_is_private_struct_refuted.

(* R4: Cond("k",Eq,"v").IsEqual(And()) is nil, the reverse an error *)
Theorem c05_as_is_cond_argument_refuted :
  exists x y : value, is_receiver x = true /\ is_receiver y = true /\ vsupp x = true /\ vsupp y = true /\
                      ~ equiv x y /\ is_equal as_is x y = Ok true /\ is_equal as_is y x = Ok false.
Proof. exact as_is_cond_argument_refuted. Qed.
Print Assumptions c05_as_is_cond_argument_refuted.

(* the strongest true statement about the code as it is: the full statement
   away from exactly these shapes (no nil pointer as slice/array element, no
   struct whose only field is unexported, a Condition receiver is asked about
   a Condition) *)
Theorem c05_is_equal_as_is_partial :
  forall x y : value,
    is_receiver x = true -> vsupp x = true -> vsupp y = true ->
    no_nil_elem x = true -> no_nil_elem y = true ->
    no_lone_private x = true -> no_lone_private y = true ->
    (conv_cond x = false \/ conv_cond y = true) ->
    (is_equal as_is x y = Ok true <-> equiv x y) /\
    (exists b, is_equal as_is x y = Ok b).
Proof. exact is_equal_as_is_partial. Qed.
Print Assumptions c05_is_equal_as_is_partial.

(* ---- non-vacuity ---- *)
(* And().Push("x", &[]int{1,2,3} (cap 5), Cond("k", >=, map[string][]int{"a":{1},"b":{}}),
              Or(cap 4) as *alias .Push(struct{A int; b string}{7,"p"}, nil, [2]string{"u","v"}, func(int) int #0)) *)
Definition ex_tree (mid : Z) (priv : bytes) (fn : N) : value :=
  VStack Native (cfgS 1 0 [] [] [] false 0)
    [ VLeaf (GStr (B "x"));
      VLeaf (GPtr (GSlice 100 5 [GInt 0 1; GInt 0 mid; GInt 0 3]));
      VCond Native (cfgS 5 1 [] [] [] false 0) (B "k") (Some (OpBuiltin 6))
            (VLeaf (GMap 142 [(GStr (B "a"), GSlice 100 1 [GInt 0 1]); (GStr (B "b"), GSlice 100 0 [])]));
      VStack AliasPtr (cfgS 2 0 [] [] [] false 5)
        [ VLeaf (GStruct 161 [(B "A", true, GInt 0 7); (B "b", false, GStr priv)]);
          VNil;
          VLeaf (GArray 121 [GStr (B "u"); GStr (B "v")]);
          VLeaf (GFunc 180 fn) ] ].

Example c05_hypotheses_satisfiable :
  is_receiver (ex_tree 2 (B "p") 0) = true /\ vsupp (ex_tree 2 (B "p") 0) = true /\ refl_domain (ex_tree 2 (B "p") 0) = true /\
  no_nil_elem (ex_tree 2 (B "p") 0) = true /\ no_lone_private (ex_tree 2 (B "p") 0) = true.
Proof. repeat split; vm_compute; reflexivity. Qed.

(* concrete runs of the model, both variants: the copy is accepted; a
   different unexported field and another function of the same type are not
   differences; the middle slice element is *)
Example c05_concrete_runs :
  is_equal repaired (ex_tree 2 (B "p") 0) (ex_tree 2 (B "p") 0) = Ok true /\
  is_equal as_is (ex_tree 2 (B "p") 0) (ex_tree 2 (B "q") 1) = Ok true /\
  is_equal repaired (ex_tree 2 (B "p") 0) (ex_tree 9 (B "p") 0) = Ok false /\
  is_equal as_is (ex_tree 9 (B "p") 0) (ex_tree 2 (B "p") 0) = Ok false.
Proof. repeat split; vm_compute; reflexivity. Qed.

(* the middle-element change is an instance of [mutate1] (inside element 1 of
   the Stack, behind a pointer, element 1 of the slice) *)
Example c05_mutation_instance : mutate1 (ex_tree 2 (B "p") 0) (ex_tree 9 (B "p") 0).
Proof.
  unfold ex_tree.
  apply (M_elem _ _ [VLeaf (GStr (B "x"))] _ _ _ _ _ _).
  apply M_leaf. apply GM_ptr_l. apply GM_ptr_r.
  apply (GM_seq_elem _ _ 5 [GInt 0 1] (GInt 0 2) (GInt 0 9) [GInt 0 3] 5 [GInt 0 3]); try reflexivity.
  apply GM_prim; reflexivity.
Qed.

(* "a pointer to one at any depth": the model's pointer chase (gunder) is the
   loop of derefPtr in misc.go, iteration by iteration (Generated.g_derefPtr_body
   is regenerated from /repo), and reaches the value behind n pointers for every n *)
Theorem c05_pointer_chase_is_the_source_loop :
  (forall g : gval,
     gunder g =
     match Generated.g_derefPtr_body (DerefTie.is_ptr g) with
     | TCut 0 _ _ => match g with GPtr x => gunder x | _ => None end
     | _ => Some g
     end) /\
  (forall (n : nat) (g : gval), DerefTie.is_ptr g = false -> gunder (DerefTie.ptrs n g) = Some g).
Proof. split; [exact DerefTie.gunder_iteration|exact DerefTie.gunder_any_depth]. Qed.
Print Assumptions c05_pointer_chase_is_the_source_loop.

(* "including any single element of a ... map leaf": the model's key loop is
   the loop of mapsEqual (Generated.g_mapsEqual_body, regenerated from misc.go:
   a missing key or a differing value ends the comparison at once, only an
   equal value lets it go on), so a differing entry decides wherever it stands
   among the keys *)
Theorem c05_map_loop_is_the_source_loop :
  forall (rec : value -> value -> res bool),
  (forall k v t ky,
     map_loop rec ((k, v) :: t) ky =
     match glookup k ky with
     | None => match Generated.g_mapsEqual_body false false with TCut 0 _ _ => Ok false | _ => Unmodelled end
     | Some v' =>
         let r := rec (VLeaf v) (VLeaf v') in
         match Generated.g_mapsEqual_body true (negb (EqualTie.ok_true r)) with
         | TCut 1 _ _ => r
         | TRet _ _ => map_loop rec t ky
         | _ => Unmodelled
         end
     end) /\
  (forall pre k v v' t ky,
     (forall p q, In (p, q) pre -> exists q', glookup p ky = Some q' /\ rec (VLeaf q) (VLeaf q') = Ok true) ->
     glookup k ky = Some v' -> rec (VLeaf v) (VLeaf v') = Ok false ->
     map_loop rec (pre ++ (k, v) :: t) ky = Ok false).
Proof.
  intros rec. split; [exact (EqualTie.map_loop_iteration rec)|exact (EqualTie.map_loop_first_difference rec)].
Qed.
Print Assumptions c05_map_loop_is_the_source_loop.
