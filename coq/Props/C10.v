(* C10 -- with mutual exclusion enabled, concurrent mutators act atomically.
   Property theorems only; the model is Conc.v, the proofs ConcProofs.v.
   PARTIAL: atomicity / linearizability / no panic / no deadlock are proved at
   lock-acquisition granularity; freedom from data races is REFUTED at
   footprint level (known finding C10/unlocked-wrapper-reads); the Go memory
   model is outside the model. *)
From Stackage Require Import Base Generated StackImpl StackSpec StackRefine Conc ConcProofs.
From Stackage Require Import Guard GuardLock GeneratedIR GuardProps GuardLockProps.
Open Scope Z_scope.

(* For ANY number of goroutines, ANY programs built from Push, Pop, Insert,
   Remove, Replace, Swap, Reverse, Reset (any Go-int indices, any values) and
   ANY schedule of their actions: no call panics; the shared slice keeps the
   shape "configuration slot followed by elements" and respects the capacity;
   the calls completed so far - in the order in which they took effect - are a
   run of the sequential list model that returns exactly the values the
   goroutines received and ends in exactly the shared content; and the
   configuration record is never handed out as an element. *)
Theorem c10_linearizable :
  forall (V : Type) (nilv : V) (isnil isstack : V -> bool) (pol : N -> V -> option N),
    isnil nilv = true -> (forall v, isnil v = true -> v = nilv) ->
    forall (c0 : scfg) (els0 : list V) (progs : list (list (mop V))) (sched : list nat) (M : Z),
      cap_ok c0 (zlen els0) -> M < Bnd ->
      zlen els0 + tgrow V (g_thr V (ginit V (mk V c0 els0) progs)) <= M ->
      Forall (fun p => Forall (fun o => op_i64 V (to_op V o)) p) progs ->
      exists g c els,
        crun V nilv isnil isstack pol (ginit V (mk V c0 els0) progs) sched = Some g /\
        g_raw V g = mk V c els /\ cap_ok c (zlen els) /\ k_opt c = k_opt c0 /\
        run V nilv isnil isstack pol (mk V c0 els0) (map (fun e => to_op V (snd (fst e))) (rev (g_log V g)))
          = Ok (g_raw V g, map snd (rev (g_log V g))) /\
        Forall (fun e => abs_out V (snd e) <> None) (g_log V g).
Proof. exact conc_linearizable. Qed.
Print Assumptions c10_linearizable.

(* that order is consistent with each goroutine's own order, and each
   goroutine's recorded results are the outputs of its own calls in it *)
Theorem c10_program_order :
  forall (V : Type) (nilv : V) (isnil isstack : V -> bool) (pol : N -> V -> option N)
         (r : raw V) (progs : list (list (mop V))) (sched : list nat) (g' : gst V),
    crun V nilv isnil isstack pol (ginit V r progs) sched = Some g' ->
    forall tid t, nth_error (g_thr V g') tid = Some t ->
      exists p0, nth_error progs tid = Some p0 /\
        map (fun e => snd (fst e)) (proj V tid (rev (g_log V g'))) ++ t_todo V t = p0 /\
        map snd (proj V tid (rev (g_log V g'))) = rev (t_done V t).
Proof.
  intros V nilv isnil isstack pol r progs sched g' R.
  exact (conc_program_order V nilv isnil isstack pol progs sched _ g' (oinv_init V r progs) R).
Qed.
Print Assumptions c10_program_order.

(* a goroutine with work left can always perform its next action (one lock,
   never requested while held): no deadlock at this granularity *)
Theorem c10_no_deadlock :
  forall (V : Type) (nilv : V) (isnil isstack : V -> bool) (pol : N -> V -> option N),
    isnil nilv = true -> (forall v, isnil v = true -> v = nilv) ->
    forall (r0 : raw V) (c0 : scfg) (M : Z) (g : gst V) (tid : nat) (t : thr V),
      M < Bnd -> ginv V nilv isnil isstack pol r0 c0 M g ->
      nth_error (g_thr V g) tid = Some t -> t_todo V t <> [] ->
      exists g', cstep V nilv isnil isstack pol g tid = CNext g'.
Proof. exact conc_no_deadlock. Qed.
Print Assumptions c10_no_deadlock.

(* the race-freedom sentence is FALSE of the code: the public wrappers read
   the slice header and the option word before the lock is requested, so a
   goroutine in its critical section (writing the header under the lock) and
   one in the unlocked part of a wrapper (reading it without the lock) have
   conflicting footprints.  Known finding C10/unlocked-wrapper-reads. *)
Theorem c10_wrapper_read_race_refuted :
  exists (g : gst Z) (a b : nat),
    crun Z 0 (fun v => v =? 0) (fun _ => false) (fun _ _ => None)
         (ginit Z (mk Z {| k_typ := 1; k_cap := 0; k_opt := 0; k_ord := false; k_err := None; k_ppf := None |} [1])
                [[MPush [2]]; [MPop]]) [0%nat] = Some g /\
    racing Z g a b = true.
Proof. eexists _, 0%nat, 1%nat. split; vm_compute; reflexivity. Qed.
Print Assumptions c10_wrapper_read_race_refuted.

Example c10_nonvacuous :
  let c := {| k_typ := 1; k_cap := 3; k_opt := 0; k_ord := true; k_err := None; k_ppf := None |} in
  let progs := [[MPop; MPush [5; 6]]; [MPop]; [MInsert 7 0; MReset]] in
  cap_ok c (zlen [1]) /\ zlen [1] + tgrow Z (g_thr Z (ginit Z (mk Z c [1]) progs)) <= 10 /\
  Forall (fun p => Forall (fun o => op_i64 Z (to_op Z o)) p) progs /\
  option_map (fun g => (g_raw Z g, all_done Z g))
    (crun Z 0 (fun v => v =? 0) (fun _ => false) (fun _ _ => None) (ginit Z (mk Z c [1]) progs) [0;1;0;1;2;2;0;0;2;2]%nat)
  = Some (mk Z c [], true).
Proof.
  cbv zeta. split; [right; vm_compute; repeat split; congruence|].
  split; [vm_compute; congruence|].
  split; [repeat constructor; unfold in_i64, two63; lia|]. vm_compute. reflexivity.
Qed.

(* "All writes to the shared content ... happen while the stack's lock is
   held": over the statement-level IR regenerated from /repo (translator T2),
   for each of the eight mutators and EVERY path through it and through every
   package function it calls on the same stack: each store into the slice
   header or an element slot happens between a call of stack.lock and the
   matching stack.unlock, the lock is never requested while held (no
   self-deadlock), never released while free, and the call returns with the
   lock released on every exit (no leaked lock).  Paths, loop iteration counts
   and undecided conditions are all quantified by the IR semantics Guard.exec. *)
Theorem c10_content_writes_under_lock :
  forall e, In e ir_entries -> is_lock_mutator e = true ->
    exists body, Guard.lookup ir_table (en_fid e) = Some body /\
      forall tr o, exec (Guard.lookup ir_table) env_init false body tr o ->
        disciplined false tr /\ held_after false tr = false.
Proof. apply lockset_static. vm_compute. reflexivity. Qed.
Print Assumptions c10_content_writes_under_lock.

Theorem c10_all_eight_mutators_are_checked : lock_mutators_present = true.
Proof. vm_compute. reflexivity. Qed.
Print Assumptions c10_all_eight_mutators_are_checked.

(* the discipline is not special to the eight: every exported method of
   Stack and Condition keeps it on every path, except Stack.Defrag (its worker
   truncates the slice after implode has released the lock; Defrag is not one
   of the calls this property names) *)
Theorem c10_every_method_keeps_lock_discipline :
  forall e, In e ir_entries -> is_inst_class e = true -> named lock_exceptions e = false ->
    exists body, Guard.lookup ir_table (en_fid e) = Some body /\
      forall tr o, exec (Guard.lookup ir_table) env_init false body tr o ->
        disciplined false tr /\ held_after false tr = false.
Proof. apply lockset_all_static. vm_compute. reflexivity. Qed.
Print Assumptions c10_every_method_keeps_lock_discipline.

(* "... and to the lock bookkeeping": the only functions storing into the
   bookkeeping field are stack.lock and stack.unlock; inside stack.lock every
   such store comes after Mutex.Lock, inside stack.unlock before Mutex.Unlock *)
Theorem c10_bookkeeping_written_under_mutex :
  ldr_only_in_lock_unlock = true /\
  exists fl fu bl bu,
    fid_of (B "*stack.lock") = Some fl /\ fid_of (B "*stack.unlock") = Some fu /\
    Guard.lookup ir_table fl = Some bl /\ Guard.lookup ir_table fu = Some bu /\
    (forall top tr o, exec (Guard.lookup ir_table) env_init top bl tr o -> ldr_ok is_mlock true false tr) /\
    (forall top tr o, exec (Guard.lookup ir_table) env_init top bu tr o -> ldr_ok is_munlock false false tr).
Proof. split; [vm_compute; reflexivity|]. apply ldr_static. vm_compute. reflexivity. Qed.
Print Assumptions c10_bookkeeping_written_under_mutex.

(* the discipline predicate is not trivially true: a store outside the lock,
   a re-lock and a leaked lock are each rejected; the shape of a real mutator
   is accepted *)
Example c10_discipline_nonvacuous :
  ~ disciplined false [(false, EWrite LHdr)] /\
  ~ disciplined false [(false, ELock); (false, ELock)] /\
  held_after false [(false, ELock); (false, EWrite LSlot)] = true /\
  disciplined false [(false, EDeref); (false, ELock); (false, EWrite LSlot); (false, EWrite LHdr); (false, EUnlock)] /\
  ~ ldr_ok is_mlock true false [(false, EWrite LCfgLdr); (false, EMLock)] /\
  ldr_ok is_mlock true false [(false, EMLock); (false, EWrite LCfgLdr)] /\
  ~ ldr_ok is_munlock false false [(false, EMUnlock); (false, EWrite LCfgLdr)].
Proof.
  cbn. repeat split; try discriminate; try tauto; intros H;
    repeat match goal with H : _ /\ _ |- _ => destruct H end;
    repeat match goal with H : ?a = ?a -> _ |- _ => specialize (H eq_refl) end; try discriminate.
Qed.
