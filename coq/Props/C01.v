(* C01 -- Stack content follows ordered-list semantics under any operation history *)
From Stackage Require Import Base Generated StackImpl StackSpec.
