(* C01 -- Stack content follows ordered-list semantics under any operation
   history.  Property theorems only; proofs live in StackRefine.v. *)
From Stackage Require Import Base Generated StackImpl StackSpec StackSpecLemmas StackRefine.
From Stackage Require Import ListTie PushTie WrapTie.
Open Scope Z_scope.

(* For every element type with a unique nil value, every push policy table,
   every configuration (kind, LIFO/FIFO, capacity, option bits), every
   well-formed content and EVERY finite history of the 24 operations whose
   index arguments are Go ints: the raw-slot model of stack.go never panics,
   never leaves the shape "configuration slot followed by element slots",
   respects the capacity, ends in exactly the state the ordered-list
   specification ends in, and every call returns exactly what the
   specification returns (the configuration record is never handed out:
   abs_out maps such an output to None). *)
Theorem c01_history_refines :
  forall (V : Type) (nilv : V) (isnil isstack : V -> bool) (pol : N -> V -> option N),
    isnil nilv = true -> (forall v, isnil v = true -> v = nilv) ->
    forall (ops : list (op V)) (m : Z) (c : scfg) (els : list V),
      cap_ok c (zlen els) -> zlen els <= m -> m + growth V ops < Bnd -> Forall (op_i64 V) ops ->
      exists c' els' outs souts,
        run V nilv isnil isstack pol (mk V c els) ops = Ok (mk V c' els', outs) /\
        cap_ok c' (zlen els') /\ zlen els' <= m + growth V ops /\
        srun V nilv isnil isstack pol (abs V c els) (map (to_sop V) ops) = (abs V c' els', souts) /\
        map (abs_out V) outs = map Some souts.
Proof. exact run_refines. Qed.
Print Assumptions c01_history_refines.

(* the same, started from any constructor call *)
Theorem c01_from_constructor :
  forall (V : Type) (nilv : V) (isnil isstack : V -> bool) (pol : N -> V -> option N),
    isnil nilv = true -> (forall v, isnil v = true -> v = nilv) ->
    forall (t : N) (fifo : bool) (cp : option Z) (ops : list (op V)),
      match cp with Some k => k < Bnd - 1 | None => True end ->
      growth V ops < Bnd -> Forall (op_i64 V) ops ->
      exists c c' els' outs souts,
        new_stack V t fifo cp = mk V c [] /\
        run V nilv isnil isstack pol (new_stack V t fifo cp) ops = Ok (mk V c' els', outs) /\
        srun V nilv isnil isstack pol (abs V c []) (map (to_sop V) ops) = (abs V c' els', souts) /\
        map (abs_out V) outs = map Some souts.
Proof.
  intros V nilv isnil isstack pol H1 H2 t fifo cp ops Hcp Hg Hi.
  destruct (new_stack_wf V nilv isnil H1 t fifo cp Hcp) as (c & E & Hc & _).
  destruct (run_refines V nilv isnil isstack pol H1 H2 ops 0 c [] Hc ltac:(reflexivity) ltac:(lia) Hi)
    as (c' & els' & outs & souts & R & _ & _ & S & A).
  exists c, c', els', outs, souts. rewrite E. auto.
Qed.
Print Assumptions c01_from_constructor.

(* the specification is the natural object *)
Theorem c01_spec_reverse_involutive :
  forall V nilv isnil isstack pol (s : sstate V),
    s_elems (fst (sstep V nilv isnil isstack pol (fst (sstep V nilv isnil isstack pol s SReverse)) SReverse)) = s_elems s.
Proof. exact reverse_involutive. Qed.
Print Assumptions c01_spec_reverse_involutive.

Theorem c01_spec_pop_after_push_lifo :
  forall V nilv isnil isstack pol c els x,
    has (a_opts c) f_ronly = false -> a_fifo c = false -> a_ppf c = None ->
    has (a_opts c) f_nnest = false -> a_cap c = None ->
    sstep V nilv isnil isstack pol (fst (sstep V nilv isnil isstack pol {| s_cfg := c; s_elems := els |} (SPush [x]))) SPop
    = ({| s_cfg := c; s_elems := els |}, XVal x (negb (isnil x))).
Proof. exact pop_after_push_lifo. Qed.
Print Assumptions c01_spec_pop_after_push_lifo.

Theorem c01_spec_pop_fifo_oldest :
  forall V nilv isnil isstack pol c v t,
    has (a_opts c) f_ronly = false -> a_fifo c = true ->
    sstep V nilv isnil isstack pol {| s_cfg := c; s_elems := v :: t |} SPop
    = ({| s_cfg := c; s_elems := t |}, XVal v (negb (isnil v))).
Proof. exact pop_fifo_oldest. Qed.
Print Assumptions c01_spec_pop_fifo_oldest.

(* Non-vacuity: a 5-element FIFO stack with a nil element and capacity 6
   meets the hypotheses, and a concrete interleaved history evaluates (inside
   Coq) to the same outputs in model and specification. *)
Definition ex_cfg : scfg := {| k_typ := 1; k_cap := 7; k_opt := 16; k_ord := true; k_err := None; k_ppf := None |}.
Definition ex_els : list (option Z) := [Some 1; None; Some 3; Some 4; Some 5].
Definition ex_isnil (v : option Z) := match v with None => true | _ => false end.
Definition ex_ops : list (op (option Z)) :=
  [OPush [Some 6; Some 7]; OPop; OInsert (Some 9) 1; ORemove (-1); OSwap 0 2; OReverse; OIndex (-2); OFront; OReset; OLen].


(* Parts of the list model that are regenerated from /repo on every run, and
   the proofs that the model uses them as the source does: Reset's guard,
   Remove's success test, and one iteration of each push loop (index, insert,
   replace, swap, pop are regenerated fragments the model calls directly). *)
Theorem c01_model_is_tied_to_the_source :
  (forall (V : Type) (r : raw V),
     reset V r = match g_reset (zlen r) with TCut 0 _ _ => firstn 1 r | _ => r end) /\
  (forall (V : Type) (nilv : V) (isnil : V -> bool) (r : raw V) (idx : Z),
     in_i64 (ulen V r - 1) ->
     remove V nilv isnil r idx =
     do c <- config V r;
     do (s, index, found) <- index V nilv isnil r idx;
     let r' := SCfg c :: keep_except V index 1 (tl r) in
     match g_remove found (slot_notnil V isnil s) (ulen V r) (ulen V r') 0 with
     | TRet _ [looped; ok] => if looped then Ok (r', s, ok) else Ok (r, s, false)
     | _ => Unmodelled
     end) /\
  (forall (V : Type) (isstack : V -> bool) (c : scfg) (r : raw V) (x : V) (xs : list V),
     generic_append V isstack c r (x :: xs) =
     match g_genericAppend_body (g_canPushNester (positive c c_nnest) (isstack x)) (g_isFull (zlen r) (k_cap c)) with
     | TCut 0 _ _ => generic_append V isstack c (r ++ [SVal x]) xs
     | _ => generic_append V isstack c r xs
     end).
Proof.
  split; [exact reset_is_source|]. split; [exact remove_is_source|exact generic_append_iteration].
Qed.
Print Assumptions c01_model_is_tied_to_the_source.


(* The eight public wrappers of the model are the wrappers of the source:
   which test guards which call (handle initialised / stack not empty, value
   not nil, not read-only) is regenerated from /repo, the call made once the
   guards are passed is pinned as text. *)
Theorem c01_wrappers_are_the_source_wrappers :
  (forall (V : Type) (nilv : V) (isnil isstack : V -> bool) (pol : N -> V -> option N) (r : raw V) (c : scfg),
     config V r = Ok c ->
     let ro := positive c c_ronly in
     (forall vs, step V nilv isnil isstack pol r (OPush vs) =
        match g_wrap_Push true ro with
        | TCut 0 _ _ => do (r', log) <- push V isstack pol r vs; Ok (r', RLog log)
        | _ => Ok (r, RLog [])
        end) /\
     step V nilv isnil isstack pol r OPop =
       match g_wrap_Pop (IsEmpty V r) ro with
       | TCut 0 _ _ => do (r', s, ok) <- pop V nilv isnil r; Ok (r', RVal s ok)
       | _ => Ok (r, RVal (SVal nilv) false)
       end /\
     (forall v i, step V nilv isnil isstack pol r (OInsert v i) =
        match g_wrap_Insert true (negb (isnil v)) ro i with
        | TCut 0 _ _ => do (r', ok) <- insert V r v i; Ok (r', RBool ok)
        | _ => Ok (r, RBool false)
        end) /\
     (forall i, step V nilv isnil isstack pol r (ORemove i) =
        match g_wrap_Remove true ro i with
        | TCut 0 _ _ => do (r', s, ok) <- remove V nilv isnil r i; Ok (r', RVal s ok)
        | _ => Ok (r, RVal (SVal nilv) false)
        end) /\
     (forall v i, step V nilv isnil isstack pol r (OReplace v i) =
        match g_wrap_Replace true (negb (isnil v)) ro i with
        | TCut 0 _ _ => do (r', ok) <- replace V r v i; Ok (r', RBool ok)
        | _ => Ok (r, RBool false)
        end) /\
     (forall i j, step V nilv isnil isstack pol r (OSwap i j) =
        match g_wrap_Swap true ro i j with
        | TCut 0 _ _ => do r' <- swap V r i j; Ok (r', RUnit)
        | _ => Ok (r, RUnit)
        end) /\
     step V nilv isnil isstack pol r OReverse =
       match g_wrap_Reverse (IsEmpty V r) ro with
       | TCut 0 _ _ => Ok (reverse V r, RUnit)
       | _ => Ok (r, RUnit)
       end /\
     step V nilv isnil isstack pol r OReset =
       match g_wrap_Reset true ro with
       | TCut 0 _ _ => Ok (reset V r, RUnit)
       | _ => Ok (r, RUnit)
       end) /\
  g_wrap_Push_tails = ["r.stack.push(y...)"; "return r"]%string /\
  g_wrap_Pop_tails = ["popped, ok = r.stack.pop()"]%string /\
  g_wrap_Insert_tails = ["ok = r.stack.insert(x, left)"]%string /\
  g_wrap_Remove_tails = ["slice, ok = r.stack.remove(idx)"]%string /\
  g_wrap_Replace_tails = ["r.stack.lock(); ok = r.stack.replace(x, idx); r.stack.unlock()"]%string /\
  g_wrap_Swap_tails = ["r.stack.swap(i, j)"]%string /\
  g_wrap_Reverse_tails = ["r.stack.reverse()"; "return r"]%string /\
  g_wrap_Reset_tails = ["r.stack.reset()"]%string.
Proof. split; [exact step_wrappers_are_source|exact wrapper_calls]. Qed.
Print Assumptions c01_wrappers_are_the_source_wrappers.

Example c01_hypotheses_satisfiable :
  cap_ok ex_cfg (zlen ex_els) /\ zlen ex_els <= 5 /\ 5 + growth _ ex_ops < Bnd /\ Forall (op_i64 _) ex_ops /\
  ex_isnil None = true /\ (forall v, ex_isnil v = true -> v = None).
Proof.
  split; [right; vm_compute; repeat split; congruence|].
  split; [vm_compute; congruence|].
  split; [vm_compute; reflexivity|].
  split; [repeat constructor; unfold in_i64, two63; lia|].
  split; [reflexivity|].
  intros [z|]; [discriminate|reflexivity].
Qed.

Definition res_outs {T U} (r : res (T * U)) : option U := match r with Ok (_, o) => Some o | _ => None end.

Example c01_concrete_run :
  option_map (map (abs_out _))
    (res_outs (run _ None ex_isnil (fun _ => false) (fun _ _ => None) (mk _ ex_cfg ex_els) ex_ops)) =
  Some (map Some (snd (srun _ None ex_isnil (fun _ => false) (fun _ _ => None) (abs _ ex_cfg ex_els) (map (to_sop _) ex_ops)))).
Proof. vm_compute. reflexivity. Qed.
