(* C01 -- Stack content follows ordered-list semantics under any operation
   history.  Property theorems only; proofs live in StackRefine.v. *)
From Stackage Require Import Base Generated StackImpl StackSpec StackSpecLemmas StackRefine.
Open Scope Z_scope.

(* For every element type with a unique nil value, every push policy table,
   every configuration (kind, LIFO/FIFO, capacity, option bits), every
   well-formed content and EVERY finite history of the 24 operations whose
   index arguments are Go ints: the raw-slot model of stack.go never panics,
   never leaves the shape "configuration slot followed by element slots",
   respects the capacity, ends in exactly the state the ordered-list
   specification ends in, and every call returns exactly what the
   specification returns (the configuration record is never handed out:
   abs_out maps such an output to None). *)
Theorem c01_history_refines :
  forall (V : Type) (nilv : V) (isnil isstack : V -> bool) (pol : N -> V -> option N),
    isnil nilv = true -> (forall v, isnil v = true -> v = nilv) ->
    forall (ops : list (op V)) (m : Z) (c : scfg) (els : list V),
      cap_ok c (zlen els) -> zlen els <= m -> m + growth V ops < Bnd -> Forall (op_i64 V) ops ->
      exists c' els' outs souts,
        run V nilv isnil isstack pol (mk V c els) ops = Ok (mk V c' els', outs) /\
        cap_ok c' (zlen els') /\ zlen els' <= m + growth V ops /\
        srun V nilv isnil isstack pol (abs V c els) (map (to_sop V) ops) = (abs V c' els', souts) /\
        map (abs_out V) outs = map Some souts.
Proof. exact run_refines. Qed.
Print Assumptions c01_history_refines.

(* the same, started from any constructor call *)
Theorem c01_from_constructor :
  forall (V : Type) (nilv : V) (isnil isstack : V -> bool) (pol : N -> V -> option N),
    isnil nilv = true -> (forall v, isnil v = true -> v = nilv) ->
    forall (t : N) (fifo : bool) (cp : option Z) (ops : list (op V)),
      match cp with Some k => k < Bnd - 1 | None => True end ->
      growth V ops < Bnd -> Forall (op_i64 V) ops ->
      exists c c' els' outs souts,
        new_stack V t fifo cp = mk V c [] /\
        run V nilv isnil isstack pol (new_stack V t fifo cp) ops = Ok (mk V c' els', outs) /\
        srun V nilv isnil isstack pol (abs V c []) (map (to_sop V) ops) = (abs V c' els', souts) /\
        map (abs_out V) outs = map Some souts.
Proof.
  intros V nilv isnil isstack pol H1 H2 t fifo cp ops Hcp Hg Hi.
  destruct (new_stack_wf V nilv isnil H1 t fifo cp Hcp) as (c & E & Hc & _).
  destruct (run_refines V nilv isnil isstack pol H1 H2 ops 0 c [] Hc ltac:(reflexivity) ltac:(lia) Hi)
    as (c' & els' & outs & souts & R & _ & _ & S & A).
  exists c, c', els', outs, souts. rewrite E. auto.
Qed.
Print Assumptions c01_from_constructor.

(* the specification is the natural object *)
Theorem c01_spec_reverse_involutive :
  forall V nilv isnil isstack pol (s : sstate V),
    s_elems (fst (sstep V nilv isnil isstack pol (fst (sstep V nilv isnil isstack pol s SReverse)) SReverse)) = s_elems s.
Proof. exact reverse_involutive. Qed.
Print Assumptions c01_spec_reverse_involutive.

Theorem c01_spec_pop_after_push_lifo :
  forall V nilv isnil isstack pol c els x,
    has (a_opts c) f_ronly = false -> a_fifo c = false -> a_ppf c = None ->
    has (a_opts c) f_nnest = false -> a_cap c = None ->
    sstep V nilv isnil isstack pol (fst (sstep V nilv isnil isstack pol {| s_cfg := c; s_elems := els |} (SPush [x]))) SPop
    = ({| s_cfg := c; s_elems := els |}, XVal x (negb (isnil x))).
Proof. exact pop_after_push_lifo. Qed.
Print Assumptions c01_spec_pop_after_push_lifo.

Theorem c01_spec_pop_fifo_oldest :
  forall V nilv isnil isstack pol c v t,
    has (a_opts c) f_ronly = false -> a_fifo c = true ->
    sstep V nilv isnil isstack pol {| s_cfg := c; s_elems := v :: t |} SPop
    = ({| s_cfg := c; s_elems := t |}, XVal v (negb (isnil v))).
Proof. exact pop_fifo_oldest. Qed.
Print Assumptions c01_spec_pop_fifo_oldest.

(* Non-vacuity: a 5-element FIFO stack with a nil element and capacity 6
   meets the hypotheses, and a concrete interleaved history evaluates (inside
   Coq) to the same outputs in model and specification. *)
Definition ex_cfg : scfg := {| k_typ := 1; k_cap := 7; k_opt := 16; k_ord := true; k_err := None; k_ppf := None |}.
Definition ex_els : list (option Z) := [Some 1; None; Some 3; Some 4; Some 5].
Definition ex_isnil (v : option Z) := match v with None => true | _ => false end.
Definition ex_ops : list (op (option Z)) :=
  [OPush [Some 6; Some 7]; OPop; OInsert (Some 9) 1; ORemove (-1); OSwap 0 2; OReverse; OIndex (-2); OFront; OReset; OLen].

Example c01_hypotheses_satisfiable :
  cap_ok ex_cfg (zlen ex_els) /\ zlen ex_els <= 5 /\ 5 + growth _ ex_ops < Bnd /\ Forall (op_i64 _) ex_ops /\
  ex_isnil None = true /\ (forall v, ex_isnil v = true -> v = None).
Proof.
  split; [right; vm_compute; repeat split; congruence|].
  split; [vm_compute; congruence|].
  split; [vm_compute; reflexivity|].
  split; [repeat constructor; unfold in_i64, two63; lia|].
  split; [reflexivity|].
  intros [z|]; [discriminate|reflexivity].
Qed.

Definition res_outs {T U} (r : res (T * U)) : option U := match r with Ok (_, o) => Some o | _ => None end.

Example c01_concrete_run :
  option_map (map (abs_out _))
    (res_outs (run _ None ex_isnil (fun _ => false) (fun _ _ => None) (mk _ ex_cfg ex_els) ex_ops)) =
  Some (map Some (snd (srun _ None ex_isnil (fun _ => false) (fun _ _ => None) (abs _ ex_cfg ex_els) (map (to_sop _) ex_ops)))).
Proof. vm_compute. reflexivity. Qed.
