(* C14 -- user-supplied policies decide, exactly as documented (push policy
   part: list core).  Property theorems only. *)
From Stackage Require Import Base Generated StackImpl StackSpec StackSpecLemmas StackRefine StackCorollaries.
From Stackage Require Import PushTie.
Open Scope Z_scope.

(* For EVERY policy (an arbitrary function pol), every batch and every
   capacity: the values the policy is consulted on are a prefix of the batch,
   in order (each once); everything consulted before a rejection is approved
   and is exactly what gets appended; the first rejection ends the batch, its
   error is recorded and the rejected value is not stored; capacity holds. *)
Theorem c14_push_policy :
  forall (V : Type) (nilv : V) (isnil isstack : V -> bool) (pol : N -> V -> option N),
    isnil nilv = true ->
    forall (c : scfg) (els vs : list V) (p : N),
      zlen els < Bnd -> cap_ok c (zlen els) -> has (k_opt c) f_ronly = false -> k_ppf c = Some p ->
      exists els' e consulted,
        step V nilv isnil isstack pol (mk V c els) (OPush vs) =
          Ok (mk V (match e with Some _ => with_err c e | None => c end) els', RLog consulted) /\
        consulted = firstn (length consulted) vs /\
        cap_ok c (zlen els') /\
        match e with
        | None => Forall (accepted V pol p) consulted /\ els' = els ++ consulted
        | Some err => exists l x, consulted = l ++ [x] /\ pol p x = Some err /\
                                  Forall (accepted V pol p) l /\ els' = els ++ l
        end.
Proof. exact step_push_policy. Qed.
Print Assumptions c14_push_policy.

(* the specification-level characterisation the model was proved against *)
Theorem c14_spec_policy_push :
  forall (V : Type) (nilv : V) (isnil isstack : V -> bool) (pol : N -> V -> option N),
    isnil nilv = true -> (forall v, isnil v = true -> v = nilv) ->
    forall p vs rm els log els' e log',
    pol_push V pol p rm els vs log = (els', e, log') ->
    exists consulted,
      log' = log ++ consulted /\
      consulted = firstn (length consulted) vs /\
      match e with
      | None => Forall (accepted V pol p) consulted /\ els' = els ++ consulted
      | Some err => exists l x, consulted = l ++ [x] /\ pol p x = Some err /\
                                Forall (accepted V pol p) l /\ els' = els ++ l
      end.
Proof. intros V nilv isnil isstack pol H1 H2. exact (pol_push_char V pol). Qed.
Print Assumptions c14_spec_policy_push.

(* removing the policy restores the built-in append *)
Theorem c14_policy_removed :
  forall (V : Type) (nilv : V) (isnil isstack : V -> bool) (pol : N -> V -> option N) (c : scfg) (els : list V),
    has (k_opt c) f_ronly = false ->
    step V nilv isnil isstack pol (mk V c els) (OSetPolicy None) = Ok (mk V (with_ppf c None) els, RUnit).
Proof.
  intros V nilv isnil isstack pol c els Hro. cbn [step config mk bind].
  unfold positive. change g_flag_positive with has. change c_ronly with f_ronly. rewrite Hro. reflexivity.
Qed.
Print Assumptions c14_policy_removed.


(* ... and so is the loop used when a push policy is installed
   (stack.methodAppend): room is tested before the policy is consulted, a
   rejection records the error and ends the batch (cut 0: "r.setErr(err);
   break"), an approval appends (cut 1) *)
Theorem c14_policy_push_loop_is_the_source_loop :
  forall (V : Type) (pol : N -> V -> option N) (p : N) (c : scfg) (r : raw V) (x : V) (xs log : list V),
    method_append V pol p c r (x :: xs) log =
    match g_methodAppend_body (g_isFull (zlen r) (k_cap c)) (match pol p x with Some _ => true | None => false end) with
    | TCut 0 _ _ => (r, pol p x, log ++ [x])
    | TCut 1 _ _ => method_append V pol p c (r ++ [SVal x]) xs (log ++ [x])
    | _ => method_append V pol p c r xs log
    end /\
    g_methodAppend_body_tails = ["r.setErr(err); break"%string; "*r = append(*r, x[i]); pct++"%string] /\
    g_genericAppend_body_tails = ["*r = append(*r, x[i]); pct++"%string].
Proof.
  intros. split; [exact (method_append_iteration V pol p c r x xs log)|].
  split; [exact method_append_cut_tails|exact generic_append_cut_tails].
Qed.
Print Assumptions c14_policy_push_loop_is_the_source_loop.

Example c14_nonvacuous :
  let pol := fun (p : N) (v : Z) => if v =? 3 then Some 7%N else None in
  step Z 0 (fun v => v =? 0) (fun _ => false) pol
       (mk Z {| k_typ := 1; k_cap := 5; k_opt := 0; k_ord := false; k_err := None; k_ppf := Some 1%N |} [9])
       (OPush [1; 2; 3; 4])
  = Ok (mk Z {| k_typ := 1; k_cap := 5; k_opt := 0; k_ord := false; k_err := Some 7%N; k_ppf := Some 1%N |} [9; 1; 2],
        RLog [1; 2; 3]).
Proof. vm_compute. reflexivity. Qed.

(* ---- the other closures (validity, presentation, equality, unmarshal,
        marshal, evaluator): WHO decides.  Closures are arbitrary functions. ---- *)
From Stackage Require Import Policy.

(* an installed closure decides; the answer is the closure's own answer *)
Theorem c14_closure_dispatch :
  forall (S R : Type) (vp : N -> S -> option N) (rp : N -> S -> R) (ep : N -> S -> S -> option N)
         (up : N -> R * option N) (mp : N -> R -> option N) (vl : N -> R -> R * option N)
         (c : pcfg) (s o : S) (f : N) (x : R),
    (p_vpf c = Some f -> Stack_Valid S vp c s = (match vp f s with Some _ => Some e_invalid | None => None end) /\
                         Cond_Valid S vp c s = VClosure (vp f s)) /\
    (p_eqf c = Some f -> Stack_IsEqual S ep c s o = EqClosure (ep f s o) /\ Cond_IsEqual S ep c s o = EqClosure (ep f s o)) /\
    (p_umf c = Some f -> Stack_Unmarshal R up c = UClosure (fst (up f)) (snd (up f)) /\
                         Cond_Unmarshal R up c = UClosure (fst (up f)) (snd (up f))) /\
    (p_maf c = Some f -> Stack_Marshal R mp c x = MClosure (mp f x)) /\
    (p_evl c = Some f -> Cond_Evaluate R vl c x = EvClosure (fst (vl f x)) (snd (vl f x))) /\
    (p_rpf c = Some f -> stack_valid S vp c s = true -> p_kind c <> 0%N -> p_kind c <> c_basic ->
                         Stack_String S R vp rp c s = ByClosure (rp f s)).
Proof.
  intros. unfold Stack_Valid, stack_valid, Cond_Valid, Stack_IsEqual, Cond_IsEqual, Stack_Unmarshal, Cond_Unmarshal,
    Stack_Marshal, Cond_Evaluate, Stack_String, stack_valid.
  repeat match goal with |- _ /\ _ => split end; intros E; rewrite ?E.
  - split; [destruct (vp f s); reflexivity|reflexivity].
  - split; reflexivity.
  - destruct (up f); split; reflexivity.
  - reflexivity.
  - destruct (vl f x); reflexivity.
  - intros Hv H0 Hb. rewrite Hv.
    destruct (N.eqb_spec (p_kind c) 0); [contradiction|]. destruct (N.eqb_spec (p_kind c) c_basic); [contradiction|].
    reflexivity.
Qed.
Print Assumptions c14_closure_dispatch.

(* removing a closure restores the built-in behaviour *)
Theorem c14_closure_removed_restores :
  forall (S R : Type) (vp : N -> S -> option N) (rp : N -> S -> R) (ep : N -> S -> S -> option N)
         (up : N -> R * option N) (mp : N -> R -> option N) (vl : N -> R -> R * option N)
         (c : pcfg) (s o : S) (x : R),
    (p_vpf c = None -> Stack_Valid S vp c s = None /\ Cond_Valid S vp c s = VBuiltIn) /\
    (p_eqf c = None -> Stack_IsEqual S ep c s o = EqBuiltIn /\ Cond_IsEqual S ep c s o = EqBuiltIn) /\
    (p_umf c = None -> Stack_Unmarshal R up c = UBuiltIn /\ Cond_Unmarshal R up c = UBuiltIn) /\
    (p_maf c = None -> Stack_Marshal R mp c x = MBuiltIn) /\
    (p_evl c = None -> Cond_Evaluate R vl c x = EvNone) /\
    (p_rpf c = None -> Stack_String S R vp rp c s <> Empty -> Stack_String S R vp rp c s = BuiltIn).
Proof.
  intros. unfold Stack_Valid, stack_valid, Cond_Valid, Stack_IsEqual, Cond_IsEqual, Stack_Unmarshal, Cond_Unmarshal,
    Stack_Marshal, Cond_Evaluate, Stack_String, stack_valid.
  repeat match goal with |- _ /\ _ => split end; intros E; rewrite ?E; try (split; reflexivity); try reflexivity.
  destruct (_ && _ && _); [reflexivity|contradiction].
Qed.
Print Assumptions c14_closure_removed_restores.

(* a Stack its validity closure rejects renders as the empty string; so does
   every BASIC stack; a BASIC stack refuses a presentation policy and records
   an error *)
Theorem c14_invalid_or_basic_renders_empty :
  forall (S R : Type) (vp : N -> S -> option N) (rp : N -> S -> R) (c : pcfg) (s : S),
    (stack_valid S vp c s = false \/ p_kind c = c_basic) -> Stack_String S R vp rp c s = Empty.
Proof.
  intros S R vp rp c s [H|H]; unfold Stack_String; [rewrite H; reflexivity|].
  rewrite H, N.eqb_refl. cbn [negb]. rewrite !andb_false_r. reflexivity.
Qed.
Print Assumptions c14_invalid_or_basic_renders_empty.

Theorem c14_basic_refuses_presentation :
  forall (c : pcfg) (f : option N),
    p_kind c = c_basic -> p_rpf (set_rpf c f) = p_rpf c /\ p_err (set_rpf c f) = true.
Proof. intros c f H. unfold set_rpf. rewrite H, N.eqb_refl. split; reflexivity. Qed.
Print Assumptions c14_basic_refuses_presentation.

(* a Condition returns the validity closure's very error, and renders exactly when it is nil *)
Theorem c14_condition_validity_gates_string :
  forall (S R : Type) (vp : N -> S -> option N) (rp : N -> S -> R) (c : pcfg) (s : S) (f : N) (bi : bool),
    p_vpf c = Some f ->
    Cond_Valid S vp c s = VClosure (vp f s) /\
    (Cond_String S R vp rp c s bi = Empty <-> vp f s <> None).
Proof.
  intros S R vp rp c s f bi H. unfold Cond_String, Cond_Valid. rewrite H. split; [reflexivity|].
  destruct (vp f s); [split; [discriminate|reflexivity]|].
  split; [destruct (p_rpf c); discriminate|intros X; contradiction].
Qed.
Print Assumptions c14_condition_validity_gates_string.
