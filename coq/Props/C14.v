(* C14 -- user-supplied policies decide, exactly as documented (push policy
   part: list core).  Property theorems only. *)
From Stackage Require Import Base Generated StackImpl StackSpec StackSpecLemmas StackRefine StackCorollaries.
Open Scope Z_scope.

(* For EVERY policy (an arbitrary function pol), every batch and every
   capacity: the values the policy is consulted on are a prefix of the batch,
   in order (each once); everything consulted before a rejection is approved
   and is exactly what gets appended; the first rejection ends the batch, its
   error is recorded and the rejected value is not stored; capacity holds. *)
Theorem c14_push_policy :
  forall (V : Type) (nilv : V) (isnil isstack : V -> bool) (pol : N -> V -> option N),
    isnil nilv = true ->
    forall (c : scfg) (els vs : list V) (p : N),
      zlen els < Bnd -> cap_ok c (zlen els) -> has (k_opt c) f_ronly = false -> k_ppf c = Some p ->
      exists els' e consulted,
        step V nilv isnil isstack pol (mk V c els) (OPush vs) =
          Ok (mk V (match e with Some _ => with_err c e | None => c end) els', RLog consulted) /\
        consulted = firstn (length consulted) vs /\
        cap_ok c (zlen els') /\
        match e with
        | None => Forall (accepted V pol p) consulted /\ els' = els ++ consulted
        | Some err => exists l x, consulted = l ++ [x] /\ pol p x = Some err /\
                                  Forall (accepted V pol p) l /\ els' = els ++ l
        end.
Proof. exact step_push_policy. Qed.
Print Assumptions c14_push_policy.

(* the specification-level characterisation the model was proved against *)
Theorem c14_spec_policy_push :
  forall (V : Type) (nilv : V) (isnil isstack : V -> bool) (pol : N -> V -> option N),
    isnil nilv = true -> (forall v, isnil v = true -> v = nilv) ->
    forall p vs rm els log els' e log',
    pol_push V pol p rm els vs log = (els', e, log') ->
    exists consulted,
      log' = log ++ consulted /\
      consulted = firstn (length consulted) vs /\
      match e with
      | None => Forall (accepted V pol p) consulted /\ els' = els ++ consulted
      | Some err => exists l x, consulted = l ++ [x] /\ pol p x = Some err /\
                                Forall (accepted V pol p) l /\ els' = els ++ l
      end.
Proof. intros V nilv isnil isstack pol H1 H2. exact (pol_push_char V pol). Qed.
Print Assumptions c14_spec_policy_push.

(* removing the policy restores the built-in append *)
Theorem c14_policy_removed :
  forall (V : Type) (nilv : V) (isnil isstack : V -> bool) (pol : N -> V -> option N) (c : scfg) (els : list V),
    has (k_opt c) f_ronly = false ->
    step V nilv isnil isstack pol (mk V c els) (OSetPolicy None) = Ok (mk V (with_ppf c None) els, RUnit).
Proof.
  intros V nilv isnil isstack pol c els Hro. cbn [step config mk bind].
  unfold positive. change g_flag_positive with has. change c_ronly with f_ronly. rewrite Hro. reflexivity.
Qed.
Print Assumptions c14_policy_removed.

Example c14_nonvacuous :
  let pol := fun (p : N) (v : Z) => if v =? 3 then Some 7%N else None in
  step Z 0 (fun v => v =? 0) (fun _ => false) pol
       (mk Z {| k_typ := 1; k_cap := 5; k_opt := 0; k_ord := false; k_err := None; k_ppf := Some 1%N |} [9])
       (OPush [1; 2; 3; 4])
  = Ok (mk Z {| k_typ := 1; k_cap := 5; k_opt := 0; k_ord := false; k_err := Some 7%N; k_ppf := Some 1%N |} [9; 1; 2],
        RLog [1; 2; 3]).
Proof. vm_compute. reflexivity. Qed.
