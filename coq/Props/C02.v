(* C02 -- String() renders the expression tree by one fixed compositional
   grammar.  Property theorems only; proofs live in RenderCondense.v and
   RenderProofs.v.

   node_string : the byte-level model of Stack.String / Condition.String
                 (Render.v, mirrors stack.go / misc.go / cfg.go / cond.go)
   render      : the canonical grammar (RenderSpec.v, structural recursion)
   dom         : the property's domain: native Stacks of kind AND/OR/NOT/LIST/
                 BASIC whose elements are text/number/bool leaves, initialised
                 Conditions and Stacks, without user policies
   has_kf      : the tree holds a node of the shape on which the code (known
                 finding C02/list-join-nopad, D19, stays) departs from the
                 grammar: LIST, no delimiter, no-padding on, not lead-once,
                 two neighbouring element texts with no blank between them *)
From Stackage Require Import Base Generated StackImpl Values Render RenderSpec RenderCondense RenderProofs RenderModBlanks.
Open Scope N_scope.

(* ---- model = grammar ------------------------------------------------------

   The full statement

     Theorem c02_render_model_eq_spec :
       forall v : value, dom v = true -> node_string v = Ok (render v).

   is FALSE of the faithful model (c02_list_nopad_join_refuted below).  The
   strongest true statement carries exactly the guard "no node of that
   shape": for trees of ANY depth and width, every per-node combination of
   parenthetical / fold / no-padding / lead-once bits, any symbol, delimiter,
   list of encapsulation pairs and any byte strings as texts. *)
Theorem c02_render_model_eq_spec_partial :
  forall v : value, dom v = true -> has_kf v = false -> node_string v = Ok (render v).
Proof. exact model_eq_spec_guarded. Qed.
Print Assumptions c02_render_model_eq_spec_partial.

(* D19, known finding C02/list-join-nopad: List().SetNoPadding(true).Push("a","b") *)
Theorem c02_list_nopad_join_refuted :
  exists v : value, dom v = true /\ kf_code v = 1 /\
                    node_string v = Ok (B "ab") /\ render v = B "a b".
Proof. exists w_list_nopad. exact w_list_nopad_runs. Qed.
Print Assumptions c02_list_nopad_join_refuted.

(* repaired (were departures found by this module): the same seam with
   padding on, and an empty lead-once stack leaving its bare operator *)
Theorem c02_list_unpadded_join_repaired :
  exists v : value, dom v = true /\ kf_code v = 0 /\
                    node_string v = Ok (B "a AND b c") /\ render v = B "a AND b c".
Proof. exists w_list_nested. exact w_list_nested_runs. Qed.
Print Assumptions c02_list_unpadded_join_repaired.

Theorem c02_lead_once_empty_repaired :
  exists v : value, dom v = true /\ kf_code v = 0 /\
                    node_string v = Ok (B "a AND b") /\ render v = B "a AND b".
Proof. exists w_lead_empty. exact w_lead_empty_runs. Qed.
Print Assumptions c02_lead_once_empty_repaired.

(* ---- blanks ---------------------------------------------------------------- *)

(* condenseWHSP (trim, then the byte loop with its flag) is the grammar's
   "every run of blanks becomes one space, none at either end" *)
Theorem c02_condense_model_eq_spec :
  forall s : bytes, condenseWHSP s = condense s.
Proof. exact condense_eq. Qed.
Print Assumptions c02_condense_model_eq_spec.

(* whatever a Stack holds (any element, in or out of the domain), what its
   String() returns has no two consecutive blanks, no tab, and no white space
   at either end *)
Theorem c02_render_condensed :
  forall (a : akind) (c : config) (els : list value) (s : bytes),
    node_string (VStack a c els) = Ok s -> condensed s.
Proof. exact stack_string_condensed. Qed.
Print Assumptions c02_render_condensed.

Theorem c02_condense_idempotent :
  forall s : bytes, condenseWHSP (condenseWHSP s) = condenseWHSP s.
Proof. exact condenseWHSP_idem. Qed.
Print Assumptions c02_condense_idempotent.

(* a parent condensing a child's text once more changes nothing *)
Theorem c02_recondense_changes_nothing :
  forall (a : akind) (c : config) (els : list value) (s : bytes),
    node_string (VStack a c els) = Ok s -> condenseWHSP s = s.
Proof. exact stack_string_recondense. Qed.
Print Assumptions c02_recondense_changes_nothing.

(* ---- every non-white byte once, in order ------------------------------------

   raw v lays the same pieces end to end without condensing anything (leaf
   texts inside their encapsulation, operators, symbols, delimiters,
   parentheses); the rendering differs from it by white space only.  A
   multi-byte UTF-8 sequence has no white byte, so every such text is
   reproduced verbatim. *)
Theorem c02_render_nonblank_preserved :
  forall v : value, filter nonws (render v) = filter nonws (raw v).
Proof. exact nonblank_preserved. Qed.
Print Assumptions c02_render_nonblank_preserved.

(* For the model: on EVERY tree of the domain -- LIST nodes of the D19 shape
   INCLUDED, no guard -- String() and the grammar's rendering hold the same
   non-white bytes in the same order and are empty together.  So the list
   seam (D19) only ever loses blanks. *)
Theorem c02_render_model_eq_spec_modulo_blanks :
  forall v : value, dom v = true ->
    exists s : bytes, node_string v = Ok s /\
                      filter nonws s = filter nonws (render v) /\
                      (s = [] <-> render v = []).
Proof. exact model_eq_spec_modulo_blanks. Qed.
Print Assumptions c02_render_model_eq_spec_modulo_blanks.

Theorem c02_model_nonblank_preserved :
  forall (v : value) (s : bytes),
    dom v = true -> node_string v = Ok s ->
    filter nonws s = filter nonws (raw v).
Proof. exact model_nonblank_preserved_d19. Qed.
Print Assumptions c02_model_nonblank_preserved.

(* ---- nothing dangles --------------------------------------------------------

   An element whose text is empty might as well not be stored: the String()
   of the parent is the String() of the parent without it (same operator
   count, no dangling operator) -- for every parent configuration and all
   neighbours. *)
Theorem c02_render_no_dangling :
  forall (c : config) (l1 : list value) (x : value) (l2 : list value),
    defaultAssertionHandler c x (node_string x) = Ok [] ->
    node_string (VStack Native c (l1 ++ x :: l2)) = node_string (VStack Native c (l1 ++ l2)).
Proof. exact nothing_dangles. Qed.
Print Assumptions c02_render_no_dangling.

Theorem c02_basic_contributes_nothing :
  forall (c : config) (l1 : list value) (ic : config) (els l2 : list value),
    plain ic = true -> c_typ ic = 6 ->
    node_string (VStack Native c (l1 ++ VStack Native ic els :: l2)) =
    node_string (VStack Native c (l1 ++ l2)).
Proof. exact basic_leaves_no_trace. Qed.
Print Assumptions c02_basic_contributes_nothing.

Theorem c02_invalid_condition_contributes_nothing :
  forall (c : config) (l1 : list value) (ic : config) (kw : bytes) (op : option oper) (ex : value)
         (l2 : list value),
    plain ic = true -> c_typ ic = 5 -> cvalid kw op ex = false ->
    node_string (VStack Native c (l1 ++ VCond Native ic kw op ex :: l2)) =
    node_string (VStack Native c (l1 ++ l2)).
Proof. exact invalid_cond_leaves_no_trace. Qed.
Print Assumptions c02_invalid_condition_contributes_nothing.

Theorem c02_empty_stack_contributes_nothing :
  forall (c : config) (l1 : list value) (ic : config) (l2 : list value),
    plain ic = true -> stack_kind (c_typ ic) = true -> o_paren ic = false ->
    node_string (VStack Native c (l1 ++ VStack Native ic [] :: l2)) =
    node_string (VStack Native c (l1 ++ l2)).
Proof. exact empty_stack_leaves_no_trace. Qed.
Print Assumptions c02_empty_stack_contributes_nothing.

(* ---- single pieces ---------------------------------------------------------- *)

(* a nested NOT stack with a word operator: its word once, in its own case,
   and only in front of a non-empty rendering *)
Theorem c02_fold_once :
  forall (c ic : config) (els : list value) (s : bytes),
    c_typ ic = 3 -> c_sym ic = [] ->
    defaultAssertionHandler c (VStack Native ic els) (Ok s) =
    Ok (if nonempty s then (if o_fold ic then B "not" else B "NOT") ++ [x20] ++ s else []).
Proof. exact not_prefix_own_case. Qed.
Print Assumptions c02_fold_once.

(* the encapsulation pairs are applied outermost-first *)
Theorem c02_encap_outermost_first :
  forall (enc : list (list bytes)) (v : bytes), encapValue enc v = fold_right wrap v enc.
Proof. exact encapValue_encap. Qed.
Print Assumptions c02_encap_outermost_first.

(* ---- non-vacuity -------------------------------------------------------------

   A depth-3 tree: folded parenthetical AND with two encapsulation pairs
   holding a multi-byte leaf with an inner blank, an OR with symbol "||" and
   no padding holding a folded NOT, a parenthetical Condition with its own
   encapsulation, a BASIC stack, an empty NOT and an invalid Condition.  It is
   in the domain, has none of the three shapes, and model and grammar
   evaluate (inside Coq) to the same literal. *)
Definition ex_tree : value :=
  VStack Native (cfgS 1 3 [] [] [[B "["; B "]"]; [B "'"]] false 0%Z)
    [ VLeaf (GStr (map byte_of_N_tot [230;151;165;230;156;172;32;120]));        (* "日本 x" *)
      VStack Native (cfgS 2 4 (B "||") [] [] false 0%Z)
        [ VLeaf (GStr (B "a"));
          VStack Native (cfgS 3 2 [] [] [] false 0%Z) [VLeaf (GStr (B "z")); VLeaf (GInt 0 (-7)%Z)] ];
      VCond Native (cfgS 5 1 [] [] [[B "<"; B ">"]] false 0%Z) (B "k") (Some (OpBuiltin 5)) (VLeaf (GBool true));
      VStack Native (cfgS 6 0 [] [] [] false 0%Z) [VLeaf (GStr (B "q"))];
      VStack Native (cfgS 3 0 [] [] [] false 0%Z) [];
      VCond Native (cfgS 5 0 [] [] [] false 0%Z) [] (Some (OpBuiltin 1)) (VLeaf (GStr (B "w"))) ].

Definition ex_text : bytes :=
  B "( ['" ++ map byte_of_N_tot [230;151;165;230;156;172] ++ B " x'] and a||not z not -7 and ( k <= <true> ) )".

Example c02_hypotheses_satisfiable :
  dom ex_tree = true /\ has_kf ex_tree = false /\
  node_string ex_tree = Ok ex_text /\ render ex_tree = ex_text.
Proof. repeat split; vm_compute; reflexivity. Qed.

(* the multi-byte leaf is there byte for byte *)
Example c02_utf8_leaf_verbatim :
  filter nonws (map byte_of_N_tot [230;151;165;230;156;172]) = map byte_of_N_tot [230;151;165;230;156;172] /\
  exists pre post, render ex_tree = pre ++ map byte_of_N_tot [230;151;165;230;156;172] ++ post.
Proof.
  split; [vm_compute; reflexivity|].
  exists (B "( ['"), (B " x'] and a||not z not -7 and ( k <= <true> ) )"). vm_compute. reflexivity.
Qed.

(* condensing: a concrete run *)
Example c02_condense_run :
  condenseWHSP (B "  the   quick" ++ [x09; x09; x20] ++ B "brown fox " ++ [x0a]) = B "the quick brown fox".
Proof. vm_compute. reflexivity. Qed.
