(* C17 -- uninitialised and freed instances are inert, not dangerous.  Property theorems only. *)
From Stackage Require Import Base Generated StackImpl StackSpec StackRefine StackCorollaries Guard GeneratedIR GuardProps.
Open Scope Z_scope.

(* (a) static: for EVERY exported method of Stack, *Stack, Condition,
   *Condition in the source now, except Marshal and Condition.Init, no
   execution on a zero-valued (or freed: the handle is then nil as well)
   receiver contains a dereference of the nil embedded pointer or of the
   missing configuration record (= no panic of that kind) nor a store into
   the receiver (= it is not brought to life); and no method of a nil
   Auxiliary dereferences it. *)
Theorem c17_zero_inert_every_method :
  (forall e, In e ir_entries -> is_inst_class e = true -> named zero_exceptions e = false ->
             entry_ok ir_table bad_zero env_zero e) /\
  (forall e, In e ir_entries -> en_recv e = rc_Aux -> entry_ok ir_table bad_zero_deref env_zero e).
Proof. apply zero_inert_static. vm_compute. reflexivity. Qed.
Print Assumptions c17_zero_inert_every_method.

(* (b) Reset removes every element, nil ones included, while keeping kind,
   capacity, options and policies (the configuration record c is returned
   unchanged) *)
Theorem c17_reset_keeps_configuration :
  forall (V : Type) (nilv : V) (isnil isstack : V -> bool) (pol : N -> V -> option N) (c : scfg) (els : list V),
    has (k_opt c) f_ronly = false ->
    step V nilv isnil isstack pol (mk V c els) OReset = Ok (mk V c [], RUnit).
Proof. exact reset_spec. Qed.
Print Assumptions c17_reset_keeps_configuration.

(* Free: under read-only the handle is not written (C09); otherwise the only
   store on its path is the store to the handle *)
Example c17_nonvacuous :
  existsb (fun e => bytes_eqb (en_name e) (B "Delimiter") && is_inst_class e && negb (named zero_exceptions e)) ir_entries = true /\
  existsb (fun e => bytes_eqb (en_name e) (B "Push") && is_inst_class e) ir_entries = true /\
  existsb (fun e => (en_recv e =? rc_Aux)%N) ir_entries = true.
Proof. vm_compute. repeat split; reflexivity. Qed.
