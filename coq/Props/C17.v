(* C17 -- uninitialised and freed instances are inert, not dangerous.  Property theorems only. *)
From Stackage Require Import Base Generated StackImpl StackSpec StackRefine StackCorollaries Guard GeneratedIR GuardProps.
Open Scope Z_scope.

(* (a) static: for EVERY exported method of Stack, *Stack, Condition,
   *Condition in the source now, except Marshal and Condition.Init, no
   execution on a zero-valued (or freed: the handle is then nil as well)
   receiver contains a dereference of the nil embedded pointer or of the
   missing configuration record (= no panic of that kind) nor a store into
   the receiver (= it is not brought to life); and no method of a nil
   Auxiliary dereferences it. *)
Theorem c17_zero_inert_every_method :
  (forall e, In e ir_entries -> is_inst_class e = true -> named zero_exceptions e = false ->
             entry_ok ir_table bad_zero env_zero e) /\
  (forall e, In e ir_entries -> en_recv e = rc_Aux -> entry_ok ir_table bad_zero_deref env_zero e).
Proof. apply zero_inert_static. vm_compute. reflexivity. Qed.
Print Assumptions c17_zero_inert_every_method.

(* (a') static, results: for every exported method of Stack, *Stack,
   Condition, *Condition in the source now - except the two initialisers, the
   error-returning Valid / IsEqual, the truthful IsZero / IsEmpty and the
   sentinel strings of ID / Kind / Addr - NO execution on a zero-valued or
   freed receiver, whatever the arguments, reaches a place where a result
   could become anything but the zero value of its type (false, 0, nil, "",
   the zero Stack/Condition or the receiver handed back). *)
Theorem c17_zero_results_every_method :
  forall e, In e ir_entries_res -> is_inst_class e = true -> named zero_res_exceptions e = false ->
            entry_ok ir_table bad_zero_res env_zero e.
Proof. apply zero_results_static. vm_compute. reflexivity. Qed.
Print Assumptions c17_zero_results_every_method.

(* the result-tracking entry list covers the same methods as the entry list of
   (a), and the analysis has something to rule out: run for an INITIALISED
   receiver it rejects Len, Index, String, Pop, ... (c17_results_nonvacuous) *)
Theorem c17_result_entries_complete : same_entry_names = true.
Proof. vm_compute. reflexivity. Qed.
Print Assumptions c17_result_entries_complete.

Example c17_results_nonvacuous :
  let U_init := refine 80 ir_table bad_zero_res env_init [] in
  forallb (fun nm => existsb (fun e => bytes_eqb (en_name e) nm && (en_recv e =? rc_Stack)%N &&
                                       negb (named zero_res_exceptions e) &&
                                       entry_accepted ir_table U_zero_res e &&
                                       negb (entry_accepted ir_table U_init e))
                             ir_entries_res)
          (map B ["Len"; "Index"; "String"; "Pop"; "Unmarshal"; "Cap"; "IsFIFO"; "Traverse"]%string) = true.
Proof. vm_compute. reflexivity. Qed.

(* (b) Reset removes every element, nil ones included, while keeping kind,
   capacity, options and policies (the configuration record c is returned
   unchanged) *)
Theorem c17_reset_keeps_configuration :
  forall (V : Type) (nilv : V) (isnil isstack : V -> bool) (pol : N -> V -> option N) (c : scfg) (els : list V),
    has (k_opt c) f_ronly = false ->
    step V nilv isnil isstack pol (mk V c els) OReset = Ok (mk V c [], RUnit).
Proof. exact reset_spec. Qed.
Print Assumptions c17_reset_keeps_configuration.

(* Free: under read-only the handle is not written (C09); otherwise the only
   store on its path is the store to the handle *)
Example c17_nonvacuous :
  existsb (fun e => bytes_eqb (en_name e) (B "Delimiter") && is_inst_class e && negb (named zero_exceptions e)) ir_entries = true /\
  existsb (fun e => bytes_eqb (en_name e) (B "Push") && is_inst_class e) ir_entries = true /\
  existsb (fun e => (en_recv e =? rc_Aux)%N) ir_entries = true.
Proof. vm_compute. repeat split; reflexivity. Qed.
