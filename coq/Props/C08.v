(* C08 -- no index and no element value can panic or corrupt a Stack.
   Index part: theorems over the regenerated list model.  Value part: the
   converters on the value universe (see Props/C12.v) and the awkward-value
   family of the correspondence check.  Property theorems only. *)
From Stackage Require Import Base Generated StackImpl StackSpec StackSpecLemmas StackRefine StackCorollaries.
Open Scope Z_scope.

(* every history whose index arguments are ANY Go ints (MinInt and MaxInt
   included) runs to completion: no Panic outcome, the configuration slot is
   never read as an element (abs_out) or overwritten (the result is again of
   the shape mk c' els'), capacity respected *)
Theorem c08_any_int_index_is_safe :
  forall (V : Type) (nilv : V) (isnil isstack : V -> bool) (pol : N -> V -> option N),
    isnil nilv = true -> (forall v, isnil v = true -> v = nilv) ->
    forall (ops : list (op V)) (m : Z) (c : scfg) (els : list V),
      cap_ok c (zlen els) -> zlen els <= m -> m + growth V ops < Bnd -> Forall (op_i64 V) ops ->
      exists c' els' outs souts,
        run V nilv isnil isstack pol (mk V c els) ops = Ok (mk V c' els', outs) /\
        cap_ok c' (zlen els') /\ zlen els' <= m + growth V ops /\
        srun V nilv isnil isstack pol (abs V c els) (map (to_sop V) ops) = (abs V c' els', souts) /\
        map (abs_out V) outs = map Some souts.
Proof. exact run_refines. Qed.
Print Assumptions c08_any_int_index_is_safe.

(* an index that addresses nothing: Index and Remove report (nil,false) and
   the state is exactly as it was *)
Theorem c08_bad_index_noop :
  forall (V : Type) (nilv : V) (isnil isstack : V -> bool) (pol : N -> V -> option N),
    isnil nilv = true ->
    forall (c : scfg) (els : list V) (i : Z),
      zlen els < Bnd -> in_i64 i ->
      resolve (has (k_opt c) f_negidx) (has (k_opt c) f_fwdidx) (zlen els) i = None ->
      step V nilv isnil isstack pol (mk V c els) (OIndex i) = Ok (mk V c els, RVal (SVal nilv) false) /\
      step V nilv isnil isstack pol (mk V c els) (ORemove i) = Ok (mk V c els, RVal (SVal nilv) false).
Proof. exact bad_index_noop. Qed.
Print Assumptions c08_bad_index_noop.

(* Replace and Swap act on positions 0..Len-1 only; anything else fails and changes nothing *)
Theorem c08_bad_position_noop :
  forall (V : Type) (nilv : V) (isnil isstack : V -> bool) (pol : N -> V -> option N),
    isnil nilv = true ->
    forall (c : scfg) (els : list V) (v : V) (i j : Z),
      zlen els < Bnd -> ~ (0 <= i < zlen els) ->
      step V nilv isnil isstack pol (mk V c els) (OReplace v i) = Ok (mk V c els, RBool false) /\
      step V nilv isnil isstack pol (mk V c els) (OSwap i j) = Ok (mk V c els, RUnit) /\
      step V nilv isnil isstack pol (mk V c els) (OSwap j i) = Ok (mk V c els, RUnit).
Proof. exact bad_position_noop. Qed.
Print Assumptions c08_bad_position_noop.

(* with negative indices enabled, -k addresses the k-th element from the end *)
Theorem c08_negative_index :
  forall (V : Type) (nilv : V) (isnil isstack : V -> bool) (pol : N -> V -> option N),
    isnil nilv = true ->
    forall (c : scfg) (els : list V) (k : Z),
      zlen els < Bnd -> has (k_opt c) f_negidx = true -> 1 <= k <= zlen els ->
      step V nilv isnil isstack pol (mk V c els) (OIndex (- k)) =
      Ok (mk V c els, RVal (SVal (nthz V nilv els (zlen els - k))) (negb (isnil (nthz V nilv els (zlen els - k))))).
Proof. exact index_neg. Qed.
Print Assumptions c08_negative_index.

(* with forward indices enabled, any oversize index addresses the last element *)
Theorem c08_forward_index :
  forall (V : Type) (nilv : V) (isnil isstack : V -> bool) (pol : N -> V -> option N),
    isnil nilv = true ->
    forall (c : scfg) (els : list V) (i : Z),
      zlen els < Bnd -> in_i64 i -> has (k_opt c) f_fwdidx = true -> 0 < zlen els <= i ->
      step V nilv isnil isstack pol (mk V c els) (OIndex i) =
      Ok (mk V c els, RVal (SVal (nthz V nilv els (zlen els - 1))) (negb (isnil (nthz V nilv els (zlen els - 1))))).
Proof. exact index_fwd. Qed.
Print Assumptions c08_forward_index.

(* without the options such indices simply fail *)
Theorem c08_without_options_fail :
  forall (V : Type) (nilv : V) (isnil isstack : V -> bool) (pol : N -> V -> option N),
    isnil nilv = true ->
    forall (c : scfg) (els : list V) (i : Z),
      zlen els < Bnd -> in_i64 i ->
      (i < 0 /\ has (k_opt c) f_negidx = false) \/ (zlen els <= i /\ has (k_opt c) f_fwdidx = false) ->
      step V nilv isnil isstack pol (mk V c els) (OIndex i) = Ok (mk V c els, RVal (SVal nilv) false).
Proof. exact index_without_options. Qed.
Print Assumptions c08_without_options_fail.

Example c08_nonvacuous :
  let c := {| k_typ := 2; k_cap := 0; k_opt := 48; k_ord := false; k_err := None; k_ppf := None |} in
  let st := fun o => match step Z 0 (fun v => v =? 0) (fun _ => false) (fun _ _ => None) (mk Z c [5; 6; 7]) o with
                     | Ok (_, x) => Some x | _ => None end in
  st (OIndex (-9223372036854775808)) = Some (RVal (SVal 0) false) /\
  st (OIndex (-1)) = Some (RVal (SVal 7) true) /\
  st (OIndex 9223372036854775807) = Some (RVal (SVal 7) true) /\
  st (ORemove (-4)) = Some (RVal (SVal 0) false) /\ in_i64 (-9223372036854775808).
Proof. cbv zeta. repeat split; try (vm_compute; reflexivity); unfold in_i64, two63; lia. Qed.
