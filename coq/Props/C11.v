(* C11 -- queries never modify anything and may run concurrently.  Property theorems only. *)
From Stackage Require Import Base Generated StackImpl StackSpec StackRefine StackCorollaries Guard GeneratedIR GuardProps.
Open Scope Z_scope.

(* (a) static: every exported method that is not in the declared mutator
   list - whatever exists in the source now - contains, on every path, no
   store into the receiver NOR into any nested object, and no lock operation
   (the lock bookkeeping is never touched on a read path).  User closures and
   foreign String methods (EExt) are assumed pure. *)
Theorem c11_queries_no_write_no_lock :
  forall e, In e ir_entries -> is_inst_class e = true -> is_mutator e = false ->
            entry_ok ir_table bad_query env_init e.
Proof. apply query_no_write_static. vm_compute. reflexivity. Qed.
Print Assumptions c11_queries_no_write_no_lock.

(* the queries the property names are classified as queries *)
Theorem c11_named_queries_are_checked : named_queries_present = true.
Proof. vm_compute. reflexivity. Qed.
Print Assumptions c11_named_queries_are_checked.

(* (b) on the list model: a query returns the state it was given (any state),
   hence histories with queries erased end in the same state, and a query
   asked twice gives the same answer *)
Theorem c11_observer_frame :
  forall (V : Type) (nilv : V) (isnil isstack : V -> bool) (pol : N -> V -> option N)
         (r r' : raw V) (o : op V) (x : out V),
    is_observer V o = true -> step V nilv isnil isstack pol r o = Ok (r', x) -> r' = r.
Proof. exact observer_frame. Qed.
Print Assumptions c11_observer_frame.

Theorem c11_query_deterministic :
  forall (V : Type) (nilv : V) (isnil isstack : V -> bool) (pol : N -> V -> option N)
         (r r1 : raw V) (o : op V) (x : out V),
    is_observer V o = true -> step V nilv isnil isstack pol r o = Ok (r1, x) ->
    step V nilv isnil isstack pol r1 o = Ok (r1, x).
Proof.
  intros V nilv isnil isstack pol r r1 o x Ho H.
  pose proof (observer_frame V nilv isnil isstack pol r r1 o x Ho H). subst r1. exact H.
Qed.
Print Assumptions c11_query_deterministic.

Example c11_nonvacuous :
  existsb (fun e => bytes_eqb (en_name e) (B "String") && is_inst_class e && negb (is_mutator e)) ir_entries = true /\
  existsb (fun e => bytes_eqb (en_name e) (B "Push") && is_mutator e) ir_entries = true.
Proof. vm_compute. split; reflexivity. Qed.
