(* C11 -- queries never modify anything and may run concurrently.  Property theorems only. *)
From Stackage Require Import Base Generated StackImpl StackSpec StackRefine StackCorollaries Guard GeneratedIR GuardProps.
From Stackage Require Values EqualBase Equal EqualTie.
Open Scope Z_scope.

(* (a) static: every exported method that is not in the declared mutator
   list - whatever exists in the source now - contains, on every path, no
   store into the receiver NOR into any nested object, and no lock operation
   (the lock bookkeeping is never touched on a read path).  User closures and
   foreign String methods (EExt) are assumed pure. *)
Theorem c11_queries_no_write_no_lock :
  forall e, In e ir_entries -> is_inst_class e = true -> is_mutator e = false ->
            entry_ok ir_table bad_query env_init e.
Proof. apply query_no_write_static. vm_compute. reflexivity. Qed.
Print Assumptions c11_queries_no_write_no_lock.

(* the queries the property names are classified as queries *)
Theorem c11_named_queries_are_checked : named_queries_present = true.
Proof. vm_compute. reflexivity. Qed.
Print Assumptions c11_named_queries_are_checked.

(* (b) on the list model: a query returns the state it was given (any state),
   hence histories with queries erased end in the same state, and a query
   asked twice gives the same answer *)
Theorem c11_observer_frame :
  forall (V : Type) (nilv : V) (isnil isstack : V -> bool) (pol : N -> V -> option N)
         (r r' : raw V) (o : op V) (x : out V),
    is_observer V o = true -> step V nilv isnil isstack pol r o = Ok (r', x) -> r' = r.
Proof. exact observer_frame. Qed.
Print Assumptions c11_observer_frame.

Theorem c11_query_deterministic :
  forall (V : Type) (nilv : V) (isnil isstack : V -> bool) (pol : N -> V -> option N)
         (r r1 : raw V) (o : op V) (x : out V),
    is_observer V o = true -> step V nilv isnil isstack pol r o = Ok (r1, x) ->
    step V nilv isnil isstack pol r1 o = Ok (r1, x).
Proof.
  intros V nilv isnil isstack pol r r1 o x Ho H.
  pose proof (observer_frame V nilv isnil isstack pol r r1 o x Ho H). subst r1. exact H.
Qed.
Print Assumptions c11_query_deterministic.

(* (c) "give the same answer when repeated", for the one query whose worker
   walks a Go map (IsEqual over map leaves; the runtime chooses the order of
   the walk anew on every call): in the loop of mapsEqual as it is in the
   source now (Generated.g_mapsEqual_body) a differing value ends the
   comparison at once, so the verdict on a pair of maps that differ in one
   entry is "not equal" wherever that entry falls in the walk *)
Theorem c11_map_comparison_verdict_is_order_independent :
  forall (rec : Values.value -> Values.value -> res bool) pre k v v' t ky,
    (forall p q, In (p, q) pre -> exists q', EqualBase.glookup p ky = Some q' /\ rec (Values.VLeaf q) (Values.VLeaf q') = Ok true) ->
    EqualBase.glookup k ky = Some v' -> rec (Values.VLeaf v) (Values.VLeaf v') = Ok false ->
    Equal.map_loop rec (pre ++ (k, v) :: t) ky = Ok false.
Proof. exact EqualTie.map_loop_first_difference. Qed.
Print Assumptions c11_map_comparison_verdict_is_order_independent.

Example c11_nonvacuous :
  existsb (fun e => bytes_eqb (en_name e) (B "String") && is_inst_class e && negb (is_mutator e)) ir_entries = true /\
  existsb (fun e => bytes_eqb (en_name e) (B "Push") && is_mutator e) ir_entries = true.
Proof. vm_compute. split; reflexivity. Qed.
