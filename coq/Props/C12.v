(* C12 -- user-defined aliases of Stack and Condition behave as the native
   types.  Property theorems only; proofs live in AliasProofs.v .. AliasProofs4.v.

   value        : trees of Stacks / Conditions / leaves; every Stack and
                  Condition node carries an akind: Native, AliasVal, AliasPtr
                  (alias type without its own String method, value / non-nil
                  pointer), AliasValStr, AliasPtrStr (alias type declaring
                  String).  Typed nil pointers of any depth, zero-valued
                  natives and aliases, foreign stringers and structs are leaves.
   erase_alias  : AliasSpec.v -- every value that converts is replaced by the
                  native value it converts to, throughout the tree
                  (zero-valued aliases convert to nothing and are left alone;
                  erase_all also retypes them).
   conv_stack / conv_cond, ConvertStack / ConvertCondition, a_string,
   a_IsNesting, a_Len, a_Push, a_SetExpression, a_Transfer : Alias.v -- the
                  reflective converters as written (nil check, native fast
                  path, derefPtr, ConvertibleTo, zero check) and every
                  observable with the conversion at each call site the Go
                  code has it;  a_IsEqual, a_Unmarshal, a_Traverse, a_Defrag :
                  the models of Equal.v, Marshal.v, Traverse.v, Defrag.v.

   Every theorem quantifies over ALL trees (any depth and width, any typing of
   any nested node, any configuration), by structural induction. *)
From Stackage Require Import Base Generated StackImpl Values JVal AliasSpec Alias
  AliasProofs AliasProofs2 AliasProofs3 AliasProofs4.
From Stackage Require Render RenderSpec.
From Stackage Require DerefTie.
From Coq Require Import String.
Open Scope Z_scope.

(* ---- convert_spec ---------------------------------------------------------- *)

(* ConvertStack / ConvertCondition, as modelled step by step, are exactly:
   the underlying native instance for an initialised Stack / Condition typed
   natively or through any alias (value or pointer, with or without String);
   (zero, false) for everything else *)
Theorem c12_convert_stack_spec : forall u : value, ConvertStack u = spec_convert_stack u.
Proof. exact convert_stack_spec. Qed.
Print Assumptions c12_convert_stack_spec.

Theorem c12_convert_cond_spec : forall u : value, ConvertCondition u = spec_convert_cond u.
Proof. exact convert_cond_spec. Qed.
Print Assumptions c12_convert_cond_spec.

Theorem c12_convert_alias_gives_native :
  forall a c els, ConvertStack (VStack a c els) = Some (VStack Native c els).
Proof. exact convert_alias_native. Qed.
Print Assumptions c12_convert_alias_gives_native.

Theorem c12_convert_alias_gives_native_cond :
  forall a c kw op ex, ConvertCondition (VCond a c kw op ex) = Some (VCond Native c kw op ex).
Proof. exact convert_alias_native_cond. Qed.
Print Assumptions c12_convert_alias_gives_native_cond.

(* nil, zero-valued Stacks / Conditions (native, alias, pointer to a zero
   alias), and every leaf -- which includes nil pointers of any depth to any
   type (GNilPtr, GPtr (GNilPtr ..)) and all unrelated types *)
Theorem c12_convert_refuses :
  forall u : value,
    (u = VNil \/ (exists a, u = VZeroStack a) \/ (exists a, u = VZeroCond a) \/ (exists g, u = VLeaf g)) ->
    ConvertStack u = None /\ ConvertCondition u = None.
Proof. exact convert_refuses. Qed.
Print Assumptions c12_convert_refuses.

(* a Condition (alias) is no Stack and vice versa *)
Theorem c12_convert_cross :
  forall u : value,
    (forall c kw op ex a, u = VCond a c kw op ex -> ConvertStack u = None) /\
    (forall c els a, u = VStack a c els -> ConvertCondition u = None).
Proof. exact convert_cross. Qed.
Print Assumptions c12_convert_cross.

(* ---- erase_alias_hom_String -------------------------------------------------

   The full statement

     Theorem c12_erase_alias_hom_string :
       forall t : value, a_string (erase_alias t) = a_string t.

   is FALSE of the faithful model of the code as it stands
   (c12_string_alias_cond_refuted).  The strongest true statement carries
   exactly the guard "no Condition holds, as its expression, a Condition
   typed through an alias that declares no String method". *)
Theorem c12_erase_alias_hom_string_partial :
  forall t : value, cond_exprs_ok t = true -> a_string (erase_alias t) = a_string t.
Proof. exact erase_alias_hom_string_partial. Qed.
Print Assumptions c12_erase_alias_hom_string_partial.

(* String() of EVERY Stack / Condition node of the tree (what the check records) *)
Theorem c12_erase_alias_hom_strings_partial :
  forall t : value, cond_exprs_ok t = true ->
    map a_string (Render.subnodes (erase_alias t)) = map a_string (Render.subnodes t).
Proof. exact erase_alias_hom_strings_partial. Qed.
Print Assumptions c12_erase_alias_hom_strings_partial.

(* Cond("k", Eq, aCond(Cond("k2", Eq, "v"))).String().
   a_string = a_string_gen current_fix; current_fix = false is the code as it
   stands (Alias.v), and that is the variant the correspondence check ties to
   the repository. *)
Theorem c12_string_alias_cond_refuted :
  exists t : value, a_string_gen false t <> a_string_gen false (erase_alias t) /\
                    a_string_gen false t = Ok (B "k = unsupported_primitive_type") /\
                    a_string_gen false (erase_alias t) = Ok (B "k = k2 = v").
Proof. exact a_string_alias_cond_refuted. Qed.
Print Assumptions c12_string_alias_cond_refuted.

(* with the candidate repair (condition.string also asks the Condition
   converter; a_string_gen true) the full statement holds.  Once the repair
   is landed and Alias.current_fix is set to true, this IS
   c12_erase_alias_hom_string for the code (a_string unfolds to
   a_string_gen true). *)
Theorem c12_erase_alias_hom_string_repaired :
  forall t : value, a_string_gen true (erase_alias t) = a_string_gen true t.
Proof. exact erase_alias_hom_string_repaired. Qed.
Print Assumptions c12_erase_alias_hom_string_repaired.

(* on all-native trees the alias-aware rendering IS the rendering model of
   C02 (Render.node_string) ... *)
Theorem c12_string_native_is_c02_model :
  forall t : value, native_tree t = true -> a_string t = Render.node_string t.
Proof. exact a_string_native. Qed.
Print Assumptions c12_string_native_is_c02_model.

(* ... hence a tree with aliases renders by the grammar of C02 applied to
   its erasure (dom / has_kf: the domain and the known finding of C02) *)
Theorem c12_alias_tree_renders_by_grammar :
  forall t : value,
    cond_exprs_ok t = true -> native_tree (erase_alias t) = true ->
    RenderSpec.dom (erase_alias t) = true -> RenderSpec.has_kf (erase_alias t) = false ->
    a_string t = Ok (RenderSpec.render (erase_alias t)).
Proof. exact alias_tree_renders_by_grammar. Qed.
Print Assumptions c12_alias_tree_renders_by_grammar.

(* ---- erase_alias_hom_IsEqual ---------------------------------------------- *)
Theorem c12_erase_alias_hom_isequal :
  forall x y : value, a_IsEqual (erase_alias x) (erase_alias y) = a_IsEqual x y.
Proof. exact erase_alias_hom_isequal. Qed.
Print Assumptions c12_erase_alias_hom_isequal.

(* against the same tree built from native values, in both directions *)
Theorem c12_isequal_against_native :
  forall t : value,
    a_IsEqual t (erase_alias t) = a_IsEqual (erase_alias t) (erase_alias t) /\
    a_IsEqual (erase_alias t) t = a_IsEqual (erase_alias t) (erase_alias t).
Proof. exact isequal_against_native. Qed.
Print Assumptions c12_isequal_against_native.

(* ---- erase_alias_hom_Unmarshal --------------------------------------------- *)
Theorem c12_erase_alias_hom_unmarshal :
  forall t : value, a_Unmarshal (erase_alias t) = rmap (map jerase) (a_Unmarshal t).
Proof. exact erase_alias_hom_unmarshal. Qed.
Print Assumptions c12_erase_alias_hom_unmarshal.

(* ---- erase_alias_hom_Traverse ----------------------------------------------
   every path of Go ints, every validity-policy closure that itself does not
   tell aliases from what they convert to *)
Theorem c12_erase_alias_hom_traverse :
  forall (vpol : N -> config -> list value -> bool),
    (forall p c els, vpol p c (map erase_alias els) = vpol p c els) ->
    forall (t : value) (path : list Z),
      a_Traverse vpol (erase_alias t) path =
      rmap (fun r => (erase_alias (fst r), snd r)) (a_Traverse vpol t path).
Proof. exact erase_alias_hom_traverse. Qed.
Print Assumptions c12_erase_alias_hom_traverse.

(* the quirk: Traverse hands an alias-typed Condition back converted to the
   native type (traverseStackInCondition returns the converter's result),
   an alias-typed Stack as it is stored.  The VALUE is the one the native
   tree gives, which is all C12 asks; that the TYPE differs from what Index
   returns is C07's c07_alias_condition_exactness_refuted. *)
Theorem c12_traverse_result_typing :
  forall a c kw op ex a' c' els',
    let nov := fun (_ : N) (_ : config) (_ : list value) => false in
    a_Traverse nov (VStack Native (cfg0 1) [VCond a c kw op ex]) [0] = Ok (VCond Native c kw op ex, true) /\
    a_Traverse nov (VStack Native (cfg0 1) [VStack a' c' els']) [0] = Ok (VStack a' c' els', true).
Proof. exact traverse_result_typing. Qed.
Print Assumptions c12_traverse_result_typing.

(* ---- erase_alias_hom_IsNesting / Len --------------------------------------- *)
Theorem c12_erase_alias_hom_isnesting :
  forall t : value, a_IsNesting (erase_alias t) = a_IsNesting t.
Proof. exact erase_alias_hom_isnesting. Qed.
Print Assumptions c12_erase_alias_hom_isnesting.

Theorem c12_erase_alias_hom_len :
  forall t : value, a_Len (erase_alias t) = a_Len t.
Proof. exact erase_alias_hom_len. Qed.
Print Assumptions c12_erase_alias_hom_len.

(* ---- no-nesting refusal ---------------------------------------------------- *)
Theorem c12_erase_alias_hom_push :
  forall (r : value) (xs : list value),
    a_Push (erase_alias r) (map erase_alias xs) = rmap erase_alias (a_Push r xs).
Proof. exact erase_alias_hom_push. Qed.
Print Assumptions c12_erase_alias_hom_push.

Theorem c12_push_nonest_refuses_alias :
  forall a c els a' c' els',
    g_flag_positive (c_opt c) c_ronly = false -> c_ppf c = None ->
    g_flag_positive (c_opt c) c_nnest = true ->
    a_Push (VStack a c els) [VStack a' c' els'] = Ok (VStack a c els).
Proof. exact push_nonest_refuses_alias. Qed.
Print Assumptions c12_push_nonest_refuses_alias.

Theorem c12_erase_alias_hom_setexpression :
  forall r x : value,
    a_SetExpression (erase_alias r) (erase_alias x) = rmap erase_alias (a_SetExpression r x).
Proof. exact erase_alias_hom_setexpression. Qed.
Print Assumptions c12_erase_alias_hom_setexpression.

Theorem c12_setexpression_nonest_refuses_alias :
  forall a c kw op ex a' c' els',
    g_flag_positive (c_opt c) c_ronly = false ->
    g_flag_positive (c_opt c) c_nnest = true ->
    a_SetExpression (VCond a c kw op ex) (VStack a' c' els') = Ok (VCond a c kw op ex).
Proof. exact setexpression_nonest_refuses_alias. Qed.
Print Assumptions c12_setexpression_nonest_refuses_alias.

(* ---- erase_alias_hom_Defrag / Transfer ------------------------------------- *)
Theorem c12_erase_alias_hom_defrag :
  forall (args : list Z) (t : value),
    a_Defrag args (erase_alias t) = rmap erase_alias (a_Defrag args t).
Proof. exact erase_alias_hom_defrag. Qed.
Print Assumptions c12_erase_alias_hom_defrag.

Theorem c12_erase_alias_hom_transfer :
  forall src dest : value,
    a_Transfer (erase_alias src) (erase_alias dest) =
    rmap (fun o => (erase_alias (fst o), snd o)) (a_Transfer src dest).
Proof. exact erase_alias_hom_transfer. Qed.
Print Assumptions c12_erase_alias_hom_transfer.

Theorem c12_transfer_refuses_unconvertible :
  forall a cs es dest, ConvertStack dest = None -> a_Transfer (VStack a cs es) dest = Ok (dest, false).
Proof. exact transfer_refuses_unconvertible. Qed.
Print Assumptions c12_transfer_refuses_unconvertible.

(* ---- the erasure itself ----------------------------------------------------- *)
Theorem c12_erase_alias_idempotent :
  forall t : value, erase_alias (erase_alias t) = erase_alias t.
Proof. exact erase_alias_idem. Qed.
Print Assumptions c12_erase_alias_idempotent.

(* erase_all (every akind -> Native, zero-valued aliases included) agrees with
   erase_alias on trees without zero-valued aliases ... *)
Theorem c12_erase_all_hom_partial :
  forall t : value, no_zero_alias t = true ->
    erase_all t = erase_alias t /\
    a_IsNesting (erase_all t) = a_IsNesting t /\
    a_Len (erase_all t) = a_Len t /\
    (cond_exprs_ok t = true -> a_string (erase_all t) = a_string t).
Proof. exact erase_all_hom_partial. Qed.
Print Assumptions c12_erase_all_hom_partial.

(* ... and the guard is needed: And().Push(aStack{}).IsNesting() is false,
   And().Push(Stack{}).IsNesting() is true (the type switch of
   stack.isNesting).  A zero-valued alias converts to nothing, so this is
   outside C12's text; recorded. *)
Theorem c12_erase_all_isnesting_refuted :
  exists t : value, a_IsNesting (erase_all t) <> a_IsNesting t /\
                    a_IsNesting t = Ok false /\ a_IsNesting (erase_all t) = Ok true.
Proof. exact erase_all_isnesting_refuted. Qed.
Print Assumptions c12_erase_all_isnesting_refuted.

(* ---- examples --------------------------------------------------------------- *)

(* And().Push("a",
              &aStack(Or().SetParen(true).Push("b", sCond(Cond("k", Ge, aStack(Not().Push("z")))))),
              aCond(Cond("n", Eq, 7)), nil)
   every alias kind occurs; the guard of the String theorem holds *)
Definition ex_tree : value :=
  VStack Native (cfgS 1 0 [] [] [] false 0)
    [ VLeaf (GStr (B "a"));
      VStack AliasPtr (cfgS 2 1 [] [] [] false 0)
        [ VLeaf (GStr (B "b"));
          VCond AliasValStr (cfgS 5 0 [] [] [] false 0) (B "k") (Some (OpBuiltin 6))
                (VStack AliasVal (cfgS 3 0 [] [] [] false 0) [VLeaf (GStr (B "z"))]) ];
      VCond AliasPtrStr (cfgS 5 0 [] [] [] false 0) (B "n") (Some (OpBuiltin 1)) (VLeaf (GInt 0 7));
      VNil ].

Example c12_hypotheses_satisfiable :
  cond_exprs_ok ex_tree = true /\ native_tree ex_tree = false /\ no_zero_alias ex_tree = true /\
  a_string ex_tree = Ok (B "a AND ( b OR k >= z ) AND n = 7 AND UNKNOWN") /\
  a_string (erase_alias ex_tree) = a_string ex_tree /\
  a_IsNesting ex_tree = Ok true /\
  a_IsEqual ex_tree (erase_alias ex_tree) = Ok true /\ a_IsEqual (erase_alias ex_tree) ex_tree = Ok true.
Proof. vm_compute. repeat split. Qed.

Example c12_convert_run :
  ConvertStack (VStack AliasPtrStr (cfg0 2) [VNil]) = Some (VStack Native (cfg0 2) [VNil]) /\
  ConvertStack (VZeroStack AliasPtr) = None /\
  ConvertStack (VLeaf (GNilPtr 2 110)) = None /\ ConvertStack (VLeaf (GPtr (GNilPtr 1 111))) = None /\
  ConvertStack (VLeaf (GInt 0 5)) = None /\ ConvertStack VNil = None /\
  ConvertCondition (VStack AliasVal (cfg0 2) []) = None.
Proof. vm_compute. repeat split. Qed.

(* Defrag and Transfer on a tree with aliases: the alias typing of the nodes
   is kept, their contents change as in the native tree *)
Example c12_defrag_transfer_run :
  a_Defrag [] (VStack Native (cfg0 6) [VStack AliasPtr (cfg0 6) [VNil; VNil; VNil; VNil; VNil; VLeaf (GInt 0 1)]; VLeaf (GInt 0 2)])
  = Ok (VStack Native (cfg0 6) [VStack AliasPtr (cfg0 6) [VLeaf (GInt 0 1)]; VLeaf (GInt 0 2)]) /\
  a_Transfer (VStack Native (cfg0 1) [VLeaf (GInt 0 1); VStack AliasVal (cfg0 2) []])
             (VStack AliasPtr (cfg0 6) [VLeaf (GInt 0 9)])
  = Ok (VStack AliasPtr (cfg0 6) [VLeaf (GInt 0 9); VLeaf (GInt 0 1); VStack AliasVal (cfg0 2) []], true).
Proof. vm_compute. split; reflexivity. Qed.

(* "a non-nil pointer to one", at ANY depth: the models do not tell pointer
   depths apart (AliasPtr), and that is what the source does - one iteration
   of derefPtr's loop, regenerated from misc.go (the loop must be the bare
   "for"), strips one level while the type is a pointer and nothing else ends
   the loop, so a chain of n pointers is followed to its end for every n *)
Theorem c12_pointer_chase_has_no_depth_limit :
  (forall n : nat, DerefTie.chase n = O) /\
  Generated.g_derefPtr_body_tails =
    ["t = t.Elem(); if v.IsValid() { v = v.Elem() }; continue"%string; "break"%string].
Proof. split; [exact DerefTie.chase_strips_every_level|exact DerefTie.deref_cut_tails]. Qed.
Print Assumptions c12_pointer_chase_has_no_depth_limit.
