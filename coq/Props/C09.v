(* C09 -- a read-only Stack or Condition cannot be changed.  Property theorems only. *)
From Stackage Require Import Base Generated CfgProps StackImpl StackSpec StackRefine StackCorollaries Guard GeneratedIR GuardProps.
Open Scope Z_scope.

(* (a) static, over the guard IR regenerated from /repo: for EVERY exported
   method of Stack, *Stack, Condition, *Condition that exists in the source
   now - except SetReadOnly/ReadOnly, SetErr and Condition.Init - no execution
   on an initialised read-only receiver contains a store into that receiver
   (slice header, slots, any configuration field, condition parts, the
   handle).  Free therefore cannot release it. *)
Theorem c09_ro_no_write_every_method :
  forall e, In e ir_entries -> is_inst_class e = true -> named ro_exceptions e = false ->
            entry_ok ir_table bad_ro env_ro e.
Proof. apply ro_no_write_static. vm_compute. reflexivity. Qed.
Print Assumptions c09_ro_no_write_every_method.

(* (b) on the list model: every mutator leaves a read-only stack exactly as
   it was (content, order, kind, capacity, FIFO mode, options, policy, error) *)
Theorem c09_ro_frame :
  forall (V : Type) (nilv : V) (isnil isstack : V -> bool) (pol : N -> V -> option N)
         (c : scfg) (els : list V) (o : op V),
    has (k_opt c) f_ronly = true ->
    match o with OSetOpt f _ => f <> f_ronly | _ => True end ->
    is_observer V o = false ->
    exists x, step V nilv isnil isstack pol (mk V c els) o = Ok (mk V c els, x).
Proof. exact ro_frame. Qed.
Print Assumptions c09_ro_frame.

(* clearing the flag restores full mutability with the state exactly as it was *)
Theorem c09_ro_roundtrip :
  forall (V : Type) (nilv : V) (isnil isstack : V -> bool) (pol : N -> V -> option N) (c : scfg) (els : list V),
    exists c1 c2,
      step V nilv isnil isstack pol (mk V c els) (OSetOpt f_ronly (Some true)) = Ok (mk V c1 els, RUnit) /\
      step V nilv isnil isstack pol (mk V c1 els) (OSetOpt f_ronly (Some false)) = Ok (mk V c2 els, RUnit) /\
      k_opt c2 = N.ldiff (k_opt c) f_ronly /\
      k_typ c2 = k_typ c /\ k_cap c2 = k_cap c /\ k_ord c2 = k_ord c /\ k_err c2 = k_err c /\ k_ppf c2 = k_ppf c.
Proof. exact ro_roundtrip. Qed.
Print Assumptions c09_ro_roundtrip.

(* the read-only test (like every option test) of an instance that carries a
   kind reads the option word and nothing else - in particular not the error
   field, which SetErr may change on a read-only instance *)
Theorem c09_option_test_reads_option_word_only :
  forall (typ opt f : N), typ <> 0%N -> g_cfg_positive typ opt f = g_flag_positive opt f.
Proof. exact cfg_positive_is_bit. Qed.
Print Assumptions c09_option_test_reads_option_word_only.

Example c09_nonvacuous :
  (* the entry list is not empty, contains mutators, and Free is among the checked ones *)
  (80 <= length ir_entries)%nat /\
  existsb (fun e => bytes_eqb (en_name e) (B "Free") && is_inst_class e && negb (named ro_exceptions e)) ir_entries = true /\
  existsb (fun e => bytes_eqb (en_name e) (B "Push") && is_inst_class e && negb (named ro_exceptions e)) ir_entries = true.
Proof. vm_compute. repeat split; try reflexivity. repeat constructor. Qed.
