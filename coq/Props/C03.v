(* C03 -- a Stack created with capacity k never holds more than k elements.
   Property theorems only; proofs in StackCorollaries.v / StackRefine.v. *)
From Stackage Require Import Base Generated StackImpl StackSpec StackSpecLemmas StackRefine StackCorollaries TransferImpl TransferSpec TransferProofs.
From Stackage Require Import PushTie ConstructTie.
Open Scope Z_scope.

(* Every state reachable from a constructor call with capacity k >= 1 by ANY
   finite history of the 24 operations (growth by Push batches / Insert mixed
   with Pop / Remove / Reset, any kind, LIFO or FIFO, any option switching,
   any push policy) holds at most k elements, is well-formed, and answers
   Len/Cap/Avail/IsFull with n, k, k-n, n==k. *)
Theorem c03_capacity_never_exceeded :
  forall (V : Type) (nilv : V) (isnil isstack : V -> bool) (pol : N -> V -> option N),
    isnil nilv = true -> (forall v, isnil v = true -> v = nilv) ->
    forall (t : N) (fifo : bool) (k : Z) (ops : list (op V)),
      0 < k < Bnd - 1 -> growth V ops < Bnd -> Forall (op_i64 V) ops ->
      exists c' els' outs,
        run V nilv isnil isstack pol (new_stack V t fifo (Some k)) ops = Ok (mk V c' els', outs) /\
        zlen els' <= k /\
        step V nilv isnil isstack pol (mk V c' els') OLen = Ok (mk V c' els', RInt (zlen els')) /\
        step V nilv isnil isstack pol (mk V c' els') OCap = Ok (mk V c' els', RInt k) /\
        step V nilv isnil isstack pol (mk V c' els') OAvail = Ok (mk V c' els', RInt (k - zlen els')) /\
        step V nilv isnil isstack pol (mk V c' els') OIsFull = Ok (mk V c' els', RBool (zlen els' =? k)).
Proof.
  intros V nilv isnil isstack pol H1 H2 t fifo k ops Hk Hg Hi.
  destruct (reachable V nilv isnil isstack pol H1 H2 t fifo (Some k) ops (proj2 Hk) Hg Hi)
    as (c & c' & els' & outs & souts & _ & R & _ & _ & _ & _ & _ & Hcap & Hle).
  exists c', els', outs. split; [exact R|]. split; [apply Hle; lia|].
  destruct (Z.ltb_spec 0 k); [|lia].
  apply (observers_cap V nilv isnil isstack pol H1 c' els' k Hcap Hk (Hle ltac:(lia))).
Qed.
Print Assumptions c03_capacity_never_exceeded.

(* without a capacity: Cap = -1, Avail = -1, never full, in every reachable state *)
Theorem c03_no_capacity_observers :
  forall (V : Type) (nilv : V) (isnil isstack : V -> bool) (pol : N -> V -> option N),
    isnil nilv = true -> (forall v, isnil v = true -> v = nilv) ->
    forall (t : N) (fifo : bool) (cp : option Z) (ops : list (op V)),
      match cp with Some k => k <= 0 | None => True end ->
      growth V ops < Bnd -> Forall (op_i64 V) ops ->
      exists c' els' outs,
        run V nilv isnil isstack pol (new_stack V t fifo cp) ops = Ok (mk V c' els', outs) /\
        step V nilv isnil isstack pol (mk V c' els') OCap = Ok (mk V c' els', RInt (-1)) /\
        step V nilv isnil isstack pol (mk V c' els') OAvail = Ok (mk V c' els', RInt (-1)) /\
        step V nilv isnil isstack pol (mk V c' els') OIsFull = Ok (mk V c' els', RBool false).
Proof.
  intros V nilv isnil isstack pol H1 H2 t fifo cp ops Hcp Hg Hi.
  destruct (reachable V nilv isnil isstack pol H1 H2 t fifo cp ops
              ltac:(destruct cp; [unfold Bnd; lia|exact I]) Hg Hi)
    as (c & c' & els' & outs & souts & _ & R & _ & Hb & _ & _ & _ & Hcap & _).
  exists c', els', outs. split; [exact R|].
  apply (observers_nocap V nilv isnil isstack pol c' els'); [|exact Hb].
  rewrite Hcap. destruct cp as [k|]; [|reflexivity]. destruct (Z.ltb_spec 0 k); [lia|reflexivity].
Qed.
Print Assumptions c03_no_capacity_observers.

(* surplus values are dropped keeping the earliest-offered ones in order *)
Theorem c03_push_keeps_earliest :
  forall (V : Type) (nilv : V) (isnil isstack : V -> bool) (pol : N -> V -> option N),
    isnil nilv = true ->
    forall (c : scfg) (els vs : list V) (k : Z),
      k_cap c = k + 1 -> 0 < k < Bnd - 1 -> zlen els <= k ->
      has (k_opt c) f_ronly = false -> has (k_opt c) f_nnest = false -> k_ppf c = None ->
      step V nilv isnil isstack pol (mk V c els) (OPush vs)
      = Ok (mk V c (els ++ firstn (Z.to_nat (k - zlen els)) vs), RLog []).
Proof. exact push_keeps_prefix. Qed.
Print Assumptions c03_push_keeps_earliest.

(* Insert on a full stack fails without changing it *)
Theorem c03_insert_full_noop :
  forall (V : Type) (nilv : V) (isnil isstack : V -> bool) (pol : N -> V -> option N),
    isnil nilv = true ->
    forall (c : scfg) (els : list V) (v : V) (i k : Z),
      k_cap c = k + 1 -> 0 < k < Bnd - 1 -> zlen els = k ->
      step V nilv isnil isstack pol (mk V c els) (OInsert v i) = Ok (mk V c els, RBool false).
Proof. exact insert_full_noop. Qed.
Print Assumptions c03_insert_full_noop.

(* Transfer-into respects the destination's capacity as well: whatever the
   source holds, the destination stays well-formed and within its capacity *)
Theorem c03_transfer_into_within_capacity :
  forall (V : Type) (nilv : V) (isnil isstack : V -> bool) (pol : N -> V -> option N),
    isnil nilv = true ->
    forall (cs : scfg) (es : list V) (cd : scfg) (dels : list V),
      zlen es < Bnd -> zlen dels + zlen es < Bnd -> cap_ok cd (zlen dels) ->
      exists cd' dels' ok,
        Transfer V nilv isnil isstack pol (mk V cs es) (Some (mk V cd dels)) = Ok (Some (mk V cd' dels'), ok) /\
        cap_ok cd' (zlen dels').
Proof.
  intros V nilv isnil isstack pol H1 cs es cd dels Hs Hd Hc.
  destruct (transfer_refines V nilv isnil isstack pol H1 cs es cd dels Hs Hd Hc) as (cd' & dels' & ok & T & _ & C).
  exists cd', dels', ok. auto.
Qed.
Print Assumptions c03_transfer_into_within_capacity.

(* the specification itself keeps within capacity under every operation *)
Theorem c03_spec_within :
  forall V nilv isnil isstack pol (ops : list (sop V)) (s : sstate V),
    within V s -> within V (fst (srun V nilv isnil isstack pol s ops)).
Proof. exact srun_within. Qed.
Print Assumptions c03_spec_within.

Definition res_len {V U} (r : res (raw V * U)) : option Z := match r with Ok (r', _) => Some (zlen r') | _ => None end.


(* the model's push loop IS the loop of the source: one iteration of
   stack.genericAppend, regenerated from /repo (the body of its single loop,
   with canPushNester and isFull regenerated too), is what the model's
   iteration does - for every option word, capacity, content and value *)
Theorem c03_generic_push_loop_is_the_source_loop :
  forall (V : Type) (isstack : V -> bool) (c : scfg) (r : raw V) (x : V) (xs : list V),
    generic_append V isstack c r (x :: xs) =
    match g_genericAppend_body (g_canPushNester (positive c c_nnest) (isstack x)) (g_isFull (zlen r) (k_cap c)) with
    | TCut 0 _ _ => generic_append V isstack c (r ++ [SVal x]) xs
    | _ => generic_append V isstack c r xs
    end.
Proof. exact generic_append_iteration. Qed.
Print Assumptions c03_generic_push_loop_is_the_source_loop.

(* ... and so is the loop used when a push policy is installed
   (stack.methodAppend): room is tested before the policy is consulted, a
   rejection records the error and ends the batch (cut 0: "r.setErr(err);
   break"), an approval appends (cut 1) *)
Theorem c03_policy_push_loop_is_the_source_loop :
  forall (V : Type) (pol : N -> V -> option N) (p : N) (c : scfg) (r : raw V) (x : V) (xs log : list V),
    method_append V pol p c r (x :: xs) log =
    match g_methodAppend_body (g_isFull (zlen r) (k_cap c)) (match pol p x with Some _ => true | None => false end) with
    | TCut 0 _ _ => (r, pol p x, log ++ [x])
    | TCut 1 _ _ => method_append V pol p c (r ++ [SVal x]) xs (log ++ [x])
    | _ => method_append V pol p c r xs log
    end /\
    g_methodAppend_body_tails = ["r.setErr(err); break"%string; "*r = append(*r, x[i]); pct++"%string] /\
    g_genericAppend_body_tails = ["*r = append(*r, x[i]); pct++"%string].
Proof.
  intros. split; [exact (method_append_iteration V pol p c r x xs log)|].
  split; [exact method_append_cut_tails|exact generic_append_cut_tails].
Qed.
Print Assumptions c03_policy_push_loop_is_the_source_loop.

(* the limit a constructor records is the one the source records, at every
   size (Generated.g_newStack_cap is regenerated from newStack in stack.go:
   the assignments to cfg.cap on each path, up to "return instance") *)
Theorem c03_constructor_records_the_limit_at_every_size :
  forall (V : Type) (t : N) (fifo : bool) (k : Z),
    0 < k -> in_i64 (k + 1) ->
    exists cfg, new_stack V t fifo (Some k) = [SCfg cfg] /\ k_cap cfg = k + 1 /\
      g_newStack_cap 1 k fifo = TCut 0 [k + 1] [].
Proof. exact ConstructTie.new_stack_cap_positive. Qed.
Print Assumptions c03_constructor_records_the_limit_at_every_size.

Theorem c03_constructor_capacity_is_the_source_rule :
  forall (V : Type) (t : N) (fifo : bool) (c : option Z),
    (forall k, c = Some k -> in_i64 (k + 1)) ->
    exists cfg, new_stack V t fifo c = [SCfg cfg] /\
      g_newStack_cap (match c with Some _ => 1 | None => 0 end)
                     (match c with Some k => k | None => 0 end) fifo = TCut 0 [k_cap cfg] [].
Proof. exact ConstructTie.new_stack_cap_is_source. Qed.
Print Assumptions c03_constructor_capacity_is_the_source_rule.

Example c03_nonvacuous :
  let ops := [OPush [Some 1; Some 2; Some 3]; OPop; OInsert (Some 9) 0; OPush [Some 4; Some 5]] in
  0 < 2 < Bnd - 1 /\ growth (option Z) ops < Bnd /\ Forall (op_i64 (option Z)) ops /\
  res_len (run (option Z) None (fun v => match v with None => true | _ => false end) (fun _ => false) (fun _ _ => None)
             (new_stack _ 1 false (Some 2)) ops) = Some 3.
Proof.
  cbv zeta. split; [unfold Bnd; lia|]. split; [vm_compute; reflexivity|].
  split; [repeat constructor; unfold in_i64, two63; lia|]. vm_compute. reflexivity.
Qed.
