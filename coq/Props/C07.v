(* C07 -- Traverse(path) equals stepwise Index descent.
   Property theorems only; proofs live in TraverseProofs.v.

   Vocabulary:
   - [Traverse vpol r path]   the model of Stack.Traverse (Traverse.v: the loop
     of stack.traverse, traverseAssertionHandler, traverseStackInCondition,
     traverseStack, stack.index with the regenerated index arithmetic of
     Generated.v), outcome [Ok (value, ok)] / [Panic] / [Unmodelled];
   - [spec_traverse vpol r path]  stepwise Index descent (TraverseSpec.v);
   - [reaches vpol c els path ps v]  the same as a relation naming the
     positions [ps] visited level by level;
   - [vpol]  the user's validity policies: ANY function (policy id, stack) ->
     "returns an error"; a stack is [usable] iff it has no policy or its policy
     accepts it (Stack.Valid() == nil);
   - trees are arbitrary [value]s: every node has its own option word
     (negative / forward indices), nil slots, leaves, Conditions, zero
     instances, aliases;
   - [Forall in_i64 path]: the indices are Go ints;
     [forall_nodes width_ok t]: every slice is shorter than 2^61 elements. *)
From Stackage Require Import Base Generated StackImpl Values StackSpec TraverseSpec Traverse TraverseProofs.
Open Scope Z_scope.

(* THE PROPERTY, for every tree in which no Condition is held through a
   user-defined alias type, every path, every policy function: Traverse never
   panics and returns exactly what stepwise Index descent returns. *)
Theorem c07_traverse_eq_stepwise :
  forall (vpol : N -> config -> list value -> bool) (a : akind) (c : config) (els : list value) (path : list Z),
    Forall in_i64 path ->
    forall_nodes width_ok (VStack a c els) = true ->
    forall_nodes cond_native (VStack a c els) = true ->
    Traverse vpol (VStack a c els) path = Ok (spec_traverse vpol (VStack a c els) path).
Proof. exact Traverse_eq_stepwise. Qed.
Print Assumptions c07_traverse_eq_stepwise.

(* For EVERY tree (alias-typed Conditions included): the same, except that a
   Condition is handed back converted to the native type ([natc]); ok and
   every other kind of value are exact. *)
Theorem c07_traverse_eq_stepwise_any_tree :
  forall (vpol : N -> config -> list value -> bool) (a : akind) (c : config) (els : list value) (path : list Z),
    Forall in_i64 path ->
    forall_nodes width_ok (VStack a c els) = true ->
    Traverse vpol (VStack a c els) path =
    Ok (natc (fst (spec_traverse vpol (VStack a c els) path)), snd (spec_traverse vpol (VStack a c els) path)).
Proof.
  intros vpol a c els path Hp Hw. rewrite (Traverse_eq_stepwise_conv vpol a c els path Hp Hw).
  destruct (spec_traverse vpol (VStack a c els) path); reflexivity.
Qed.
Print Assumptions c07_traverse_eq_stepwise_any_tree.

(* The exact statement is FALSE once a Condition is stored through an alias
   type: Index(0) returns the alias value, Traverse(0) a native Condition
   (traverseStackInCondition returns the converted copy, traverseStack the
   original).  Witness: And().Push(aliasCond(k = v)), path (0). *)
Theorem c07_alias_condition_exactness_refuted :
  exists t path,
    Forall in_i64 path /\ forall_nodes width_ok t = true /\
    Traverse no_vpol t path <> Ok (spec_traverse no_vpol t path) /\
    Traverse no_vpol t path = Ok (natc (fst (spec_traverse no_vpol t path)), true).
Proof. exact alias_condition_exactness_refuted. Qed.
Print Assumptions c07_alias_condition_exactness_refuted.

(* an empty path returns (nil, false), on every receiver *)
Theorem c07_traverse_nil_path :
  forall (vpol : N -> config -> list value -> bool) (r : value),
    (exists a c els, r = VStack a c els) \/ (exists a, r = VZeroStack a) ->
    Traverse vpol r [] = Ok (VNil, false).
Proof. exact Traverse_nil_path. Qed.
Print Assumptions c07_traverse_nil_path.

Theorem c07_traverse_zero_receiver :
  forall (vpol : N -> config -> list value -> bool) (a : akind) (path : list Z),
    Traverse vpol (VZeroStack a) path = Ok (VNil, false).
Proof. exact Traverse_zero_receiver. Qed.
Print Assumptions c07_traverse_zero_receiver.

(* success iff every step found a non-nil element, every intermediate value
   was descendable and every stack entered was valid ([reaches]); otherwise
   the value is nil *)
Theorem c07_traverse_ok_iff :
  forall (vpol : N -> config -> list value -> bool) (a : akind) (c : config) (els : list value) (path : list Z)
         (v : value) (ok : bool),
    Forall in_i64 path ->
    forall_nodes width_ok (VStack a c els) = true ->
    Traverse vpol (VStack a c els) path = Ok (v, ok) ->
    (ok = true <-> exists ps w, reaches vpol c els path ps w) /\
    (ok = false -> v = VNil).
Proof. exact Traverse_ok_iff. Qed.
Print Assumptions c07_traverse_ok_iff.

(* never a value reached through a different sibling: a successful call
   returns the node whose tree address is exactly the list of positions the
   indices resolve to, level by level, and that list is unique *)
Theorem c07_traverse_no_sibling :
  forall (vpol : N -> config -> list value -> bool) (a : akind) (c : config) (els : list value) (path : list Z)
         (v : value),
    Forall in_i64 path ->
    forall_nodes width_ok (VStack a c els) = true ->
    Traverse vpol (VStack a c els) path = Ok (v, true) ->
    exists ps w, reaches vpol c els path ps w /\
                 length ps = length path /\
                 at_pos (VStack a c els) ps = Some w /\
                 is_nil w = false /\ v = natc w /\
                 (forall ps' w', reaches vpol c els path ps' w' -> ps' = ps /\ w' = w).
Proof. exact Traverse_no_sibling. Qed.
Print Assumptions c07_traverse_no_sibling.

(* a receiver whose validity policy rejects it yields (nil, false) *)
Theorem c07_traverse_invalid_receiver :
  forall (vpol : N -> config -> list value -> bool) (a : akind) (c : config) (els : list value) (path : list Z),
    usable vpol c els = false -> Traverse vpol (VStack a c els) path = Ok (VNil, false).
Proof. exact Traverse_invalid_receiver. Qed.
Print Assumptions c07_traverse_invalid_receiver.

(* D07 for the record: with the former `continue` after a failed descent
   (Traverse_gen .. true) the property is false -- Traverse(0,1) on
   ["leaf", ["x","y"]] returns ("y", true); the code as it is returns
   (nil, false) like the specification. *)
Theorem c07_unrepaired_loop_sibling_refuted :
  exists t path,
    Forall in_i64 path /\ forall_nodes width_ok t = true /\ forall_nodes cond_native t = true /\
    Traverse_gen no_vpol true t path = Ok (leaf "y", true) /\
    spec_traverse no_vpol t path = (VNil, false) /\
    Traverse no_vpol t path = Ok (VNil, false).
Proof. exact unrepaired_loop_sibling_refuted. Qed.
Print Assumptions c07_unrepaired_loop_sibling_refuted.

(* ---- the specification is the natural object ---- *)

(* stepwise descent succeeds with v iff the positions relation holds *)
Theorem c07_spec_stepwise_iff_reaches :
  forall (vpol : N -> config -> list value -> bool) (c : config) (els : list value) (path : list Z) (v : value),
    stepwise vpol c els path = (v, true) <-> exists ps, reaches vpol c els path ps v.
Proof.
  intros vpol c els path v. split.
  - apply stepwise_reaches.
  - intros [ps R]. exact (reaches_stepwise vpol c els path ps v R).
Qed.
Print Assumptions c07_spec_stepwise_iff_reaches.

Theorem c07_spec_reaches_functional :
  forall (vpol : N -> config -> list value -> bool) (c : config) (els : list value) (path ps : list Z) (v : value),
    reaches vpol c els path ps v ->
    forall ps' v', reaches vpol c els path ps' v' -> ps' = ps /\ v' = v.
Proof. exact reaches_functional. Qed.
Print Assumptions c07_spec_reaches_functional.

(* what an index addresses (README): in range -> itself; negative -> counted
   from the end, only with negative indices on and within the length; past
   the end -> the last element, only with forward indices on *)
Theorem c07_spec_position_plain :
  forall (c : config) (els : list value) (i : Z), 0 <= i < zlen els -> position c els i = Some i.
Proof. exact position_plain. Qed.
Print Assumptions c07_spec_position_plain.

Theorem c07_spec_position_negative :
  forall (c : config) (els : list value) (i p : Z), i < 0 ->
    (position c els i = Some p <-> has (c_opt c) f_negidx = true /\ - zlen els <= i /\ p = zlen els + i).
Proof. exact position_negative. Qed.
Print Assumptions c07_spec_position_negative.

Theorem c07_spec_position_forward :
  forall (c : config) (els : list value) (i p : Z), zlen els <= i ->
    (position c els i = Some p <-> has (c_opt c) f_fwdidx = true /\ 0 < zlen els /\ p = zlen els - 1).
Proof. exact position_forward. Qed.
Print Assumptions c07_spec_position_forward.

(* ---- non-vacuity ---- *)

(* a tree of depth 3 with per-level index options, a nil slot, a Condition in
   front of a stack, a Condition with a leaf, a stack with a rejecting and one
   with an accepting validity policy *)
Definition ex_cfg (opt : N) (vpf : option N) : config :=
  {| c_typ := 1; c_cap := 0; c_opt := opt; c_sym := []; c_ljc := []; c_enc := [];
     c_ord := false; c_mtx := false; c_err := None; c_id := []; c_cat := [];
     c_ppf := None; c_vpf := vpf; c_rpf := None; c_eqf := None;
     c_umf := None; c_maf := None; c_evl := None; c_lss := None;
     c_lvl := 0; c_log := 0; c_aux := None |}.
Definition ex_vpol (p : N) (c : config) (els : list value) : bool := N.odd p.
Definition ex_tree : value :=
  VStack Native (ex_cfg 16 None)
    [ leaf "a";
      VNil;
      VStack Native (ex_cfg 32 (Some 2%N))
        [ leaf "b";
          VCond Native (cfg0 5) (B "kw") (Some (OpBuiltin 1))
            (VStack Native (ex_cfg 48 None) [VNil; leaf "deep"]) ];
      VCond Native (cfg0 5) (B "k2") (Some (OpBuiltin 1)) (leaf "c");
      VStack Native (ex_cfg 0 (Some 1%N)) [leaf "hidden"] ].
Definition ex_paths : list (list Z) :=
  [ []; [0]; [1]; [2]; [-3; 7; -1]; [2; 1; 1]; [2; 1; 0]; [0; 2]; [3]; [3; 0]; [4]; [4; 0]; [-1; 0]; [5];
    [-9223372036854775808]; [2; 9223372036854775807; 5] ].

Example c07_hypotheses_satisfiable :
  Forall (Forall in_i64) ex_paths /\
  forall_nodes width_ok ex_tree = true /\ forall_nodes cond_native ex_tree = true.
Proof.
  split; [|split; vm_compute; reflexivity].
  repeat constructor; unfold in_i64, two63; lia.
Qed.

(* the model and the specification, evaluated inside Coq, on these paths:
   (a, deep via -3 / forward 7 / -1, deep via 2,1,1) succeed; the nil slot,
   the leaf with indices left, the Condition with a leaf expression, the
   stack whose policy rejects, and the out-of-range indices fail *)
Example c07_concrete_run :
  map (Traverse ex_vpol ex_tree) ex_paths = map (fun p => Ok (spec_traverse ex_vpol ex_tree p)) ex_paths /\
  map (fun p => snd (spec_traverse ex_vpol ex_tree p)) ex_paths =
  [false; true; false; true; true; true; false; false; true; false; true; false; false; false; false; true] /\
  spec_traverse ex_vpol ex_tree [-3; 7; -1] = (leaf "deep", true) /\
  (exists w, reaches ex_vpol (ex_cfg 16 None)
               match ex_tree with VStack _ _ els => els | _ => [] end [-3; 7; -1] [2; 1; 1] w).
Proof.
  split; [vm_compute; reflexivity|].
  split; [vm_compute; reflexivity|].
  split; [vm_compute; reflexivity|].
  eexists.
  eapply reach_step; [reflexivity|reflexivity|reflexivity|reflexivity|reflexivity|].
  eapply reach_step; [reflexivity|reflexivity|reflexivity|reflexivity|reflexivity|].
  eapply reach_last; reflexivity.
Qed.
