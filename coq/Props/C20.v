(* C20 -- Reveal only removes redundant wrappers.  Property theorems only;
   proofs live in RevealProofs.v (model) and RevealSpecLemmas.v
   (specification alone).

   [Reveal : value -> res outcome] is the model of Stack.Reveal (Reveal.v): it
   loads the tree into a heap of nodes, runs stack.reveal / revealDescend /
   revealSingle on it with Go's pointer semantics (slots overwritten in
   place, detached wrappers still revealed, mutexes taken and released), and
   reads the receiver back.  [Returned t' locks] = the call returned with the
   receiver now t'; [Blocked _] = it requested a mutex it already held;
   [Panic] = Go would panic; [Unmodelled] = fuel exhausted / ill-formed heap.
   All statements quantify over ALL trees: any depth and width, every mix of
   kinds, option bits, typings, Conditions holding Stacks, empty Stacks, zero
   instances, nil slots, mutex on any subset of nodes. *)
From Stackage Require Import Base Generated StackImpl Values RevealSpec RevealSpecLemmas Reveal RevealHeap RevealProofs.
Open Scope nat_scope.

(* Reveal returns: it neither panics, nor blocks on a mutex, nor runs out of
   fuel -- for every tree. *)
Theorem c20_reveal_returns :
  forall t : value, exists t' locks, Reveal t = Ok (Returned t' locks).
Proof. exact reveal_total. Qed.
Print Assumptions c20_reveal_returns.

(* The depth-first sequence of leaf values (nil slots and zero instances
   included), with one token per Condition carrying its keyword and operator,
   is identical before and after: nothing added, dropped, duplicated or
   reordered anywhere in the tree. *)
Theorem c20_reveal_leaves :
  forall t t' locks, Reveal t = Ok (Returned t' locks) -> dfs_leaves t' = dfs_leaves t.
Proof. exact reveal_leaves. Qed.
Print Assumptions c20_reveal_leaves.

(* Nesting depth never grows. *)
Theorem c20_reveal_depth_le :
  forall t t' locks, Reveal t = Ok (Returned t' locks) -> depth t' <= depth t.
Proof. exact reveal_depth_le. Qed.
Print Assumptions c20_reveal_depth_le.

(* Parenthetical and NOT stacks survive: the same ones (whole configuration
   record), in the same depth-first order. *)
Theorem c20_reveal_keeps_paren_not :
  forall t t' locks, Reveal t = Ok (Returned t' locks) -> pn_stacks t' = pn_stacks t.
Proof. exact reveal_keeps_paren_not. Qed.
Print Assumptions c20_reveal_keeps_paren_not.

(* The tree before and the tree after reduce to the same fully-unwrapped
   form. *)
Theorem c20_reveal_same_normal_form :
  forall t t' locks, Reveal t = Ok (Returned t' locks) -> unwrap_all t' = unwrap_all t.
Proof. exact reveal_same_normal_form. Qed.
Print Assumptions c20_reveal_same_normal_form.

(* "The only change it makes": NO observation of trees that is compositional,
   blind to how a nested Stack is typed, and unable to tell a redundant
   wrapper (a non-parenthetical, non-NOT Stack with exactly one element that
   is a non-parenthetical Stack or Condition) from that element can tell the
   result from the argument.  The three theorems above are instances. *)
Theorem c20_reveal_only_unwraps :
  forall t t' locks, Reveal t = Ok (Returned t' locks) ->
  forall (A : Type) (Q : value -> A), wrapper_blind Q -> Q t' = Q t.
Proof. exact reveal_only_unwraps. Qed.
Print Assumptions c20_reveal_only_unwraps.

(* No deadlock with the mutex enabled on any subset of the nodes: the run of
   stack.reveal on the root of the loaded tree ends normally, holds no mutex
   at the end, and its acquire/release events (by node) replay from "nothing
   held" to "nothing held" without ever acquiring a held mutex or releasing a
   free one. *)
Theorem c20_reveal_lock_balanced :
  forall a c els, exists root s,
    run_root (VStack a c els) = (root, MOk tt s) /\
    held s = [] /\ run_locks Nat.eqb (evs s) [] = Some [].
Proof. exact reveal_lock_balanced. Qed.
Print Assumptions c20_reveal_lock_balanced.

(* Fuel: the recursion needs no more fuel than the index of the root node
   plus one (what Reveal supplies), and with ANY larger amount the run ends
   normally with the same leaves and the same fully-unwrapped form. *)
Theorem c20_reveal_fuel_sufficient :
  forall a c els root h, load (VStack a c els) [] = (root, h) ->
  exists p, root = SS a p /\ forall f, p < f ->
    exists s, reveal f p (mkSt h [] []) = MOk tt s /\
              dfs_leaves (slot_val (table (hp s)) root) = dfs_leaves (VStack a c els) /\
              unwrap_all (slot_val (table (hp s)) root) = unwrap_all (VStack a c els).
Proof. exact reveal_fuel_sufficient. Qed.
Print Assumptions c20_reveal_fuel_sufficient.

(* ... and the amount of fuel above that bound does not matter at all: the
   run is literally the same. *)
Theorem c20_reveal_fuel_irrelevant :
  forall a c els root h, load (VStack a c els) [] = (root, h) ->
  exists p, root = SS a p /\ forall f, p < f ->
    reveal f p (mkSt h [] []) = reveal (S p) p (mkSt h [] []).
Proof. exact reveal_fuel_irrelevant. Qed.
Print Assumptions c20_reveal_fuel_irrelevant.

(* The two places where the model restates integer logic of stack.go by hand
   agree with what the translator regenerates from /repo on every run
   (Generated.g_index from stack.index, Generated.g_replace from
   stack.replace) for all 64-bit lengths and indices. *)
Theorem c20_index_matches_translation :
  forall c L i, (0 <= L < two63 - 1)%Z -> (- two63 + 1 < i < two63 - 1)%Z ->
  g_index L (positive c c_negidx) (positive c c_fwdidx) i =
  if (0 <? L)%Z then
    match index_sel c L i with
    | Some k => TCut 0 [k; 0%Z] [true]
    | None => TRet [i; 0%Z] [false]
    end
  else TRet [i; 0%Z] [false].
Proof. exact index_sel_translation. Qed.
Print Assumptions c20_index_matches_translation.

Theorem c20_replace_matches_translation :
  forall L i, g_replace L i = if ((0 <=? i) && (i <? L))%Z then TCut 0 [i] [true] else TRet [i] [false].
Proof. exact replace_bounds_translation. Qed.
Print Assumptions c20_replace_matches_translation.

(* The heap representation loses nothing: a loaded tree reads back as itself
   from a well-formed heap. *)
Theorem c20_load_roundtrip :
  forall t root h, load t [] = (root, h) ->
    WFh h /\ slot_ok (map shape h) (length h) root /\ slot_val (table h) root = t.
Proof. exact load_root. Qed.
Print Assumptions c20_load_roundtrip.

(* ---- the specification is the natural object ---- *)

(* the fully-unwrapped form is a normal form: unwrapping it again changes
   nothing, and it contains no redundant wrapper *)
Theorem c20_spec_unwrap_all_idempotent : forall v, unwrap_all (unwrap_all v) = unwrap_all v.
Proof. exact unwrap_all_idem. Qed.
Print Assumptions c20_spec_unwrap_all_idempotent.

Theorem c20_spec_unwrap_all_no_redundant : forall v, has_redundant (unwrap_all v) = false.
Proof. exact unwrap_all_no_redundant. Qed.
Print Assumptions c20_spec_unwrap_all_no_redundant.

(* one rewrite step as the property states it -- a redundant wrapper,
   anywhere in the tree, replaced by its only element -- is invisible to every
   wrapper-blind observation and never deepens the tree; leaves, paren/NOT
   stacks and the fully-unwrapped form are wrapper-blind *)
Theorem c20_spec_step_invisible :
  forall (A : Type) (Q : value -> A), wrapper_blind Q -> forall x y, unwrap_step x y -> Q x = Q y.
Proof. exact @unwrap_step_blind. Qed.
Print Assumptions c20_spec_step_invisible.

Theorem c20_spec_step_depth : forall x y, unwrap_step x y -> depth y <= depth x.
Proof. exact unwrap_step_depth. Qed.
Print Assumptions c20_spec_step_depth.

Theorem c20_spec_observations_blind :
  wrapper_blind dfs_leaves /\ wrapper_blind pn_stacks /\ wrapper_blind unwrap_all.
Proof. exact (conj dfs_leaves_blind (conj pn_stacks_blind unwrap_all_blind)). Qed.
Print Assumptions c20_spec_observations_blind.

(* ---- non-vacuity: concrete runs inside Coq ---- *)
Definition ex_cfg (typ opt : N) (id : string) (mtx : bool) : config :=
  {| c_typ := typ; c_cap := 0; c_opt := opt; c_sym := []; c_ljc := []; c_enc := [];
     c_ord := false; c_mtx := mtx; c_err := None; c_id := B id; c_cat := [];
     c_ppf := None; c_vpf := None; c_rpf := None; c_eqf := None;
     c_umf := None; c_maf := None; c_evl := None; c_lss := None;
     c_lvl := 0; c_log := 0; c_aux := None |}.
Definition ex_leaf (s : string) : value := VLeaf (GStr (B s)).
Definition ex_st (id : string) (els : list value) : value := VStack Native (ex_cfg 1 0 id true) els.

(* And( Cond k = And(And(p,q)),  And( Or-paren(x,y) ),  And( And(a,b) ),  Not( And( And(z1,z2) ) ) ),
   every stack mutex-enabled *)
Definition ex_tree : value :=
  ex_st "r" [ VCond Native (ex_cfg 5 0 "c" false) (B "k") (Some (OpBuiltin 1))
                    (ex_st "w2" [ ex_st "in" [ex_leaf "p"; ex_leaf "q"] ]);
              ex_st "w1" [ VStack Native (ex_cfg 2 1 "par" true) [ex_leaf "x"; ex_leaf "y"] ];
              ex_st "w4" [ ex_st "in2" [ex_leaf "a"; ex_leaf "b"] ];
              VStack Native (ex_cfg 3 0 "not" true) [ ex_st "w3" [ ex_st "in3" [ex_leaf "z1"; ex_leaf "z2"] ] ] ].

(* the run returns, removes wrappers (the tree gets smaller), and all four
   observations agree; the lock events (by ID) are a valid history *)
Example c20_concrete_run :
  match Reveal ex_tree with
  | Ok (Returned t' locks) =>
      (vsize t' <? vsize ex_tree) = true /\ dfs_leaves t' = dfs_leaves ex_tree /\
      (depth t' <=? depth ex_tree) = true /\
      pn_stacks t' = pn_stacks ex_tree /\ unwrap_all t' = unwrap_all ex_tree /\
      run_locks bytes_eqb locks [] = Some [] /\ (0 <? length locks) = true
  | _ => False
  end.
Proof. vm_compute. repeat split; reflexivity. Qed.

(* Reveal does not promise the fully-unwrapped form, and the property does
   not say so: on And(A(B(C(x,y)))) only A is removed (the detached wrapper
   is processed again, its replacement is not). *)
Example c20_not_a_normaliser :
  let t := ex_st "r" [ex_st "A" [ex_st "B" [ex_st "C" [ex_leaf "x"; ex_leaf "y"]]]] in
  Reveal t = Ok (Returned (ex_st "r" [ex_st "B" [ex_st "C" [ex_leaf "x"; ex_leaf "y"]]])
                          (match Reveal t with Ok (Returned _ l) => l | _ => [] end)) /\
  has_redundant (ex_st "r" [ex_st "B" [ex_st "C" [ex_leaf "x"; ex_leaf "y"]]]) = true.
Proof. vm_compute. split; reflexivity. Qed.

(* the hypotheses of c20_reveal_only_unwraps are satisfiable by non-trivial
   observations: see c20_spec_observations_blind; and a redundant wrapper
   exists in ex_tree *)
Example c20_has_redundant : has_redundant ex_tree = true.
Proof. vm_compute. reflexivity. Qed.
