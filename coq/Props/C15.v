(* C15 -- Transfer copies everything or reports failure, and never touches
   the source.  Property theorems only; proofs in TransferProofs.v. *)
From Stackage Require Import Base Generated StackImpl StackSpec StackRefine TransferImpl TransferSpec TransferProofs.
From Stackage Require Import Guard GeneratedIR GuardProps.
Open Scope Z_scope.

(* For all source contents (any length, nil elements, LIFO or FIFO source),
   all destination contents, capacities, option words and push policies: the
   raw-slot model of Stack.Transfer (pre-check and success expression
   regenerated from /repo) returns without panic, keeps the destination
   well-formed and within capacity, and agrees with the specification
   stransfer.  The source is an input only: the operation has no way to
   return a changed source. *)
Theorem c15_transfer_refines :
  forall (V : Type) (nilv : V) (isnil isstack : V -> bool) (pol : N -> V -> option N),
    isnil nilv = true -> (forall v, isnil v = true -> v = nilv) ->
    forall (cs : scfg) (es : list V) (cd : scfg) (dels : list V),
      zlen es < Bnd -> zlen dels + zlen es < Bnd -> cap_ok cd (zlen dels) ->
      exists cd' dels' ok,
        Transfer V nilv isnil isstack pol (mk V cs es) (Some (mk V cd dels)) = Ok (Some (mk V cd' dels'), ok) /\
        stransfer V nilv isnil isstack pol es (abs V cd dels) = (abs V cd' dels', ok) /\
        cap_ok cd' (zlen dels').
Proof. intros V nilv isnil isstack pol H1 _. exact (transfer_refines V nilv isnil isstack pol H1). Qed.
Print Assumptions c15_transfer_refines.

(* true only if the destination ends as its previous elements followed by
   every element of the source in the source's order *)
Theorem c15_true_means_all_copied :
  forall (V : Type) (nilv : V) (isnil isstack : V -> bool) (pol : N -> V -> option N)
         (es : list V) (d d' : sstate V),
    isnil nilv = true ->
    stransfer V nilv isnil isstack pol es d = (d', true) -> s_elems d' = s_elems d ++ es.
Proof. intros V nilv isnil isstack pol es d d' H. exact (stransfer_true V nilv isnil isstack pol H es d d'). Qed.
Print Assumptions c15_true_means_all_copied.

(* too few free slots, or a read-only destination: false, destination exactly as it was *)
Theorem c15_refused_unchanged :
  forall (V : Type) (nilv : V) (isnil isstack : V -> bool) (pol : N -> V -> option N)
         (es : list V) (d : sstate V),
    isnil nilv = true ->
    (has (a_opts (s_cfg d)) f_ronly = true \/
     exists k, a_cap (s_cfg d) = Some k /\ k - zlen (s_elems d) < zlen es) ->
    stransfer V nilv isnil isstack pol es d = (d, false).
Proof. intros V nilv isnil isstack pol es d H. exact (stransfer_refused V nilv isnil isstack pol H es d). Qed.
Print Assumptions c15_refused_unchanged.

(* an uninitialised or non-Stack destination (nil, zero value, foreign type) *)
Theorem c15_bad_destination :
  forall (V : Type) (nilv : V) (isnil isstack : V -> bool) (pol : N -> V -> option N) (src : raw V),
    Transfer V nilv isnil isstack pol src None = Ok (None, false).
Proof. intros. unfold Transfer. destruct (negb (is_init V src)); reflexivity. Qed.
Print Assumptions c15_bad_destination.

(* and it does succeed whenever nothing on the destination can refuse a value *)
Theorem c15_succeeds_when_room :
  forall (V : Type) (nilv : V) (isnil isstack : V -> bool) (pol : N -> V -> option N)
         (es : list V) (d : sstate V),
    isnil nilv = true ->
    has (a_opts (s_cfg d)) f_ronly = false -> has (a_opts (s_cfg d)) f_nnest = false -> a_ppf (s_cfg d) = None ->
    match a_cap (s_cfg d) with Some k => zlen (s_elems d) + zlen es <= k | None => True end ->
    exists d', stransfer V nilv isnil isstack pol es d = (d', true) /\ s_elems d' = s_elems d ++ es.
Proof. intros V nilv isnil isstack pol es d H. exact (stransfer_succeeds V nilv isnil isstack pol H es d). Qed.
Print Assumptions c15_succeeds_when_room.

(* "never touches the source", on the code as it is now: over the statement
   IR regenerated from /repo, no execution of Stack.Transfer - for any
   destination value, any path through the conversion, the capacity pre-check,
   the copy loop and the success test - contains a store into the source (its
   slice header, slots, configuration, error field, lock bookkeeping) or a
   lock operation on it; everything done to the destination happens in calls
   on the other object. *)
Theorem c15_source_untouched_static :
  (exists e, In e ir_entries /\ is_transfer e = true) /\
  forall e, In e ir_entries -> is_transfer e = true -> entry_ok ir_table bad_src env_init e.
Proof. apply transfer_source_static. vm_compute. reflexivity. Qed.
Print Assumptions c15_source_untouched_static.

Example c15_nonvacuous :
  let c := {| k_typ := 1; k_cap := 4; k_opt := 0; k_ord := false; k_err := None; k_ppf := None |} in
  Transfer Z 0 (fun v => v =? 0) (fun _ => false) (fun _ _ => None) (mk Z c [7; 0; 9]) (Some (mk Z c [1]))
    = Ok (Some (mk Z c [1]), false) /\
  Transfer Z 0 (fun v => v =? 0) (fun _ => false) (fun _ _ => None) (mk Z c [7; 0]) (Some (mk Z c [1]))
    = Ok (Some (mk Z c [1; 7; 0]), true).
Proof. split; vm_compute; reflexivity. Qed.
