(* C13 -- no-nesting keeps Stacks out; CanNest and IsNesting tell the truth.
   (Stack part: list core.  The Condition part is in CondProps below when
   the Condition model is present.)  Property theorems only. *)
From Stackage Require Import Base Generated StackImpl StackSpec StackSpecLemmas StackRefine StackCorollaries.
From Stackage Require Import Guard GeneratedIR GuardProps.
From Stackage Require Import PushTie.
Open Scope Z_scope.

(* Push (no push policy installed) stores, in order and up to the capacity,
   exactly the offered values that are not Stacks/aliases while the option
   is on, and all of them while it is off. *)
Theorem c13_nonest_push :
  forall (V : Type) (nilv : V) (isnil isstack : V -> bool) (pol : N -> V -> option N),
    isnil nilv = true ->
    forall (c : scfg) (els vs : list V),
      zlen els < Bnd -> cap_ok c (zlen els) -> has (k_opt c) f_ronly = false -> k_ppf c = None ->
      step V nilv isnil isstack pol (mk V c els) (OPush vs) =
      Ok (mk V c (els ++ take_room (room (abs_cfg c) (zlen els))
                        (if has (k_opt c) f_nnest then filter (fun v => negb (isstack v)) vs else vs)), RLog []).
Proof. exact nonest_push. Qed.
Print Assumptions c13_nonest_push.

(* Switching the option (or any other option) never touches the elements *)
Theorem c13_switch_keeps_elements :
  forall (V : Type) (nilv : V) (isnil isstack : V -> bool) (pol : N -> V -> option N)
         (c : scfg) (els : list V) (f : N) (t : option bool),
    exists c', step V nilv isnil isstack pol (mk V c els) (OSetOpt f t) = Ok (mk V c' els, RUnit) /\
               k_typ c' = k_typ c /\ k_cap c' = k_cap c /\ k_ord c' = k_ord c /\ k_ppf c' = k_ppf c.
Proof. exact switch_keeps_elems. Qed.
Print Assumptions c13_switch_keeps_elements.

(* CanNest = option off; IsNesting = some element is a Stack/alias *)
Theorem c13_cannest_isnesting :
  forall (V : Type) (nilv : V) (isnil isstack : V -> bool) (pol : N -> V -> option N) (c : scfg) (els : list V),
    step V nilv isnil isstack pol (mk V c els) OCanNest = Ok (mk V c els, RBool (negb (has (k_opt c) f_nnest))) /\
    step V nilv isnil isstack pol (mk V c els) OIsNesting = Ok (mk V c els, RBool (existsb isstack els)).
Proof. exact cannest_isnesting. Qed.
Print Assumptions c13_cannest_isnesting.

(* CanNest() is true exactly when a nested Stack would currently be accepted *)
Theorem c13_cannest_means_accepted :
  forall (V : Type) (nilv : V) (isnil isstack : V -> bool) (pol : N -> V -> option N),
    isnil nilv = true ->
    forall (c : scfg) (els : list V) (x : V),
      zlen els < Bnd -> k_cap c = 0 -> has (k_opt c) f_ronly = false -> k_ppf c = None -> isstack x = true ->
      step V nilv isnil isstack pol (mk V c els) (OPush [x]) =
      Ok (mk V c (if negb (has (k_opt c) f_nnest) then els ++ [x] else els), RLog []).
Proof. exact cannest_means_accepted. Qed.
Print Assumptions c13_cannest_means_accepted.

(* and all of this holds in every reachable state, because every history
   stays inside the well-formed states (C01) *)
Theorem c13_any_history :
  forall (V : Type) (nilv : V) (isnil isstack : V -> bool) (pol : N -> V -> option N),
    isnil nilv = true -> (forall v, isnil v = true -> v = nilv) ->
    forall (t : N) (fifo : bool) (cp : option Z) (ops : list (op V)),
      match cp with Some k => k < Bnd - 1 | None => True end ->
      growth V ops < Bnd -> Forall (op_i64 V) ops ->
      exists c' els' outs souts,
        run V nilv isnil isstack pol (new_stack V t fifo cp) ops = Ok (mk V c' els', outs) /\
        cap_ok c' (zlen els') /\ zlen els' < Bnd /\
        map (abs_out V) outs = map Some souts /\
        souts = snd (srun V nilv isnil isstack pol
                       {| s_cfg := {| a_kind := t; a_cap := match cp with Some k => if 0 <? k then Some k else None | None => None end;
                                      a_opts := 0; a_fifo := fifo; a_err := None; a_ppf := None |}; s_elems := [] |}
                       (map (to_sop V) ops)).
Proof.
  intros V nilv isnil isstack pol H1 H2 t fifo cp ops Hcp Hg Hi.
  destruct (new_stack_wf V nilv isnil H1 t fifo cp Hcp) as (c & E & Hc & Ha).
  destruct (run_refines V nilv isnil isstack pol H1 H2 ops 0 c [] Hc ltac:(reflexivity) ltac:(lia) Hi)
    as (c' & els' & outs & souts & R & Hc' & Hm & S & A).
  exists c', els', outs, souts. rewrite E. repeat split; auto; [lia|].
  unfold abs in S. rewrite Ha in S. rewrite S. reflexivity.
Qed.
Print Assumptions c13_any_history.

Definition res_elems {U} (r : res (raw Z * U)) : option (list Z) :=
  match r with Ok (SCfg _ :: t, _) => Some (map (fun s => match s with SVal v => v | SCfg _ => 0%Z end) t) | _ => None end.


(* the model's push loop IS the loop of the source: one iteration of
   stack.genericAppend, regenerated from /repo (the body of its single loop,
   with canPushNester and isFull regenerated too), is what the model's
   iteration does - for every option word, capacity, content and value *)
Theorem c13_generic_push_loop_is_the_source_loop :
  forall (V : Type) (isstack : V -> bool) (c : scfg) (r : raw V) (x : V) (xs : list V),
    generic_append V isstack c r (x :: xs) =
    match g_genericAppend_body (g_canPushNester (positive c c_nnest) (isstack x)) (g_isFull (zlen r) (k_cap c)) with
    | TCut 0 _ _ => generic_append V isstack c (r ++ [SVal x]) xs
    | _ => generic_append V isstack c r xs
    end.
Proof. exact generic_append_iteration. Qed.
Print Assumptions c13_generic_push_loop_is_the_source_loop.


(* "... and doing so never alters ... the content", on the code as it is now:
   over the statement IR regenerated from /repo, NO exported method other than
   the content mutators (Push Pop Insert Remove Replace Swap Reverse Reset
   Defrag Reveal Transfer Marshal Free Init SetKeyword SetOperator
   SetExpression) - so no option switch and no setter of any other setting -
   contains, on any path and for any arguments, a store into a slice header,
   an element slot, a part of a Condition or a handle, of the receiver or of
   any nested object. *)
Theorem c13_only_content_mutators_store_content :
  forall e, In e ir_entries -> is_inst_class e = true -> named content_mutators e = false ->
            entry_ok ir_table bad_content env_init e.
Proof. apply content_untouched_static. vm_compute. reflexivity. Qed.
Print Assumptions c13_only_content_mutators_store_content.

Theorem c13_option_setters_are_covered : option_setters_covered = true.
Proof. vm_compute. reflexivity. Qed.
Print Assumptions c13_option_setters_are_covered.

Example c13_nonvacuous :
  let isst := fun v : Z => v <? 0 in
  res_elems (step Z 0 (fun v => v =? 0) isst (fun _ _ => None)
               (mk Z {| k_typ := 1; k_cap := 0; k_opt := 256; k_ord := false; k_err := None; k_ppf := None |} [5; -1])
               (OPush [-2; 3; -4; 7])) = Some [5; -1; 3; 7].
Proof. vm_compute. reflexivity. Qed.

(* ---- Condition part (model Cond.v, proofs CondProofs.v; the same theorems
        are also listed in Props/C06.v) ---- *)
From Stackage Require Import Values CondOps Cond CondSpec CondProofs.

(* SetExpression refuses a Stack while no-nesting is set and keeps the previous expression *)
Theorem c13_condition_refuses_stack :
  forall (render : value -> bytes) (ops : list cop) (r : cnd) (outs : list cobs) (x : value),
    Cond.run render None ops = Ok (r, outs) ->
    CanNest r = Ok false -> is_stack x = true ->
    exists r', SetExpression r x = Ok r' /\ Expression r' = Expression r.
Proof. exact set_expr_stack_refused. Qed.
Print Assumptions c13_condition_refuses_stack.

(* Condition.CanNest is true exactly when the option is off, and then a Stack is accepted *)
Theorem c13_condition_cannest :
  forall (render : value -> bytes) (ops : list cop) (r : cnd) (outs : list cobs),
    Cond.run render None ops = Ok (r, outs) ->
    CanNest r = Ok (sp_inited (rev ops) && negb (sp_nonest (rev ops))).
Proof. exact cond_cannest_iff. Qed.
Print Assumptions c13_condition_cannest.

(* Condition.IsNesting is true exactly when the expression is a Stack or Stack alias *)
Theorem c13_condition_isnesting :
  forall (render : value -> bytes) (ops : list cop) (r : cnd) (outs : list cobs),
    Cond.run render None ops = Ok (r, outs) ->
    exists ex, Expression r = Ok ex /\ IsNesting r = Ok (is_stack ex).
Proof. exact cond_isnesting_iff. Qed.
Print Assumptions c13_condition_isnesting.
