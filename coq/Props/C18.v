(* C18 -- Options are independent switches with faithful getters.
   Property theorems only; proofs live in OptionsProofs.v.

   Model: Options.v / LogLevels.v (the setters of cfg.go, stack.go, cond.go,
   log.go as written, over the bit helpers and constants that the translator
   regenerates from the Go source into Generated.v).  Specification:
   OptionsSpec.v.  [orun rk c h] runs history h of public setter calls on a
   receiver of kind rk (Stack / Condition) whose configuration is c. *)
From Stackage Require Import Guard GeneratedIR GuardProps.
From Stackage Require Import Base Generated StackImpl OptionsTypes OptionsSpec LogLevels Options OptionsProofs.
From Stackage Require OptionsSpecCorr OptionsCorr OptionsCorrProofs.
Open Scope Z_scope.

(* ---- the generated constants ---- *)

(* every option constant found in cfg.go is a single bit below 2^16 and no
   two coincide *)
Theorem c18_flags_distinct_pow2 :
  Forall (fun f => exists k, (k < 16)%N /\ f = (2 ^ k)%N) all_flags /\ NoDup all_flags.
Proof. exact flags_distinct_pow2. Qed.
Print Assumptions c18_flags_distinct_pow2.

(* the eight public switches sit on the documented bits (1 paren, 2 fold,
   4 no-pad, 8 lead-once, 16 neg-index, 32 fwd-index, 128 read-only,
   256 no-nest) *)
Theorem c18_flags_documented : forall o, flag_of o = docbit o /\ In (flag_of o) all_flags.
Proof. intro o. split; [apply flag_of_docbit | apply flag_of_in_all_flags]. Qed.
Print Assumptions c18_flags_documented.

(* the sixteen log levels likewise; NoLogLevels is 0, AllLogLevels their union *)
Theorem c18_loglevels_distinct_pow2 :
  Forall (fun f => exists k, (k < 16)%N /\ f = (2 ^ k)%N) all_loglevels /\ NoDup all_loglevels /\
  length all_loglevels = 16%nat /\ c_NoLogLevels = 0%N /\ c_AllLogLevels = fold_right N.lor 0%N all_loglevels.
Proof. exact loglevels_distinct_pow2. Qed.
Print Assumptions c18_loglevels_distinct_pow2.

(* ---- the three mask helpers ---- *)

(* for every option word o, every bit k and every tri-state t: shift /
   unshift / toggle (as translated from cfg.go) make bit k what the tri-state
   says and leave EVERY other bit as it was; positive reads exactly bit k *)
Theorem c18_set_clear_toggle_spec :
  forall (t : option bool) (o k : N),
    N.testbit (apply_tri t o (2 ^ k)) k = tri t (N.testbit o k) /\
    (forall j, j <> k -> N.testbit (apply_tri t o (2 ^ k)) j = N.testbit o j) /\
    g_flag_positive o (2 ^ k) = N.testbit o k.
Proof.
  intros t o k. destruct (set_clear_toggle_spec t o k) as [H1 H2].
  split; [exact H1|]. split; [exact H2 | apply positive_testbit].
Qed.
Print Assumptions c18_set_clear_toggle_spec.

(* ---- histories ---- *)

(* For every receiver kind, every well-formed configuration and EVERY history
   of supported calls (option calls, SetFIFO, SetID, SetCategory,
   SetDelimiter, SetSymbol, SetEncap, SetAuxiliary, SetLogLevel,
   UnsetLogLevel, in any order and number): the model neither panics nor
   leaves the modelled fragment; each option ends as the fold of ITS OWN
   calls (gated by the read-only switch, which is the fold of its own calls
   alone); no bit outside the eight public ones ever changes. *)
Theorem c18_option_history :
  forall (rk : rkind) (c : ocfg) (h : list ocall),
    owf c -> forallb (supported rk) h = true ->
    exists c', orun rk c h = Ok c' /\
      (forall o, cfg_positive c' (flag_of o) = own_fold o h (cfg_positive c (flag_of o)) (cfg_positive c c_ronly)) /\
      (forall k, (forall o, bit_of o <> k) -> N.testbit (o_opt c') k = N.testbit (o_opt c) k).
Proof. exact option_history. Qed.
Print Assumptions c18_option_history.

(* deleting from a history every call that names neither option o nor the
   read-only switch does not change what o ends as *)
Theorem c18_option_independent :
  forall (rk : rkind) (c : ocfg) (h : list ocall) (o : optname),
    owf c -> forallb (supported rk) h = true ->
    exists c1 c2, orun rk c h = Ok c1 /\ orun rk c (filter (concerns o) h) = Ok c2 /\
                  cfg_positive c1 (flag_of o) = cfg_positive c2 (flag_of o).
Proof. exact option_independent. Qed.
Print Assumptions c18_option_independent.

(* reading of [own_fold]: while the read-only switch stays off an option is
   the plain fold of the tri-states passed to it; the read-only switch itself
   is never gated *)
Theorem c18_own_fold_reading :
  (forall o h b, forallb (fun c => negb (touches_ro c)) h = true -> o <> OReadOnly ->
                 own_fold o h b false = tri_fold o h b) /\
  (forall h b, own_fold OReadOnly h b b = tri_fold OReadOnly h b).
Proof. split; [exact own_fold_plain | exact own_fold_ro]. Qed.
Print Assumptions c18_own_fold_reading.

(* the content is not an input of any setter: the observation after any
   history shows the content that was put in (see also c18_getter_setter);
   that the implementation's setters leave the content alone is what the
   `options` family checks after every call *)

(* FIFO: once switched on it stays on, whatever is called afterwards *)
Theorem c18_fifo_latch :
  forall (rk : rkind) (h : list ocall) (c c' : ocfg),
    orun rk c h = Ok c' -> o_ord c = true -> o_ord c' = true.
Proof. exact fifo_latch. Qed.
Print Assumptions c18_fifo_latch.

Theorem c18_fifo_latch_prefix :
  forall (rk : rkind) (c : ocfg) (h1 h2 : list ocall) (c2 : ocfg) (ct : list Z),
    orun rk c (h1 ++ h2) = Ok c2 ->
    exists c1, orun rk c h1 = Ok c1 /\
               (ob_isfifo (observe RStack c1 ct) = true -> ob_isfifo (observe RStack c2 ct) = true).
Proof. exact fifo_latch_prefix. Qed.
Print Assumptions c18_fifo_latch_prefix.

(* getters: after every history ID(), Category(), the delimiter (Delimiter()
   on Stacks), the symbol, Auxiliary(), the FIFO flag (IsFIFO() on Stacks) and
   the encapsulation list are the fold of the calls that address them made
   while the receiver was not read-only -- for the plain settings: the
   argument of the last such call ([upd_id c cur = x] for [c = CSetID x]);
   the delimiter only moves on LIST kinds, the symbol only on the others; the
   content is untouched *)
Theorem c18_getter_setter :
  forall (rk : rkind) (c : ocfg) (h : list ocall) (ct : list Z),
    owf c -> forallb (supported rk) h = true ->
    exists c', orun rk c h = Ok c' /\
      let ro := cfg_positive c c_ronly in
      let ob := observe rk c' ct in
      ob_gid ob = eff_fold upd_id h ro (o_id c) /\
      ob_gcat ob = eff_fold upd_cat h ro (o_cat c) /\
      ob_ljc ob = eff_fold (upd_delim (o_typ c)) h ro (o_ljc c) /\
      (rk = RStack -> ob_gdelim ob = ob_ljc ob) /\
      ob_sym ob = eff_fold (upd_sym (o_typ c)) h ro (o_sym c) /\
      ob_gaux ob = eff_fold upd_aux h ro (o_aux c) /\
      ob_ord ob = eff_fold upd_fifo h ro (o_ord c) /\
      (rk = RStack -> ob_isfifo ob = ob_ord ob) /\
      ob_enc ob = eff_fold upd_enc h ro (o_enc c) /\
      ob_content ob = ct.
Proof. exact getter_setter. Qed.
Print Assumptions c18_getter_setter.

(* one call at a time: on a receiver that is not read-only each getter hands
   back what its setter was given *)
Theorem c18_set_then_get :
  forall (rk : rkind) (c : ocfg) (ct : list Z),
    cfg_positive c c_ronly = false ->
    (forall x, supported rk (CSetID x) = true ->
               exists c', ostep rk c (CSetID x) = Ok c' /\ ob_gid (observe rk c' ct) = x) /\
    (forall x, exists c', ostep rk c (CSetCat x) = Ok c' /\ ob_gcat (observe rk c' ct) = x) /\
    (forall x, o_typ c = c_list -> exists c', ostep RStack c (CSetDelim x) = Ok c' /\
               ob_gdelim (observe RStack c' ct) = delim_text x) /\
    (forall xs, o_typ c <> c_list -> exists c', ostep RStack c (CSetSymbol xs) = Ok c' /\
               ob_sym (observe RStack c' ct) = concat (map sym_text xs)) /\
    (forall k, exists c', ostep rk c (CSetAux (AMap k)) = Ok c' /\ ob_gaux (observe rk c' ct) = Some k).
Proof. exact set_then_get. Qed.
Print Assumptions c18_set_then_get.

(* ---- encapsulation pairs ---- *)

(* for EVERY history (any mix of calls; SetEncap with strings, slices of any
   length, foreign types, no argument): the stored list is built only by
   appending entries whose left and right strings were unused at that time *)
Theorem c18_encap_invariant :
  forall (rk : rkind) (c : ocfg) (h : list ocall),
    owf c -> forallb (supported rk) h = true -> enc_inv (o_enc c) ->
    exists c', orun rk c h = Ok c' /\ enc_inv (o_enc c').
Proof. exact encap_invariant. Qed.
Print Assumptions c18_encap_invariant.

(* hence, when only pairs are handed in (slices of at most two strings), no
   string occurs in two different stored pairs, after every history *)
Theorem c18_encap_no_shared_char :
  forall (rk : rkind) (c : ocfg) (h : list ocall),
    owf c -> forallb (supported rk) h = true -> forallb call_pairish h = true ->
    enc_inv (o_enc c) -> all_pairs (o_enc c) ->
    exists c', orun rk c h = Ok c' /\ no_shared (o_enc c').
Proof. exact encap_no_shared_char. Qed.
Print Assumptions c18_encap_no_shared_char.

(* the literal reading: when every string is a single character (byte), no
   character occurs in two different stored pairs *)
Theorem c18_encap_no_shared_byte :
  forall (rk : rkind) (c : ocfg) (h : list ocall),
    owf c -> forallb (supported rk) h = true ->
    forallb call_pairish h = true -> forallb call_chars h = true ->
    enc_inv (o_enc c) -> all_pairs (o_enc c) -> all_single (o_enc c) ->
    exists c', orun rk c h = Ok c' /\ no_shared_byte (o_enc c').
Proof. exact encap_no_shared_byte. Qed.
Print Assumptions c18_encap_no_shared_byte.

(* a refused pair (left or right string already in use) changes nothing *)
Theorem c18_encap_refused_keeps :
  forall (rk : rkind) (c : ocfg) (p : list bytes) (s : bytes),
    In s (firstn 2 p) -> used (o_enc c) s = true -> ostep rk c (CSetEncap [ESlice p]) = Ok c.
Proof. exact encap_refused_keeps. Qed.
Print Assumptions c18_encap_refused_keeps.

Theorem c18_encap_refused_keeps_str :
  forall (rk : rkind) (c : ocfg) (x : bytes),
    used (o_enc c) x = true -> ostep rk c (CSetEncap [EStr x]) = Ok c.
Proof. exact encap_refused_keeps_str. Qed.
Print Assumptions c18_encap_refused_keeps_str.

(* ---- log levels ---- *)

(* for every history the level word stays a uint16; membership of EACH level
   i is the fold, over the calls made while not read-only, of set-union /
   set-difference on that level alone with the 'none' and 'all' shortcuts
   (names in any case, LogLevel constants and sums, raw integers);
   LogLevels() is the text of exactly that set *)
Theorem c18_loglevel_bitset :
  forall (rk : rkind) (c : ocfg) (h : list ocall),
    owf c -> forallb (supported rk) h = true ->
    exists c', orun rk c h = Ok c' /\ (o_lvl c' < 65536)%N /\
      (forall i, (i < 16)%nat ->
         N.testbit (o_lvl c') (N.of_nat i) =
         eff_fold (upd_level true i) h (cfg_positive c c_ronly) (N.testbit (o_lvl c) (N.of_nat i))) /\
      (forall ct, ob_glog (observe rk c' ct) = levels_text (lv_of_N (o_lvl c'))).
Proof. exact loglevel_bitset. Qed.
Print Assumptions c18_loglevel_bitset.

(* LogLevels() is faithful: two different level sets never read the same *)
Theorem c18_loglevels_text_faithful :
  forall a b : N, (a < 65536)%N -> (b < 65536)%N -> ll_string a = ll_string b -> a = b.
Proof. exact loglevels_text_faithful. Qed.
Print Assumptions c18_loglevels_text_faithful.

(* UnsetLogLevel("all"), in every spelling of the full set, leaves no level
   (the behaviour log.go documents; defect D24 of the unrepaired code) *)
Theorem c18_unset_all_clears :
  forall r : N,
    ll_unshift r [LName (B "all")] = 0%N /\ ll_unshift r [LName (B "ALL")] = 0%N /\
    ll_unshift r [LConst 65535] = 0%N /\ ll_unshift r [LInt (-1)] = 0%N /\ ll_unshift r [LInt 65535] = 0%N.
Proof. exact unset_all_clears. Qed.
Print Assumptions c18_unset_all_clears.

(* ---- the model refines the specification, for every history ---- *)
Theorem c18_refines_spec :
  forall (rk : rkind) (h : list ocall) (c : ocfg) (s : sstate),
    R rk c s -> forallb (supported rk) h = true ->
    exists c', orun rk c h = Ok c' /\ R rk c' (srun true s h).
Proof. exact refine_run. Qed.
Print Assumptions c18_refines_spec.

(* the two evaluators of the correspondence check agree with the theory: a
   recorded case (receiver, content, calls, observation after every call)
   that the model-side check accepts is accepted by the specification-side
   check -- so on supported calls an implementation that behaves as the model
   says satisfies the specification on that case, getter by getter *)
Theorem c18_checks_consistent :
  forall c : ocase,
    oc_kind c <> 0%N -> zlen (oc_content c) < 2 ^ 61 ->
    forallb (fun st => supported (oc_rk c) (fst st)) (oc_steps c) = true ->
    OptionsCorr.check c = 0%N -> OptionsSpecCorr.check c = 0%N.
Proof. exact OptionsCorrProofs.model_check_implies_spec_check. Qed.
Print Assumptions c18_checks_consistent.

(* ---- remarks outside the property's text (behaviour of the code, stated
   so that nobody reads more into the theorems above) ---- *)

(* a third element of a slice is stored unchecked; "character" means the
   whole string; an argument that names no level silences SetLogLevel *)
Theorem c18_remarks :
  (exists c', orun RStack (onew c_and) [CSetEncap [EStr (B "a")]; CSetEncap [ESlice [B "b"; B "c"; B "a"]]] = Ok c' /\
              o_enc c' = [[B "a"]; [B "b"; B "c"; B "a"]]) /\
  (exists c', orun RStack (onew c_and) [CSetEncap [ESlice [B "<<"; B ">>"]]; CSetEncap [ESlice [B "<"; B ">"]]] = Ok c' /\
              o_enc c' = [[B "<<"; B ">>"]; [B "<"; B ">"]]) /\
  (forall r, ll_shift r [LName (B "bogus")] = 0%N /\ ll_shift r [LOther] = 0%N).
Proof.
  split; [exact encap_third_element_unchecked|]. split; [exact encap_compares_whole_strings | exact set_unknown_name_silences].
Qed.
Print Assumptions c18_remarks.

(* ---- non-vacuity ---- *)

(* a fresh AND stack and a fresh Condition meet the hypotheses, and the
   relation R holds between a fresh configuration and the fresh
   specification state *)

(* "... and doing so never alters ... the content", on the code as it is now:
   over the statement IR regenerated from /repo, NO exported method other than
   the content mutators (Push Pop Insert Remove Replace Swap Reverse Reset
   Defrag Reveal Transfer Marshal Free Init SetKeyword SetOperator
   SetExpression) - so no option switch and no setter of any other setting -
   contains, on any path and for any arguments, a store into a slice header,
   an element slot, a part of a Condition or a handle, of the receiver or of
   any nested object. *)
Theorem c18_only_content_mutators_store_content :
  forall e, In e ir_entries -> is_inst_class e = true -> named content_mutators e = false ->
            entry_ok ir_table bad_content env_init e.
Proof. apply content_untouched_static. vm_compute. reflexivity. Qed.
Print Assumptions c18_only_content_mutators_store_content.

Theorem c18_option_setters_are_covered : option_setters_covered = true.
Proof. vm_compute. reflexivity. Qed.
Print Assumptions c18_option_setters_are_covered.

Example c18_hypotheses_satisfiable :
  owf (onew c_and) /\ owf (onew c_cond) /\ enc_inv (o_enc (onew c_list)) /\ all_pairs (o_enc (onew c_list)) /\
  R RStack (onew c_list) (sinit RStack 4) /\ R RCond (onew c_cond) (sinit RCond 5).
Proof.
  split; [apply onew_owf; discriminate|]. split; [apply onew_owf; discriminate|].
  split; [constructor|]. split; [constructor|].
  split; apply R_init; discriminate.
Qed.

Definition ex_hist : list ocall :=
  [CSetOpt OFold None; CSetLog [LName (B "debug"); LInt 68]; CSetEncap [ESlice [B "("; B ")"]];
   CSetEncap [EStr (B ")")]; CSetDelim (TRune 233); CSetOpt OReadOnly (Some true); CSetID (B "ignored");
   CSetOpt ONegIdx None; CSetOpt OReadOnly None; CSetID (B "kept"); CSetFIFO true; CSetFIFO false;
   CSetOpt OFold None; CSetOpt ONoNest (Some true); CUnsetLog [LConst 4]].

(* a concrete run, evaluated inside Coq on a LIST stack: the read-only
   window swallows SetID and the neg-index toggle, ")" is refused, FIFO
   latches, USER1 (64) and DEBUG (8) remain after STATE (4) is unset *)
Example c18_concrete_run :
  match orun RStack (onew c_list) ex_hist with
  | Ok c => Some (o_opt c, o_lvl c, o_enc c, o_ljc c, o_id c, o_ord c, ll_string (o_lvl c))
  | _ => None
  end = Some (256%N, 72%N, [[B "("; B ")"]], L [195%N; 169%N], B "kept", true, B "DEBUG,USER1").
Proof. vm_compute. reflexivity. Qed.

(* the hypotheses of the history theorems hold for this history *)
Example c18_concrete_supported :
  forallb (supported RStack) ex_hist = true /\ forallb call_pairish ex_hist = true.
Proof. split; vm_compute; reflexivity. Qed.
