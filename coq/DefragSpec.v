(* DefragSpec.v -- what property C19 says, and the vocabulary on nil/non-nil
   patterns used to state which inputs meet it.  Nothing in this file refers
   to how stack.go compacts a slice; it imports neither Generated.v nor the
   model.

   C19: after Defrag on a Stack whose runs of consecutive nil elements are
   shorter than the scan limit, the Stack holds exactly its former non-nil
   elements in their former order and no nil element, Len equals their count
   and Err() is nil; nested Stacks -- direct elements or a Condition's
   expression -- are compacted the same way, and a Stack without nil elements
   is left untouched. *)
From Stackage Require Import Base Values.
Open Scope Z_scope.

(* ---- patterns of nil / non-nil elements ---- *)
Section Patterns.
  Variable V : Type.
  Variable isnil : V -> bool.

  Definition nonnil (l : list V) : list V := filter (fun x => negb (isnil x)) l.
  Definition nnil (l : list V) : nat := length (filter isnil l).
  Definition has_nil (l : list V) : bool := existsb isnil l.
  Definition has_nonnil (l : list V) : bool := existsb (fun x => negb (isnil x)) l.

  (* length of the longest run of consecutive nil elements *)
  Fixpoint max_run_aux (cur best : nat) (l : list V) : nat :=
    match l with
    | [] => Nat.max cur best
    | x :: t => if isnil x then max_run_aux (S cur) best t
                else max_run_aux 0 (Nat.max cur best) t
    end.
  Definition max_run (l : list V) : nat := max_run_aux 0 0 l.

  (* position of the first nil element *)
  Fixpoint first_nil (l : list V) : option nat :=
    match l with
    | [] => None
    | x :: t => if isnil x then Some O else option_map S (first_nil t)
    end.

  (* number of nil elements that precede the last non-nil element *)
  Fixpoint gap (l : list V) : nat :=
    match l with
    | [] => O
    | x :: t => if isnil x then (if has_nonnil t then S (gap t) else O) else gap t
    end.

  (* position of the last non-nil element *)
  Fixpoint last_nonnil (l : list V) : option nat :=
    match l with
    | [] => None
    | x :: t => match last_nonnil t with
                | Some i => Some (S i)
                | None => if isnil x then None else Some O
                end
    end.

  (* position of the last non-nil element lying after the first nil *)
  Definition imax (l : list V) : option nat :=
    match first_nil l, last_nonnil l with
    | Some s, Some i => if (s <? i)%nat then Some i else None
    | _, _ => None
    end.

  (* 2*imax - len - 3 when some element lies after the first nil and that
     number is not negative; the length otherwise *)
  Definition trunc (l : list V) : Z :=
    match imax l with
    | Some i => let t := 2 * Z.of_nat i - zlen l - 3 in if 0 <=? t then t else zlen l
    | None => zlen l
    end.

  (* the last element is not nil *)
  Definition last_set (l : list V) : bool :=
    match last_nonnil l with Some i => (S i =? length l)%nat | None => false end.
End Patterns.

(* ---- the scan limit (doc comment of Stack.Defrag: "defaults to fifty (50)
   when unset") ---- *)
Definition scan_limit (args : list Z) : Z :=
  match args with
  | x :: _ => if 0 <? x then x else 50
  | [] => 50
  end.

(* ---- what the property can see of a tree: Len, Index(i) for every i,
   Err() == nil, of every node ---- *)
Inductive obs :=
| ONil                                  (* Index returned the nil interface *)
| OLeaf (g : gval)
| OStack (errnil : bool) (els : list obs)
| OCond (ex : obs)                      (* a Condition and what its Expression() shows *)
| OZeroStack
| OZeroCond
| OOther.                               (* anything unexpected *)

Definition gval_eqb (a b : gval) : bool :=
  match a, b with
  | GStr x, GStr y => bytes_eqb x y
  | GInt t x, GInt u y => (t =? u)%N && (x =? y)
  | GBool x, GBool y => Bool.eqb x y
  | _, _ => false
  end.

Fixpoint obs_eqb (a b : obs) {struct a} : bool :=
  match a, b with
  | ONil, ONil => true
  | OLeaf g, OLeaf h => gval_eqb g h
  | OStack e l, OStack e' l' =>
      Bool.eqb e e' &&
      (fix go (l : list obs) (l' : list obs) : bool :=
         match l, l' with
         | [], [] => true
         | x :: t, y :: t' => obs_eqb x y && go t t'
         | _, _ => false
         end) l l'
  | OCond x, OCond y => obs_eqb x y
  | OZeroStack, OZeroStack => true
  | OZeroCond, OZeroCond => true
  | OOther, OOther => true
  | _, _ => false
  end.

Definition err_is_nil (c : config) : bool := match c_err c with None => true | Some _ => false end.

Fixpoint obs_of (v : value) : obs :=
  match v with
  | VNil => ONil
  | VLeaf g => OLeaf g
  | VStack _ c els => OStack (err_is_nil c) (map obs_of els)
  | VCond _ _ _ _ ex => OCond (obs_of ex)
  | VZeroStack _ => OZeroStack
  | VZeroCond _ => OZeroCond
  end.

(* option bit 128 = read-only (cfgFlag ronly); a read-only Stack is outside
   C19 (C09: it cannot be changed) and is required to stay as it is *)
Definition read_only (c : config) : bool := N.testbit (c_opt c) 7.

Definition vnonnil := nonnil value is_nil.
Definition vmax_run := max_run value is_nil.

(* ---- the property, as a predicate on (tree before, limit, what is seen
   after).  A Stack node whose runs are all shorter than the limit must show
   exactly its former non-nil elements, in order, each of them compacted the
   same way, and Err() == nil.  A node with a longer run is not constrained
   (the property is silent), nor is anything below it. ---- *)
Fixpoint meets (m : Z) (v : value) (o : obs) {struct v} : bool :=
  match v with
  | VStack _ c els =>
      match o with
      | OStack en os =>
          if read_only c then obs_eqb (obs_of v) o
          else if Z.of_nat (vmax_run els) <? m then
            en &&
            (fix go (l : list value) (os : list obs) : bool :=
               match l with
               | [] => match os with [] => true | _ => false end
               | x :: t =>
                   if is_nil x then go t os
                   else match os with
                        | y :: os' => meets m x y && go t os'
                        | [] => false
                        end
               end) els os
          else true
      | _ => false
      end
  | VCond _ _ _ _ ex =>
      match o with
      | OCond y =>
          match ex with
          | VStack _ _ _ => meets m ex y
          | _ => obs_eqb (obs_of ex) y
          end
      | _ => false
      end
  | _ => obs_eqb (obs_of v) o
  end.

(* ---- the canonical compacted tree: every Stack that is not read-only keeps
   its non-nil elements, compacted in turn ---- *)
Fixpoint spec_defrag (v : value) : value :=
  match v with
  | VStack a c els =>
      if read_only c then v
      else VStack a c (vnonnil (map spec_defrag els))
  | VCond a c kw op ex =>
      match ex with
      | VStack _ _ _ => VCond a c kw op (spec_defrag ex)
      | _ => v
      end
  | _ => v
  end.

(* every node reports no error *)
Fixpoint errfree (v : value) : bool :=
  match v with
  | VStack _ c els => err_is_nil c && forallb errfree els
  | VCond _ _ _ _ ex => errfree ex
  | _ => true
  end.

(* no Stack node holds a nil element *)
Fixpoint nonil_tree (v : value) : bool :=
  match v with
  | VStack _ _ els => negb (has_nil value is_nil els) && forallb nonil_tree els
  | VCond _ _ _ _ ex => nonil_tree ex
  | _ => true
  end.
