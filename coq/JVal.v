(* JVal.v -- the value universe of the Marshal/Unmarshal module: the trees of
   Values.v extended with []any lists (which may hold Stacks and Conditions,
   something Values.gval's GList cannot).  Shared vocabulary of the model
   (Marshal.v) and of the specification (MarshalSpec.v): the type, its nested
   induction principle, depth, the embedding of Values.value, ASCII case
   helpers.  Definitions only (plus the induction principle). *)
From Stackage Require Import Base Values.
Open Scope Z_scope.

(* A Go value as Marshal sees it.
   JLeaf g : any value that is not a Stack/Condition (or alias) and not a
             []any: strings (GStr), numbers, bools, Operators (GOper), typed
             nil pointers (GNilPtr), ...  By convention g is never GList:
             a []any is a JList.
   JStack  : initialised Stack or Stack alias;  JCond: initialised Condition
             or alias;  JZeroStack / JZeroCond: Stack{} / Condition{}. *)
Inductive jval :=
| JNil
| JLeaf (g : gval)
| JList (l : list jval)
| JStack (a : akind) (c : config) (els : list jval)
| JCond (a : akind) (c : config) (kw : bytes) (op : option oper) (ex : jval)
| JZeroStack (a : akind)
| JZeroCond (a : akind).

Definition jstr (s : bytes) : jval := JLeaf (GStr s).

Definition j_is_list (j : jval) : bool := match j with JList _ => true | _ => false end.
Definition j_is_stack (j : jval) : bool := match j with JStack _ _ _ => true | _ => false end.
Definition j_is_cond (j : jval) : bool := match j with JCond _ _ _ _ _ => true | _ => false end.

Section JvalInd.
  Variable P : jval -> Prop.
  Hypothesis Hnil : P JNil.
  Hypothesis Hleaf : forall g, P (JLeaf g).
  Hypothesis Hlist : forall l, Forall P l -> P (JList l).
  Hypothesis Hstack : forall a c els, Forall P els -> P (JStack a c els).
  Hypothesis Hcond : forall a c kw op ex, P ex -> P (JCond a c kw op ex).
  Hypothesis Hzs : forall a, P (JZeroStack a).
  Hypothesis Hzc : forall a, P (JZeroCond a).

  Fixpoint jval_ind' (j : jval) : P j :=
    let go := fix go (l : list jval) : Forall P l :=
                match l with
                | [] => Forall_nil P
                | x :: t => Forall_cons x (jval_ind' x) (go t)
                end in
    match j with
    | JNil => Hnil
    | JLeaf g => Hleaf g
    | JList l => Hlist l (go l)
    | JStack a c els => Hstack a c els (go els)
    | JCond a c kw op ex => Hcond a c kw op ex (jval_ind' ex)
    | JZeroStack a => Hzs a
    | JZeroCond a => Hzc a
    end.
End JvalInd.

(* nesting depth of []any lists (ready-made Stacks and Conditions are opaque
   to Marshal, so they count as leaves) *)
Fixpoint jdepth (j : jval) : nat :=
  match j with
  | JList l => S (fold_right (fun x n => Nat.max (jdepth x) n) O l)
  | _ => O
  end.
Definition ldepth (l : list jval) : nat := fold_right (fun x n => Nat.max (jdepth x) n) O l.

(* the trees of Values.v are the list-free part of this universe *)
Fixpoint inj (v : value) : jval :=
  match v with
  | VNil => JNil
  | VLeaf g => JLeaf g
  | VStack a c els => JStack a c (map inj els)
  | VCond a c kw op ex => JCond a c kw op (inj ex)
  | VZeroStack a => JZeroStack a
  | VZeroCond a => JZeroCond a
  end.

(* ---- ASCII case helpers (bytes) ---- *)
Definition byteN (b : byte) : N := Byte.to_N b.
Definition is_upper_byte (b : byte) : bool := ((65 <=? byteN b) && (byteN b <=? 90))%N.
Definition is_lower_byte (b : byte) : bool := ((97 <=? byteN b) && (byteN b <=? 122))%N.
Definition upper_byte (b : byte) : byte := if is_lower_byte b then byte_of_N_tot (byteN b - 32) else b.
Definition lower_byte (b : byte) : byte := if is_upper_byte b then byte_of_N_tot (byteN b + 32) else b.
Definition upper (s : bytes) : bytes := map upper_byte s.
Definition lower (s : bytes) : bytes := map lower_byte s.
Definition is_ascii (s : bytes) : bool := forallb (fun b => (byteN b <? 128)%N) s.

(* the erasure used to compare trees: alias kinds become Native and every
   configuration is reduced to its kind; order, leaves, Condition keyword /
   operator / expression are kept *)
Fixpoint skel (j : jval) : jval :=
  match j with
  | JList l => JList (map skel l)
  | JStack _ c els => JStack Native (cfg0 (c_typ c)) (map skel els)
  | JCond _ c kw op ex => JCond Native (cfg0 (c_typ c)) kw op (skel ex)
  | JZeroStack _ => JZeroStack Native
  | JZeroCond _ => JZeroCond Native
  | _ => j
  end.
