(* RevealSpec.v -- what property C20 says about Stack.Reveal, on trees of
   coq/Values.v, and nothing about how the code does it.

   The observations the property names:
     * [dfs_leaves]  the depth-first sequence of leaf values, with one token
                     per Condition carrying its keyword and operator;
     * [depth]       nesting depth (Stacks and Conditions both count);
     * [pn_stacks]   the parenthetical and the NOT Stacks, depth first, with
                     their whole configuration record;
     * [unwrap_all]  the fully-unwrapped form: every redundant wrapper
                     (a non-parenthetical, non-NOT Stack with exactly one
                     element that is a non-parenthetical Stack or Condition)
                     replaced by its only element, bottom-up.
   How a nested Stack/Condition was typed in Go (native, alias, pointer to
   alias: [akind]) is not part of the property; the fully-unwrapped form
   forgets it.

   Independent of Generated.v and of the model (Reveal.v): the two option
   bits / kind constants the property text mentions are restated here. *)
From Stackage Require Import Base Values.
Open Scope Z_scope.

(* "parenthetical" = option bit 1 (cfgFlag parens); "NOT" = kind 3 *)
Definition sp_paren (c : config) : bool := N.testbit (c_opt c) 0.
Definition sp_not (c : config) : bool := (c_typ c =? 3)%N.
(* a Stack that Reveal may remove when it has exactly one suitable element *)
Definition sp_plain (c : config) : bool := negb (sp_paren c) && negb (sp_not c).

(* ---- leaves ---- *)
Inductive ltok :=
| TVal (v : value)                          (* a leaf slot: any value that is not an initialised Stack/Condition (nil slots and zero instances included) *)
| TCond (kw : bytes) (op : option oper).    (* a Condition: keyword and operator; its expression follows *)

Fixpoint dfs_leaves (v : value) : list ltok :=
  match v with
  | VStack _ _ els => flat_map dfs_leaves els
  | VCond _ _ kw op ex => TCond kw op :: dfs_leaves ex
  | v => [TVal v]
  end.

(* ---- nesting depth ---- *)
Fixpoint depth (v : value) : nat :=
  match v with
  | VStack _ _ els => S (fold_right (fun x n => Nat.max (depth x) n) O els)
  | VCond _ _ _ _ ex => S (depth ex)
  | _ => O
  end.

(* ---- parenthetical and NOT stacks, depth first ---- *)
Fixpoint pn_stacks (v : value) : list config :=
  match v with
  | VStack _ c els => (if sp_paren c || sp_not c then [c] else []) ++ flat_map pn_stacks els
  | VCond _ _ _ _ ex => pn_stacks ex
  | _ => []
  end.

(* ---- the fully-unwrapped form ---- *)
(* an element by which a redundant wrapper is replaced: a Stack or a
   Condition (initialised or zero) that is not parenthetical *)
Definition unwrappable (v : value) : bool :=
  match v with
  | VStack _ c _ => negb (sp_paren c)
  | VCond _ c _ _ _ => negb (sp_paren c)
  | VZeroStack _ | VZeroCond _ => true
  | _ => false
  end.

Fixpoint unwrap_all (v : value) : value :=
  match v with
  | VStack _ c els =>
      let els' := map unwrap_all els in
      if sp_plain c then
        match els' with
        | [ch] => if unwrappable ch then ch else VStack Native c els'
        | _ => VStack Native c els'
        end
      else VStack Native c els'
  | VCond _ c kw op ex => VCond Native c kw op (unwrap_all ex)
  | VZeroStack _ => VZeroStack Native
  | VZeroCond _ => VZeroCond Native
  | v => v
  end.

(* a redundant wrapper somewhere in the tree *)
Definition redundant (v : value) : bool :=
  match v with
  | VStack _ c [ch] => sp_plain c && unwrappable ch
  | _ => false
  end.
Fixpoint has_redundant (v : value) : bool :=
  redundant v ||
  match v with
  | VStack _ _ els => existsb has_redundant els
  | VCond _ _ _ _ ex => has_redundant ex
  | _ => false
  end.

(* ---- one rewrite step, as the property text states it ----
   [unwrap_step t t']: t' is t with one redundant wrapper, anywhere in the
   tree, replaced by its only element. *)
Inductive unwrap_step : value -> value -> Prop :=
| US_here a c ch : sp_plain c = true -> unwrappable ch = true -> unwrap_step (VStack a c [ch]) ch
| US_elem a c pre x y post : unwrap_step x y -> unwrap_step (VStack a c (pre ++ x :: post)) (VStack a c (pre ++ y :: post))
| US_expr a c kw op x y : unwrap_step x y -> unwrap_step (VCond a c kw op x) (VCond a c kw op y).

(* ---- "the only change it makes" ----
   An observation Q of trees is wrapper-blind when it is compositional
   (determined by a node's own data and the observations of its parts), does
   not depend on how a nested Stack is typed, and cannot tell a redundant
   wrapper from its only element.  The property says: no wrapper-blind
   observation can tell the tree after Reveal from the tree before. *)
Record wrapper_blind {A : Type} (Q : value -> A) : Prop := {
  wb_stack : forall a a' c els els', map Q els = map Q els' -> Q (VStack a c els) = Q (VStack a' c els');
  wb_cond : forall a c kw op ex ex', Q ex = Q ex' -> Q (VCond a c kw op ex) = Q (VCond a c kw op ex');
  wb_unwrap : forall a c ch, redundant (VStack a c [ch]) = true -> Q (VStack a c [ch]) = Q ch
}.

(* ---- lock traces (for "does not deadlock") ----
   An event is (true, n) = node n's mutex acquired, (false, n) = released.
   [run_locks tr held] replays a trace from the set [held] of mutexes already
   held: None if some mutex is acquired while held (sync.Mutex is not
   re-entrant: the caller would block for ever) or released while not held. *)
Section Locks.
  Context {I : Type} (ieq : I -> I -> bool).
  Fixpoint mem (x : I) (l : list I) : bool :=
    match l with [] => false | y :: t => ieq x y || mem x t end.
  Fixpoint del (x : I) (l : list I) : list I :=
    match l with [] => [] | y :: t => if ieq x y then t else y :: del x t end.
  Fixpoint run_locks (tr : list (bool * I)) (held : list I) : option (list I) :=
    match tr with
    | [] => Some held
    | (true, n) :: t => if mem n held then None else run_locks t (n :: held)
    | (false, n) :: t => if mem n held then run_locks t (del n held) else None
    end.
End Locks.
