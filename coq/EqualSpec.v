(* EqualSpec.v -- what C05 says: the equivalence that IsEqual decides, the
   domain of values the statement is about, and the point mutations that
   must be reported.  Independent of Generated.v and of the model (Equal.v).
   Definitions only; lemmas about them are in EqualProofs.v. *)
From Stackage Require Import Base Values EqualBase.
Open Scope Z_scope.

(* ------------------------------------------------------------------ *)
(* operators: compared by their text and their context *)
Definition op_text (o : oper) : bytes :=
  match o with
  | OpBuiltin 1 => B "=" | OpBuiltin 2 => B "!=" | OpBuiltin 3 => B "<"
  | OpBuiltin 4 => B ">" | OpBuiltin 5 => B "<=" | OpBuiltin 6 => B ">="
  | OpBuiltin _ => B "<invalid_operator>"
  | OpUser t _ => t
  end.
Definition op_ctx (o : oper) : bytes :=
  match o with OpBuiltin _ => B "comparison" | OpUser _ c => c end.

Definition op_same (a b : option oper) : Prop :=
  match a, b with
  | None, None => True
  | Some x, Some y => op_text x = op_text y /\ op_ctx x = op_ctx y
  | _, _ => False
  end.

(* the kind of a Stack as it presents itself: AND/OR/NOT/LIST/BASIC, and
   whether the kind word is case-folded (SetFold changes the word the Stack
   reports as its kind, and IsEqual compares that word) *)
Definition fold_on (c : config) : bool := N.testbit (c_opt c) 1.
Definition same_kind (c c' : config) : Prop := c_typ c = c_typ c' /\ fold_on c = fold_on c'.

(* ------------------------------------------------------------------ *)
(* leaves.  Pointers are looked through to any depth on both sides; a nil
   pointer is equivalent to nothing.  Slices and arrays are not told apart;
   they need equal capacity (an array's capacity is its length), equal
   length and pairwise equivalent elements.  Maps need the same type, the
   same size and for every key an equivalent value.  Structs are compared
   field by field in order: a pair of unexported fields is skipped, any
   other pair needs equal names and equivalent values.  Functions are
   equivalent when their types agree; channels when they are the same
   channel of the same type. *)
Inductive gequiv : gval -> gval -> Prop :=
| GE_prim x y p q :
    gunder x = Some p -> gunder y = Some q -> is_prim p = true -> prim_eqb p q = true ->
    gequiv x y
| GE_seq x y sx sy c lx ly :
    gunder x = Some sx -> gunder y = Some sy ->
    seq_parts sx = Some (c, lx) -> seq_parts sy = Some (c, ly) ->
    Forall2 gequiv lx ly ->
    gequiv x y
| GE_map x y t kx ky :
    gunder x = Some (GMap t kx) -> gunder y = Some (GMap t ky) ->
    length kx = length ky ->
    Forall (fun kv => exists v', glookup (fst kv) ky = Some v' /\ gequiv (snd kv) v') kx ->
    gequiv x y
| GE_struct x y tx ty fx fy :
    gunder x = Some (GStruct tx fx) -> gunder y = Some (GStruct ty fy) ->
    Forall2 (fun f f' => (fexp f = false /\ fexp f' = false) \/
                         (fname f = fname f' /\ fexp f = true /\ fexp f' = true /\ gequiv (fval f) (fval f')))
            fx fy ->
    gequiv x y
| GE_func t i j : gequiv (GFunc t i) (GFunc t j)
| GE_chan t i : gequiv (GChan t i) (GChan t i).

(* trees.  The way a nested Stack or Condition is typed (native, alias,
   pointer to alias) and every presentation option other than folding is
   irrelevant. *)
Inductive equiv : value -> value -> Prop :=
| E_nil : equiv VNil VNil
| E_leaf a b : gequiv a b -> equiv (VLeaf a) (VLeaf b)
| E_stack a c els a' c' els' :
    same_kind c c' -> c_cap c = c_cap c' -> Forall2 equiv els els' ->
    equiv (VStack a c els) (VStack a' c' els')
| E_cond a c kw op ex a' c' op' ex' :
    op_same op op' -> equiv ex ex' ->
    equiv (VCond a c kw op ex) (VCond a' c' kw op' ex').

(* ------------------------------------------------------------------ *)
(* domains.  [gall P] = P holds at every node of a leaf (map keys are
   atoms and are not visited); [vall PV PG] the same for trees. *)
Fixpoint gall (P : gval -> bool) (g : gval) : bool :=
  P g &&
  match g with
  | GPtr x => gall P x
  | GSlice _ _ l | GArray _ l | GList l => forallb (gall P) l
  | GMap _ kvs => forallb (fun kv => gall P (snd kv)) kvs
  | GStruct _ fs => forallb (fun f => gall P (snd f)) fs
  | _ => true
  end.

Fixpoint vall (PV : value -> bool) (PG : gval -> bool) (v : value) : bool :=
  PV v &&
  match v with
  | VLeaf g => gall PG g
  | VStack _ _ els => forallb (vall PV PG) els
  | VCond _ _ _ _ ex => vall PV PG ex
  | _ => true
  end.

Fixpoint nodup_keys (ks : list gval) : bool :=
  match ks with
  | [] => true
  | k :: t => negb (existsb (prim_eqb k) t) && nodup_keys t
  end.

Definition ends_in (f : gval -> bool) (g : gval) : bool :=
  match gunder g with Some t => f t | None => false end.

(* the leaves the model covers (the harness catalogue): no foreign
   Stringers, Operators as plain elements, []any, unsafe values; no pointer
   to a function or channel; no channel as a direct slice/array element; map
   keys are distinct strings/integers/booleans; the exported flag of a
   struct field says what its name says *)
Definition supp_local (g : gval) : bool :=
  match g with
  | GStringer _ _ | GOper _ | GList _ | GOther _ => false
  | GPtr x => negb (ends_in (fun t => is_func t || is_chan t) x)
  | GSlice _ _ l | GArray _ l => forallb (fun e => negb (ends_in is_chan e)) l
  | GMap _ kvs => forallb (fun kv => is_key (fst kv)) kvs && nodup_keys (map fst kvs)
  | GStruct _ fs => forallb (fun f => Bool.eqb (fexp f) (name_exported (fname f))) fs
  | _ => true
  end.
Definition gsupp : gval -> bool := gall supp_local.

Definition stack_typ_ok (t : N) : bool :=
  ((t =? 1) || (t =? 2) || (t =? 3) || (t =? 4) || (t =? 6))%N.
Definition no_policy (c : config) : bool := match c_eqf c with None => true | Some _ => false end.

(* trees the statement is about: initialised Stacks of the five kinds and
   initialised Conditions, none with a user equality policy, holding nil,
   covered leaves, Stacks and Conditions.  Zero Stack{} / Condition{} values
   are outside. *)
Definition vsupp_local (v : value) : bool :=
  match v with
  | VStack _ c _ => stack_typ_ok (c_typ c) && no_policy c
  | VCond _ c _ _ _ => no_policy c
  | VZeroStack _ | VZeroCond _ => false
  | _ => true
  end.
Definition vsupp : value -> bool := vall vsupp_local supp_local.

(* shapes on which the unrepaired code still deviates (see Equal.v, [fixes]) *)
(* R1: a slice/array element that is a nil pointer *)
Definition nilelem_local (g : gval) : bool :=
  match g with
  | GSlice _ _ l | GArray _ l => forallb (fun e => match gunder e with None => false | Some _ => true end) l
  | _ => true
  end.
Definition no_nil_elem : value -> bool := vall (fun _ => true) nilelem_local.
(* R3: a struct whose only field is unexported *)
Definition lone_local (g : gval) : bool :=
  match g with
  | GStruct _ [f] => fexp f
  | _ => true
  end.
Definition no_lone_private : value -> bool := vall (fun _ => true) lone_local.

(* the property's leaf domain for "an independently rebuilt copy is
   accepted": no NaN (Go's ==), no nil pointer *)
Definition refl_local (g : gval) : bool :=
  negb (is_nan g) && match g with GNilPtr _ _ => false | _ => true end.
Definition refl_domain (v : value) : bool := vsupp v && vall (fun _ => true) refl_local v.

(* receivers of IsEqual *)
Definition is_receiver (v : value) : bool :=
  match v with VStack _ _ _ | VCond _ _ _ _ _ => true | _ => false end.

(* ------------------------------------------------------------------ *)
(* point mutations (the QUANTIFIER of C05).  [gmut a b]: b is a with one
   difference somewhere inside. *)
Inductive gmut : gval -> gval -> Prop :=
| GM_prim p q : is_prim p = true -> is_prim q = true -> prim_eqb p q = false -> gmut p q
      (* a primitive leaf changes its value or its type *)
| GM_ptr_l x y : gmut x y -> gmut (GPtr x) y
| GM_ptr_r x y : gmut x y -> gmut x (GPtr y)
      (* ... seen through any number of pointers on either side *)
| GM_seq_elem sx sy c pre a b post c' post' :
    seq_parts sx = Some (c, pre ++ a :: post) -> seq_parts sy = Some (c', pre ++ b :: post') ->
    gmut a b -> gmut sx sy
      (* one element of a slice/array, at any position *)
| GM_seq_len sx sy c lx c' ly :
    seq_parts sx = Some (c, lx) -> seq_parts sy = Some (c', ly) -> length lx <> length ly -> gmut sx sy
      (* one element more or fewer *)
| GM_seq_cap sx sy c lx c' ly :
    seq_parts sx = Some (c, lx) -> seq_parts sy = Some (c', ly) -> c <> c' -> gmut sx sy
| GM_map_val t pre k a b post t' post' :
    is_key k = true -> existsb (prim_eqb k) (map fst pre) = false -> gmut a b ->
    gmut (GMap t (pre ++ (k, a) :: post)) (GMap t' (pre ++ (k, b) :: post'))
      (* the value of one key *)
| GM_map_key t kx t' ky k v :
    In (k, v) kx -> glookup k ky = None -> gmut (GMap t kx) (GMap t' ky)
      (* one key replaced by a key the other map does not have *)
| GM_map_len t kx t' ky : length kx <> length ky -> gmut (GMap t kx) (GMap t' ky)
| GM_map_type t kx t' ky : t <> t' -> gmut (GMap t kx) (GMap t' ky)
| GM_struct_field t pre n a b post t' post' :
    gmut a b -> gmut (GStruct t (pre ++ (n, true, a) :: post)) (GStruct t' (pre ++ (n, true, b) :: post'))
      (* one exported field *)
| GM_func t i u j : t <> u -> gmut (GFunc t i) (GFunc u j)
| GM_chan t i u j : t <> u \/ i <> j -> gmut (GChan t i) (GChan u j).

Definition vshape (v : value) : N :=
  match v with VNil => 0 | VLeaf _ => 1 | VStack _ _ _ => 2 | VCond _ _ _ _ _ => 3 | VZeroStack _ => 4 | VZeroCond _ => 5 end%N.

Inductive mutate1 : value -> value -> Prop :=
| M_leaf a b : gmut a b -> mutate1 (VLeaf a) (VLeaf b)
| M_shape x y : vshape x <> vshape y -> mutate1 x y
      (* nil / leaf / Stack / Condition exchanged for one another *)
| M_elem a c pre x y post a' c' post' :
    mutate1 x y -> mutate1 (VStack a c (pre ++ x :: post)) (VStack a' c' (pre ++ y :: post'))
      (* the difference is inside one element of a Stack, at any position and depth *)
| M_expr a c kw op ex a' c' kw' op' ex' :
    mutate1 ex ex' -> mutate1 (VCond a c kw op ex) (VCond a' c' kw' op' ex')
| M_kw a c kw op ex a' c' kw' op' ex' :
    kw <> kw' -> mutate1 (VCond a c kw op ex) (VCond a' c' kw' op' ex')
| M_op a c kw op ex a' c' kw' op' ex' :
    ~ op_same op op' -> mutate1 (VCond a c kw op ex) (VCond a' c' kw' op' ex')
| M_kind a c els a' c' els' :
    c_typ c <> c_typ c' -> mutate1 (VStack a c els) (VStack a' c' els')
| M_cap a c els a' c' els' :
    c_cap c <> c_cap c' -> mutate1 (VStack a c els) (VStack a' c' els')
| M_len a c els a' c' els' :
    length els <> length els' -> mutate1 (VStack a c els) (VStack a' c' els')
      (* one element more or fewer *)
| M_swap a c pre x mid y post a' c' :
    ~ equiv x y ->
    mutate1 (VStack a c (pre ++ x :: mid ++ y :: post)) (VStack a' c' (pre ++ y :: mid ++ x :: post)).
      (* two non-equivalent siblings exchanged *)
