(* StackRefine.v -- the raw-slot model (StackImpl, over the regenerated
   fragments of Generated.v) refines the ordered-list specification
   (StackSpec): step lemma per operation, lifted to every finite history. *)
From Stackage Require Import Base Generated StackImpl StackSpec.
From Coq Require Import ZifyBool.
Open Scope Z_scope.

Definition Bnd : Z := 2305843009213693952. (* 2^61 *)

Ltac w64 := repeat match goal with
  | |- context [wrap64 ?z] =>
      lazymatch z with context [wrap64 _] => fail | _ => idtac end;
      rewrite (wrap64_id z) by (unfold in_i64, two63, Bnd in *; lia)
  end.

(* ---- closed forms of the translated fragments (these are the proofs that
        break when the Go source of a guard changes) ---- *)

Lemma g_ulen_spec n : 0 <= n < Bnd -> g_ulen (1 + n) = n.
Proof.
  intros H. unfold g_ulen.
  destruct (Z.eqb_spec (1 + n) 0); [lia|].
  destruct (Z.eqb_spec (1 + n) 1); cbn [orb]; w64; lia.
Qed.

Lemma g_isFull_spec len cap : g_isFull len cap = if cap =? 0 then false else len =? cap.
Proof. reflexivity. Qed.

Lemma flag_positive_has o f : g_flag_positive o f = has o f.
Proof. reflexivity. Qed.

Lemma g_index_some n neg fwd i p :
  0 <= n < Bnd -> in_i64 i -> resolve neg fwd n i = Some p ->
  g_index n neg fwd i = TCut 0 [p + 1; 0] [true] /\ 0 <= p < n.
Proof.
  intros Hn Hi. unfold resolve, g_index, g_factorNegIndex, in_i64, two63 in *.
  destruct (Z.leb_spec n 0); [discriminate|].
  destruct (Z.ltb_spec 0 n); [|lia].
  destruct (Z.ltb_spec i 0).
  - destruct neg; simpl; [|discriminate].
    destruct (Z.leb_spec (- n) i); [|discriminate]. intros E; inversion E; subst p; clear E.
    w64. destruct (Z.leb_spec (- n) i); [|lia]. simpl.
    destruct (Z.ltb_spec (n - 1) (i + n * 2)); [|lia].
    w64. split; [do 2 f_equal; lia | lia].
  - destruct (Z.leb_spec n i).
    + destruct fwd; [|discriminate]. intros E; inversion E; subst p; clear E.
      w64. destruct (Z.ltb_spec (n - 1) i); [|lia]. split; [do 2 f_equal; lia | lia].
    + intros E; inversion E; subst p; clear E.
      w64. destruct (Z.ltb_spec (n - 1) i); [lia|]. w64. split; [do 2 f_equal; lia | lia].
Qed.

Lemma g_index_none n neg fwd i :
  0 <= n < Bnd -> in_i64 i -> resolve neg fwd n i = None ->
  exists i', g_index n neg fwd i = TRet [i'; 0] [false].
Proof.
  intros Hn Hi. unfold resolve, g_index, in_i64, two63 in *.
  destruct (Z.leb_spec n 0).
  - destruct (Z.ltb_spec 0 n); [lia|]. eauto.
  - destruct (Z.ltb_spec 0 n); [|lia].
    destruct (Z.ltb_spec i 0).
    + destruct neg; simpl; [|eauto].
      destruct (Z.leb_spec (- n) i); [discriminate|]. intros _.
      w64. destruct (Z.leb_spec (- n) i); [lia|]. simpl. eauto.
    + w64. destruct (Z.leb_spec n i).
      * destruct (Z.ltb_spec (n - 1) i); [|lia]. destruct fwd; [discriminate|eauto].
      * discriminate.
Qed.

(* ---- list lemmas ---- *)
Lemma zlen_cons {A} (x : A) l : zlen (x :: l) = 1 + zlen l.
Proof. unfold zlen. simpl length. lia. Qed.
Lemma zlen_app {A} (a b : list A) : zlen (a ++ b) = zlen a + zlen b.
Proof. unfold zlen. rewrite app_length. lia. Qed.
Lemma zlen_map {A B} (f : A -> B) l : zlen (map f l) = zlen l.
Proof. unfold zlen. now rewrite map_length. Qed.
Lemma zlen_nonneg {A} (l : list A) : 0 <= zlen l.
Proof. unfold zlen. lia. Qed.
Lemma zlen_rev {A} (l : list A) : zlen (rev l) = zlen l.
Proof. unfold zlen. now rewrite rev_length. Qed.

Lemma znth_cons_succ {A} (x : A) l p : 0 <= p -> znth (x :: l) (p + 1) = znth l p.
Proof.
  intros H. unfold znth. destruct (Z.ltb_spec (p + 1) 0); [lia|].
  destruct (Z.ltb_spec p 0); [lia|].
  replace (Z.to_nat (p + 1)) with (S (Z.to_nat p)) by lia. reflexivity.
Qed.
Lemma znth_map {A B} (f : A -> B) l p : znth (map f l) p = option_map f (znth l p).
Proof. unfold znth. destruct (p <? 0); [reflexivity|]. apply nth_error_map. Qed.
Lemma znth_in {A} (l : list A) p d : 0 <= p < zlen l -> znth l p = Some (nth (Z.to_nat p) l d).
Proof.
  intros H. unfold znth, zlen in *. destruct (Z.ltb_spec p 0); [lia|].
  apply nth_error_nth'. lia.
Qed.
Lemma znth_out {A} (l : list A) p : p < 0 \/ zlen l <= p -> znth l p = None.
Proof.
  intros H. unfold znth, zlen in *. destruct (Z.ltb_spec p 0); [reflexivity|].
  apply nth_error_None. lia.
Qed.

Lemma set_nth_map {A B} (f : A -> B) n x l : set_nth n (f x) (map f l) = map f (set_nth n x l).
Proof. revert n; induction l as [|h t IH]; intros [|n]; simpl; try reflexivity. now rewrite IH. Qed.
Lemma set_nth_length {A} n (x : A) l : length (set_nth n x l) = length l.
Proof. revert n; induction l as [|h t IH]; intros [|n]; simpl; auto. Qed.
Lemma remove_nth_length {A} n (l : list A) : (n < length l)%nat -> length (remove_nth n l) = (length l - 1)%nat.
Proof. revert n; induction l as [|h t IH]; intros [|n] H; simpl in *; try lia. rewrite IH by lia. lia. Qed.

Lemma zlen_firstn {A} k (l : list A) : zlen (firstn k l) = Z.min (Z.of_nat k) (zlen l).
Proof. unfold zlen. rewrite firstn_length. lia. Qed.
Lemma zlen_skipn {A} k (l : list A) : zlen (skipn k l) = Z.max 0 (zlen l - Z.of_nat k).
Proof. unfold zlen. rewrite skipn_length. lia. Qed.

Section Refine.
  Variable V : Type.
  Variable nilv : V.
  Variable isnil : V -> bool.
  Variable isstack : V -> bool.
  Variable pol : N -> V -> option N.
  Hypothesis nil_isnil : isnil nilv = true.
  (* the nil interface value is unique *)
  Hypothesis isnil_eq : forall v, isnil v = true -> v = nilv.

  Notation slot := (slot V).
  Notation raw := (raw V).
  Notation step := (step V nilv isnil isstack pol).
  Notation sstep := (sstep V nilv isnil isstack pol).

  Definition abs_cfg (c : scfg) : acfg :=
    {| a_kind := k_typ c; a_cap := if k_cap c =? 0 then None else Some (k_cap c - 1);
       a_opts := k_opt c; a_fifo := k_ord c; a_err := k_err c; a_ppf := k_ppf c |}.

  Definition abs (c : scfg) (els : list V) : sstate V := {| s_cfg := abs_cfg c; s_elems := els |}.

  Definition mk (c : scfg) (els : list V) : raw := SCfg c :: map (@SVal V) els.

  Definition cap_ok (c : scfg) (n : Z) : Prop :=
    k_cap c = 0 \/ (2 <= k_cap c < Bnd /\ n + 1 <= k_cap c).

  (* well-formed raw state: slot 0 is the only configuration slot, the
     capacity is respected, and the length is below the bound m *)
  Definition WF (m : Z) (r : raw) (c : scfg) (els : list V) : Prop :=
    r = mk c els /\ cap_ok c (zlen els) /\ zlen els <= m.

  Definition to_sop (o : op V) : sop V :=
    match o with
    | OPush vs => SPush vs | OPop => SPop | OInsert v i => SInsert v i | ORemove i => SRemove i
    | OReplace v i => SReplace v i | OSwap i j => SSwap i j | OReverse => SReverse | OReset => SReset
    | OSetFIFO b => SSetFIFO b | OSetOpt f t => SSetOpt f t | OSetPolicy p => SSetPolicy p
    | OLen => SLen | OIndex i => SIndex i | OFront => SFront | OBack => SBack
    | OIsEmpty => SIsEmpty | OCap => SCap | OAvail => SAvail | OIsFull => SIsFull
    | OCanNest => SCanNest | OIsNesting => SIsNesting | OIsFIFO => SIsFIFO
    | OGetOpt f => SGetOpt f | OErrIsNil => SErrIsNil
    end.

  Definition abs_out (x : out V) : option (sout V) :=
    match x with
    | RUnit => Some XUnit
    | RVal (SVal v) ok => Some (XVal v ok)
    | RVal (SCfg _) _ => None          (* the configuration record leaked as an element *)
    | RBool b => Some (XBool b)
    | RInt z => Some (XInt z)
    | RLog l => Some (XLog l)
    end.

  (* how much an operation can make the stack grow *)
  Definition grow (o : op V) : Z :=
    match o with OPush vs => zlen vs | OInsert _ _ => 1 | _ => 0 end.
  (* every index argument is a Go int *)
  Definition op_i64 (o : op V) : Prop :=
    match o with
    | OInsert _ i | ORemove i | OReplace _ i | OIndex i => in_i64 i
    | OSwap i j => in_i64 i /\ in_i64 j
    | _ => True
    end.

  Lemma mk_zlen c els : zlen (mk c els) = 1 + zlen els.
  Proof. unfold mk. now rewrite zlen_cons, zlen_map. Qed.

  Lemma mk_ulen c els : zlen els < Bnd -> ulen V (mk c els) = zlen els.
  Proof. intros H. unfold ulen. rewrite mk_zlen. apply g_ulen_spec. pose proof (zlen_nonneg els). lia. Qed.

  Lemma mk_znth c els p : 0 <= p < zlen els ->
    znth (mk c els) (p + 1) = Some (SVal (nthz V nilv els p)).
  Proof.
    intros H. unfold mk. rewrite znth_cons_succ by lia. rewrite znth_map.
    rewrite (znth_in els p nilv) by lia. reflexivity.
  Qed.

  (* stack.index against the specification's sindex *)
  Lemma index_refines c els i :
    zlen els < Bnd -> in_i64 i ->
    index V nilv isnil (mk c els) i =
      match resolve (has (k_opt c) f_negidx) (has (k_opt c) f_fwdidx) (zlen els) i with
      | Some p => Ok (SVal (nthz V nilv els p), p + 1, negb (isnil (nthz V nilv els p)))
      | None => Ok (SVal nilv, 0, false)
      end.
  Proof.
    intros Hb Hi. unfold index. cbn [config mk bind]. fold (mk c els). rewrite mk_ulen by assumption.
    unfold positive. change g_flag_positive with has.
    change c_negidx with f_negidx. change c_fwdidx with f_fwdidx.
    pose proof (zlen_nonneg els) as Hn.
    destruct (resolve _ _ _ i) as [p|] eqn:R.
    - destruct (g_index_some _ _ _ _ _ (conj Hn Hb) Hi R) as [E Hp]. rewrite E.
      rewrite mk_znth by assumption. reflexivity.
    - destruct (g_index_none _ _ _ _ (conj Hn Hb) Hi R) as [i' E]. rewrite E. reflexivity.
  Qed.

  (* ---- Push ---- *)
  Definition nn_filter (c : scfg) (vs : list V) : list V :=
    if has (k_opt c) f_nnest then filter (fun v => negb (isstack v)) vs else vs.

  Lemma generic_append_spec c vs : forall els,
    cap_ok c (zlen els) ->
    generic_append V isstack c (mk c els) vs =
      mk c (els ++ take_room (room (abs_cfg c) (zlen els)) (nn_filter c vs)).
  Proof.
    unfold nn_filter.
    induction vs as [|x xs IH]; intros els Hc.
    - cbn [generic_append]. destruct (has (k_opt c) f_nnest); cbn [filter];
        unfold take_room; destruct (room _ _); rewrite ?firstn_nil, app_nil_r; reflexivity.
    - cbn [generic_append]. unfold can_push_nester, positive. change g_flag_positive with has.
      change c_nnest with f_nnest.
      assert (Hskip : forall l, has (k_opt c) f_nnest = true -> isstack x = true ->
                 (if has (k_opt c) f_nnest then filter (fun v => negb (isstack v)) (x :: l) else x :: l)
                 = (if has (k_opt c) f_nnest then filter (fun v => negb (isstack v)) l else l)).
      { intros l E1 E2. rewrite E1. cbn [filter]. rewrite E2. reflexivity. }
      destruct (has (k_opt c) f_nnest) eqn:En; [destruct (isstack x) eqn:Es|].
      + cbn [negb]. rewrite IH by assumption. cbn [filter]. rewrite Es. reflexivity.
      + cbn [negb filter]. rewrite Es. cbn [negb].
        rewrite g_isFull_spec, mk_zlen. unfold room, abs_cfg, a_cap.
        destruct Hc as [Hc|[Hc1 Hc2]].
        * rewrite Hc. cbn [Z.eqb negb]. replace (mk c els ++ [SVal x]) with (mk c (els ++ [x]))
            by (unfold mk; rewrite map_app; reflexivity).
          rewrite IH by (left; assumption). unfold room, abs_cfg, a_cap. rewrite Hc. cbn [Z.eqb take_room].
          rewrite <- app_assoc. reflexivity.
        * destruct (Z.eqb_spec (k_cap c) 0); [lia|].
          destruct (Z.eqb_spec (1 + zlen els) (k_cap c)) as [Ef|Ef]; cbn [negb].
          -- rewrite IH by (right; split; lia). unfold room, abs_cfg, a_cap.
             destruct (Z.eqb_spec (k_cap c) 0); [lia|]. cbn [take_room].
             replace (Z.to_nat (k_cap c - 1 - zlen els)) with 0%nat by lia.
             rewrite !firstn_O. reflexivity.
          -- replace (mk c els ++ [SVal x]) with (mk c (els ++ [x]))
               by (unfold mk; rewrite map_app; reflexivity).
             rewrite IH by (right; rewrite zlen_app; unfold zlen at 2; cbn [length]; split; lia).
             unfold room, abs_cfg, a_cap. destruct (Z.eqb_spec (k_cap c) 0); [lia|]. cbn [take_room].
             rewrite zlen_app. unfold zlen at 2. cbn [length].
             replace (Z.to_nat (k_cap c - 1 - zlen els)) with (S (Z.to_nat (k_cap c - 1 - (zlen els + Z.of_nat 1)))) by lia.
             cbn [firstn]. rewrite <- app_assoc. reflexivity.
      + cbn [negb]. 
        rewrite g_isFull_spec, mk_zlen. unfold room, abs_cfg, a_cap.
        destruct Hc as [Hc|[Hc1 Hc2]].
        * rewrite Hc. cbn [Z.eqb negb]. replace (mk c els ++ [SVal x]) with (mk c (els ++ [x]))
            by (unfold mk; rewrite map_app; reflexivity).
          rewrite IH by (left; assumption). unfold room, abs_cfg, a_cap. rewrite Hc. cbn [Z.eqb take_room].
          rewrite <- app_assoc. reflexivity.
        * destruct (Z.eqb_spec (k_cap c) 0); [lia|].
          destruct (Z.eqb_spec (1 + zlen els) (k_cap c)) as [Ef|Ef]; cbn [negb].
          -- rewrite IH by (right; split; lia). unfold room, abs_cfg, a_cap.
             destruct (Z.eqb_spec (k_cap c) 0); [lia|]. cbn [take_room].
             replace (Z.to_nat (k_cap c - 1 - zlen els)) with 0%nat by lia.
             rewrite !firstn_O. reflexivity.
          -- replace (mk c els ++ [SVal x]) with (mk c (els ++ [x]))
               by (unfold mk; rewrite map_app; reflexivity).
             rewrite IH by (right; rewrite zlen_app; unfold zlen at 2; cbn [length]; split; lia).
             unfold room, abs_cfg, a_cap. destruct (Z.eqb_spec (k_cap c) 0); [lia|]. cbn [take_room].
             rewrite zlen_app. unfold zlen at 2. cbn [length].
             replace (Z.to_nat (k_cap c - 1 - zlen els)) with (S (Z.to_nat (k_cap c - 1 - (zlen els + Z.of_nat 1)))) by lia.
             cbn [firstn]. rewrite <- app_assoc. reflexivity.
  Qed.

  Lemma mk_snoc c els x : mk c els ++ [SVal x] = mk c (els ++ [x]).
  Proof. unfold mk. rewrite map_app. reflexivity. Qed.

  Lemma zlen_snoc (els : list V) x : zlen (els ++ [x]) = zlen els + 1.
  Proof. rewrite zlen_app. reflexivity. Qed.

  Lemma method_append_spec p c vs : forall els log,
    cap_ok c (zlen els) ->
    method_append V pol p c (mk c els) vs log =
      (let '(els', e, log') := pol_push V pol p (room (abs_cfg c) (zlen els)) els vs log in
       (mk c els', e, log')).
  Proof.
    induction vs as [|x xs IH]; intros els log Hc; [reflexivity|].
    cbn [method_append pol_push]. rewrite g_isFull_spec, mk_zlen.
    unfold room, abs_cfg, a_cap.
    destruct Hc as [Hc|[Hc1 Hc2]].
    - rewrite Hc. cbn [Z.eqb negb option_map]. destruct (pol p x); [reflexivity|].
      rewrite mk_snoc, IH by (left; assumption). unfold room, abs_cfg, a_cap. rewrite Hc. reflexivity.
    - destruct (Z.eqb_spec (k_cap c) 0); [lia|].
      destruct (Z.eqb_spec (1 + zlen els) (k_cap c)) as [Ef|Ef]; cbn [negb].
      + destruct (Z.leb_spec (k_cap c - 1 - zlen els) 0); [|lia].
        rewrite IH by (right; split; lia). unfold room, abs_cfg, a_cap.
        destruct (Z.eqb_spec (k_cap c) 0); [lia|]. reflexivity.
      + destruct (Z.leb_spec (k_cap c - 1 - zlen els) 0); [lia|].
        destruct (pol p x); [reflexivity|].
        rewrite mk_snoc, IH by (right; rewrite zlen_snoc; split; lia).
        unfold room, abs_cfg, a_cap. destruct (Z.eqb_spec (k_cap c) 0); [lia|].
        cbn [option_map]. rewrite zlen_snoc.
        replace (k_cap c - 1 - (zlen els + 1)) with (k_cap c - 1 - zlen els - 1) by lia. reflexivity.
  Qed.

  (* bounds on what Push can do to the length (both paths) *)
  Lemma pol_push_len p vs : forall rm els log els' e log',
    pol_push V pol p rm els vs log = (els', e, log') ->
    zlen els <= zlen els' <= zlen els + zlen vs /\
    (forall k, rm = Some k -> 0 <= k -> zlen els' <= zlen els + k).
  Proof.
    induction vs as [|x xs IH]; intros rm els log els' e log' H; cbn [pol_push] in H.
    - inversion H; subst. change (zlen (@nil V)) with 0. split; [lia|]. intros; lia.
    - rewrite zlen_cons.
      destruct (match rm with Some k => k <=? 0 | None => false end) eqn:Efull.
      + apply IH in H as [H1 H2]. split; [lia|]. intros k Hk Hk0. apply (H2 k Hk Hk0).
      + destruct (pol p x).
        * inversion H; subst. pose proof (zlen_nonneg xs). split; [lia|]. intros; lia.
        * apply IH in H as [H1 H2]. rewrite zlen_snoc in *. split; [lia|].
          intros k Hk Hk0. subst rm. cbn [option_map] in H2.
          destruct (Z.leb_spec k 0); [discriminate|].
          specialize (H2 (k - 1) eq_refl). lia.
  Qed.

  Definition refines_step (m : Z) (c : scfg) (els : list V) (o : op V) : Prop :=
    exists c' els' x sx,
      step (mk c els) o = Ok (mk c' els', x) /\
      cap_ok c' (zlen els') /\ zlen els' <= m + grow o /\
      sstep (abs c els) (to_sop o) = (abs c' els', sx) /\ abs_out x = Some sx.

  Lemma ro_has c : positive c c_ronly = has (a_opts (abs_cfg c)) f_ronly.
  Proof. reflexivity. Qed.

  Lemma take_room_len (c : scfg) (els l : list V) :
    cap_ok c (zlen els) ->
    let t := take_room (room (abs_cfg c) (zlen els)) l in
    cap_ok c (zlen (els ++ t)) /\ zlen (els ++ t) <= zlen els + zlen l.
  Proof.
    intros Hc. cbv zeta. unfold room, abs_cfg, a_cap, take_room.
    destruct Hc as [Hc|[Hc1 Hc2]].
    - rewrite Hc. cbn [Z.eqb]. split; [left; assumption|]. rewrite zlen_app. lia.
    - destruct (Z.eqb_spec (k_cap c) 0); [lia|].
      rewrite zlen_app.
      assert (zlen (firstn (Z.to_nat (k_cap c - 1 - zlen els)) l) <= k_cap c - 1 - zlen els /\
              zlen (firstn (Z.to_nat (k_cap c - 1 - zlen els)) l) <= zlen l) as [F1 F2].
      { rewrite zlen_firstn. lia. }
      split; [right; split; [assumption|]|]; lia.
  Qed.

  Lemma filter_zlen (f : V -> bool) l : zlen (filter f l) <= zlen l.
  Proof. unfold zlen. induction l as [|h t IH]; cbn [filter length]; [lia|]. destruct (f h); cbn [length]; lia. Qed.

  Lemma step_push m c els vs :
    cap_ok c (zlen els) -> zlen els <= m -> m + zlen vs < Bnd ->
    refines_step m c els (OPush vs).
  Proof.
    intros Hc Hm Hb. unfold refines_step.
    cbn [StackImpl.step StackSpec.sstep config mk bind to_sop grow]. fold (mk c els).
    rewrite ro_has. cbn [abs s_cfg s_elems].
    destruct (has (a_opts (abs_cfg c)) f_ronly) eqn:Ero.
    - exists c, els, (RLog []), (XLog []). repeat split; auto. pose proof (zlen_nonneg vs). lia.
    - unfold push. cbn [config mk bind]. fold (mk c els).
      change (a_ppf (abs_cfg c)) with (k_ppf c).
      destruct (k_ppf c) as [p|] eqn:Ep.
      + rewrite method_append_spec by assumption.
        destruct (pol_push V pol p (room (abs_cfg c) (zlen els)) els vs []) as [[els' e] log'] eqn:PP.
        pose proof (pol_push_len _ _ _ _ _ _ _ _ PP) as [L1 L2].
        assert (Hc' : cap_ok c (zlen els')).
        { destruct Hc as [Hc|[Hc1 Hc2]]; [left; assumption|right; split; [assumption|]].
          specialize (L2 (k_cap c - 1 - zlen els)). unfold room, abs_cfg, a_cap in L2.
          destruct (Z.eqb_spec (k_cap c) 0); [lia|]. specialize (L2 eq_refl). lia. }
        destruct e as [e'|].
        * exists (with_err c (Some e')), els', (RLog log'), (XLog log').
          cbn [set_config mk]. repeat split; auto; lia.
        * exists c, els', (RLog log'), (XLog log'). repeat split; auto; lia.
      + rewrite generic_append_spec by assumption.
        pose proof (take_room_len c els (nn_filter c vs) Hc) as [T1 T2]. cbv zeta in T1, T2.
        eexists c, _, (RLog []), (XLog []). split; [reflexivity|]. split; [exact T1|].
        split; [|split; reflexivity].
        assert (zlen (nn_filter c vs) <= zlen vs).
        { unfold nn_filter. destruct (has (k_opt c) f_nnest); [apply filter_zlen|lia]. }
        lia.
  Qed.

  (* ---- Pop ---- *)
  Lemma IsEmpty_mk c els : zlen els < Bnd -> IsEmpty V (mk c els) = (zlen els =? 0).
  Proof. intros H. unfold IsEmpty, Len. cbn [is_init mk]. fold (mk c els). now rewrite mk_ulen. Qed.

  Lemma znth_app_last {A} (l : list A) x : znth (l ++ [x]) (zlen l) = Some x.
  Proof.
    unfold znth, zlen. destruct (Z.ltb_spec (Z.of_nat (length l)) 0); [lia|].
    rewrite Nat2Z.id. rewrite nth_error_app2 by lia. now rewrite Nat.sub_diag.
  Qed.

  (* the private pop (critical section), on any well-formed slice: the
     emptiness re-check under the lock makes it total *)
  Lemma pop_spec c els :
    zlen els < Bnd ->
    pop V nilv isnil (mk c els) =
      if zlen els =? 0 then Ok (mk c els, SVal nilv, false)
      else if k_ord c then
        match els with
        | v :: t => Ok (mk c t, SVal v, negb (isnil v))
        | [] => Ok (mk c els, SVal nilv, false)
        end
      else
        match rev els with
        | v :: t => Ok (mk c (rev t), SVal v, negb (isnil v))
        | [] => Ok (mk c els, SVal nilv, false)
        end.
  Proof.
    intros Hb. pose proof (zlen_nonneg els) as Hnn.
    unfold pop. cbn [config mk bind]. fold (mk c els). unfold g_pop. cbv beta zeta.
    rewrite mk_ulen by lia.
    destruct (Z.eqb_spec (zlen els) 0) as [E0|E0]; [reflexivity|].
    destruct (k_ord c) eqn:Eo.
    - destruct els as [|v t]; [exfalso; apply E0; reflexivity|]. reflexivity.
    - rewrite mk_zlen. w64. replace (1 + zlen els - 1) with (zlen els) by lia.
      destruct (rev els) as [|v t] eqn:Er.
      { apply (f_equal (@rev V)) in Er. rewrite rev_involutive in Er. subst els. exfalso; apply E0; reflexivity. }
      assert (Eels : els = rev t ++ [v]).
      { apply (f_equal (@rev V)) in Er. rewrite rev_involutive in Er. exact Er. }
      subst els. rewrite <- mk_snoc.
      replace (zlen (rev t ++ [v])) with (zlen (mk c (rev t))) by (rewrite mk_zlen, zlen_snoc; lia).
      rewrite znth_app_last.
      unfold zlen at 1. rewrite Nat2Z.id. rewrite firstn_app, Nat.sub_diag, firstn_all. cbn [firstn]. rewrite app_nil_r.
      reflexivity.
  Qed.

  Lemma step_pop m c els :
    cap_ok c (zlen els) -> zlen els <= m -> m < Bnd ->
    refines_step m c els OPop.
  Proof.
    intros Hc Hm Hb. unfold refines_step.
    cbn [StackImpl.step StackSpec.sstep config mk bind to_sop grow]. fold (mk c els).
    rewrite ro_has, IsEmpty_mk by lia. cbn [abs s_cfg s_elems].
    change (a_fifo (abs_cfg c)) with (k_ord c).
    destruct (has (a_opts (abs_cfg c)) f_ronly) eqn:Ero.
    { rewrite orb_true_r. exists c, els, (RVal (SVal nilv) false), (XVal nilv false). repeat split; auto; lia. }
    rewrite orb_false_r.
    destruct (Z.eqb_spec (zlen els) 0) as [E0|E0].
    { assert (els = []) by (destruct els; [reflexivity|rewrite zlen_cons in E0; pose proof (zlen_nonneg els); lia]).
      subst els. exists c, [], (RVal (SVal nilv) false), (XVal nilv false).
      destruct (k_ord c); repeat split; auto; lia. }
    rewrite pop_spec by lia. destruct (Z.eqb_spec (zlen els) 0); [contradiction|].
    destruct (k_ord c) eqn:Eo.
    - destruct els as [|v t]; [exfalso; apply E0; reflexivity|]. cbn [bind].
      exists c, t, (RVal (SVal v) (negb (isnil v))), (XVal v (negb (isnil v))).
      rewrite zlen_cons in *. pose proof (zlen_nonneg t).
      split; [reflexivity|]. split; [destruct Hc as [Hc|[? ?]]; [left; assumption|right; split; lia]|].
      split; [lia|]. split; reflexivity.
    - destruct (rev els) as [|v t] eqn:Er.
      { apply (f_equal (@rev V)) in Er. rewrite rev_involutive in Er. subst els. exfalso; apply E0; reflexivity. }
      assert (Eels : els = rev t ++ [v]).
      { apply (f_equal (@rev V)) in Er. rewrite rev_involutive in Er. exact Er. }
      cbn [bind].
      exists c, (rev t), (RVal (SVal v) (negb (isnil v))), (XVal v (negb (isnil v))).
      subst els. rewrite zlen_snoc in *. pose proof (zlen_nonneg (rev t)).
      split; [reflexivity|]. split; [destruct Hc as [Hc|[? ?]]; [left; assumption|right; split; lia]|].
      split; [lia|]. split; reflexivity.
  Qed.

  (* ---- Insert ---- *)
  Lemma set_nth_app_len {A} (a b : list A) x y : set_nth (length a) x (a ++ y :: b) = a ++ x :: b.
  Proof. induction a as [|h t IH]; cbn [length app set_nth]; [reflexivity|now rewrite IH]. Qed.

  Lemma firstn_succ_snoc {A} (l : list A) i d : (i < length l)%nat ->
    firstn (S i) l = firstn i l ++ [nth i l d].
  Proof.
    revert i; induction l as [|h t IH]; intros i H; cbn [length] in H; [lia|].
    destruct i; [reflexivity|]. cbn [firstn nth app]. f_equal. apply IH. lia.
  Qed.

  Lemma insert_mid_raw {A} (E : list A) (X : A) i : (i < length E)%nat ->
    set_nth i X (firstn (S i) E ++ skipn i E) = firstn i E ++ X :: skipn i E.
  Proof.
    intros H. destruct E as [|d E']; [cbn [length] in H; lia|].
    rewrite (firstn_succ_snoc _ i d H), <- app_assoc. cbn [app].
    rewrite <- (firstn_length_le (d :: E') (n := i)) at 1 by lia.
    apply set_nth_app_len.
  Qed.

  Lemma insert_mid_mk c els v k : (k < length els)%nat ->
    set_nth (S k) (SVal v) (firstn (S (S k)) (mk c els) ++ skipn (S k) (mk c els))
    = mk c (firstn k els ++ v :: skipn k els).
  Proof.
    intros H. unfold mk. rewrite firstn_cons, skipn_cons. cbn [app set_nth].
    rewrite insert_mid_raw by (rewrite map_length; assumption).
    rewrite firstn_map, skipn_map, map_app. reflexivity.
  Qed.

  Lemma step_insert m c els v i :
    cap_ok c (zlen els) -> zlen els <= m -> m + 1 < Bnd -> in_i64 i ->
    refines_step m c els (OInsert v i).
  Proof.
    intros Hc Hm Hb Hi. unfold refines_step. pose proof (zlen_nonneg els) as Hnn.
    cbn [StackImpl.step StackSpec.sstep config mk bind to_sop grow]. fold (mk c els).
    rewrite ro_has. cbn [abs s_cfg s_elems].
    destruct (isnil v || has (a_opts (abs_cfg c)) f_ronly) eqn:Eg.
    { exists c, els, (RBool false), (XBool false). repeat split; auto; lia. }
    unfold insert. cbn [config mk bind]. fold (mk c els). rewrite mk_ulen by lia.
    unfold g_insert. unfold abs_cfg at 1, a_cap. unfold in_i64, two63 in Hi.
    destruct Hc as [Hc|[Hc1 Hc2]].
    - rewrite Hc. cbn [Z.eqb negb]. rewrite andb_false_r.
      cbv beta zeta. w64. destruct (Z.ltb_spec (zlen els - 1) i); cbv beta iota zeta.
      + (* append *)
        rewrite mk_snoc, mk_ulen by (rewrite zlen_snoc; lia). rewrite zlen_snoc.
        exists c, (els ++ [v]), (RBool true), (XBool true).
        split; [rewrite Z.eqb_refl; reflexivity|]. split; [left; assumption|].
        split; [rewrite zlen_snoc; lia|]. split; [|reflexivity].
        unfold clamp, insert_at. replace (Z.to_nat (Z.max 0 (Z.min (zlen els) i))) with (length els) by (unfold zlen in *; lia).
        rewrite firstn_all, skipn_all. reflexivity.
      + w64. destruct (Z.leb_spec (i + 1) 1); cbv beta iota zeta.
        * (* front *)
          cbn [Z.ltb Z.compare orb]. rewrite mk_zlen.
          destruct (Z.ltb_spec (1 + zlen els) 1); [lia|]. cbv beta iota zeta. change (skipn _ (mk c els)) with (map (@SVal V) els).
          change (SCfg c :: SVal v :: map (@SVal V) els) with (mk c (v :: els)).
          rewrite mk_ulen by (rewrite zlen_cons; lia). rewrite zlen_cons.
          exists c, (v :: els), (RBool true), (XBool true).
          split; [replace (zlen els + 1 =? 1 + zlen els) with true by lia; reflexivity|].
          split; [left; assumption|]. split; [rewrite zlen_cons; lia|]. split; [|reflexivity].
          unfold clamp, insert_at. replace (Z.to_nat (Z.max 0 (Z.min (zlen els) i))) with 0%nat by lia. reflexivity.
        * (* middle *)
          rewrite mk_zlen. destruct (Z.ltb_spec (i + 1) 0); [lia|].
          destruct (Z.ltb_spec (1 + zlen els) (i + 1 + 1)); [lia|]. cbn [orb]. cbv beta iota zeta.
          replace (Z.to_nat (i + 1 + 1)) with (S (S (Z.to_nat i))) by lia.
          replace (Z.to_nat (i + 1)) with (S (Z.to_nat i)) by lia.
          rewrite insert_mid_mk by (unfold zlen in *; lia).
          assert (HL : zlen (firstn (Z.to_nat i) els ++ v :: skipn (Z.to_nat i) els) = zlen els + 1).
          { rewrite zlen_app, zlen_cons, zlen_firstn, zlen_skipn. lia. }
          rewrite mk_ulen by lia. rewrite HL.
          eexists c, _, (RBool true), (XBool true).
          split; [rewrite Z.eqb_refl; reflexivity|]. split; [left; assumption|]. split; [lia|]. split; [|reflexivity].
          unfold clamp, insert_at. replace (Z.to_nat (Z.max 0 (Z.min (zlen els) i))) with (Z.to_nat i) by lia. reflexivity.
    - destruct (Z.eqb_spec (k_cap c) 0); [lia|]. cbn [negb]. rewrite andb_true_r. cbv beta zeta. w64.
      destruct (Z.ltb_spec (k_cap c - 1) (zlen els + 1)); cbv beta iota zeta.
      + (* full *)
        destruct (Z.leb_spec (k_cap c - 1) (zlen els)); [|lia].
        exists c, els, (RBool false), (XBool false). repeat split; auto; [right; split; assumption|lia].
      + destruct (Z.leb_spec (k_cap c - 1) (zlen els)); [lia|].
        destruct (Z.ltb_spec (zlen els - 1) i); cbv beta iota zeta.
        * rewrite mk_snoc, mk_ulen by (rewrite zlen_snoc; lia). rewrite zlen_snoc.
          exists c, (els ++ [v]), (RBool true), (XBool true).
          split; [rewrite Z.eqb_refl; reflexivity|]. split; [right; rewrite zlen_snoc; split; [assumption|lia]|].
          split; [rewrite zlen_snoc; lia|]. split; [|reflexivity].
          unfold clamp, insert_at. replace (Z.to_nat (Z.max 0 (Z.min (zlen els) i))) with (length els) by (unfold zlen in *; lia).
          rewrite firstn_all, skipn_all. reflexivity.
        * w64. destruct (Z.leb_spec (i + 1) 1); cbv beta iota zeta.
          -- cbn [Z.ltb Z.compare orb]. rewrite mk_zlen.
             destruct (Z.ltb_spec (1 + zlen els) 1); [lia|]. cbv beta iota zeta. change (skipn _ (mk c els)) with (map (@SVal V) els).
             change (SCfg c :: SVal v :: map (@SVal V) els) with (mk c (v :: els)).
             rewrite mk_ulen by (rewrite zlen_cons; lia). rewrite zlen_cons.
             exists c, (v :: els), (RBool true), (XBool true).
             split; [replace (zlen els + 1 =? 1 + zlen els) with true by lia; reflexivity|].
             split; [right; rewrite zlen_cons; split; [assumption|lia]|]. split; [rewrite zlen_cons; lia|]. split; [|reflexivity].
             unfold clamp, insert_at. replace (Z.to_nat (Z.max 0 (Z.min (zlen els) i))) with 0%nat by lia. reflexivity.
          -- rewrite mk_zlen. destruct (Z.ltb_spec (i + 1) 0); [lia|].
             destruct (Z.ltb_spec (1 + zlen els) (i + 1 + 1)); [lia|]. cbn [orb]. cbv beta iota zeta.
             replace (Z.to_nat (i + 1 + 1)) with (S (S (Z.to_nat i))) by lia.
             replace (Z.to_nat (i + 1)) with (S (Z.to_nat i)) by lia.
             rewrite insert_mid_mk by (unfold zlen in *; lia).
             assert (HL : zlen (firstn (Z.to_nat i) els ++ v :: skipn (Z.to_nat i) els) = zlen els + 1).
             { rewrite zlen_app, zlen_cons, zlen_firstn, zlen_skipn. lia. }
             rewrite mk_ulen by lia. rewrite HL.
             eexists c, _, (RBool true), (XBool true).
             split; [rewrite Z.eqb_refl; reflexivity|]. split; [right; split; [assumption|lia]|]. split; [lia|]. split; [|reflexivity].
             unfold clamp, insert_at. replace (Z.to_nat (Z.max 0 (Z.min (zlen els) i))) with (Z.to_nat i) by lia. reflexivity.
  Qed.

  (* ---- Remove ---- *)
  Lemma keep_except_past (l : raw) : forall idx j, idx < j -> keep_except V idx j l = l.
  Proof.
    induction l as [|h t IH]; intros idx j H; cbn [keep_except]; [reflexivity|].
    destruct (Z.eqb_spec idx j); [lia|]. rewrite IH by lia. reflexivity.
  Qed.

  Lemma keep_except_map (l : list V) : forall idx j, j <= idx ->
    keep_except V idx j (map (@SVal V) l) = map (@SVal V) (remove_nth (Z.to_nat (idx - j)) l).
  Proof.
    induction l as [|h t IH]; intros idx j H; cbn [map keep_except]; [destruct (Z.to_nat (idx - j)); reflexivity|].
    destruct (Z.eqb_spec idx j) as [E|E].
    - subst. rewrite Z.sub_diag. cbn [Z.to_nat remove_nth]. apply keep_except_past. lia.
    - rewrite IH by lia. replace (Z.to_nat (idx - j)) with (S (Z.to_nat (idx - (j + 1)))) by lia.
      reflexivity.
  Qed.

  Lemma zlen_remove_nth (l : list V) p : 0 <= p < zlen l -> zlen (remove_nth (Z.to_nat p) l) = zlen l - 1.
  Proof. intros H. unfold zlen in *. rewrite remove_nth_length by lia. lia. Qed.

  Lemma step_remove m c els i :
    cap_ok c (zlen els) -> zlen els <= m -> m < Bnd -> in_i64 i ->
    refines_step m c els (ORemove i).
  Proof.
    intros Hc Hm Hb Hi. unfold refines_step. pose proof (zlen_nonneg els) as Hnn.
    cbn [StackImpl.step StackSpec.sstep config mk bind to_sop grow]. fold (mk c els).
    rewrite ro_has. cbn [abs s_cfg s_elems].
    destruct (has (a_opts (abs_cfg c)) f_ronly) eqn:Ero.
    { exists c, els, (RVal (SVal nilv) false), (XVal nilv false). repeat split; auto; lia. }
    unfold remove. cbn [config mk bind]. fold (mk c els).
    rewrite index_refines by (assumption || lia).
    unfold sindex. cbn [s_cfg s_elems abs]. change (a_opts (abs_cfg c)) with (k_opt c).
    destruct (resolve _ _ _ i) as [p|] eqn:R; cbn [bind].
    - assert (Hp : 0 <= p < zlen els).
      { pose proof (g_index_some _ _ _ _ _ (conj Hnn (Z.le_lt_trans _ _ _ Hm Hb)) Hi R) as [_ Hp]. exact Hp. }
      destruct (isnil (nthz V nilv els p)) eqn:En; cbn [negb].
      + exists c, els, (RVal (SVal (nthz V nilv els p)) false), (XVal (nthz V nilv els p) false).
        repeat split; auto; lia.
      + cbn [mk tl]. rewrite keep_except_map by lia. replace (p + 1 - 1) with p by lia.
        fold (mk c (remove_nth (Z.to_nat p) els)).
        rewrite !mk_ulen by (rewrite ?zlen_remove_nth; lia). rewrite zlen_remove_nth by lia.
        rewrite Z.eqb_refl. cbn [slot_notnil]. rewrite En. cbn [negb andb].
        exists c, (remove_nth (Z.to_nat p) els), (RVal (SVal (nthz V nilv els p)) true), (XVal (nthz V nilv els p) true).
        split; [reflexivity|]. rewrite zlen_remove_nth by lia.
        split; [destruct Hc as [Hc|[? ?]]; [left; assumption|right; split; lia]|]. split; [lia|]. split; reflexivity.
    - exists c, els, (RVal (SVal nilv) false), (XVal nilv false). repeat split; auto; lia.
  Qed.

  (* ---- Replace ---- *)
  Lemma set_nth_mk c els x p : set_nth (S p) (SVal x) (mk c els) = mk c (set_nth p x els).
  Proof. unfold mk. cbn [set_nth]. now rewrite set_nth_map. Qed.

  Lemma zlen_set_nth (l : list V) p x : zlen (set_nth p x l) = zlen l.
  Proof. unfold zlen. now rewrite set_nth_length. Qed.

  Lemma step_replace m c els v i :
    cap_ok c (zlen els) -> zlen els <= m -> m < Bnd -> in_i64 i ->
    refines_step m c els (OReplace v i).
  Proof.
    intros Hc Hm Hb Hi. unfold refines_step. pose proof (zlen_nonneg els) as Hnn.
    cbn [StackImpl.step StackSpec.sstep config mk bind to_sop grow]. fold (mk c els).
    rewrite ro_has. cbn [abs s_cfg s_elems].
    destruct (isnil v || has (a_opts (abs_cfg c)) f_ronly) eqn:Eg.
    { exists c, els, (RBool false), (XBool false). repeat split; auto; lia. }
    unfold replace. rewrite mk_ulen by lia. unfold g_replace. cbv beta iota zeta.
    unfold in_i64, two63 in Hi.
    destruct (Z.leb_spec 0 i); destruct (Z.ltb_spec i (zlen els)); cbn [andb]; cbv beta iota zeta;
      try (exists c, els, (RBool false), (XBool false); repeat split; auto; lia).
    rewrite mk_zlen.
    destruct (Z.ltb_spec (i + 1) 0); [lia|]. destruct (Z.leb_spec (1 + zlen els) (i + 1)); [lia|].
    cbn [orb bind]. replace (Z.to_nat (i + 1)) with (S (Z.to_nat i)) by lia. rewrite set_nth_mk.
    exists c, (set_nth (Z.to_nat i) v els), (RBool true), (XBool true).
    rewrite zlen_set_nth. repeat split; auto; lia.
  Qed.

  (* ---- Swap ---- *)
  Lemma step_swap m c els i j :
    cap_ok c (zlen els) -> zlen els <= m -> m < Bnd -> in_i64 i -> in_i64 j ->
    refines_step m c els (OSwap i j).
  Proof.
    intros Hc Hm Hb Hi Hj. unfold refines_step. pose proof (zlen_nonneg els) as Hnn.
    cbn [StackImpl.step StackSpec.sstep config mk bind to_sop grow]. fold (mk c els).
    rewrite ro_has. cbn [abs s_cfg s_elems].
    destruct (has (a_opts (abs_cfg c)) f_ronly) eqn:Ero.
    { exists c, els, RUnit, XUnit. repeat split; auto; lia. }
    unfold swap. rewrite mk_ulen by lia. unfold g_swap. cbv beta iota zeta.
    unfold in_i64, two63 in Hi, Hj.
    destruct (Z.leb_spec 0 i); destruct (Z.ltb_spec i (zlen els)); cbn [andb negb]; cbv beta iota zeta;
      try (exists c, els, RUnit, XUnit; repeat split; auto; lia).
    destruct (Z.leb_spec 0 j); destruct (Z.ltb_spec j (zlen els)); cbn [andb negb]; cbv beta iota zeta;
      try (exists c, els, RUnit, XUnit; repeat split; auto; lia).
    w64. rewrite !mk_znth by lia. cbn [bind].
    replace (Z.to_nat (i + 1)) with (S (Z.to_nat i)) by lia.
    replace (Z.to_nat (j + 1)) with (S (Z.to_nat j)) by lia.
    rewrite !set_nth_mk.
    exists c, (swap_list V nilv els i j), RUnit, XUnit. unfold swap_list. rewrite !zlen_set_nth.
    repeat split; auto; lia.
  Qed.

  (* ---- Reverse / Reset ---- *)
  Lemma step_reverse m c els :
    cap_ok c (zlen els) -> zlen els <= m -> m < Bnd ->
    refines_step m c els OReverse.
  Proof.
    intros Hc Hm Hb. unfold refines_step. pose proof (zlen_nonneg els) as Hnn.
    cbn [StackImpl.step StackSpec.sstep config mk bind to_sop grow]. fold (mk c els).
    rewrite ro_has, IsEmpty_mk by lia. cbn [abs s_cfg s_elems].
    destruct (has (a_opts (abs_cfg c)) f_ronly) eqn:Ero.
    { rewrite orb_true_r. exists c, els, RUnit, XUnit. repeat split; auto; lia. }
    rewrite orb_false_r. destruct (Z.eqb_spec (zlen els) 0) as [E0|E0].
    { assert (els = []) by (destruct els; [reflexivity|rewrite zlen_cons in E0; pose proof (zlen_nonneg els); lia]).
      subst els. exists c, [], RUnit, XUnit. repeat split; auto; lia. }
    cbn [reverse mk]. rewrite <- map_rev. fold (mk c (rev els)).
    exists c, (rev els), RUnit, XUnit. rewrite zlen_rev. repeat split; auto; lia.
  Qed.

  Lemma step_reset m c els :
    cap_ok c (zlen els) -> zlen els <= m -> m < Bnd ->
    refines_step m c els OReset.
  Proof.
    intros Hc Hm Hb. unfold refines_step. pose proof (zlen_nonneg els) as Hnn.
    cbn [StackImpl.step StackSpec.sstep config mk bind to_sop grow]. fold (mk c els).
    rewrite ro_has. cbn [abs s_cfg s_elems].
    destruct (has (a_opts (abs_cfg c)) f_ronly) eqn:Ero.
    { exists c, els, RUnit, XUnit. repeat split; auto; lia. }
    exists c, [], RUnit, XUnit. change (zlen (@nil V)) with 0.
    split; [reflexivity|]. split; [destruct Hc as [Hc|[? ?]]; [left; assumption|right; split; lia]|].
    split; [lia|]. split; reflexivity.
  Qed.

  (* ---- setters ---- *)
  Lemma scfg_eta c : {| k_typ := k_typ c; k_cap := k_cap c; k_opt := k_opt c; k_ord := k_ord c;
                        k_err := k_err c; k_ppf := k_ppf c |} = c.
  Proof. destruct c; reflexivity. Qed.

  Lemma step_setfifo m c els b :
    cap_ok c (zlen els) -> zlen els <= m -> refines_step m c els (OSetFIFO b).
  Proof.
    intros Hc Hm. unfold refines_step.
    cbn [StackImpl.step StackSpec.sstep config mk bind to_sop grow]. fold (mk c els).
    rewrite ro_has. cbn [abs s_cfg s_elems].
    destruct (has (a_opts (abs_cfg c)) f_ronly) eqn:Ero.
    { exists c, els, RUnit, XUnit. repeat split; auto; lia. }
    cbn [set_config mk].
    exists (if k_ord c then c else with_ord c b), els, RUnit, XUnit.
    split; [reflexivity|]. split; [destruct (k_ord c); exact Hc|]. split; [lia|]. split; [|reflexivity].
    unfold upd_cfg, abs, set_fifo, abs_cfg. cbn [s_cfg s_elems a_kind a_cap a_opts a_fifo a_err a_ppf].
    destruct (k_ord c) eqn:Eo; cbn [orb with_ord k_typ k_cap k_opt k_ord k_err k_ppf]; rewrite ?Eo; reflexivity.
  Qed.

  Lemma step_setopt m c els f t :
    cap_ok c (zlen els) -> zlen els <= m -> refines_step m c els (OSetOpt f t).
  Proof.
    intros Hc Hm. unfold refines_step.
    cbn [StackImpl.step StackSpec.sstep config mk bind to_sop grow set_config]. fold (mk c els).
    cbn [abs s_cfg s_elems].
    exists (set_state c f t), els, RUnit, XUnit.
    split; [reflexivity|].
    split; [unfold set_state; destruct (negb _ || _); [destruct t as [[|]|]|]; exact Hc|].
    split; [lia|]. split; [|reflexivity].
    unfold set_state. rewrite ro_has. change c_ronly with f_ronly.
    destruct (negb (has (a_opts (abs_cfg c)) f_ronly) || (f =? f_ronly)%N); [|reflexivity].
    destruct t as [[|]|]; reflexivity.
  Qed.

  Lemma step_setpolicy m c els p :
    cap_ok c (zlen els) -> zlen els <= m -> refines_step m c els (OSetPolicy p).
  Proof.
    intros Hc Hm. unfold refines_step.
    cbn [StackImpl.step StackSpec.sstep config mk bind to_sop grow]. fold (mk c els).
    rewrite ro_has. cbn [abs s_cfg s_elems].
    destruct (has (a_opts (abs_cfg c)) f_ronly) eqn:Ero.
    { exists c, els, RUnit, XUnit. repeat split; auto; lia. }
    exists (with_ppf c p), els, RUnit, XUnit. repeat split; auto; lia.
  Qed.

  (* ---- observers ---- *)
  Lemma Index_refines c els i :
    zlen els < Bnd -> in_i64 i ->
    Index V nilv isnil (mk c els) i =
      Ok (SVal (fst (sindex V nilv (abs c els) i)), negb (isnil (fst (sindex V nilv (abs c els) i)))).
  Proof.
    intros Hb Hi. unfold Index. rewrite index_refines by assumption.
    unfold sindex. cbn [abs s_cfg s_elems]. change (a_opts (abs_cfg c)) with (k_opt c).
    destruct (resolve _ _ _ i); cbn [bind fst]; [reflexivity|]. now rewrite nil_isnil.
  Qed.

  Lemma Index_inrange c els k : zlen els < Bnd -> (k < length els)%nat ->
    Index V nilv isnil (mk c els) (Z.of_nat k) = Ok (SVal (nth k els nilv), negb (isnil (nth k els nilv))).
  Proof.
    intros Hb Hk. rewrite Index_refines by (assumption || (unfold in_i64, two63, zlen, Bnd in *; lia)).
    unfold sindex, resolve. cbn [abs s_cfg s_elems]. unfold zlen in *.
    destruct (Z.leb_spec (Z.of_nat (length els)) 0); [lia|].
    destruct (Z.ltb_spec (Z.of_nat k) 0); [lia|].
    destruct (Z.leb_spec (Z.of_nat (length els)) (Z.of_nat k)); [lia|].
    cbn [fst]. unfold nthz. rewrite Nat2Z.id. reflexivity.
  Qed.

  Definition nn (v : V) : bool := negb (isnil v).
  Definition found (o : option V) : slot * bool :=
    match o with Some v => (SVal v, true) | None => (SVal nilv, false) end.

  Lemma skipn_nth_cons (l : list V) k : (k < length l)%nat -> skipn k l = nth k l nilv :: skipn (S k) l.
  Proof.
    revert k; induction l as [|h t IH]; intros k H; cbn [length] in H; [lia|].
    destruct k; [reflexivity|]. cbn [skipn nth]. apply IH. lia.
  Qed.

  Lemma scan_up_spec c els : zlen els < Bnd -> forall fuel k, (k + fuel <= length els)%nat ->
    scan_up V nilv isnil (mk c els) fuel (Z.of_nat k) (SVal nilv, false) =
      Ok (found (find nn (firstn fuel (skipn k els)))).
  Proof.
    intros Hb. induction fuel as [|f IH]; intros k H; cbn [scan_up]; [reflexivity|].
    rewrite Index_inrange by (assumption || lia). cbn [bind].
    rewrite (skipn_nth_cons els k) by lia. cbn [firstn find]. unfold nn at 1.
    destruct (isnil (nth k els nilv)) eqn:En; cbn [negb]; [|reflexivity].
    rewrite (isnil_eq _ En). replace (Z.of_nat k + 1) with (Z.of_nat (S k)) by lia.
    apply IH. lia.
  Qed.

  Lemma scan_down_spec c els : zlen els < Bnd -> forall fuel, (fuel <= length els)%nat ->
    scan_down V nilv isnil (mk c els) fuel (SVal nilv, false) =
      Ok (found (find nn (rev (firstn fuel els)))).
  Proof.
    intros Hb. induction fuel as [|f IH]; intros H; cbn [scan_down]; [reflexivity|].
    rewrite Index_inrange by (assumption || lia). cbn [bind].
    rewrite (firstn_succ_snoc els f nilv) by lia. rewrite rev_app_distr. cbn [rev app find]. unfold nn at 1.
    destruct (isnil (nth f els nilv)) eqn:En; cbn [negb]; [|reflexivity].
    rewrite (isnil_eq _ En). apply IH. lia.
  Qed.

  Lemma first_nonnil_found l :
    found (find nn l) = (SVal (fst (first_nonnil V nilv isnil l)), snd (first_nonnil V nilv isnil l)).
  Proof. unfold first_nonnil, found, nn. destruct (find _ l); reflexivity. Qed.

  Lemma Len_mk c els : zlen els < Bnd -> Len V (mk c els) = zlen els.
  Proof. intros H. unfold Len. cbn [is_init mk]. fold (mk c els). now apply mk_ulen. Qed.

  Lemma Front_refines c els : zlen els < Bnd ->
    Front V nilv isnil (mk c els) c = Ok (found (find nn (if k_ord c then els else rev els))).
  Proof.
    intros Hb. unfold Front. rewrite Len_mk by assumption. unfold zlen. rewrite Nat2Z.id.
    destruct (k_ord c).
    - pose proof (scan_up_spec c els Hb (length els) 0%nat ltac:(lia)) as E. cbn [Z.of_nat skipn] in E. rewrite E. now rewrite firstn_all.
    - rewrite scan_down_spec by (assumption || lia). now rewrite firstn_all.
  Qed.

  Lemma Back_refines c els : zlen els < Bnd ->
    Back V nilv isnil (mk c els) c = Ok (found (find nn (if k_ord c then rev els else els))).
  Proof.
    intros Hb. unfold Back. rewrite Len_mk by assumption. unfold zlen. rewrite Nat2Z.id.
    destruct (k_ord c); cbn [negb].
    - rewrite scan_down_spec by (assumption || lia). now rewrite firstn_all.
    - pose proof (scan_up_spec c els Hb (length els) 0%nat ltac:(lia)) as E. cbn [Z.of_nat skipn] in E. rewrite E. now rewrite firstn_all.
  Qed.

  Lemma is_nesting_mk c els : is_nesting V isstack (mk c els) = existsb isstack els.
  Proof. unfold is_nesting. cbn [mk tl]. induction els as [|h t IH]; cbn [map existsb]; [reflexivity|now rewrite IH]. Qed.

  Lemma step_observer m c els o :
    cap_ok c (zlen els) -> zlen els <= m -> m < Bnd -> op_i64 o ->
    match o with
    | OLen | OIndex _ | OFront | OBack | OIsEmpty | OCap | OAvail | OIsFull
    | OCanNest | OIsNesting | OIsFIFO | OGetOpt _ | OErrIsNil => True
    | _ => False
    end ->
    refines_step m c els o.
  Proof.
    intros Hc Hm Hb Hi Ho. unfold refines_step. pose proof (zlen_nonneg els) as Hnn.
    destruct o; try contradiction;
      cbn [StackImpl.step StackSpec.sstep config mk bind to_sop grow]; fold (mk c els);
      cbn [abs s_cfg s_elems].
    - (* Len *) rewrite Len_mk by lia. exists c, els, (RInt (zlen els)), (XInt (zlen els)). repeat split; auto; lia.
    - (* Index *) cbn [op_i64] in Hi. rewrite Index_refines by (assumption || lia). cbn [bind].
      change (sindex V nilv {| s_cfg := abs_cfg c; s_elems := els |} i) with (sindex V nilv (abs c els) i).
      destruct (sindex V nilv (abs c els) i) as [v q]. cbn [fst].
      exists c, els, (RVal (SVal v) (negb (isnil v))), (XVal v (negb (isnil v))). repeat split; auto; lia.
    - (* Front *) rewrite Front_refines by lia. cbn [bind]. change (a_fifo (abs_cfg c)) with (k_ord c).
      rewrite first_nonnil_found. destruct (first_nonnil V nilv isnil _) as [v ok]. cbn [fst snd bind].
      exists c, els, (RVal (SVal v) ok), (XVal v ok). repeat split; auto; lia.
    - (* Back *) rewrite Back_refines by lia. cbn [bind]. change (a_fifo (abs_cfg c)) with (k_ord c).
      rewrite first_nonnil_found. destruct (first_nonnil V nilv isnil _) as [v ok]. cbn [fst snd bind].
      exists c, els, (RVal (SVal v) ok), (XVal v ok). repeat split; auto; lia.
    - (* IsEmpty *) rewrite IsEmpty_mk by lia. exists c, els, (RBool (zlen els =? 0)), (XBool (zlen els =? 0)). repeat split; auto; lia.
    - (* Cap *) unfold g_Cap. cbv beta iota zeta. unfold abs_cfg, a_cap.
      eexists c, els, _, _. split; [reflexivity|]. split; [exact Hc|]. split; [lia|]. split; [reflexivity|].
      cbn [abs_out]. do 2 f_equal. destruct Hc as [Hc|[Hc1 Hc2]].
      + rewrite Hc. reflexivity.
      + destruct (Z.ltb_spec 0 (k_cap c)); [|lia]. destruct (Z.eqb_spec (k_cap c) 0); [lia|]. w64. lia.
    - (* Avail *) unfold g_Avail. cbv beta iota zeta. unfold abs_cfg, a_cap. rewrite mk_zlen.
      eexists c, els, _, _. split; [reflexivity|]. split; [exact Hc|]. split; [lia|]. split; [reflexivity|].
      cbn [abs_out]. do 2 f_equal. destruct Hc as [Hc|[Hc1 Hc2]].
      + rewrite Hc. reflexivity.
      + destruct (Z.ltb_spec 0 (k_cap c)); [|lia]. destruct (Z.eqb_spec (k_cap c) 0); [lia|]. w64. lia.
    - (* IsFull *) rewrite g_isFull_spec, mk_zlen. unfold abs_cfg, a_cap.
      eexists c, els, _, _. split; [reflexivity|]. split; [exact Hc|]. split; [lia|]. split; [reflexivity|].
      cbn [abs_out]. do 2 f_equal. destruct (Z.eqb_spec (k_cap c) 0); [reflexivity|].
      destruct (Z.eqb_spec (1 + zlen els) (k_cap c)); destruct (Z.eqb_spec (zlen els) (k_cap c - 1)); (reflexivity || lia).
    - (* CanNest *) eexists c, els, _, _. split; [reflexivity|]. repeat split; auto; lia.
    - (* IsNesting *) rewrite is_nesting_mk. eexists c, els, _, _. split; [reflexivity|]. repeat split; auto; lia.
    - (* IsFIFO *) eexists c, els, _, _. split; [reflexivity|]. repeat split; auto; lia.
    - (* GetOpt *) eexists c, els, _, _. split; [reflexivity|]. repeat split; auto; lia.
    - (* ErrIsNil *) eexists c, els, _, _. split; [reflexivity|]. repeat split; auto; lia.
  Qed.

  (* ---- every operation ---- *)
  Lemma step_refines m c els o :
    cap_ok c (zlen els) -> zlen els <= m -> m + grow o < Bnd -> op_i64 o ->
    refines_step m c els o.
  Proof.
    intros Hc Hm Hb Hi. pose proof (zlen_nonneg els).
    destruct o; cbn [grow op_i64] in *.
    - apply step_push; assumption.
    - apply step_pop; (assumption || lia).
    - apply step_insert; assumption.
    - apply step_remove; (assumption || lia).
    - apply step_replace; (assumption || lia).
    - destruct Hi. apply step_swap; (assumption || lia).
    - apply step_reverse; (assumption || lia).
    - apply step_reset; (assumption || lia).
    - apply step_setfifo; assumption.
    - apply step_setopt; assumption.
    - apply step_setpolicy; assumption.
    - apply step_observer; (assumption || exact I || lia).
    - apply step_observer; (assumption || exact I || lia).
    - apply step_observer; (assumption || exact I || lia).
    - apply step_observer; (assumption || exact I || lia).
    - apply step_observer; (assumption || exact I || lia).
    - apply step_observer; (assumption || exact I || lia).
    - apply step_observer; (assumption || exact I || lia).
    - apply step_observer; (assumption || exact I || lia).
    - apply step_observer; (assumption || exact I || lia).
    - apply step_observer; (assumption || exact I || lia).
    - apply step_observer; (assumption || exact I || lia).
    - apply step_observer; (assumption || exact I || lia).
    - apply step_observer; (assumption || exact I || lia).
  Qed.

  (* ---- every finite history ---- *)
  Fixpoint growth (ops : list (op V)) : Z :=
    match ops with [] => 0 | o :: t => grow o + growth t end.

  Lemma grow_nonneg o : 0 <= grow o.
  Proof. destruct o; cbn [grow]; try lia. apply zlen_nonneg. Qed.
  Lemma growth_nonneg ops : 0 <= growth ops.
  Proof. induction ops as [|o t IH]; cbn [growth]; [lia|]. pose proof (grow_nonneg o). lia. Qed.

  Notation run := (run V nilv isnil isstack pol).
  Notation srun := (srun V nilv isnil isstack pol).

  Theorem run_refines : forall ops m c els,
    cap_ok c (zlen els) -> zlen els <= m -> m + growth ops < Bnd -> Forall op_i64 ops ->
    exists c' els' outs souts,
      run (mk c els) ops = Ok (mk c' els', outs) /\
      cap_ok c' (zlen els') /\ zlen els' <= m + growth ops /\
      srun (abs c els) (map to_sop ops) = (abs c' els', souts) /\
      map abs_out outs = map Some souts.
  Proof.
    induction ops as [|o t IH]; intros m c els Hc Hm Hb Hi.
    - exists c, els, [], []. cbn [growth] in *. repeat split; auto; lia.
    - cbn [growth] in Hb. inversion Hi as [|? ? Ho Ht]; subst.
      pose proof (growth_nonneg t) as Gt. pose proof (grow_nonneg o) as Go.
      destruct (step_refines m c els o Hc Hm ltac:(lia) Ho) as (c1 & els1 & x & sx & E1 & Hc1 & Hm1 & S1 & A1).
      destruct (IH (m + grow o) c1 els1 Hc1 Hm1 ltac:(lia) Ht) as (c2 & els2 & outs & souts & E2 & Hc2 & Hm2 & S2 & A2).
      exists c2, els2, (x :: outs), (sx :: souts).
      cbn [StackImpl.run StackSpec.srun map growth]. rewrite E1. cbn [bind]. rewrite E2. cbn [bind].
      rewrite S1, S2. cbn [map]. rewrite A1, A2.
      repeat split; auto; lia.
  Qed.

  (* a freshly constructed stack is well-formed *)
  Lemma new_stack_wf t fifo cp :
    match cp with Some k => k < Bnd - 1 | None => True end ->
    exists c, new_stack V t fifo cp = mk c [] /\ cap_ok c 0 /\
              abs_cfg c = {| a_kind := t; a_cap := match cp with Some k => if 0 <? k then Some k else None | None => None end;
                             a_opts := 0; a_fifo := fifo; a_err := None; a_ppf := None |}.
  Proof.
    intros H. unfold new_stack. eexists. split; [reflexivity|]. unfold cap_ok, abs_cfg.
    cbn [k_typ k_cap k_opt k_ord k_err k_ppf].
    destruct cp as [k|]; [|split; [left; reflexivity|reflexivity]].
    destruct (Z.ltb_spec 0 k).
    - split; [right; unfold Bnd in *; lia|]. destruct (Z.eqb_spec (k + 1) 0); [lia|].
      replace (k + 1 - 1) with k by lia. reflexivity.
    - split; [left; reflexivity|reflexivity].
  Qed.

End Refine.
