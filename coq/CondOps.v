(* CondOps.v -- vocabulary shared by the Condition model (Cond.v) and the
   Condition specification (CondSpec.v): the calls of a history, their
   arguments, and the record of what is observed after every call.  Types
   only; nothing here says what a call does. *)
From Stackage Require Import Base Values.
Open Scope Z_scope.

(* the `kw any` argument of SetKeyword / Cond, by the three classes the code
   distinguishes *)
Inductive kwarg :=
| KStr (s : bytes)          (* a Go string (possibly empty) *)
| KStringer (t : bytes)     (* a non-zero value of a type with String() string; t = what it returns *)
| KOther.                   (* anything else: nil, numbers, a zero value of a stringer type, slices, ... *)

(* one variadic argument of SetEncap(x ...any) *)
Inductive encarg :=
| EStr (s : bytes)          (* string *)
| ESlice (l : list bytes)   (* []string of any length *)
| EOther.                   (* any other type *)

(* the calls.  OCond is the assignment c = Cond(kw, op, ex); OInit is
   c.Init(); an operator argument None is the nil Operator interface; the
   tri-state of the option setters is None = called without argument
   (toggle), Some b = called with b. *)
Inductive cop :=
| OCond (kw : kwarg) (op : option oper) (ex : value)
| OInit
| OSetKeyword (kw : kwarg)
| OSetOperator (op : option oper)
| OSetExpression (ex : value)
| OSetErr (e : option N)              (* None = SetErr(nil), Some id = SetErr(error number id) *)
| OSetNoNesting (t : option bool)
| OSetNoPadding (t : option bool)
| OSetParen (t : option bool)
| OSetEncap (xs : list encarg).

(* what String() returned: the text, or (used by the harness when the
   expression is, or contains, a Stack, whose rendering belongs to the
   rendering module) only the fact that it was not empty *)
Inductive sobs := SFull (s : bytes) | SNonEmpty.

(* observed after a call: Keyword(), Operator() (nil or the operator),
   Expression(), Valid()==nil, Err()==nil, String(), CanNest(), IsNesting(),
   Len() *)
Record cobs := MkObs {
  b_kw : bytes;
  b_op : option oper;
  b_ex : value;
  b_valid : bool;
  b_errnil : bool;
  b_str : sobs;
  b_cannest : bool;
  b_isnesting : bool;
  b_len : Z }.

(* a recorded case: the calls made on a variable that starts as the zero
   Condition{}, the observation after each completed call, and whether the
   call after the last recorded observation panicked (then cs_ops has one more
   entry than cs_obs) *)
Record ccase := MkCase {
  cs_ops : list cop;
  cs_obs : list cobs;
  cs_panic : bool }.
