(* EqualBase.v -- vocabulary shared by the model (Equal.v) and the
   specification (EqualSpec.v) of reflective equality: what a pointer chain
   ends in, which leaves are Go primitives, Go's == on primitives and on map
   keys, sizes.  Depends on Base and Values only.  No proofs. *)
From Stackage Require Import Base Values.
Open Scope Z_scope.

(* derefPtr on a leaf: follow non-nil pointers; None = a nil pointer was
   reached (reflect: the zero, invalid Value) *)
Fixpoint gunder (g : gval) : option gval :=
  match g with
  | GPtr x => gunder x
  | GNilPtr _ _ => None
  | _ => Some g
  end.

(* isKnownPrimitive: string, bool and the built-in number types *)
Definition is_prim (g : gval) : bool :=
  match g with
  | GStr _ | GInt _ _ | GBool _ | GFloat _ _ _ => true
  | _ => false
  end.

(* Go's == between two primitives held in interfaces (reflect.Value.Equal):
   identical type and equal value; a NaN (id < 0) equals nothing.  Floats
   are carried as printed text (Values.v), so +0 and -0 are different texts:
   the harness never generates -0. *)
Definition prim_eqb (p q : gval) : bool :=
  match p, q with
  | GStr a, GStr b => bytes_eqb a b
  | GInt t a, GInt u b => (t =? u)%N && (a =? b)
  | GBool a, GBool b => Bool.eqb a b
  | GFloat t a i, GFloat u b j => (t =? u)%N && bytes_eqb a b && (i =? j) && (0 <=? i)
  | _, _ => false
  end.

Definition is_nan (g : gval) : bool :=
  match g with GFloat _ _ i => i <? 0 | _ => false end.

(* map keys of the modelled catalogue: strings, integers, booleans; key
   lookup is Go's == on the key type *)
Definition is_key (g : gval) : bool :=
  match g with GStr _ | GInt _ _ | GBool _ => true | _ => false end.

Fixpoint glookup (k : gval) (kvs : list (gval * gval)) : option gval :=
  match kvs with
  | [] => None
  | (k', v) :: t => if prim_eqb k k' then Some v else glookup k t
  end.

(* slices and arrays: (capacity, elements); an array's capacity is its length *)
Definition seq_parts (g : gval) : option (Z * list gval) :=
  match g with
  | GSlice _ c l => Some (c, l)
  | GArray _ l => Some (zlen l, l)
  | _ => None
  end.

Definition fname (f : bytes * bool * gval) : bytes := fst (fst f).
Definition fexp (f : bytes * bool * gval) : bool := snd (fst f).
Definition fval (f : bytes * bool * gval) : gval := snd f.

(* Go: a field is exported iff its name starts with an upper-case letter
   (ASCII in the catalogue) *)
Definition name_exported (n : bytes) : bool :=
  match n with
  | b :: _ => let k := Byte.to_N b in (65 <=? k)%N && (k <=? 90)%N
  | [] => false
  end.

(* size of a tree, counting everything inside leaves (fuel, induction) *)
Fixpoint vsz (v : value) : nat :=
  match v with
  | VLeaf g => gsize g
  | VStack _ _ els => S (fold_right (fun x n => vsz x + n)%nat O els)
  | VCond _ _ _ _ ex => S (vsz ex)
  | _ => 1%nat
  end.

(* operator text and context (Operator.String / Operator.Context) *)
Definition is_chan (g : gval) : bool := match g with GChan _ _ => true | _ => false end.
Definition is_func (g : gval) : bool := match g with GFunc _ _ => true | _ => false end.
