(* CondSpecCorr.v -- specification-side evaluation of a recorded Condition
   history (family `cond`).  Independent of Generated.v and of the model
   (Cond.v), so the specification remains usable as the oracle when those do
   not compile.  Executable definitions only. *)
From Stackage Require Import Base Values CondOps CondSpec.
Open Scope Z_scope.

(* ---- structural equality on the values the family builds ---- *)
Definition oper_eqb (a b : oper) : bool :=
  match a, b with
  | OpBuiltin x, OpBuiltin y => (x =? y)%N
  | OpUser t c, OpUser t' c' => bytes_eqb t t' && bytes_eqb c c'
  | _, _ => false
  end.

Definition opt_eqb {A} (e : A -> A -> bool) (a b : option A) : bool :=
  match a, b with
  | None, None => true
  | Some x, Some y => e x y
  | _, _ => false
  end.

(* leaves outside the catalogue of the family compare unequal (never built) *)
Definition gval_eqb (a b : gval) : bool :=
  match a, b with
  | GStr x, GStr y => bytes_eqb x y
  | GInt t x, GInt t' y => (t =? t')%N && (x =? y)
  | GBool x, GBool y => Bool.eqb x y
  | GFloat t x i, GFloat t' y j => (t =? t')%N && bytes_eqb x y && (i =? j)
  | GStringer t x, GStringer t' y => (t =? t')%N && bytes_eqb x y
  | GOper x, GOper y => oper_eqb x y
  | GOther t, GOther t' => (t =? t')%N
  | _, _ => false
  end.

Definition akind_eqb (a b : akind) : bool :=
  match a, b with
  | Native, Native | AliasVal, AliasVal | AliasPtr, AliasPtr
  | AliasValStr, AliasValStr | AliasPtrStr, AliasPtrStr => true
  | _, _ => false
  end.

(* the fields a tree description sets *)
Definition config_eqb (a b : config) : bool :=
  (c_typ a =? c_typ b)%N && (c_cap a =? c_cap b) && (c_opt a =? c_opt b)%N &&
  bytes_eqb (c_sym a) (c_sym b) && bytes_eqb (c_ljc a) (c_ljc b) &&
  list_eqb (list_eqb bytes_eqb) (c_enc a) (c_enc b) && Bool.eqb (c_ord a) (c_ord b) &&
  bytes_eqb (c_id a) (c_id b).

Fixpoint value_eqb (a b : value) : bool :=
  match a, b with
  | VNil, VNil => true
  | VLeaf g, VLeaf h => gval_eqb g h
  | VStack k c els, VStack k' c' els' =>
      akind_eqb k k' && config_eqb c c' &&
      (fix go (l l' : list value) : bool :=
         match l, l' with
         | [], [] => true
         | x :: t, y :: t' => value_eqb x y && go t t'
         | _, _ => false
         end) els els'
  | VCond k c kw op ex, VCond k' c' kw' op' ex' =>
      akind_eqb k k' && config_eqb c c' && bytes_eqb kw kw' && opt_eqb oper_eqb op op' && value_eqb ex ex'
  | VZeroStack k, VZeroStack k' => akind_eqb k k'
  | VZeroCond k, VZeroCond k' => akind_eqb k k'
  | _, _ => false
  end.

(* ---- shard driver (same shape as the list-core families) ---- *)
Fixpoint nonzero_from {A} (f : A -> N) (i : N) (l : list A) : list (N * N) :=
  match l with
  | [] => []
  | x :: t => let v := f x in
              if (v =? 0)%N then nonzero_from f (i + 1)%N t else (i, v) :: nonzero_from f (i + 1)%N t
  end.
Definition verdicts {A} (f : A -> N) (l : list A) : list (N * N) := nonzero_from f 0%N l.

(* ---- the oracle ---- *)

(* text of an expression value as far as property C06 fixes it: strings,
   numbers, booleans by their usual text, a stringer by what it returns.
   For anything else (Stacks, Conditions, foreign types) the property only
   says whether String() is empty. *)
Definition spec_ex_text (v : value) : option bytes :=
  match v with
  | VLeaf (GStringer _ t) => Some t
  | VLeaf (GStr s) => Some s
  | VLeaf (GInt _ z) => Some (Z_to_bytes z)
  | VLeaf (GBool b) => Some (bool_to_bytes b)
  | VLeaf (GFloat _ t _) => Some t
  | _ => None
  end.

Definition str_ok (rh : list cop) (s : sobs) : bool :=
  if sp_valid rh then
    match s, spec_ex_text (sp_ex rh) with
    | SFull t, Some x => bytes_eqb t (sp_string (fun _ => x) rh)
    | SFull t, None => nonempty t
    | SNonEmpty, _ => true
    end
  else match s with SFull [] => true | _ => false end.

Definition obs_ok (rh : list cop) (b : cobs) : bool :=
  bytes_eqb (b_kw b) (sp_kw rh) &&
  opt_eqb oper_eqb (b_op b) (sp_op rh) &&
  value_eqb (b_ex b) (sp_ex rh) &&
  Bool.eqb (b_valid b) (sp_valid rh) &&
  Bool.eqb (b_errnil b) (negb (sp_err rh)) &&
  str_ok rh (b_str b) &&
  Bool.eqb (b_cannest b) (sp_cannest rh) &&
  Bool.eqb (b_isnesting b) (sp_isnesting rh) &&
  (b_len b =? sp_len rh).

(* every call has its observation and every observation is what the
   specification says after that prefix of the history *)
Fixpoint all_ok (rh : list cop) (ops : list cop) (obs : list cobs) : bool :=
  match ops, obs with
  | [], [] => true
  | o :: ops', b :: obs' => obs_ok (o :: rh) b && all_ok (o :: rh) ops' obs'
  | _, _ => false
  end.

Definition spec_ok (c : ccase) : bool := negb (cs_panic c) && all_ok [] (cs_ops c) (cs_obs c).

Definition check (c : ccase) : N := if spec_ok c then 0%N else 2%N.
