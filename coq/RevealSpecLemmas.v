(* RevealSpecLemmas.v -- facts about the specification of C20 alone: the
   observations it names are wrapper-blind, the fully-unwrapped form is a
   normal form (idempotent, free of redundant wrappers), and one rewrite
   step "replace a redundant wrapper by its only element" is invisible to
   every wrapper-blind observation and never deepens the tree.  Nothing here
   mentions the model. *)
From Stackage Require Import Base Values RevealSpec.
Open Scope nat_scope.

Lemma flat_map_map_eq {X Y} (f : X -> list Y) l l' : map f l = map f l' -> flat_map f l = flat_map f l'.
Proof. rewrite !flat_map_concat_map. intros ->. reflexivity. Qed.

Lemma redundant_inv a c ch : redundant (VStack a c [ch]) = true -> sp_plain c = true /\ unwrappable ch = true.
Proof. simpl. intros H. apply andb_true_iff in H. exact H. Qed.

(* ---- the named observations are wrapper-blind ---- *)
Lemma dfs_leaves_blind : wrapper_blind dfs_leaves.
Proof.
  constructor.
  - intros a a' c els els' H. simpl. apply flat_map_map_eq. exact H.
  - intros a c kw op ex ex' H. simpl. rewrite H. reflexivity.
  - intros a c ch _. simpl. apply app_nil_r.
Qed.

Lemma pn_stacks_blind : wrapper_blind pn_stacks.
Proof.
  constructor.
  - intros a a' c els els' H. simpl. f_equal. apply flat_map_map_eq. exact H.
  - intros a c kw op ex ex' H. simpl. exact H.
  - intros a c ch H. apply redundant_inv in H. destruct H as [H _].
    unfold sp_plain in H. apply andb_true_iff in H. destruct H as [H1 H2].
    simpl. destruct (sp_paren c); [discriminate|]. destruct (sp_not c); [discriminate|].
    simpl. apply app_nil_r.
Qed.

Lemma unwrappable_unwrap_all v : unwrappable v = true -> unwrappable (unwrap_all v) = true.
Proof.
  destruct v as [| g | a c els | a c kw op ex | a | a]; simpl; auto.
  intros H. destruct (sp_plain c); simpl; auto.
  destruct (map unwrap_all els) as [|ch [|ch' l]]; simpl; auto.
  destruct (unwrappable ch) eqn:E; simpl; auto.
Qed.

Lemma unwrap_all_blind : wrapper_blind unwrap_all.
Proof.
  constructor.
  - intros a a' c els els' H. simpl. rewrite H. reflexivity.
  - intros a c kw op ex ex' H. simpl. rewrite H. reflexivity.
  - intros a c ch H. apply redundant_inv in H. destruct H as [H1 H2].
    simpl. rewrite H1. rewrite (unwrappable_unwrap_all ch H2). reflexivity.
Qed.

(* ---- the fully-unwrapped form is a normal form ---- *)
Lemma unwrap_all_idem : forall v, unwrap_all (unwrap_all v) = unwrap_all v.
Proof.
  induction v as [| g | a c els IH | a c kw op ex IH | a | a] using value_ind'; simpl; auto.
  - assert (Hm : map unwrap_all (map unwrap_all els) = map unwrap_all els).
    { rewrite map_map. apply map_ext_in. intros x Hx. rewrite Forall_forall in IH. auto. }
    destruct (sp_plain c) eqn:Hp.
    + destruct (map unwrap_all els) as [|ch [|ch' l]] eqn:E.
      * simpl. rewrite Hp. reflexivity.
      * destruct (unwrappable ch) eqn:Hu.
        -- simpl in Hm. inversion Hm. congruence.
        -- assert (Hc : unwrap_all ch = ch) by (simpl in Hm; congruence).
           simpl. rewrite Hp, Hc, Hu. reflexivity.
      * simpl. rewrite Hp. change (unwrap_all ch :: unwrap_all ch' :: map unwrap_all l) with (map unwrap_all (ch :: ch' :: l)).
        rewrite Hm. reflexivity.
    + simpl. rewrite Hp, Hm. reflexivity.
  - rewrite IH. reflexivity.
Qed.

Lemma unwrap_all_no_redundant : forall v, has_redundant (unwrap_all v) = false.
Proof.
  induction v as [| g | a c els IH | a c kw op ex IH | a | a] using value_ind'; simpl; auto.
  assert (Hex : existsb has_redundant (map unwrap_all els) = false).
  { clear -IH. induction IH as [|x l Hx Hl IHl]; simpl; auto. rewrite Hx, IHl. reflexivity. }
  destruct (sp_plain c) eqn:Hp.
  - destruct (map unwrap_all els) as [|ch [|ch' l]] eqn:E.
    + simpl. reflexivity.
    + destruct (unwrappable ch) eqn:Hu.
      * simpl in Hex. rewrite orb_false_r in Hex. exact Hex.
      * simpl. rewrite Hp, Hu. simpl. simpl in Hex. exact Hex.
    + simpl in *. exact Hex.
  - destruct (map unwrap_all els) as [|ch [|ch' l]] eqn:E; simpl in *; rewrite ?Hp; simpl; auto.
Qed.

(* ---- one rewrite step ---- *)
Lemma unwrap_step_blind {A} (Q : value -> A) : wrapper_blind Q ->
  forall x y, unwrap_step x y -> Q x = Q y.
Proof.
  intros [Hs Hc Hu]. induction 1.
  - apply Hu. simpl. rewrite H, H0. reflexivity.
  - apply Hs. rewrite !map_app. simpl. rewrite IHunwrap_step. reflexivity.
  - apply Hc. exact IHunwrap_step.
Qed.

Lemma maxd_app_le (f : value -> nat) pre x y post :
  f y <= f x ->
  fold_right (fun v n => Nat.max (f v) n) O (pre ++ y :: post) <=
  fold_right (fun v n => Nat.max (f v) n) O (pre ++ x :: post).
Proof. intros H. induction pre as [|z pre IH]; simpl; lia. Qed.

Lemma unwrap_step_depth x y : unwrap_step x y -> depth y <= depth x.
Proof.
  induction 1; simpl.
  - lia.
  - apply le_n_S. apply maxd_app_le. exact IHunwrap_step.
  - lia.
Qed.
