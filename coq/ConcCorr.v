(* ConcCorr.v -- model-side evaluation of recorded concurrent runs: the model
   (Conc.crun) is run on the very schedule the harness enforced. *)
From Stackage Require Import Base Generated StackImpl StackSpec StackSpecCorr StackCorr Conc.
Open Scope Z_scope.

Record mccase := MkSC {
  mc_kind : N; mc_cap : option Z; mc_fifo : bool; mc_init : list el;
  mc_progs : list (list (mop el)); mc_sched : list nat;
  mc_results : list (list (out el)); mc_final : list el; mc_bad : bool }.

Definition mc_raw0 (c : mccase) : raw el :=
  SCfg {| k_typ := mc_kind c; k_cap := match mc_cap c with Some k => k + 1 | None => 0 end; k_opt := 0; k_ord := mc_fifo c;
          k_err := None; k_ppf := None |} :: map (@SVal el) (mc_init c).

Definition raw_elems (r : raw el) : list el :=
  match r with _ :: t => map (fun s => match s with SVal v => v | SCfg _ => ENil end) t | [] => [] end.

Definition mc_ok (c : mccase) : bool :=
  match crun el ENil el_isnil el_isstack el_pol (ginit el (mc_raw0 c) (mc_progs c)) (mc_sched c) with
  | None => mc_bad c
  | Some g =>
      negb (mc_bad c) && all_done el g &&
      list_eqb el_eqb (raw_elems (g_raw el g)) (mc_final c) &&
      all2 (fun t r => list_eqb out_eqb (rev (t_done el t)) r) (g_thr el g) (mc_results c)
  end.

Definition mc_check (c : mccase) : N := if mc_ok c then 0%N else 1%N.
