(* RenderSpec.v -- the canonical rendering grammar of Stack.String()
   (property C02), by structural recursion over the trees of Values.v.
   Says what the property says; knows nothing of how stack.go computes it.
   Independent of Generated.v and of the model (Render.v).

   Option bits of a node (as the harness sets them): bit 0 parenthetical,
   bit 1 fold, bit 2 no-padding, bit 3 lead-once.  Kinds: 1 AND, 2 OR, 3 NOT,
   4 LIST, 6 BASIC; 5 is the kind of a Condition's own configuration.

   Grammar.  sp = "" when no-padding is on, else one blank.
     leaf       sp ++ encap(text) ++ sp           (dropped when encap(text) = "")
     encap      the pairs applied outermost-first: [p1;p2] t = l1 l2 t r2 r1
     nested     its own rendering; a NOT stack with a word operator whose
                rendering is not empty is prefixed by its word (in its own
                case) and one blank
     condition  kw sp op sp encap(value) [in "(" sp .. sp ")"], "" when invalid
     stack      the non-empty element texts joined by " WORD ", sp SYM sp, or
                for LIST the delimiter, else one blank;
                lead-once: sp WORD sp (or SYM, or nothing for LIST) followed by
                the element texts without separators -- and no operator at
                all when there is no element text (no dangling operator);
                in "(" sp .. sp ")" when parenthetical; then condensed.
     condensed  every run of blanks (space, tab) becomes one space, and no
                white space remains at either end.
     BASIC stacks render "".                                              *)
From Stackage Require Import Base Values.
Open Scope N_scope.

(* ---- blanks ---- *)
Definition blank (b : byte) : bool := match b with x20 | x09 => true | _ => false end.
Definition wspace (b : byte) : bool :=
  match b with x20 | x09 | x0a | x0b | x0c | x0d => true | _ => false end.
Definition notempty (s : bytes) : bool := match s with [] => false | _ => true end.

(* a blank followed by a blank disappears, any other blank is a space *)
Fixpoint squeeze (s : bytes) : bytes :=
  match s with
  | [] => []
  | a :: t =>
      if blank a
      then match t with
           | [] => [x20]
           | b :: _ => if blank b then squeeze t else x20 :: squeeze t
           end
      else a :: squeeze t
  end.

Fixpoint strip_l (s : bytes) : bytes :=
  match s with
  | [] => []
  | a :: t => if wspace a then strip_l t else s
  end.
Definition strip_r (s : bytes) : bytes :=
  fold_right (fun a acc => match acc with [] => if wspace a then [] else [a] | _ => a :: acc end) [] s.
Definition strip (s : bytes) : bytes := strip_r (strip_l s).

Definition condense (s : bytes) : bytes := strip (squeeze s).

(* what "condensed" means *)
Fixpoint no_double_blank (s : bytes) : Prop :=
  match s with
  | [] => True
  | a :: t => match t with
              | [] => True
              | b :: _ => ~ (blank a = true /\ blank b = true)
              end /\ no_double_blank t
  end.
Definition no_ws_at_ends (s : bytes) : Prop :=
  match s with
  | [] => True
  | a :: _ => wspace a = false /\ wspace (last s a) = false
  end.
Definition condensed (s : bytes) : Prop :=
  no_double_blank s /\ no_ws_at_ends s /\ ~ In x09 s.

(* ---- configuration ---- *)
Definition o_paren (c : config) : bool := N.testbit (c_opt c) 0.
Definition o_fold (c : config) : bool := N.testbit (c_opt c) 1.
Definition o_nopad (c : config) : bool := N.testbit (c_opt c) 2.
Definition o_lead (c : config) : bool := N.testbit (c_opt c) 3.

Definition sp (c : config) : bytes := if o_nopad c then [] else [x20].

(* the operator word in the node's own case *)
Definition word (c : config) : bytes :=
  match c_typ c with
  | 1 => if o_fold c then B "and" else B "AND"
  | 2 => if o_fold c then B "or" else B "OR"
  | 3 => if o_fold c then B "not" else B "NOT"
  | 4 => if o_fold c then B "list" else B "LIST"
  | _ => []
  end.

(* kinds that have a string form *)
Definition renders (t : N) : bool := (t =? 1) || (t =? 2) || (t =? 3) || (t =? 4).
Definition is_list (c : config) : bool := c_typ c =? 4.
Definition has_sym (c : config) : bool := notempty (c_sym c).

(* ---- pieces ---- *)
Fixpoint sjoin (sep : bytes) (l : list bytes) : bytes :=
  match l with
  | [] => []
  | x :: t => match t with [] => x | _ => x ++ sep ++ sjoin sep t end
  end.

Definition wrap (p : list bytes) (t : bytes) : bytes :=
  match p with
  | [l] => l ++ t ++ l
  | [l; r] => l ++ t ++ r
  | _ => t
  end.
Definition encap (enc : list (list bytes)) (t : bytes) : bytes := fold_right wrap t enc.

Definition optext (o : oper) : bytes :=
  match o with
  | OpBuiltin 1 => B "="
  | OpBuiltin 2 => B "!="
  | OpBuiltin 3 => B "<"
  | OpBuiltin 4 => B ">"
  | OpBuiltin 5 => B "<="
  | OpBuiltin 6 => B ">="
  | OpBuiltin _ => []
  | OpUser t _ => t
  end.

Definition op_ok (op : option oper) : bool :=
  match op with
  | Some (OpBuiltin n) => (1 <=? n) && (n <=? 6)
  | Some (OpUser _ _) => true
  | None => false
  end.
(* a Condition is valid when it has a keyword, a proper operator and a value *)
Definition cvalid (kw : bytes) (op : option oper) (ex : value) : bool :=
  notempty kw && op_ok op && negb (is_nil ex).

Definition sep (c : config) : bytes :=
  if is_list c then (if notempty (c_ljc c) then c_ljc c else [x20])
  else if has_sym c then sp c ++ c_sym c ++ sp c
  else [x20] ++ word c ++ [x20].

Definition lead (c : config) : bytes :=
  if is_list c then []
  else if has_sym c then c_sym c
  else sp c ++ word c ++ sp c.

Definition parens (c : config) (body : bytes) : bytes :=
  if o_paren c then B "(" ++ sp c ++ body ++ sp c ++ B ")" else body.

Definition body (c : config) (texts : list bytes) : bytes :=
  if o_lead c
  then match texts with [] => [] | _ => lead c ++ concat texts end
  else sjoin (sep c) texts.

Definition assemble (c : config) (texts : list bytes) : bytes :=
  condense (parens c (body c texts)).

Definition not_prefix (ic : config) (r : bytes) : bytes :=
  if (c_typ ic =? 3) && negb (has_sym ic) && notempty r then word ic ++ [x20] ++ r else r.

(* text of element x of a stack configured c; rx = rendering of x when x is
   a Stack or Condition *)
Definition elem_text (c : config) (x : value) (rx : bytes) : bytes :=
  match x with
  | VLeaf g =>
      match prim_text g with
      | Some t => let e := encap (c_enc c) t in if notempty e then sp c ++ e ++ sp c else []
      | None => []
      end
  | VStack _ ic _ => not_prefix ic rx
  | VCond _ _ _ _ _ => rx
  | _ => []
  end.

Definition value_text (ex : value) (rx : bytes) : bytes :=
  match ex with
  | VLeaf g => match prim_text g with Some t => t | None => [] end
  | _ => rx
  end.

Definition cond_text (c : config) (kw : bytes) (op : option oper) (v : bytes) : bytes :=
  let t := kw ++ sp c ++ match op with Some o => optext o | None => [] end ++ sp c ++ encap (c_enc c) v in
  if o_paren c then B "(" ++ sp c ++ t ++ sp c ++ B ")" else t.

Definition texts_of (c : config) (l : list (value * bytes)) : list bytes :=
  filter notempty (map (fun p => elem_text c (fst p) (snd p)) l).

(* ---- the rendering ---- *)
Fixpoint render (v : value) : bytes :=
  match v with
  | VStack _ c els =>
      if renders (c_typ c)
      then assemble c (texts_of c (map (fun x => (x, render x)) els))
      else []
  | VCond _ c kw op ex =>
      if cvalid kw op ex then cond_text c kw op (value_text ex (render ex)) else []
  | _ => []
  end.

(* ---- the same pieces, laid end to end without condensing (what the
   rendering must reproduce up to blanks); an element is present exactly when
   its rendered text is not empty ---- *)
Definition raw_assemble (c : config) (texts : list bytes) : bytes := parens c (body c texts).

Definition raw_texts_of (c : config) (l : list (value * (bytes * bytes))) : list bytes :=
  map (fun p => elem_text c (fst p) (snd (snd p)))
      (filter (fun p => notempty (elem_text c (fst p) (fst (snd p)))) l).

Fixpoint raw (v : value) : bytes :=
  match v with
  | VStack _ c els =>
      if renders (c_typ c)
      then raw_assemble c (raw_texts_of c (map (fun x => (x, (render x, raw x))) els))
      else []
  | VCond _ c kw op ex =>
      if cvalid kw op ex then cond_text c kw op (value_text ex (raw ex)) else []
  | _ => []
  end.

(* ---- the domain of the property ---- *)
Definition plain (c : config) : bool :=
  match c_vpf c, c_rpf c with None, None => true | _, _ => false end.
Definition stack_kind (t : N) : bool := renders t || (t =? 6).

Fixpoint dom (v : value) : bool :=
  match v with
  | VLeaf g => match prim_text g with Some _ => true | None => false end
  | VStack Native c els => plain c && stack_kind (c_typ c) && forallb dom els
  | VCond Native c _ _ ex => plain c && (c_typ c =? 5) && (is_nil ex || dom ex)
  | _ => false
  end.

(* every Stack / Condition node, the root first *)
Fixpoint nodes (v : value) : list value :=
  match v with
  | VStack _ _ els => v :: flat_map nodes els
  | VCond _ _ _ _ ex => v :: nodes ex
  | _ => []
  end.

(* ---- the shape of the finding that stays in the code ----
   C02/list-join-nopad (D19): a LIST node without delimiter, with no-padding
   on, not in lead-once mode, two neighbouring element texts with no blank
   between them: the code joins them with nothing, the grammar with one
   blank *)
Definition starts_blank (s : bytes) : bool := match s with a :: _ => blank a | [] => false end.
Definition ends_blank (s : bytes) : bool := match rev s with a :: _ => blank a | [] => false end.
Fixpoint tight (l : list bytes) : bool :=
  match l with
  | a :: t => match t with
              | b :: _ => negb (ends_blank a || starts_blank b) || tight t
              | [] => false
              end
  | [] => false
  end.
Definition d19_node (c : config) (texts : list bytes) : bool :=
  is_list c && negb (notempty (c_ljc c)) && negb (o_lead c) && o_nopad c && tight texts.

(* 0 = not that shape, 1 = that shape *)
Definition node_kf (v : value) : N :=
  match v with
  | VStack _ c els =>
      if renders (c_typ c) && d19_node c (texts_of c (map (fun x => (x, render x)) els)) then 1 else 0
  | _ => 0
  end.
Definition has_kf (v : value) : bool := existsb (fun n => negb (node_kf n =? 0)) (nodes v).
Definition kf_code (v : value) : N := if has_kf v then 1 else 0.
