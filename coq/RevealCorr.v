(* RevealCorr.v -- evaluation of a recorded case of family `reveal` against
   the MODEL (Reveal.v).  Executable definitions only.

   Compared: did the call return; the tree afterwards node by node (how each
   nested node is typed, kind, option word, ID, leaves, keyword, operator);
   the sequence of mutex acquire/release events by node ID. *)
From Stackage Require Import Base Generated StackImpl Values RevealSpec RevealSpecCorr Reveal.
Open Scope Z_scope.

Definition model_ok (c : rcase) : bool :=
  match Reveal (r_in c) with
  | Ok (Returned t locks) =>
      negb (r_dead c) && tree_eqb true t (r_out c) && list_eqb lock_ev_eqb locks (r_locks c)
  | Ok (Blocked locks) =>
      r_dead c && list_eqb lock_ev_eqb locks (r_locks c)
  | _ => false
  end.

Definition check (c : rcase) : N := if model_ok c then 0%N else 1%N.
