From Stackage Require Import Base Generated StackImpl StackSpec StackSpecCorr TransferImpl TransferCorr.
Open Scope Z_scope.

Definition mk_raw (opts : N) (cap : option Z) (fifo : bool) (p : option N) (es : list el) : raw el :=
  SCfg {| k_typ := 1; k_cap := match cap with Some k => k + 1 | None => 0 end; k_opt := opts; k_ord := fifo;
          k_err := None; k_ppf := p |} :: map (@SVal el) es.

Definition raw_els (r : raw el) : list el :=
  match r with _ :: t => map (fun s => match s with SVal v => v | SCfg _ => ENil end) t | [] => [] end.

Definition tmodel_ok (c : tcase) : bool :=
  let src := mk_raw 0 None (t_src_fifo c) None (t_src c) in
  let dst := if t_dst_ok c then Some (mk_raw (t_dst_opts c) (t_dst_cap c) false (t_dst_pol c) (t_dst c)) else None in
  match Transfer el ENil el_isnil el_isstack el_pol src dst with
  | Ok (d', ok) =>
      negb (t_panic c) && Bool.eqb ok (t_ok c) &&
      els_eqb (match d' with Some r => raw_els r | None => t_dst c end) (t_dst_after c) &&
      els_eqb (t_src_after c) (t_src c)
  | Panic => t_panic c
  | Unmodelled => false
  end.

Definition tcheck_model (c : tcase) : N := if tmodel_ok c then 0%N else 1%N.
