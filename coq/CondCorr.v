(* CondCorr.v -- model-side evaluation of a recorded Condition history
   (family `cond`): the model is run call by call and its observation after
   every call is compared with what the implementation showed.  Executable
   definitions only. *)
From Stackage Require Import Base Generated StackImpl Values CondOps Cond CondSpecCorr.
Open Scope Z_scope.

(* String() of nested Stacks / Conditions is not compared by this family (the
   harness reports only non-emptiness there), so any rendering will do *)
Definition no_render (v : value) : bytes := [].

Definition i_step := step.
Definition i_observe := observe no_render.

Definition sobs_match (model : sobs) (seen : sobs) : bool :=
  match model, seen with
  | SFull a, SFull b => bytes_eqb a b
  | SFull a, SNonEmpty => match a with [] => false | _ => true end
  | SNonEmpty, _ => false
  end.

Definition cobs_match (m s : cobs) : bool :=
  bytes_eqb (b_kw m) (b_kw s) &&
  opt_eqb oper_eqb (b_op m) (b_op s) &&
  value_eqb (b_ex m) (b_ex s) &&
  Bool.eqb (b_valid m) (b_valid s) &&
  Bool.eqb (b_errnil m) (b_errnil s) &&
  sobs_match (b_str m) (b_str s) &&
  Bool.eqb (b_cannest m) (b_cannest s) &&
  Bool.eqb (b_isnesting m) (b_isnesting s) &&
  (b_len m =? b_len s).

(* the recorded observations end where the implementation panicked (if it
   did): the model must panic in exactly that call (or in the observation
   after it) and agree on everything before *)
Fixpoint follows (r : cnd) (ops : list cop) (obs : list cobs) (panicked : bool) : bool :=
  match ops with
  | [] => match obs with [] => negb panicked | _ => false end
  | o :: ops' =>
      match (do r' <- i_step r o; do b <- i_observe r'; Ok (r', b)) with
      | Ok (r', b) =>
          match obs with
          | s :: obs' => cobs_match b s && follows r' ops' obs' panicked
          | [] => false
          end
      | Panic => match obs, ops' with [], [] => panicked | _, _ => false end
      | Unmodelled => false
      end
  end.

Definition model_ok (c : ccase) : bool := follows None (cs_ops c) (cs_obs c) (cs_panic c).

Definition check (c : ccase) : N := if model_ok c then 0%N else 1%N.
