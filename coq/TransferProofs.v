(* TransferProofs.v -- the model of Stack.Transfer refines TransferSpec, and
   the specification has the properties C15 states. *)
From Stackage Require Import Base Generated StackImpl StackSpec StackSpecLemmas StackRefine TransferImpl TransferSpec.
From Coq Require Import ZifyBool.
Open Scope Z_scope.

Section TransferProofs.
  Variable V : Type.
  Variable nilv : V.
  Variable isnil : V -> bool.
  Variable isstack : V -> bool.
  Variable pol : N -> V -> option N.
  Hypothesis nil_isnil : isnil nilv = true.
  Hypothesis isnil_eq : forall v, isnil v = true -> v = nilv.

  Notation mk := (mk V).
  Notation abs := (abs V).
  Notation sstep := (sstep V nilv isnil isstack pol).
  Notation spush1 := (spush1 V nilv isnil isstack pol).
  Notation stransfer := (stransfer V nilv isnil isstack pol).
  Local Notation index_refines := (index_refines V nilv isnil nil_isnil).
  Local Notation generic_append_spec := (generic_append_spec V nilv isnil isstack nil_isnil).
  Local Notation method_append_spec := (method_append_spec V nilv isnil pol nil_isnil).
  Local Notation pol_push_len := (pol_push_len V nilv isnil pol nil_isnil).
  Local Notation take_room_len := (take_room_len V nilv isnil nil_isnil).
  Local Notation mk_ulen := (mk_ulen V nilv isnil nil_isnil).
  Local Notation filter_zlen := (filter_zlen V nilv isnil nil_isnil).
  Local Notation skipn_nth_cons := (skipn_nth_cons V nilv isnil nil_isnil).

  (* stack.push on a writable well-formed destination, against SPush *)
  Lemma push_refines c els vs :
    cap_ok c (zlen els) -> has (k_opt c) f_ronly = false ->
    exists c' els' log,
      push V isstack pol (mk c els) vs = Ok (mk c' els', log) /\
      sstep (abs c els) (SPush vs) = (abs c' els', XLog log) /\
      cap_ok c' (zlen els') /\ k_opt c' = k_opt c /\ k_cap c' = k_cap c /\
      zlen els <= zlen els' <= zlen els + zlen vs.
  Proof.
    intros Hc Hro. pose proof (zlen_nonneg vs) as Hv.
    cbn [StackSpec.sstep StackRefine.abs s_cfg s_elems]. change (a_opts (abs_cfg c)) with (k_opt c). rewrite Hro.
    unfold push. cbn [config StackRefine.mk bind]. fold (mk c els).
    change (a_ppf (abs_cfg c)) with (k_ppf c).
    destruct (k_ppf c) as [p|] eqn:Ep.
    - rewrite method_append_spec by assumption.
      destruct (pol_push V pol p (room (abs_cfg c) (zlen els)) els vs []) as [[els' e] log'] eqn:PP.
      pose proof (pol_push_len _ _ _ _ _ _ _ _ PP) as [L1 L2].
      assert (Hc' : cap_ok c (zlen els')).
      { destruct Hc as [Hc|[Hc1 Hc2]]; [left; assumption|right; split; [assumption|]].
        specialize (L2 (k_cap c - 1 - zlen els)). unfold room, abs_cfg, a_cap in L2.
        destruct (Z.eqb_spec (k_cap c) 0); [lia|]. specialize (L2 eq_refl). lia. }
      destruct e as [e'|].
      + exists (with_err c (Some e')), els', log'. cbn [set_config StackRefine.mk]. repeat split; auto; lia.
      + exists c, els', log'. repeat split; auto; lia.
    - rewrite generic_append_spec by assumption.
      pose proof (take_room_len c els (nn_filter V isstack c vs) Hc) as [T1 T2]. cbv zeta in T1, T2.
      eexists c, _, []. split; [reflexivity|]. split; [reflexivity|]. split; [exact T1|].
      split; [reflexivity|]. split; [reflexivity|].
      assert (zlen (nn_filter V isstack c vs) <= zlen vs).
      { unfold nn_filter. destruct (has (k_opt c) f_nnest); [apply filter_zlen|lia]. }
      rewrite zlen_app in *. pose proof (zlen_nonneg (take_room (room (abs_cfg c) (zlen els)) (nn_filter V isstack c vs))). lia.
  Qed.

  Lemma index_inrange cs es k : zlen es < Bnd -> (k < length es)%nat ->
    index V nilv isnil (mk cs es) (Z.of_nat k) =
      Ok (SVal (nth k es nilv), Z.of_nat k + 1, negb (isnil (nth k es nilv))).
  Proof.
    intros Hb Hk. rewrite index_refines by (assumption || (unfold in_i64, two63, zlen, Bnd in *; lia)).
    unfold resolve, zlen in *.
    destruct (Z.leb_spec (Z.of_nat (length es)) 0); [lia|].
    destruct (Z.ltb_spec (Z.of_nat k) 0); [lia|].
    destruct (Z.leb_spec (Z.of_nat (length es)) (Z.of_nat k)); [lia|].
    unfold nthz. rewrite Nat2Z.id. reflexivity.
  Qed.

  (* the copy loop *)
  Lemma xfer_loop_refines cs es : zlen es < Bnd -> forall fuel k cd dels,
    (k + fuel <= length es)%nat ->
    cap_ok cd (zlen dels) -> has (k_opt cd) f_ronly = false ->
    exists cd' dels',
      xfer_loop V nilv isnil isstack pol fuel (Z.of_nat k) (mk cs es) (mk cd dels) = Ok (mk cd' dels') /\
      fold_left spush1 (firstn fuel (skipn k es)) (abs cd dels) = abs cd' dels' /\
      cap_ok cd' (zlen dels') /\ k_opt cd' = k_opt cd /\ k_cap cd' = k_cap cd /\
      zlen dels <= zlen dels' <= zlen dels + Z.of_nat fuel.
  Proof.
    intros Hb. induction fuel as [|f IH]; intros k cd dels Hk Hc Hro.
    - exists cd, dels. cbn [xfer_loop firstn fold_left]. repeat split; auto; lia.
    - cbn [xfer_loop]. rewrite index_inrange by (assumption || lia). cbn [bind slot_val].
      destruct (push_refines cd dels [nth k es nilv] Hc Hro) as (c1 & d1 & log & P & SS & Hc1 & Ho1 & Hk1 & Hl1).
      rewrite P. cbn [bind]. replace (Z.of_nat k + 1) with (Z.of_nat (S k)) by lia.
      destruct (IH (S k) c1 d1 ltac:(lia) Hc1 ltac:(congruence)) as (c2 & d2 & L & F & Hc2 & Ho2 & Hk2 & Hl2).
      exists c2, d2. rewrite L. split; [reflexivity|].
      rewrite (skipn_nth_cons es k) by lia. cbn [firstn fold_left].
      unfold TransferSpec.spush1 at 2. rewrite SS. cbn [fst].
      split; [exact F|]. change (zlen [nth k es nilv]) with 1 in Hl1.
      repeat split; auto; try congruence; lia.
  Qed.

  (* Stack.Transfer to a convertible destination *)
  Theorem transfer_refines cs es cd dels :
    zlen es < Bnd -> zlen dels + zlen es < Bnd -> cap_ok cd (zlen dels) ->
    exists cd' dels' ok,
      Transfer V nilv isnil isstack pol (mk cs es) (Some (mk cd dels)) = Ok (Some (mk cd' dels'), ok) /\
      stransfer es (abs cd dels) = (abs cd' dels', ok) /\
      cap_ok cd' (zlen dels').
  Proof.
    intros Hbs Hbd Hc. pose proof (zlen_nonneg es) as Hes. pose proof (zlen_nonneg dels) as Hds.
    unfold Transfer. cbn [is_init StackRefine.mk negb config bind]. fold (mk cd dels). fold (mk cs es).
    unfold TransferSpec.stransfer. cbn [StackRefine.abs s_cfg s_elems].
    unfold positive. change g_flag_positive with has. change c_ronly with f_ronly.
    change (a_opts (abs_cfg cd)) with (k_opt cd).
    destruct (has (k_opt cd) f_ronly) eqn:Hro.
    { exists cd, dels, false. repeat split; auto. }
    unfold transfer. cbn [config StackRefine.mk bind]. fold (mk cd dels). fold (mk cs es).
    rewrite mk_ulen by assumption.
    destruct (xfer_loop_refines cs es Hbs (Z.to_nat (zlen es)) 0%nat cd dels
                ltac:(unfold zlen; lia) Hc Hro) as (c2 & d2 & L & F & Hc2 & Ho2 & Hk2 & Hl2).
    cbn [Z.of_nat] in L. rewrite L. cbn [bind].
    cbn [skipn] in F. replace (firstn (Z.to_nat (zlen es)) es) with es in F
      by (unfold zlen; rewrite Nat2Z.id, firstn_all; reflexivity).
    rewrite !mk_zlen, !mk_ulen by lia.
    unfold g_transfer. cbv beta iota zeta. unfold abs_cfg at 1. cbn [a_cap].
    destruct Hc as [Hc0|[Hc1 Hc2']].
    - rewrite Hc0. cbn [Z.ltb Z.compare Z.eqb]. unfold Bnd in *. w64.
      exists c2, d2, (zlen d2 =? zlen dels + zlen es). rewrite F. cbn [s_elems StackRefine.abs].
      repeat split; auto.
    - destruct (Z.ltb_spec 0 (k_cap cd)); [|lia]. destruct (Z.eqb_spec (k_cap cd) 0); [lia|].
      unfold Bnd in *. w64.
      replace (k_cap cd - (1 + zlen dels)) with (k_cap cd - 1 - zlen dels) by lia.
      destruct (Z.ltb_spec (k_cap cd - 1 - zlen dels) (zlen es)).
      + exists cd, dels, false. repeat split; auto. exact (or_intror (conj Hc1 Hc2')).
      + exists c2, d2, (zlen d2 =? zlen dels + zlen es). rewrite F. cbn [s_elems StackRefine.abs].
        repeat split; auto.
  Qed.

  (* ---- what the specification guarantees (the words of C15) ---- *)

  (* one Push of one value appends that value or nothing *)
  Lemma spush1_elems d x :
    s_elems (spush1 d x) = s_elems d ++ [x] \/ s_elems (spush1 d x) = s_elems d.
  Proof.
    destruct d as [c els]. unfold TransferSpec.spush1. cbn [StackSpec.sstep s_cfg s_elems].
    destruct (has (a_opts c) f_ronly); [right; reflexivity|].
    destruct (a_ppf c) as [p|].
    - cbn [pol_push].
      destruct (match room c (zlen els) with Some k => k <=? 0 | None => false end); [right; reflexivity|].
      destruct (pol p x); [right; reflexivity|left; reflexivity].
    - cbn [fst upd_elems s_elems].
      destruct (has (a_opts c) f_nnest); cbn [filter].
      + destruct (isstack x); cbn [negb]; unfold take_room; destruct (room c (zlen els)) as [k|];
          try (destruct (Z.to_nat k); cbn [firstn]); rewrite ?firstn_nil, ?app_nil_r; auto.
      + unfold take_room; destruct (room c (zlen els)) as [k|];
          try (destruct (Z.to_nat k); cbn [firstn]); rewrite ?firstn_nil, ?app_nil_r; auto.
  Qed.

  Lemma fold_spush1_elems es : forall d,
    exists sub, s_elems (fold_left spush1 es d) = s_elems d ++ sub /\
                (length sub <= length es)%nat /\ (length sub = length es -> sub = es).
  Proof.
    induction es as [|x xs IH]; intros d; cbn [fold_left].
    - exists []. rewrite app_nil_r. auto.
    - destruct (IH (spush1 d x)) as (sub & E & L & A).
      destruct (spush1_elems d x) as [P|P]; rewrite P in E.
      + exists (x :: sub). rewrite <- app_assoc in E. cbn [app length] in *. split; [exact E|]. split; [lia|].
        intros H. f_equal. apply A. lia.
      + exists sub. cbn [length]. split; [exact E|]. split; [lia|]. intros H. lia.
  Qed.

  (* true is returned only if the destination holds its previous elements
     followed by every element of the source, in the source's order *)
  Theorem stransfer_true es d d' :
    stransfer es d = (d', true) -> s_elems d' = s_elems d ++ es.
  Proof.
    unfold TransferSpec.stransfer. destruct (has (a_opts (s_cfg d)) f_ronly); [discriminate|].
    destruct (match a_cap (s_cfg d) with Some k => k - zlen (s_elems d) <? zlen es | None => false end); [discriminate|].
    intros H. inversion H as [[H1 H2]]. subst d'.
    destruct (fold_spush1_elems es d) as (sub & E & L & A).
    rewrite E in H2 |- *. rewrite zlen_app in H2. f_equal. apply A. unfold zlen in H2. lia.
  Qed.

  (* no room, or a read-only destination: false and no change at all *)
  Theorem stransfer_refused es d :
    (has (a_opts (s_cfg d)) f_ronly = true \/
     exists k, a_cap (s_cfg d) = Some k /\ k - zlen (s_elems d) < zlen es) ->
    stransfer es d = (d, false).
  Proof.
    unfold TransferSpec.stransfer. intros [H|(k & Hk & Hl)].
    - now rewrite H.
    - destruct (has (a_opts (s_cfg d)) f_ronly); [reflexivity|]. rewrite Hk.
      destruct (Z.ltb_spec (k - zlen (s_elems d)) (zlen es)); [reflexivity|lia].
  Qed.

  (* and with nothing on the destination that could refuse a value, Transfer
     succeeds whenever there is room *)
  Lemma fold_spush1_all es : forall d,
    has (a_opts (s_cfg d)) f_ronly = false -> has (a_opts (s_cfg d)) f_nnest = false -> a_ppf (s_cfg d) = None ->
    match a_cap (s_cfg d) with Some k => zlen (s_elems d) + zlen es <= k | None => True end ->
    s_elems (fold_left spush1 es d) = s_elems d ++ es.
  Proof.
    induction es as [|x xs IH]; intros d Hro Hnn Hp Hcap; cbn [fold_left]; [now rewrite app_nil_r|].
    assert (E : spush1 d x = {| s_cfg := s_cfg d; s_elems := s_elems d ++ [x] |}).
    { destruct d as [c els]. unfold TransferSpec.spush1. cbn [StackSpec.sstep s_cfg s_elems] in *.
      rewrite Hro, Hp, Hnn. cbn [fst upd_elems s_cfg s_elems]. unfold room, take_room.
      destruct (a_cap c) as [k|]; [|reflexivity]. rewrite zlen_cons in Hcap. pose proof (zlen_nonneg xs).
      replace (Z.to_nat (k - zlen els)) with (S (Z.to_nat (k - zlen els - 1))) by lia. cbn [firstn]. rewrite firstn_nil. reflexivity. }
    rewrite E. rewrite IH; cbn [s_cfg s_elems]; auto.
    - rewrite <- app_assoc. reflexivity.
    - destruct (a_cap (s_cfg d)) as [k|]; [|exact I]. rewrite zlen_app, zlen_cons in *. change (zlen (@nil V)) with 0. lia.
  Qed.

  Theorem stransfer_succeeds es d :
    has (a_opts (s_cfg d)) f_ronly = false -> has (a_opts (s_cfg d)) f_nnest = false -> a_ppf (s_cfg d) = None ->
    match a_cap (s_cfg d) with Some k => zlen (s_elems d) + zlen es <= k | None => True end ->
    exists d', stransfer es d = (d', true) /\ s_elems d' = s_elems d ++ es.
  Proof.
    intros Hro Hnn Hp Hcap. unfold TransferSpec.stransfer. rewrite Hro.
    pose proof (fold_spush1_all es d Hro Hnn Hp Hcap) as E.
    destruct (a_cap (s_cfg d)) as [k|].
    - destruct (Z.ltb_spec (k - zlen (s_elems d)) (zlen es)); [lia|].
      eexists. split; [|exact E]. f_equal. rewrite E, zlen_app. lia.
    - eexists. split; [|exact E]. f_equal. rewrite E, zlen_app. lia.
  Qed.

End TransferProofs.
