(* TraverseCorr.v -- model-side evaluation of recorded cases of the family
   `traverse`: the observed outcome of Stack.Traverse against Traverse.v.
   Executable definitions only. *)
From Stackage Require Import Base Generated StackImpl Values Traverse TraverseSpecCorr.
Open Scope Z_scope.

Definition model_ok (c : tcase) : bool :=
  let pre := preorder (t_tree c) in
  all_probes (fun path tcode _ =>
                match Traverse h_vpol (t_tree c) path with
                | Ok r => code_matches pre r tcode
                | Panic => tcode =? -1000000
                | Unmodelled => false
                end) (t_probes c).

Definition check (c : tcase) : N := if model_ok c then 0%N else 1%N.
