(* TransferSpec.v -- what C15 says: the destination receives the source's
   elements one Push at a time (so its own capacity, push policy and
   no-nesting option apply); success is reported exactly when all of them
   arrived; nothing is attempted when the free capacity cannot hold them or
   the destination is read-only; the source is never touched. *)
From Stackage Require Import Base StackSpec.
Open Scope Z_scope.

Section TransferSpec.
  Variable V : Type.
  Variable nilv : V.
  Variable isnil : V -> bool.
  Variable isstack : V -> bool.
  Variable pol : N -> V -> option N.

  Definition spush1 (d : sstate V) (x : V) : sstate V :=
    fst (sstep V nilv isnil isstack pol d (SPush [x])).

  Definition stransfer (es : list V) (d : sstate V) : sstate V * bool :=
    if has (a_opts (s_cfg d)) f_ronly then (d, false) else
    if match a_cap (s_cfg d) with Some k => k - zlen (s_elems d) <? zlen es | None => false end then (d, false)
    else let d' := fold_left spush1 es d in
         (d', zlen (s_elems d') =? zlen (s_elems d) + zlen es).
End TransferSpec.
