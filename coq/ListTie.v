(* ListTie.v -- reset and the success test of remove are those of the source
   (Generated.g_reset, g_remove regenerated from /repo on every run). *)
From Stackage Require Import Base Generated StackImpl.
Open Scope Z_scope.

Section Tie.
  Variable V : Type.
  Variable nilv : V.
  Variable isnil isstack : V -> bool.
  Variable pol : N -> V -> option N.

  (* stack.reset: truncates to the configuration slot when there is more than it *)
  Lemma reset_is_source (r : raw V) :
    reset V r = match g_reset (zlen r) with TCut 0 _ _ => firstn 1 r | _ => r end.
  Proof.
    unfold reset, g_reset. destruct r as [|a [|b t]]; try reflexivity.
    replace (1 <? zlen (a :: b :: t)) with true; [reflexivity|].
    symmetry. apply Z.ltb_lt. unfold zlen. cbn [length]. lia.
  Qed.

  (* stack.remove: after the slice has been rebuilt without the addressed
     position, success is "the value was not nil and the user length went
     down by exactly one" *)
  Lemma remove_is_source (r : raw V) (idx : Z) :
    in_i64 (ulen V r - 1) ->
    remove V nilv isnil r idx =
    do c <- config V r;
    do (s, index, found) <- index V nilv isnil r idx;
    let r' := SCfg c :: keep_except V index 1 (tl r) in
    match g_remove found (slot_notnil V isnil s) (ulen V r) (ulen V r') 0 with
    | TRet _ [looped; ok] => if looped then Ok (r', s, ok) else Ok (r, s, false)
    | _ => Unmodelled
    end.
  Proof.
    intros H. unfold remove. destruct (config V r) as [c| |]; cbn [bind]; try reflexivity.
    destruct (index V nilv isnil r idx) as [[[s index] found]| |]; cbn [bind]; try reflexivity.
    unfold g_remove. rewrite (wrap64_id _ H). destruct found; reflexivity.
  Qed.
End Tie.
