(* Values.v -- the value universe shared by the tree-level models (rendering,
   conditions, traversal, equality, marshalling, aliases, defrag, reveal):
   Go leaf values, node configurations, and trees of Stacks and Conditions.
   Definitions and the nested induction principle only. *)
From Stackage Require Import Base.
Open Scope Z_scope.

(* Go type tags for numbers (the order of isNumberPrimitive's type switch) *)
Definition ty_int : N := 0.     Definition ty_int8 : N := 1.   Definition ty_int16 : N := 2.
Definition ty_int32 : N := 3.   Definition ty_int64 : N := 4.
Definition ty_uint : N := 10.   Definition ty_uint8 : N := 11. Definition ty_uint16 : N := 12.
Definition ty_uint32 : N := 13. Definition ty_uint64 : N := 14.
Definition ty_float32 : N := 20. Definition ty_float64 : N := 21.
Definition ty_complex64 : N := 22. Definition ty_complex128 : N := 23.

(* comparison operators and user-defined operators *)
Inductive oper :=
| OpBuiltin (n : N)                 (* ComparisonOperator(n): 1..6 are defined, others "bogus" *)
| OpUser (text ctx : bytes).        (* any other implementation of the Operator interface *)

(* Leaves: every Go value that is not a Stack/Condition (or alias of one).
   Type tags (ty) are small numbers naming a Go type of the harness
   catalogue; equal tags = identical Go types. *)
Inductive gval :=
| GStr (s : bytes)
| GInt (ty : N) (z : Z)                       (* all int/uint kinds; text = decimal *)
| GBool (b : bool)
| GFloat (ty : N) (text : bytes) (id : Z)     (* float/complex: strconv text is carried, not modelled; id = identity of the value (NaN /= NaN: id < 0) *)
| GPtr (g : gval)                             (* non-nil pointer *)
| GNilPtr (depth : nat) (ty : N)              (* typed nil pointer, depth >= 1 *)
| GSlice (ty : N) (cap : Z) (l : list gval)
| GArray (ty : N) (l : list gval)
| GMap (ty : N) (kvs : list (gval * gval))
| GStruct (ty : N) (fields : list (bytes * bool * gval))   (* (name, exported, value) in declaration order *)
| GFunc (ty : N) (id : N)
| GChan (ty : N) (id : N)
| GStringer (ty : N) (text : bytes)           (* foreign non-zero value with a String() string method *)
| GOper (o : oper)                            (* an Operator value stored as a plain element *)
| GList (l : list gval)                       (* a []any (Marshal input / Unmarshal output) *)
| GOther (ty : N).                            (* anything else (unsafe pointers, zero structs, ...) *)

(* how a nested Stack/Condition was typed in Go *)
Inductive akind :=
| Native          (* stackage.Stack / stackage.Condition *)
| AliasVal        (* type T stackage.Stack; value of type T, T has no String method *)
| AliasPtr        (* *T, non-nil *)
| AliasValStr     (* alias type that declares its own String method *)
| AliasPtrStr.

(* node configuration (nodeConfig), closures reduced to identities *)
Record config := {
  c_typ : N;                 (* and=1 or=2 not=3 list=4 cond=5 basic=6 *)
  c_cap : Z;                 (* 0 = none, else capacity + 1 *)
  c_opt : N;                 (* option bit word *)
  c_sym : bytes;
  c_ljc : bytes;             (* list delimiter *)
  c_enc : list (list bytes); (* encapsulation pairs, outermost first *)
  c_ord : bool;              (* FIFO *)
  c_mtx : bool;              (* mutex enabled *)
  c_err : option N;
  c_id : bytes;
  c_cat : bytes;
  c_ppf : option N; c_vpf : option N; c_rpf : option N; c_eqf : option N;
  c_umf : option N; c_maf : option N; c_evl : option N; c_lss : option N;
  c_lvl : N;                 (* log level word *)
  c_log : N;                 (* logger identity: 0 = devNull, 1 = stdout, 2 = stderr, >= 3 user *)
  c_aux : option (list (bytes * N))
}.

Definition cfg0 (typ : N) : config :=
  {| c_typ := typ; c_cap := 0; c_opt := 0; c_sym := []; c_ljc := []; c_enc := [];
     c_ord := false; c_mtx := false; c_err := None; c_id := []; c_cat := [];
     c_ppf := None; c_vpf := None; c_rpf := None; c_eqf := None;
     c_umf := None; c_maf := None; c_evl := None; c_lss := None;
     c_lvl := 0; c_log := 0; c_aux := None |}.

(* short-hands used by generated case terms: kind, option word, symbol,
   delimiter, encapsulation, fifo, capacity *)
Definition cfgS (typ opt : N) (sym ljc : bytes) (enc : list (list bytes)) (fifo : bool) (cap : Z) : config :=
  {| c_typ := typ; c_cap := cap; c_opt := opt; c_sym := sym; c_ljc := ljc; c_enc := enc;
     c_ord := fifo; c_mtx := false; c_err := None; c_id := []; c_cat := [];
     c_ppf := None; c_vpf := None; c_rpf := None; c_eqf := None;
     c_umf := None; c_maf := None; c_evl := None; c_lss := None;
     c_lvl := 0; c_log := 0; c_aux := None |}.

Definition set_c_opt (c : config) (o : N) : config :=
  {| c_typ := c_typ c; c_cap := c_cap c; c_opt := o; c_sym := c_sym c; c_ljc := c_ljc c; c_enc := c_enc c;
     c_ord := c_ord c; c_mtx := c_mtx c; c_err := c_err c; c_id := c_id c; c_cat := c_cat c;
     c_ppf := c_ppf c; c_vpf := c_vpf c; c_rpf := c_rpf c; c_eqf := c_eqf c;
     c_umf := c_umf c; c_maf := c_maf c; c_evl := c_evl c; c_lss := c_lss c;
     c_lvl := c_lvl c; c_log := c_log c; c_aux := c_aux c |}.
Definition set_c_err (c : config) (e : option N) : config :=
  {| c_typ := c_typ c; c_cap := c_cap c; c_opt := c_opt c; c_sym := c_sym c; c_ljc := c_ljc c; c_enc := c_enc c;
     c_ord := c_ord c; c_mtx := c_mtx c; c_err := e; c_id := c_id c; c_cat := c_cat c;
     c_ppf := c_ppf c; c_vpf := c_vpf c; c_rpf := c_rpf c; c_eqf := c_eqf c;
     c_umf := c_umf c; c_maf := c_maf c; c_evl := c_evl c; c_lss := c_lss c;
     c_lvl := c_lvl c; c_log := c_log c; c_aux := c_aux c |}.
Definition set_c_enc (c : config) (e : list (list bytes)) : config :=
  {| c_typ := c_typ c; c_cap := c_cap c; c_opt := c_opt c; c_sym := c_sym c; c_ljc := c_ljc c; c_enc := e;
     c_ord := c_ord c; c_mtx := c_mtx c; c_err := c_err c; c_id := c_id c; c_cat := c_cat c;
     c_ppf := c_ppf c; c_vpf := c_vpf c; c_rpf := c_rpf c; c_eqf := c_eqf c;
     c_umf := c_umf c; c_maf := c_maf c; c_evl := c_evl c; c_lss := c_lss c;
     c_lvl := c_lvl c; c_log := c_log c; c_aux := c_aux c |}.

(* trees *)
Inductive value :=
| VNil                                                   (* the nil interface *)
| VLeaf (g : gval)
| VStack (a : akind) (c : config) (els : list value)      (* initialised Stack or alias *)
| VCond (a : akind) (c : config) (kw : bytes) (op : option oper) (ex : value)
| VZeroStack (a : akind)                                 (* Stack{} or zero alias *)
| VZeroCond (a : akind).                                 (* Condition{} or zero alias *)

Definition is_nil (v : value) : bool := match v with VNil => true | _ => false end.
Definition is_stack (v : value) : bool := match v with VStack _ _ _ => true | _ => false end.
Definition is_cond (v : value) : bool := match v with VCond _ _ _ _ _ => true | _ => false end.

(* size, for fuel and for induction on trees *)
Fixpoint vsize (v : value) : nat :=
  match v with
  | VStack _ _ els => S (fold_right (fun x n => vsize x + n)%nat O els)
  | VCond _ _ _ _ ex => S (vsize ex)
  | _ => 1%nat
  end.

Fixpoint gsize (g : gval) : nat :=
  match g with
  | GPtr x => S (gsize x)
  | GSlice _ _ l | GArray _ l | GList l => S (fold_right (fun x n => gsize x + n)%nat O l)
  | GMap _ kvs => S (fold_right (fun kv n => gsize (fst kv) + gsize (snd kv) + n)%nat O kvs)
  | GStruct _ fs => S (fold_right (fun f n => gsize (snd f) + n)%nat O fs)
  | _ => 1%nat
  end.

(* nested induction principle for trees: the element list of a Stack is
   covered by Forall *)
Section ValueInd.
  Variable P : value -> Prop.
  Hypothesis Hnil : P VNil.
  Hypothesis Hleaf : forall g, P (VLeaf g).
  Hypothesis Hstack : forall a c els, Forall P els -> P (VStack a c els).
  Hypothesis Hcond : forall a c kw op ex, P ex -> P (VCond a c kw op ex).
  Hypothesis Hzs : forall a, P (VZeroStack a).
  Hypothesis Hzc : forall a, P (VZeroCond a).

  Fixpoint value_ind' (v : value) : P v :=
    match v with
    | VNil => Hnil
    | VLeaf g => Hleaf g
    | VStack a c els =>
        Hstack a c els ((fix go (l : list value) : Forall P l :=
                           match l with
                           | [] => Forall_nil P
                           | x :: t => Forall_cons x (value_ind' x) (go t)
                           end) els)
    | VCond a c kw op ex => Hcond a c kw op ex (value_ind' ex)
    | VZeroStack a => Hzs a
    | VZeroCond a => Hzc a
    end.
End ValueInd.

(* decimal text of an integer (strconv.FormatInt / FormatUint, base 10) *)
Fixpoint pos_digits (fuel : nat) (p : Z) (acc : bytes) : bytes :=
  match fuel with
  | O => acc
  | S f => if p <? 10 then byte_of_N_tot (Z.to_N (48 + p)) :: acc
           else pos_digits f (p / 10) (byte_of_N_tot (Z.to_N (48 + p mod 10)) :: acc)
  end.
Definition Z_to_bytes (z : Z) : bytes :=
  if z <? 0 then x2d :: pos_digits 80 (- z) [] else pos_digits 80 z [].

Definition bool_to_bytes (b : bool) : bytes := if b then B "true" else B "false".

(* primitiveStringer on the leaves isKnownPrimitive accepts *)
Definition prim_text (g : gval) : option bytes :=
  match g with
  | GStr s => Some s
  | GInt _ z => Some (Z_to_bytes z)
  | GBool b => Some (bool_to_bytes b)
  | GFloat _ t _ => Some t
  | _ => None
  end.
