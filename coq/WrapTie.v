(* WrapTie.v -- the eight public mutator wrappers of the model (StackImpl.step)
   are the wrappers of the source: their guard structure is regenerated from
   /repo (Generated.g_wrap_*: is the handle initialised / the stack empty, is
   the value nil, is the stack read-only) and the call each of them makes is
   pinned as text. *)
From Stackage Require Import Base Generated StackImpl.
Open Scope Z_scope.

Section Tie.
  Variable V : Type.
  Variable nilv : V.
  Variable isnil isstack : V -> bool.
  Variable pol : N -> V -> option N.
  Local Notation step := (step V nilv isnil isstack pol).

  Lemma step_wrappers_are_source (r : raw V) (c : scfg) :
    config V r = Ok c ->
    let ro := positive c c_ronly in
    (forall vs, step r (OPush vs) =
       match g_wrap_Push true ro with
       | TCut 0 _ _ => do (r', log) <- push V isstack pol r vs; Ok (r', RLog log)
       | _ => Ok (r, RLog [])
       end) /\
    step r OPop =
      match g_wrap_Pop (IsEmpty V r) ro with
      | TCut 0 _ _ => do (r', s, ok) <- pop V nilv isnil r; Ok (r', RVal s ok)
      | _ => Ok (r, RVal (SVal nilv) false)
      end /\
    (forall v i, step r (OInsert v i) =
       match g_wrap_Insert true (negb (isnil v)) ro i with
       | TCut 0 _ _ => do (r', ok) <- insert V r v i; Ok (r', RBool ok)
       | _ => Ok (r, RBool false)
       end) /\
    (forall i, step r (ORemove i) =
       match g_wrap_Remove true ro i with
       | TCut 0 _ _ => do (r', s, ok) <- remove V nilv isnil r i; Ok (r', RVal s ok)
       | _ => Ok (r, RVal (SVal nilv) false)
       end) /\
    (forall v i, step r (OReplace v i) =
       match g_wrap_Replace true (negb (isnil v)) ro i with
       | TCut 0 _ _ => do (r', ok) <- replace V r v i; Ok (r', RBool ok)
       | _ => Ok (r, RBool false)
       end) /\
    (forall i j, step r (OSwap i j) =
       match g_wrap_Swap true ro i j with
       | TCut 0 _ _ => do r' <- swap V r i j; Ok (r', RUnit)
       | _ => Ok (r, RUnit)
       end) /\
    step r OReverse =
      match g_wrap_Reverse (IsEmpty V r) ro with
      | TCut 0 _ _ => Ok (reverse V r, RUnit)
      | _ => Ok (r, RUnit)
      end /\
    step r OReset =
      match g_wrap_Reset true ro with
      | TCut 0 _ _ => Ok (reset V r, RUnit)
      | _ => Ok (r, RUnit)
      end.
  Proof.
    intros Hc ro. unfold StackImpl.step. rewrite Hc. cbn [bind]. fold ro.
    unfold g_wrap_Push, g_wrap_Pop, g_wrap_Insert, g_wrap_Remove, g_wrap_Replace, g_wrap_Swap, g_wrap_Reverse, g_wrap_Reset.
    repeat split; intros; destruct ro; try destruct (IsEmpty V r); try destruct (isnil v); reflexivity.
  Qed.
End Tie.

(* the call each wrapper makes once its guards are passed *)
Lemma wrapper_calls :
  g_wrap_Push_tails = ["r.stack.push(y...)"; "return r"]%string /\
  g_wrap_Pop_tails = ["popped, ok = r.stack.pop()"]%string /\
  g_wrap_Insert_tails = ["ok = r.stack.insert(x, left)"]%string /\
  g_wrap_Remove_tails = ["slice, ok = r.stack.remove(idx)"]%string /\
  g_wrap_Replace_tails = ["r.stack.lock(); ok = r.stack.replace(x, idx); r.stack.unlock()"]%string /\
  g_wrap_Swap_tails = ["r.stack.swap(i, j)"]%string /\
  g_wrap_Reverse_tails = ["r.stack.reverse()"; "return r"]%string /\
  g_wrap_Reset_tails = ["r.stack.reset()"]%string.
Proof. repeat split; reflexivity. Qed.
