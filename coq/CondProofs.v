(* CondProofs.v -- the Condition model (Cond.v) refines the history
   specification (CondSpec.v) for EVERY history of calls; property C06 and the
   Condition part of C13 follow. *)
From Stackage Require Import Base Generated StackImpl Values CondOps Cond CondSpec.
Open Scope Z_scope.

(* ------------------------------------------------------------------ *)
(* small facts about bytes, lengths, bits                              *)

Lemma zlen_pos {A} (l : list A) : (0 <? zlen l) = match l with [] => false | _ => true end.
Proof.
  destruct l as [|x t]; [reflexivity|].
  unfold zlen. cbn [length]. apply Z.ltb_lt. lia.
Qed.

Lemma zlen_zero {A} (l : list A) : (zlen l =? 0) = match l with [] => true | _ => false end.
Proof.
  destruct l as [|x t]; [reflexivity|].
  unfold zlen. cbn [length]. apply Z.eqb_neq. lia.
Qed.

Lemma land_lor_disj o f x : N.land f x = 0%N -> N.land (N.lor o f) x = N.land o x.
Proof. intros H. rewrite N.land_lor_distr_l, H, N.lor_0_r. reflexivity. Qed.

Lemma land_lor_same o f : f <> 0%N -> N.land (N.lor o f) f <> 0%N.
Proof.
  intros Hf H. rewrite N.land_lor_distr_l, N.land_diag in H.
  apply N.lor_eq_0_iff in H. tauto.
Qed.

Lemma land_ldiff_disj o f x : N.land f x = 0%N -> N.land (N.ldiff o f) x = N.land o x.
Proof.
  intros H. apply N.bits_inj. intros i.
  rewrite !N.land_spec, N.ldiff_spec.
  assert (Hi : N.testbit (N.land f x) i = false) by (rewrite H; apply N.bits_0).
  rewrite N.land_spec in Hi.
  destruct (N.testbit o i), (N.testbit f i), (N.testbit x i); simpl in *; congruence.
Qed.

Lemma land_ldiff_same o f : N.land (N.ldiff o f) f = 0%N.
Proof.
  apply N.bits_inj. intros i. rewrite N.land_spec, N.ldiff_spec, N.bits_0.
  destruct (N.testbit o i), (N.testbit f i); reflexivity.
Qed.

(* the option word after a tri-state setter call on flag f *)
Definition opt_after (o f : N) (t : option bool) : N :=
  match t with
  | Some true => g_flag_shift o f
  | Some false => g_flag_unshift o f
  | None => g_flag_toggle o f
  end.

Lemma positive_after_same o f t :
  f <> 0%N -> g_flag_positive (opt_after o f t) f = tri t (g_flag_positive o f).
Proof.
  intros Hf. unfold opt_after, tri, g_flag_toggle, g_flag_positive, g_flag_shift, g_flag_unshift.
  destruct t as [[|]|].
  - apply negb_true_iff, N.eqb_neq, land_lor_same, Hf.
  - rewrite land_ldiff_same. reflexivity.
  - destruct (N.land o f =? 0)%N eqn:E; cbn [negb].
    + apply negb_true_iff, N.eqb_neq, land_lor_same, Hf.
    + rewrite land_ldiff_same. reflexivity.
Qed.

Lemma positive_after_other o f t x :
  N.land f x = 0%N -> g_flag_positive (opt_after o f t) x = g_flag_positive o x.
Proof.
  intros H. unfold opt_after, g_flag_toggle, g_flag_positive, g_flag_shift, g_flag_unshift.
  destruct t as [[|]|].
  - rewrite land_lor_disj by exact H. reflexivity.
  - rewrite land_ldiff_disj by exact H. reflexivity.
  - destruct (negb (N.land o f =? 0)%N).
    + rewrite land_ldiff_disj by exact H. reflexivity.
    + rewrite land_lor_disj by exact H. reflexivity.
Qed.

(* ------------------------------------------------------------------ *)
(* operator texts: the table read from op.go is the specification's    *)

Lemma builtin_range n :
  ((1 <=? Z.of_N n) && (Z.of_N n <=? 6)) = match builtin_text n with Some _ => true | None => false end.
Proof.
  destruct n as [|p]; [reflexivity|].
  destruct p as [p|p|]; [| |reflexivity];
    (destruct p as [p|p|]; [| |reflexivity]);
    (destruct p as [p|p|]; try reflexivity);
    cbn [builtin_text]; apply andb_false_iff; right; apply Z.leb_gt; lia.
Qed.

Lemma builtin_table n : assocN n t_op_names = builtin_text n.
Proof.
  destruct n as [|p]; [reflexivity|].
  destruct p as [p|p|]; [| |reflexivity];
    (destruct p as [p|p|]; [| |reflexivity]);
    (destruct p as [p|p|]; reflexivity).
Qed.

Lemma op_text_defined o : op_defined (Some o) = true -> op_text o = sp_op_text o.
Proof.
  destruct o as [n|t c]; [|reflexivity].
  unfold op_defined, op_text, sp_op_text. rewrite builtin_table.
  destruct (builtin_text n); [reflexivity|discriminate].
Qed.

Lemma builtin_text_nonempty n : (0 <? zlen (op_text (OpBuiltin n))) = true.
Proof.
  unfold op_text. rewrite builtin_table.
  destruct n as [|p]; [reflexivity|].
  destruct p as [p|p|]; [| |reflexivity];
    (destruct p as [p|p|]; [| |reflexivity]);
    (destruct p as [p|p|]; reflexivity).
Qed.

Lemma setOperator_spec st o :
  setOperator st o = match op_accepted o with Some x => with_op st (Some x) | None => st end.
Proof.
  destruct o as [o|]; [|reflexivity].
  unfold setOperator, op_accepted, op_has_text_and_context.
  destruct o as [n|t c].
  - rewrite builtin_text_nonempty. reflexivity.
  - cbn [op_ctx op_text]. rewrite !zlen_pos. unfold nonempty.
    destruct t, c; reflexivity.
Qed.

(* ------------------------------------------------------------------ *)
(* acceptance of expressions                                           *)

Lemma setExpression_spec st x :
  setExpression st x =
  if ex_accepted (positive st c_nnest) (cfg_isError (s_cfg st)) x then with_ex st x else st.
Proof.
  unfold setExpression, assertConditionExpressionValue, defaultAssertionExpressionHandler, ex_accepted.
  destruct (positive st c_nnest), (cfg_isError (s_cfg st));
    destruct x as [|g|a c els|a c kw op ex|a|a]; try reflexivity;
    destruct g; try reflexivity;
    match goal with s : bytes |- _ => destruct s; reflexivity end.
Qed.

Lemma setKeyword_spec st k :
  setKeyword st k = match kw_accepted k with Some s => with_kw st s | None => st end.
Proof. destruct k; reflexivity. Qed.

(* ------------------------------------------------------------------ *)
(* encapsulation                                                       *)

Lemma strInSlice_mem s l : strInSlice s l = mem_bytes s l.
Proof.
  unfold mem_bytes. induction l as [|x t IH]; [reflexivity|].
  cbn [strInSlice existsb]. rewrite IH. destruct (bytes_eqb s x); reflexivity.
Qed.

Lemma enc_has_in_use s enc : enc_has s enc = in_use enc s.
Proof.
  unfold in_use. induction enc as [|p t IH]; [reflexivity|].
  cbn [enc_has existsb]. rewrite IH, strInSlice_mem. destruct (mem_bytes s p); reflexivity.
Qed.

(* a configuration that differs from c at most in the encapsulation list *)
Definition same_but_enc (c c' : config) : Prop := c' = set_c_enc c (c_enc c').

Lemma same_but_enc_refl c : same_but_enc c c.
Proof. unfold same_but_enc. destruct c; reflexivity. Qed.

Lemma same_but_enc_set c e : same_but_enc c (set_c_enc c e).
Proof. unfold same_but_enc. destruct c; reflexivity. Qed.

Lemma same_but_enc_trans a b c : same_but_enc a b -> same_but_enc b c -> same_but_enc a c.
Proof. unfold same_but_enc. intros H1 H2. rewrite H2. rewrite H1 at 1. destruct a; reflexivity. Qed.

Lemma setStringSliceEncap_spec c p :
  same_but_enc c (setStringSliceEncap c p) /\ c_enc (setStringSliceEncap c p) = enc_add (c_enc c) p.
Proof.
  destruct p as [|x0 [|x1 t]].
  - split; [apply same_but_enc_refl|reflexivity].
  - cbn [setStringSliceEncap setStringSliceEncapOne enc_add firstn existsb].
    rewrite enc_has_in_use, orb_false_r.
    destruct (in_use (c_enc c) x0); split; try apply same_but_enc_refl; try apply same_but_enc_set;
      destruct c; reflexivity.
  - cbn [setStringSliceEncap setStringSliceEncapTwo enc_add firstn existsb].
    rewrite !enc_has_in_use, orb_false_r.
    destruct (in_use (c_enc c) x0), (in_use (c_enc c) x1); cbn [orb];
      split; try apply same_but_enc_refl; try apply same_but_enc_set; destruct c; reflexivity.
Qed.

Lemma setEncap_fold xs : forall c,
  let c' := fold_left (fun c x => match x with
                                  | EStr s => setStringSliceEncap c [s]
                                  | ESlice l => setStringSliceEncap c l
                                  | EOther => c
                                  end) xs c in
  same_but_enc c c' /\ c_enc c' = fold_left enc_arg xs (c_enc c).
Proof.
  induction xs as [|x t IH]; intros c; cbn [fold_left].
  - split; [apply same_but_enc_refl|reflexivity].
  - destruct x as [s|l|]; cbn [enc_arg].
    + destruct (setStringSliceEncap_spec c [s]) as [H1 H2].
      destruct (IH (setStringSliceEncap c [s])) as [H3 H4].
      split; [eapply same_but_enc_trans; eassumption|]. rewrite H4, H2. reflexivity.
    + destruct (setStringSliceEncap_spec c l) as [H1 H2].
      destruct (IH (setStringSliceEncap c l)) as [H3 H4].
      split; [eapply same_but_enc_trans; eassumption|]. rewrite H4, H2. reflexivity.
    + apply IH.
Qed.

Lemma setEncap_spec c xs :
  setEncap c xs = set_c_enc c (match xs with [] => [] | _ => fold_left enc_arg xs (c_enc c) end).
Proof.
  destruct xs as [|x t]; [reflexivity|].
  unfold setEncap. destruct (setEncap_fold (x :: t) c) as [H1 H2].
  rewrite H1. rewrite H2. reflexivity.
Qed.

Lemma encapValue_spec enc v : encapValue enc v = encapsulated enc v.
Proof.
  unfold encapValue, encapsulated.
  destruct enc as [|p t]; [reflexivity|].
  pose proof (fold_left_rev_right wrap_pair (rev (p :: t)) v) as H.
  rewrite rev_involutive in H. symmetry. exact H.
Qed.

(* ------------------------------------------------------------------ *)
(* closed forms of the public methods on an initialised Condition      *)

(* what every history maintains about the configuration: the kind is
   "condition", the read-only bit is clear (no call of this module sets it),
   no validity / presentation policy is installed *)
Definition Inv (st : cstate) : Prop :=
  c_typ (s_cfg st) = c_cond /\ g_flag_positive (c_opt (s_cfg st)) c_ronly = false /\
  c_vpf (s_cfg st) = None /\ c_rpf (s_cfg st) = None.

Lemma cfg_positive_cond c x : c_typ c = c_cond -> cfg_positive c x = g_flag_positive (c_opt c) x.
Proof. intros H. unfold cfg_positive, cfg_valid. rewrite H. reflexivity. Qed.

Lemma IsInit_some st : c_typ (s_cfg st) = c_cond -> IsInit (Some st) = Ok true.
Proof. intros H. unfold IsInit, IsZero, deref, bind. cbn [negb]. rewrite H. reflexivity. Qed.

Lemma when_init_some {T} st (d : T) f : c_typ (s_cfg st) = c_cond -> when_init (Some st) d f = f st.
Proof. intros H. unfold when_init. rewrite (IsInit_some st H). reflexivity. Qed.

Lemma when_init_none {T} (d : T) f : when_init None d f = Ok d.
Proof. reflexivity. Qed.

Lemma getState_some st cf :
  c_typ (s_cfg st) = c_cond -> getState (Some st) cf = Ok (g_flag_positive (c_opt (s_cfg st)) cf).
Proof.
  intros H. unfold getState. rewrite when_init_some by exact H.
  unfold positive. rewrite cfg_positive_cond by exact H. reflexivity.
Qed.

Lemma guarded_some st f : Inv st -> guarded (Some st) f = Ok (Some (f st)).
Proof.
  intros (Ht & Hr & _). unfold guarded. rewrite when_init_some by exact Ht.
  rewrite getState_some by exact Ht. rewrite Hr. reflexivity.
Qed.

Lemma setState_some st cf t :
  Inv st ->
  setState (Some st) cf t =
  Ok (Some (with_cfg st (set_c_opt (s_cfg st) (opt_after (c_opt (s_cfg st)) cf t)))).
Proof.
  intros (Ht & Hr & _). unfold setState. rewrite when_init_some by exact Ht.
  rewrite getState_some by exact Ht. rewrite Hr. cbn [negb orb bind].
  unfold cfg_setOpt, cfg_unsetOpt, cfg_toggleOpt, cfg_valid, opt_after. rewrite Ht.
  destruct t as [[|]|]; reflexivity.
Qed.

Lemma Keyword_some st : c_typ (s_cfg st) = c_cond -> Keyword (Some st) = Ok (s_kw st).
Proof. intros H. unfold Keyword. rewrite when_init_some by exact H. reflexivity. Qed.
Lemma Operator_some st : c_typ (s_cfg st) = c_cond -> Operator (Some st) = Ok (s_op st).
Proof. intros H. unfold Operator. rewrite when_init_some by exact H. reflexivity. Qed.
Lemma Expression_some st : c_typ (s_cfg st) = c_cond -> Expression (Some st) = Ok (s_ex st).
Proof. intros H. unfold Expression. rewrite when_init_some by exact H. reflexivity. Qed.
Lemma Err_some st : c_typ (s_cfg st) = c_cond -> Err (Some st) = Ok (c_err (s_cfg st)).
Proof. intros H. unfold Err. rewrite when_init_some by exact H. reflexivity. Qed.
Lemma SetErr_some st e : c_typ (s_cfg st) = c_cond -> SetErr (Some st) e = Ok (Some (setErr st e)).
Proof. intros H. unfold SetErr. rewrite when_init_some by exact H. reflexivity. Qed.

(* the error Valid reports, as a function of the three components *)
Definition valid_code (kw : bytes) (op : option oper) (ex : value) : option N :=
  match kw with
  | [] => Some 11%N
  | _ =>
      match op with
      | None => Some 13%N
      | Some o =>
          if op_defined (Some o) then (if is_nil ex then Some 14%N else None) else Some 12%N
      end
  end.

Lemma valid_code_none kw op ex : valid_code kw op ex = None <-> components_valid kw op ex = true.
Proof.
  unfold valid_code, components_valid, nonempty.
  destruct kw as [|b kw]; [split; discriminate|].
  destruct op as [o|]; [|split; discriminate].
  destruct (op_defined (Some o)); [|split; discriminate].
  destruct (is_nil ex); split; try discriminate; reflexivity.
Qed.

Lemma Valid_some st :
  c_typ (s_cfg st) = c_cond -> c_vpf (s_cfg st) = None ->
  Valid (Some st) = Ok (valid_code (s_kw st) (s_op st) (s_ex st)).
Proof.
  intros Ht Hv. unfold Valid. rewrite (IsInit_some st Ht). cbn [bind negb deref]. rewrite Hv.
  rewrite Keyword_some, Operator_some, Expression_some by exact Ht. cbn [bind].
  rewrite zlen_zero. unfold valid_code.
  destruct (s_kw st) as [|b kw]; [reflexivity|].
  destruct (s_op st) as [[n|t c]|]; [| |reflexivity].
  - rewrite builtin_range. unfold op_defined.
    destruct (builtin_text n); cbn [negb]; [|reflexivity].
    destruct (is_nil (s_ex st)); reflexivity.
  - cbn [op_defined]. destruct (is_nil (s_ex st)); reflexivity.
Qed.

Lemma Valid_none : Valid None = Ok (Some 10%N).
Proof. reflexivity. Qed.

Lemma join3 sep a b c : join sep [a; b; c] = a ++ sep ++ b ++ sep ++ c.
Proof. reflexivity. Qed.
Lemma join5 sep p a b c q : join sep ([p] ++ [a; b; c] ++ [q]) = p ++ sep ++ a ++ sep ++ b ++ sep ++ c ++ sep ++ q.
Proof. reflexivity. Qed.

Section Rendering.
  Variable render_node : value -> bytes.

  Lemma cond_string_valid st o :
    c_typ (s_cfg st) = c_cond -> c_rpf (s_cfg st) = None -> s_op st = Some o -> op_defined (Some o) = true ->
    cond_string render_node st =
    Ok (rendering (g_flag_positive (c_opt (s_cfg st)) c_nspad) (g_flag_positive (c_opt (s_cfg st)) c_parens)
                  (c_enc (s_cfg st)) (s_kw st) o (expr_text render_node (s_ex st))).
  Proof.
    intros Ht Hr Ho Hd. unfold cond_string. rewrite Hr, Ho.
    rewrite !cfg_positive_cond by exact Ht.
    rewrite (op_text_defined o Hd), encapValue_spec. unfold rendering.
    destruct (g_flag_positive (c_opt (s_cfg st)) c_nspad), (g_flag_positive (c_opt (s_cfg st)) c_parens);
      rewrite ?join5, ?join3; change (B " ") with [x20]; repeat rewrite <- app_assoc; reflexivity.
  Qed.

  (* String() on an initialised, policy-free Condition *)
  Lemma StringOf_some st :
    Inv st ->
    StringOf render_node (Some st) =
    Ok (if components_valid (s_kw st) (s_op st) (s_ex st) then
          match s_op st with
          | Some o => rendering (g_flag_positive (c_opt (s_cfg st)) c_nspad)
                                (g_flag_positive (c_opt (s_cfg st)) c_parens)
                                (c_enc (s_cfg st)) (s_kw st) o (expr_text render_node (s_ex st))
          | None => []
          end
        else []).
  Proof.
    intros (Ht & _ & Hv & Hr). unfold StringOf. rewrite Valid_some by assumption. cbn [bind].
    destruct (valid_code (s_kw st) (s_op st) (s_ex st)) eqn:E.
    - destruct (components_valid (s_kw st) (s_op st) (s_ex st)) eqn:C; [|reflexivity].
      apply valid_code_none in C. congruence.
    - pose proof (proj1 (valid_code_none _ _ _) E) as C. rewrite C. cbn [deref bind].
      unfold components_valid in C. apply andb_true_iff in C as [C _]. apply andb_true_iff in C as [_ C].
      destruct (s_op st) as [o|] eqn:Ho; [|discriminate].
      apply cond_string_valid; assumption.
  Qed.

  Lemma StringOf_none : StringOf render_node None = Ok [].
  Proof. reflexivity. Qed.

  Lemma rendering_nonempty np pa enc kw o t : kw <> [] -> rendering np pa enc kw o t <> [].
  Proof.
    intros Hk. unfold rendering. destruct pa; cbn [app join].
    - destruct np; discriminate.
    - destruct kw; [congruence|discriminate].
  Qed.
End Rendering.

(* ------------------------------------------------------------------ *)
(* the state after a history is what looking back through it gives     *)

Lemma not_inited_defaults rh :
  sp_inited rh = false ->
  sp_kw rh = [] /\ sp_op rh = None /\ sp_ex rh = VNil /\ sp_err rh = false /\
  sp_nonest rh = false /\ sp_nopad rh = false /\ sp_paren rh = false /\ sp_enc rh = [].
Proof.
  induction rh as [|o rh IH]; intros H; [repeat split; reflexivity|].
  destruct o; cbn [sp_inited] in H; try discriminate;
    specialize (IH H); destruct IH as (I1 & I2 & I3 & I4 & I5 & I6 & I7 & I8);
    cbn [sp_kw sp_op sp_ex sp_err sp_nonest sp_nopad sp_paren sp_enc]; rewrite ?H; cbn [andb];
    repeat split; try assumption; try reflexivity.
  - destruct (kw_accepted kw); assumption.
  - destruct (op_accepted op); assumption.
Qed.

Definition Rel (r : cnd) (rh : list cop) : Prop :=
  match r with
  | None => sp_inited rh = false
  | Some st =>
      sp_inited rh = true /\ Inv st /\
      s_kw st = sp_kw rh /\ s_op st = sp_op rh /\ s_ex st = sp_ex rh /\
      cfg_isError (s_cfg st) = sp_err rh /\
      g_flag_positive (c_opt (s_cfg st)) c_nnest = sp_nonest rh /\
      g_flag_positive (c_opt (s_cfg st)) c_nspad = sp_nopad rh /\
      g_flag_positive (c_opt (s_cfg st)) c_parens = sp_paren rh /\
      c_enc (s_cfg st) = sp_enc rh
  end.

Ltac projs :=
  cbn [s_cfg s_kw s_op s_ex with_cfg with_kw with_op with_ex setErr set_c_opt set_c_err set_c_enc
       c_typ c_opt c_enc c_err c_vpf c_rpf cfg_isError].

Lemma newCondition_spec k o x :
  newCondition k o x =
  {| s_cfg := cfg0 c_cond; s_kw := match kw_accepted k with Some s => s | None => [] end;
     s_op := op_accepted o; s_ex := cond_ex x |}.
Proof.
  assert (P : forall st, s_cfg st = cfg0 c_cond -> positive st c_nnest = false /\ cfg_isError (s_cfg st) = false).
  { intros st H. unfold positive. rewrite H. split; reflexivity. }
  unfold newCondition. rewrite setExpression_spec, setOperator_spec, setKeyword_spec.
  unfold cond_ex.
  destruct (kw_accepted k), (op_accepted o);
    match goal with |- context [ex_accepted (positive ?st _) _ _] =>
      destruct (P st eq_refl) as [P1 P2]; rewrite P1, P2 end;
    destruct (ex_accepted false false x); reflexivity.
Qed.

Lemma Rel_init rh : Rel (Some initCondition) (OInit :: rh).
Proof. unfold Rel, Inv. repeat split; reflexivity. Qed.

Lemma CondNew_rel k o x rh : exists r', CondNew k o x = Ok r' /\ Rel r' (OCond k o x :: rh).
Proof.
  unfold CondNew. rewrite newCondition_spec.
  rewrite Valid_some by reflexivity. cbn [bind]. projs.
  destruct (valid_code (match kw_accepted k with Some s => s | None => [] end) (op_accepted o) (cond_ex x)) eqn:E.
  - rewrite SetErr_some by reflexivity. eexists; split; [reflexivity|].
    unfold Rel, Inv. projs. cbn [sp_inited sp_kw sp_op sp_ex sp_err sp_nonest sp_nopad sp_paren sp_enc].
    repeat split; try reflexivity.
    unfold cond_components_valid.
    destruct (components_valid _ (op_accepted o) (cond_ex x)) eqn:C; [|reflexivity].
    apply valid_code_none in C. congruence.
  - eexists; split; [reflexivity|].
    unfold Rel, Inv. projs. cbn [sp_inited sp_kw sp_op sp_ex sp_err sp_nonest sp_nopad sp_paren sp_enc].
    repeat split; try reflexivity.
    unfold cond_components_valid. apply valid_code_none in E. rewrite E. reflexivity.
Qed.

Lemma step_rel r rh o : Rel r rh -> exists r', step r o = Ok r' /\ Rel r' (o :: rh).
Proof.
  intros HR.
  destruct o as [k o x| |k|o|x|e|t|t|t|xs];
    try (cbn [step]; apply CondNew_rel);
    try (cbn [step]; eexists; split; [reflexivity|apply Rel_init]);
    (destruct r as [st|];
     [| cbn [step]; eexists; split; [reflexivity|]; cbn [Rel sp_inited] in *; exact HR]);
    destruct HR as (Hi & HI & Hk & Ho & Hx & He & Hn & Hp & Hq & Hc);
    pose proof HI as (Ht & Hr & Hv & Hf); cbn [step].
  - (* SetKeyword *)
    unfold SetKeyword. rewrite guarded_some by exact HI. eexists; split; [reflexivity|].
    rewrite setKeyword_spec. unfold Rel, Inv.
    cbn [sp_inited sp_kw sp_op sp_ex sp_err sp_nonest sp_nopad sp_paren sp_enc]. rewrite Hi.
    destruct (kw_accepted k); projs; repeat split; assumption || reflexivity.
  - (* SetOperator *)
    unfold SetOperator. rewrite guarded_some by exact HI. eexists; split; [reflexivity|].
    rewrite setOperator_spec. unfold Rel, Inv.
    cbn [sp_inited sp_kw sp_op sp_ex sp_err sp_nonest sp_nopad sp_paren sp_enc]. rewrite Hi.
    destruct (op_accepted o); projs; repeat split; assumption || reflexivity.
  - (* SetExpression *)
    unfold SetExpression. rewrite guarded_some by exact HI. eexists; split; [reflexivity|].
    rewrite setExpression_spec. unfold positive. rewrite cfg_positive_cond by exact Ht. rewrite Hn, He.
    unfold Rel, Inv.
    cbn [sp_inited sp_kw sp_op sp_ex sp_err sp_nonest sp_nopad sp_paren sp_enc]. rewrite Hi. cbn [andb].
    destruct (ex_accepted (sp_nonest rh) (sp_err rh) x); projs; repeat split; assumption || reflexivity.
  - (* SetErr *)
    rewrite SetErr_some by exact Ht. eexists; split; [reflexivity|].
    unfold Rel, Inv. projs.
    cbn [sp_inited sp_kw sp_op sp_ex sp_err sp_nonest sp_nopad sp_paren sp_enc]. rewrite Hi.
    repeat split; try assumption.
  - (* SetNoNesting *)
    unfold SetNoNesting. rewrite setState_some by exact HI. eexists; split; [reflexivity|].
    unfold Rel, Inv. projs.
    cbn [sp_inited sp_kw sp_op sp_ex sp_err sp_nonest sp_nopad sp_paren sp_enc]. rewrite Hi.
    rewrite positive_after_same by discriminate.
    rewrite !positive_after_other by reflexivity.
    rewrite Hn. repeat split; assumption || reflexivity.
  - (* SetNoPadding *)
    unfold SetNoPadding. rewrite setState_some by exact HI. eexists; split; [reflexivity|].
    unfold Rel, Inv. projs.
    cbn [sp_inited sp_kw sp_op sp_ex sp_err sp_nonest sp_nopad sp_paren sp_enc]. rewrite Hi.
    rewrite positive_after_same by discriminate.
    rewrite !positive_after_other by reflexivity.
    rewrite Hp. repeat split; assumption || reflexivity.
  - (* SetParen *)
    unfold SetParen. rewrite setState_some by exact HI. eexists; split; [reflexivity|].
    unfold Rel, Inv. projs.
    cbn [sp_inited sp_kw sp_op sp_ex sp_err sp_nonest sp_nopad sp_paren sp_enc]. rewrite Hi.
    rewrite positive_after_same by discriminate.
    rewrite !positive_after_other by reflexivity.
    rewrite Hq. repeat split; assumption || reflexivity.
  - (* SetEncap *)
    unfold SetEncap. rewrite guarded_some by exact HI. eexists; split; [reflexivity|].
    rewrite setEncap_spec. unfold Rel, Inv. projs.
    cbn [sp_inited sp_kw sp_op sp_ex sp_err sp_nonest sp_nopad sp_paren sp_enc]. rewrite Hi, Hc.
    repeat split; assumption || reflexivity.
Qed.

Lemma CanNest_some st :
  c_typ (s_cfg st) = c_cond -> CanNest (Some st) = Ok (negb (g_flag_positive (c_opt (s_cfg st)) c_nnest)).
Proof.
  intros H. unfold CanNest. rewrite when_init_some by exact H.
  rewrite getState_some by exact H. reflexivity.
Qed.

Lemma IsNesting_some st : c_typ (s_cfg st) = c_cond -> IsNesting (Some st) = Ok (is_stack (s_ex st)).
Proof. intros H. unfold IsNesting. rewrite when_init_some by exact H. reflexivity. Qed.

Lemma Len_some st :
  c_typ (s_cfg st) = c_cond ->
  Len (Some st) = Ok (match s_ex st with VNil => 0 | VStack _ _ els => zlen els | _ => 1 end).
Proof.
  intros H. unfold Len. rewrite (IsInit_some st H). cbn [bind negb].
  rewrite Expression_some by exact H. cbn [bind].
  destruct (s_ex st); reflexivity.
Qed.

Lemma valid_code_bool k o x :
  match valid_code k o x with None => true | Some _ => false end = components_valid k o x.
Proof.
  destruct (valid_code k o x) eqn:E.
  - destruct (components_valid k o x) eqn:C; [|reflexivity]. apply valid_code_none in C. congruence.
  - symmetry. apply valid_code_none, E.
Qed.

Section Refinement.
  Variable render_node : value -> bytes.

  (* what the specification says is observed after the history rh *)
  Definition spec_obs (rh : list cop) : cobs :=
    {| b_kw := sp_kw rh; b_op := sp_op rh; b_ex := sp_ex rh; b_valid := sp_valid rh;
       b_errnil := negb (sp_err rh); b_str := SFull (sp_string (expr_text render_node) rh);
       b_cannest := sp_cannest rh; b_isnesting := sp_isnesting rh; b_len := sp_len rh |}.

  Lemma observe_rel r rh : Rel r rh -> observe render_node r = Ok (spec_obs rh).
  Proof.
    intros HR. destruct r as [st|].
    - destruct HR as (Hi & HI & Hk & Ho & Hx & He & Hn & Hp & Hq & Hc).
      pose proof HI as (Ht & Hr & Hv & Hf).
      unfold observe.
      rewrite Keyword_some, Operator_some, Expression_some, Err_some, CanNest_some, IsNesting_some, Len_some
        by exact Ht.
      rewrite Valid_some by assumption. rewrite StringOf_some by exact HI.
      cbn [bind]. unfold spec_obs. f_equal.
      rewrite valid_code_bool.
      unfold sp_valid, sp_string, sp_valid, sp_cannest, sp_isnesting, sp_len.
      rewrite Hi, <- Hk, <- Ho, <- Hx, <- He, <- Hn, <- Hp, <- Hq, <- Hc. cbn [andb].
      unfold cfg_isError. destruct (c_err (s_cfg st)); reflexivity.
    - cbn [Rel] in HR. destruct (not_inited_defaults rh HR) as (I1 & I2 & I3 & I4 & I5 & I6 & I7 & I8).
      unfold spec_obs, sp_string, sp_valid, sp_cannest, sp_isnesting, sp_len.
      rewrite HR, I1, I2, I3, I4. reflexivity.
  Qed.

  (* the observations the specification predicts for the calls ops made after
     the history rh *)
  Fixpoint spec_run (rh : list cop) (ops : list cop) : list cobs :=
    match ops with
    | [] => []
    | o :: t => spec_obs (o :: rh) :: spec_run (o :: rh) t
    end.

  Theorem run_refines : forall ops r rh,
    Rel r rh ->
    exists r', run render_node r ops = Ok (r', spec_run rh ops) /\ Rel r' (rev ops ++ rh).
  Proof.
    induction ops as [|o ops IH]; intros r rh HR.
    - exists r. split; [reflexivity|exact HR].
    - destruct (step_rel r rh o HR) as (r1 & Hs & HR1).
      destruct (IH r1 (o :: rh) HR1) as (r2 & Hrun & HR2).
      exists r2. split.
      + cbn [run spec_run]. rewrite Hs. cbn [bind]. rewrite (observe_rel r1 (o :: rh) HR1). cbn [bind].
        rewrite Hrun. reflexivity.
      + cbn [rev]. rewrite <- app_assoc. exact HR2.
  Qed.

  (* from the zero Condition{} *)
  Theorem cond_refines : forall ops,
    exists r', run render_node None ops = Ok (r', spec_run [] ops) /\ Rel r' (rev ops).
  Proof.
    intros ops. destruct (run_refines ops None [] eq_refl) as (r' & H1 & H2).
    rewrite app_nil_r in H2. exists r'. split; assumption.
  Qed.

  Lemma reached_rel ops r outs : run render_node None ops = Ok (r, outs) -> Rel r (rev ops).
  Proof.
    intros H. destruct (cond_refines ops) as (r' & H1 & H2). rewrite H1 in H. inversion H; subst. exact H2.
  Qed.

  Theorem cond_no_panic : forall ops, exists r outs, run render_node None ops = Ok (r, outs).
  Proof. intros ops. destruct (cond_refines ops) as (r' & H1 & _). eauto. Qed.

  Theorem cond_last_accepted : forall ops r outs,
    run render_node None ops = Ok (r, outs) ->
    Keyword r = Ok (sp_kw (rev ops)) /\
    Operator r = Ok (sp_op (rev ops)) /\
    Expression r = Ok (sp_ex (rev ops)) /\
    (exists e, Err r = Ok e /\ (e = None <-> sp_err (rev ops) = false)).
  Proof.
    intros ops r outs H. apply reached_rel in H. destruct r as [st|].
    - destruct H as (Hi & HI & Hk & Ho & Hx & He & _). pose proof HI as (Ht & _).
      rewrite Keyword_some, Operator_some, Expression_some, Err_some by exact Ht.
      rewrite Hk, Ho, Hx. repeat split. eexists; split; [reflexivity|].
      rewrite <- He. unfold cfg_isError. destruct (c_err (s_cfg st)); split; congruence.
    - cbn [Rel] in H. destruct (not_inited_defaults _ H) as (I1 & I2 & I3 & I4 & _).
      rewrite I1, I2, I3, I4. repeat split. exists None. split; [reflexivity|tauto].
  Qed.

  (* Valid() is nil exactly when the keyword is non-empty, an operator is
     present and defined, and the expression is non-nil *)
  Theorem valid_iff : forall ops r outs,
    run render_node None ops = Ok (r, outs) ->
    exists kw op ex v,
      Keyword r = Ok kw /\ Operator r = Ok op /\ Expression r = Ok ex /\ Valid r = Ok v /\
      (v = None <-> kw <> [] /\ op_defined op = true /\ ex <> VNil).
  Proof.
    intros ops r outs H. apply reached_rel in H. destruct r as [st|].
    - destruct H as (Hi & HI & _). pose proof HI as (Ht & _ & Hv & _).
      exists (s_kw st), (s_op st), (s_ex st), (valid_code (s_kw st) (s_op st) (s_ex st)).
      rewrite Keyword_some, Operator_some, Expression_some by exact Ht.
      rewrite Valid_some by assumption. do 4 (split; [reflexivity|]). split.
      + intros E. apply valid_code_none in E. unfold components_valid in E.
        apply andb_true_iff in E as [E E3]. apply andb_true_iff in E as [E1 E2].
        repeat split; try assumption.
        * destruct (s_kw st); [discriminate|congruence].
        * destruct (s_ex st); [discriminate|congruence..].
      + intros (E1 & E2 & E3). apply valid_code_none. unfold components_valid.
        rewrite E2. destruct (s_kw st); [congruence|]. destruct (s_ex st); [congruence|reflexivity..].
    - exists [], None, VNil, (Some 10%N). do 4 (split; [reflexivity|]). split; [discriminate|].
      intros (E & _). congruence.
  Qed.

  (* String() is empty exactly when Valid() is not nil *)
  Theorem string_empty_iff : forall ops r outs,
    run render_node None ops = Ok (r, outs) ->
    exists s v, StringOf render_node r = Ok s /\ Valid r = Ok v /\ (s = [] <-> v <> None).
  Proof.
    intros ops r outs H. apply reached_rel in H. destruct r as [st|].
    - destruct H as (Hi & HI & _). pose proof HI as (Ht & _ & Hv & _).
      rewrite StringOf_some by exact HI. rewrite Valid_some by assumption.
      eexists; eexists; split; [reflexivity|split; [reflexivity|]].
      destruct (components_valid (s_kw st) (s_op st) (s_ex st)) eqn:C.
      + pose proof (proj2 (valid_code_none _ _ _) C) as E. rewrite E.
        unfold components_valid in C. apply andb_true_iff in C as [C _]. apply andb_true_iff in C as [C1 C2].
        destruct (s_op st) as [o|]; [|discriminate].
        split; [|congruence]. intros R. exfalso. revert R. apply rendering_nonempty.
        destruct (s_kw st); [discriminate|congruence].
      + split; [|reflexivity]. intros _ E. apply valid_code_none in E. congruence.
    - exists [], (Some 10%N). repeat split; try reflexivity; try discriminate.
  Qed.

  (* ... and otherwise is keyword, operator text and the encapsulated
     expression text, blank-separated unless no-padding, parenthesised iff
     requested; the options are those the history has set *)
  Theorem string_format : forall ops r outs,
    run render_node None ops = Ok (r, outs) ->
    Valid r = Ok None ->
    exists kw o ex,
      Keyword r = Ok kw /\ Operator r = Ok (Some o) /\ Expression r = Ok ex /\
      StringOf render_node r =
      Ok (rendering (sp_nopad (rev ops)) (sp_paren (rev ops)) (sp_enc (rev ops)) kw o (expr_text render_node ex)).
  Proof.
    intros ops r outs H V. apply reached_rel in H. destruct r as [st|]; [|discriminate].
    destruct H as (Hi & HI & Hk & Ho & Hx & He & Hn & Hp & Hq & Hc). pose proof HI as (Ht & _ & Hv & _).
    rewrite Valid_some in V by assumption. inversion V as [E].
    pose proof (proj1 (valid_code_none _ _ _) E) as C.
    rewrite Keyword_some, Operator_some, Expression_some by exact Ht.
    rewrite StringOf_some by exact HI. rewrite C.
    unfold components_valid in C. apply andb_true_iff in C as [C _]. apply andb_true_iff in C as [_ C].
    destruct (s_op st) as [o|] eqn:Eo; [|discriminate].
    exists (s_kw st), o, (s_ex st). rewrite Hp, Hq, Hc. repeat split; reflexivity.
  Qed.

  (* the whole of String() in one equation *)
  Theorem string_is_spec : forall ops r outs,
    run render_node None ops = Ok (r, outs) ->
    StringOf render_node r = Ok (sp_string (expr_text render_node) (rev ops)).
  Proof.
    intros ops r outs H. apply reached_rel in H.
    pose proof (observe_rel r _ H) as O. unfold observe in O.
    destruct (Keyword r); try discriminate. destruct (Operator r); try discriminate.
    destruct (Expression r); try discriminate. destruct (Valid r); try discriminate.
    destruct (Err r); try discriminate. cbn [bind] in O.
    destruct (StringOf render_node r) as [s| |]; try discriminate. cbn [bind] in O.
    destruct (CanNest r); try discriminate. destruct (IsNesting r); try discriminate.
    destruct (Len r); try discriminate. cbn [bind] in O.
    inversion O. reflexivity.
  Qed.

  (* ---- Condition part of C13 ---- *)

  (* with no-nesting on, offering a Stack (or alias) leaves the expression alone *)
  Theorem set_expr_stack_refused : forall ops r outs x,
    run render_node None ops = Ok (r, outs) ->
    CanNest r = Ok false -> is_stack x = true ->
    exists r', SetExpression r x = Ok r' /\ Expression r' = Expression r.
  Proof.
    intros ops r outs x H Hc Hs. apply reached_rel in H. destruct r as [st|].
    - destruct H as (Hi & HI & _). pose proof HI as (Ht & _).
      rewrite CanNest_some in Hc by exact Ht. inversion Hc as [Hn]. apply negb_false_iff in Hn.
      unfold SetExpression. rewrite guarded_some by exact HI. eexists; split; [reflexivity|].
      rewrite setExpression_spec. unfold positive. rewrite cfg_positive_cond by exact Ht. rewrite Hn.
      unfold ex_accepted. rewrite Hs. cbn [andb negb]. rewrite andb_false_r. reflexivity.
    - exists None. split; reflexivity.
  Qed.

  Theorem cond_cannest_iff : forall ops r outs,
    run render_node None ops = Ok (r, outs) ->
    CanNest r = Ok (sp_inited (rev ops) && negb (sp_nonest (rev ops))).
  Proof.
    intros ops r outs H. apply reached_rel in H. destruct r as [st|].
    - destruct H as (Hi & HI & _ & _ & _ & _ & Hn & _). pose proof HI as (Ht & _).
      rewrite CanNest_some by exact Ht. rewrite Hi, Hn. reflexivity.
    - cbn [Rel] in H. rewrite H. reflexivity.
  Qed.

  (* CanNest tells whether a Stack offered now would be stored: if it is true
     (and no error blocks the setter) the Stack becomes the expression; if it
     is false, set_expr_stack_refused applies *)
  Theorem cond_cannest_accepts : forall ops r outs x,
    run render_node None ops = Ok (r, outs) ->
    CanNest r = Ok true -> Err r = Ok None -> is_stack x = true ->
    exists r', SetExpression r x = Ok r' /\ Expression r' = Ok x.
  Proof.
    intros ops r outs x H Hc He Hs. apply reached_rel in H. destruct r as [st|]; [|discriminate].
    destruct H as (Hi & HI & _). pose proof HI as (Ht & _).
    rewrite Err_some in He by exact Ht. inversion He as [He'].
    rewrite CanNest_some in Hc by exact Ht. inversion Hc as [Hn]. apply negb_true_iff in Hn.
    unfold SetExpression. rewrite guarded_some by exact HI.
    eexists; split; [reflexivity|].
    rewrite setExpression_spec. unfold positive. rewrite cfg_positive_cond by exact Ht. rewrite Hn.
    unfold ex_accepted, cfg_isError. rewrite He', Hs.
    assert (N1 : is_nil x = false) by (destruct x; try discriminate; reflexivity).
    assert (N2 : is_empty_string x = false) by (destruct x; try discriminate; reflexivity).
    rewrite N1, N2. cbn [negb andb].
    rewrite Expression_some by exact Ht. reflexivity.
  Qed.

  Theorem cond_isnesting_iff : forall ops r outs,
    run render_node None ops = Ok (r, outs) ->
    exists ex, Expression r = Ok ex /\ IsNesting r = Ok (is_stack ex).
  Proof.
    intros ops r outs H. apply reached_rel in H. destruct r as [st|].
    - destruct H as (Hi & HI & _). pose proof HI as (Ht & _).
      exists (s_ex st). rewrite Expression_some, IsNesting_some by exact Ht. split; reflexivity.
    - exists VNil. split; reflexivity.
  Qed.
End Refinement.

(* ------------------------------------------------------------------ *)
(* the specification alone: it is the natural reading of the property  *)

(* the four ways an expression is rejected, and no other *)
Lemma ex_rejected_iff nonest err x :
  ex_accepted nonest err x = false <->
  x = VNil \/ x = VLeaf (GStr []) \/ (nonest = true /\ is_stack x = true) \/ err = true.
Proof.
  unfold ex_accepted. split.
  - intros H. destruct err; [tauto|]. destruct nonest.
    + destruct x as [|g| | | |]; try tauto; try discriminate.
      destruct g; try discriminate. destruct s; [tauto|discriminate].
    + destruct x as [|g| | | |]; try tauto; try discriminate.
      destruct g; try discriminate. destruct s; [tauto|discriminate].
  - intros [H|[H|[[H1 H2]|H]]]; subst; try reflexivity.
    + rewrite H2. cbn [andb negb]. rewrite andb_false_r. reflexivity.
    + rewrite andb_false_r. reflexivity.
Qed.

(* a rejected argument leaves the previous value in place *)
Lemma sp_kw_rejected k rh : kw_accepted k = None -> sp_kw (OSetKeyword k :: rh) = sp_kw rh.
Proof. intros H. cbn [sp_kw]. rewrite H. reflexivity. Qed.
Lemma sp_op_rejected o rh : op_accepted o = None -> sp_op (OSetOperator o :: rh) = sp_op rh.
Proof. intros H. cbn [sp_op]. rewrite H. reflexivity. Qed.
Lemma sp_ex_rejected x rh :
  ex_accepted (sp_nonest rh) (sp_err rh) x = false -> sp_ex (OSetExpression x :: rh) = sp_ex rh.
Proof. intros H. cbn [sp_ex]. rewrite H, andb_false_r. reflexivity. Qed.

(* an accepted argument is what the getter returns next *)
Lemma sp_kw_accepted k s rh : sp_inited rh = true -> kw_accepted k = Some s -> sp_kw (OSetKeyword k :: rh) = s.
Proof. intros Hi H. cbn [sp_kw]. rewrite H, Hi. reflexivity. Qed.
Lemma sp_op_accepted o x rh : sp_inited rh = true -> op_accepted o = Some x -> sp_op (OSetOperator o :: rh) = Some x.
Proof. intros Hi H. cbn [sp_op]. rewrite H, Hi. reflexivity. Qed.
Lemma sp_ex_accepted x rh :
  sp_inited rh = true -> ex_accepted (sp_nonest rh) (sp_err rh) x = true -> sp_ex (OSetExpression x :: rh) = x.
Proof. intros Hi H. cbn [sp_ex]. rewrite H, Hi. reflexivity. Qed.

(* the nil operator and operators with empty text or context are the
   rejected ones; every built-in value is stored (validity judges it later) *)
Lemma op_rejected_iff o :
  op_accepted o = None <-> o = None \/ exists t c, o = Some (OpUser t c) /\ (t = [] \/ c = []).
Proof.
  split.
  - destruct o as [[n|t c]|]; cbn; [discriminate| |tauto].
    destruct t; [intros _; right; exists [], c; tauto|].
    destruct c; [intros _; right; eexists; eexists; split; [reflexivity|tauto]|discriminate].
  - intros [H|(t & c & H & [E|E])]; subst; try reflexivity.
    cbn. destruct t; reflexivity.
Qed.

(* a setter changes only its own component; option setters change none *)
Lemma sp_frame_keyword k rh :
  sp_op (OSetKeyword k :: rh) = sp_op rh /\ sp_ex (OSetKeyword k :: rh) = sp_ex rh /\
  sp_err (OSetKeyword k :: rh) = sp_err rh.
Proof. repeat split. Qed.
Lemma sp_frame_operator o rh :
  sp_kw (OSetOperator o :: rh) = sp_kw rh /\ sp_ex (OSetOperator o :: rh) = sp_ex rh /\
  sp_err (OSetOperator o :: rh) = sp_err rh.
Proof. repeat split. Qed.
Lemma sp_frame_expression x rh :
  sp_kw (OSetExpression x :: rh) = sp_kw rh /\ sp_op (OSetExpression x :: rh) = sp_op rh /\
  sp_err (OSetExpression x :: rh) = sp_err rh.
Proof. repeat split. Qed.

(* Cond(kw, op, ex) leaves Err() non-nil exactly when what it built is not
   valid, and from then on every SetExpression is refused until SetErr(nil) *)
Lemma sp_cond_err_blocks k o x y :
  cond_components_valid k o x = false ->
  sp_ex (OSetExpression y :: [OCond k o x]) = sp_ex [OCond k o x].
Proof.
  intros H. apply sp_ex_rejected. cbn [sp_err sp_nonest]. rewrite H.
  unfold ex_accepted. cbn [negb]. rewrite andb_false_r. reflexivity.
Qed.

(* the rendering, spelled out for the four option combinations *)
Lemma rendering_shapes enc kw o t :
  rendering false false enc kw o t = kw ++ B " " ++ sp_op_text o ++ B " " ++ encapsulated enc t /\
  rendering true false enc kw o t = kw ++ sp_op_text o ++ encapsulated enc t /\
  rendering false true enc kw o t =
    B "( " ++ kw ++ B " " ++ sp_op_text o ++ B " " ++ encapsulated enc t ++ B " )" /\
  rendering true true enc kw o t = B "(" ++ kw ++ sp_op_text o ++ encapsulated enc t ++ B ")".
Proof. repeat split. Qed.
