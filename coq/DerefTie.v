(* DerefTie.v -- the pointer chase of the models is the loop of derefPtr in
   misc.go.  Generated.g_derefPtr_body is one iteration of that loop,
   regenerated from /repo (the loop must be the bare "for { ... }"; cut 0 =
   "t = t.Elem(); if v.IsValid() { v = v.Elem() }; continue", cut 1 = "break"):
   a level is stripped while the type is a pointer, and nothing else ends the
   loop - no bound on the depth. *)
From Stackage Require Import Base Generated Values EqualBase.
From Coq Require Import String.
Open Scope Z_scope.

(* is the (static) type of the leaf a pointer type *)
Definition is_ptr (g : gval) : bool :=
  match g with GPtr _ | GNilPtr _ _ => true | _ => false end.

(* EqualBase.gunder, one iteration at a time *)
Lemma gunder_iteration (g : gval) :
  gunder g =
  match g_derefPtr_body (is_ptr g) with
  | TCut 0 _ _ => match g with
                  | GPtr x => gunder x          (* one level stripped, the loop goes on *)
                  | _ => None                   (* a nil pointer: the Value is invalid from here on *)
                  end
  | _ => Some g                                 (* not a pointer: the loop ends *)
  end.
Proof. destruct g; reflexivity. Qed.

(* a chain of n non-nil pointers in front of a non-pointer: how many levels
   are left when the loop ends *)
Fixpoint chase (n : nat) : nat :=
  match n with
  | O => match g_derefPtr_body false with TCut 1 _ _ => O | _ => 1%nat end
  | S m => match g_derefPtr_body true with TCut 0 _ _ => chase m | _ => S m end
  end.

Lemma chase_strips_every_level (n : nat) : chase n = O.
Proof. induction n as [|m IH]; [reflexivity|]. cbn [chase]. exact IH. Qed.

Fixpoint ptrs (n : nat) (g : gval) : gval :=
  match n with O => g | S m => GPtr (ptrs m g) end.

Lemma gunder_any_depth (n : nat) (g : gval) : is_ptr g = false -> gunder (ptrs n g) = Some g.
Proof.
  intros Hg. induction n as [|m IH]; cbn [ptrs].
  - destruct g; try reflexivity; discriminate Hg.
  - exact IH.
Qed.

Lemma deref_cut_tails :
  g_derefPtr_body_tails = ["t = t.Elem(); if v.IsValid() { v = v.Elem() }; continue"%string; "break"%string].
Proof. reflexivity. Qed.
