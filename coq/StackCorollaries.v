(* StackCorollaries.v -- consequences of the refinement theorem used by the
   property files C03, C08, C13, C14, C17 (capacity, indices, no-nesting,
   push policies, reset). *)
From Stackage Require Import Base Generated StackImpl StackSpec StackSpecLemmas StackRefine.
From Coq Require Import ZifyBool.
Open Scope Z_scope.

Section Cor.
  Variable V : Type.
  Variable nilv : V.
  Variable isnil : V -> bool.
  Variable isstack : V -> bool.
  Variable pol : N -> V -> option N.
  Hypothesis nil_isnil : isnil nilv = true.
  Hypothesis isnil_eq : forall v, isnil v = true -> v = nilv.

  Notation run := (run V nilv isnil isstack pol).
  Notation step := (step V nilv isnil isstack pol).
  Notation srun := (srun V nilv isnil isstack pol).
  Notation sstep := (sstep V nilv isnil isstack pol).
  Notation mk := (mk V).
  Notation abs := (abs V).
  Local Notation Len_mk := (Len_mk V nilv isnil nil_isnil).
  Local Notation generic_append_spec := (generic_append_spec V nilv isnil isstack nil_isnil).
  Local Notation mk_ulen := (mk_ulen V nilv isnil nil_isnil).

  (* reachable states from a constructor call, with everything the
     refinement theorem and the specification invariants give *)
  Lemma reachable t fifo cp ops :
    match cp with Some k => k < Bnd - 1 | None => True end ->
    growth V ops < Bnd -> Forall (op_i64 V) ops ->
    exists c c' els' outs souts,
      new_stack V t fifo cp = mk c [] /\
      run (new_stack V t fifo cp) ops = Ok (mk c' els', outs) /\
      cap_ok c' (zlen els') /\ zlen els' < Bnd /\
      srun (abs c []) (map (to_sop V) ops) = (abs c' els', souts) /\
      map (abs_out V) outs = map Some souts /\
      k_typ c' = t /\
      k_cap c' = match cp with Some k => if 0 <? k then k + 1 else 0 | None => 0 end /\
      match cp with Some k => 0 < k -> zlen els' <= k | None => True end.
  Proof.
    intros Hcp Hg Hi.
    destruct (new_stack_wf V nilv isnil nil_isnil t fifo cp Hcp) as (c & E & Hc & Ha).
    destruct (run_refines V nilv isnil isstack pol nil_isnil isnil_eq ops 0 c [] Hc ltac:(reflexivity) ltac:(lia) Hi)
      as (c' & els' & outs & souts & R & Hc' & Hm & S & A).
    exists c, c', els', outs, souts. rewrite E.
    pose proof (srun_kind_cap V nilv isnil isstack pol (map (to_sop V) ops) (abs c [])) as [K C].
    rewrite S in K, C. cbn [fst StackRefine.abs s_cfg] in K, C.
    rewrite Ha in K, C. cbn [a_kind a_cap] in K, C. unfold abs_cfg in K, C. cbn [a_kind a_cap] in K, C.
    assert (Hk : k_cap c' = match cp with Some k => if 0 <? k then k + 1 else 0 | None => 0 end).
    { destruct (Z.eqb_spec (k_cap c') 0) as [E0|E0].
      - destruct cp as [k|]; [|assumption]. destruct (0 <? k); [discriminate|assumption].
      - destruct cp as [k|]; [|discriminate]. destruct (0 <? k); [|discriminate]. inversion C. lia. }
    repeat split; auto; try lia.
    destruct cp as [k|]; [|exact I]. intros Hk0. unfold cap_ok in Hc'. rewrite Hk in Hc'.
    destruct (Z.ltb_spec 0 k); [|lia]. destruct Hc' as [Hc'|[_ Hc']]; lia.
  Qed.

  (* ---- C03: observers in a state with capacity k / without capacity ---- *)
  Lemma observers_cap c els k :
    k_cap c = k + 1 -> 0 < k < Bnd - 1 -> zlen els <= k ->
    step (mk c els) OLen = Ok (mk c els, RInt (zlen els)) /\
    step (mk c els) OCap = Ok (mk c els, RInt k) /\
    step (mk c els) OAvail = Ok (mk c els, RInt (k - zlen els)) /\
    step (mk c els) OIsFull = Ok (mk c els, RBool (zlen els =? k)).
  Proof.
    intros Hk Hb Hl. pose proof (zlen_nonneg els).
    cbn [StackImpl.step config StackRefine.mk bind]. fold (mk c els).
    rewrite Len_mk by (unfold Bnd in *; lia). rewrite mk_zlen, g_isFull_spec, Hk.
    unfold g_Cap, g_Avail. cbv beta iota zeta.
    destruct (Z.ltb_spec 0 (k + 1)); [|lia]. destruct (Z.eqb_spec (k + 1) 0); [lia|].
    unfold Bnd in *. w64.
    replace (k + 1 + -1) with k by lia. replace (k + 1 - (1 + zlen els)) with (k - zlen els) by lia.
    replace (1 + zlen els =? k + 1) with (zlen els =? k) by lia. auto.
  Qed.

  Lemma observers_nocap c els :
    k_cap c = 0 -> zlen els < Bnd ->
    step (mk c els) OCap = Ok (mk c els, RInt (-1)) /\
    step (mk c els) OAvail = Ok (mk c els, RInt (-1)) /\
    step (mk c els) OIsFull = Ok (mk c els, RBool false).
  Proof.
    intros Hk Hb. cbn [StackImpl.step config StackRefine.mk bind]. fold (mk c els).
    rewrite g_isFull_spec, Hk. auto.
  Qed.

  (* Push without a policy: surplus dropped, earliest kept, in order *)
  Lemma push_keeps_prefix c els vs k :
    k_cap c = k + 1 -> 0 < k < Bnd - 1 -> zlen els <= k ->
    has (k_opt c) f_ronly = false -> has (k_opt c) f_nnest = false -> k_ppf c = None ->
    step (mk c els) (OPush vs) = Ok (mk c (els ++ firstn (Z.to_nat (k - zlen els)) vs), RLog []).
  Proof.
    intros Hk Hb Hl Hro Hnn Hp.
    cbn [StackImpl.step config StackRefine.mk bind]. fold (mk c els).
    unfold positive. change g_flag_positive with has. change c_ronly with f_ronly. rewrite Hro.
    unfold push. cbn [config StackRefine.mk bind]. fold (mk c els). rewrite Hp.
    rewrite generic_append_spec by (right; unfold Bnd in *; lia).
    unfold nn_filter. rewrite Hnn. unfold room, abs_cfg, a_cap. rewrite Hk.
    destruct (Z.eqb_spec (k + 1) 0); [lia|]. cbn [take_room bind]. replace (k + 1 - 1) with k by lia. reflexivity.
  Qed.

  Lemma insert_full_noop c els v i k :
    k_cap c = k + 1 -> 0 < k < Bnd - 1 -> zlen els = k ->
    step (mk c els) (OInsert v i) = Ok (mk c els, RBool false).
  Proof.
    intros Hk Hb Hl. pose proof (zlen_nonneg els).
    cbn [StackImpl.step config StackRefine.mk bind]. fold (mk c els).
    destruct (isnil v || positive c c_ronly); [reflexivity|].
    unfold insert. cbn [config StackRefine.mk bind]. fold (mk c els).
    rewrite mk_ulen by (unfold Bnd in *; lia). unfold g_insert. cbv beta zeta. rewrite Hk.
    unfold Bnd in *. w64.
    destruct (Z.ltb_spec (k + 1 - 1) (zlen els + 1)); [|lia].
    destruct (Z.eqb_spec (k + 1) 0); [lia|]. reflexivity.
  Qed.

  (* ---- C08: indices ---- *)
  Local Notation Index_refines := (Index_refines V nilv isnil nil_isnil).
  Local Notation index_refines := (index_refines V nilv isnil nil_isnil).

  Lemma step_index c els i : zlen els < Bnd -> in_i64 i ->
    step (mk c els) (OIndex i) =
      Ok (mk c els, RVal (SVal (fst (sindex V nilv (abs c els) i)))
                         (negb (isnil (fst (sindex V nilv (abs c els) i))))).
  Proof.
    intros Hb Hi. cbn [StackImpl.step config StackRefine.mk bind]. fold (mk c els).
    rewrite Index_refines by assumption. reflexivity.
  Qed.

  Lemma resolve_plain neg fwd n i : 0 <= i < n -> resolve neg fwd n i = Some i.
  Proof.
    intros H. unfold resolve. destruct (Z.leb_spec n 0); [lia|]. destruct (Z.ltb_spec i 0); [lia|].
    destruct (Z.leb_spec n i); [lia|]. reflexivity.
  Qed.
  Lemma resolve_neg fwd n k : 1 <= k <= n -> resolve true fwd n (- k) = Some (n - k).
  Proof.
    intros H. unfold resolve. destruct (Z.leb_spec n 0); [lia|]. destruct (Z.ltb_spec (- k) 0); [|lia].
    cbn [andb]. destruct (Z.leb_spec (- n) (- k)); [|lia]. reflexivity.
  Qed.
  Lemma resolve_fwd neg n i : 0 < n <= i -> resolve neg true n i = Some (n - 1).
  Proof.
    intros H. unfold resolve. destruct (Z.leb_spec n 0); [lia|]. destruct (Z.ltb_spec i 0); [lia|].
    destruct (Z.leb_spec n i); [|lia]. reflexivity.
  Qed.
  Lemma resolve_none neg fwd n i :
    (i < 0 /\ (neg = false \/ i < - n)) \/ (n <= i /\ fwd = false) \/ n <= 0 -> resolve neg fwd n i = None.
  Proof.
    intros H. unfold resolve. destruct (Z.leb_spec n 0); [reflexivity|].
    destruct (Z.ltb_spec i 0).
    - destruct H as [[_ [->|H]]|[[H _]|H]]; try lia; [reflexivity|].
      destruct (Z.leb_spec (- n) i); [lia|]. now rewrite andb_false_r.
    - destruct (Z.leb_spec n i).
      + destruct H as [[H _]|[[_ ->]|H]]; try lia. reflexivity.
      + lia.
  Qed.

  (* an index that addresses nothing: failure reported, state untouched *)
  Lemma bad_index_noop c els i :
    zlen els < Bnd -> in_i64 i ->
    resolve (has (k_opt c) f_negidx) (has (k_opt c) f_fwdidx) (zlen els) i = None ->
    step (mk c els) (OIndex i) = Ok (mk c els, RVal (SVal nilv) false) /\
    step (mk c els) (ORemove i) = Ok (mk c els, RVal (SVal nilv) false).
  Proof.
    intros Hb Hi R. split.
    - rewrite step_index by assumption. unfold sindex. cbn [StackRefine.abs s_cfg s_elems].
      change (a_opts (abs_cfg c)) with (k_opt c). rewrite R. cbn [fst]. now rewrite nil_isnil.
    - cbn [StackImpl.step config StackRefine.mk bind]. fold (mk c els).
      destruct (positive c c_ronly); [reflexivity|].
      unfold remove. cbn [config StackRefine.mk bind]. fold (mk c els).
      rewrite index_refines by assumption. rewrite R. reflexivity.
  Qed.

  Lemma bad_position_noop c els v i j :
    zlen els < Bnd -> ~ (0 <= i < zlen els) ->
    step (mk c els) (OReplace v i) = Ok (mk c els, RBool false) /\
    step (mk c els) (OSwap i j) = Ok (mk c els, RUnit) /\
    step (mk c els) (OSwap j i) = Ok (mk c els, RUnit).
  Proof.
    intros Hb Hi. pose proof (zlen_nonneg els).
    cbn [StackImpl.step config StackRefine.mk bind]. fold (mk c els).
    unfold replace, swap. rewrite mk_ulen by assumption. unfold g_replace, g_swap. cbv beta iota zeta.
    assert (E : (0 <=? i) && (i <? zlen els) = false) by lia. rewrite E. cbn [negb].
    repeat split.
    - destruct (isnil v || positive c c_ronly); reflexivity.
    - destruct (positive c c_ronly); reflexivity.
    - destruct (positive c c_ronly); [reflexivity|].
      destruct ((0 <=? j) && (j <? zlen els)); reflexivity.
  Qed.

  (* ---- C13: no-nesting ---- *)
  Lemma nonest_push c els vs :
    zlen els < Bnd -> cap_ok c (zlen els) ->
    has (k_opt c) f_ronly = false -> k_ppf c = None ->
    step (mk c els) (OPush vs) =
      Ok (mk c (els ++ take_room (room (abs_cfg c) (zlen els))
                        (if has (k_opt c) f_nnest then filter (fun v => negb (isstack v)) vs else vs)), RLog []).
  Proof.
    intros Hb Hc Hro Hp.
    cbn [StackImpl.step config StackRefine.mk bind]. fold (mk c els).
    unfold positive. change g_flag_positive with has. change c_ronly with f_ronly. rewrite Hro.
    unfold push. cbn [config StackRefine.mk bind]. fold (mk c els). rewrite Hp.
    rewrite generic_append_spec by assumption. reflexivity.
  Qed.

  Lemma switch_keeps_elems c els f t :
    exists c', step (mk c els) (OSetOpt f t) = Ok (mk c' els, RUnit) /\
               k_typ c' = k_typ c /\ k_cap c' = k_cap c /\ k_ord c' = k_ord c /\ k_ppf c' = k_ppf c.
  Proof.
    exists (set_state c f t). split; [reflexivity|].
    unfold set_state. destruct (negb _ || _); [destruct t as [[|]|]|]; auto.
  Qed.

  Lemma cannest_isnesting c els :
    step (mk c els) OCanNest = Ok (mk c els, RBool (negb (has (k_opt c) f_nnest))) /\
    step (mk c els) OIsNesting = Ok (mk c els, RBool (existsb isstack els)).
  Proof.
    cbn [StackImpl.step config StackRefine.mk bind]. fold (mk c els).
    rewrite is_nesting_mk. split; reflexivity.
  Qed.

  (* CanNest is true exactly when a pushed Stack would be stored now *)
  Lemma cannest_means_accepted c els x :
    zlen els < Bnd -> k_cap c = 0 -> has (k_opt c) f_ronly = false -> k_ppf c = None -> isstack x = true ->
    step (mk c els) (OPush [x]) =
      Ok (mk c (if negb (has (k_opt c) f_nnest) then els ++ [x] else els), RLog []).
  Proof.
    intros Hb Hk Hro Hp Hx. rewrite nonest_push by (assumption || (left; assumption)).
    unfold room, abs_cfg, a_cap. rewrite Hk. cbn [Z.eqb take_room filter]. rewrite Hx.
    destruct (has (k_opt c) f_nnest); cbn [negb]; [now rewrite app_nil_r|reflexivity].
  Qed.

  (* ---- C14: push policy ---- *)
  Definition accepted (p : N) (v : V) : Prop := pol p v = None.

  Lemma pol_push_char p vs : forall rm els log els' e log',
    pol_push V pol p rm els vs log = (els', e, log') ->
    exists consulted,
      log' = log ++ consulted /\
      consulted = firstn (length consulted) vs /\
      match e with
      | None => Forall (accepted p) consulted /\ els' = els ++ consulted
      | Some err => exists l x, consulted = l ++ [x] /\ pol p x = Some err /\
                                Forall (accepted p) l /\ els' = els ++ l
      end.
  Proof.
    induction vs as [|x xs IH]; intros rm els log els' e log' H; cbn [pol_push] in H.
    - inversion H; subst. exists []. rewrite !app_nil_r. repeat split; auto.
    - destruct (match rm with Some k => k <=? 0 | None => false end) eqn:Efull.
      + (* no room: once full, always full -- nothing further is consulted *)
        assert (Hrest : forall ys els0 log0, pol_push V pol p rm els0 ys log0 = (els0, None, log0)).
        { induction ys as [|y ys IHy]; intros; cbn [pol_push]; [reflexivity|]. rewrite Efull. apply IHy. }
        rewrite Hrest in H. inversion H; subst. exists []. rewrite !app_nil_r. repeat split; auto.
      + destruct (pol p x) as [err|] eqn:Ep.
        * inversion H; subst. exists [x]. repeat split; auto.
          exists [], x. rewrite app_nil_r. repeat split; auto.
        * apply IH in H as (cons & L & Pre & Rest).
          exists (x :: cons). rewrite <- app_assoc in L. cbn [app] in L. split; [exact L|].
          split; [cbn [length firstn]; f_equal; exact Pre|].
          destruct e as [err|].
          -- destruct Rest as (l & y & C & Py & Fl & El). exists (x :: l), y. subst cons.
             repeat split; auto. rewrite <- app_assoc in El. exact El.
          -- destruct Rest as [Fa El]. split; [constructor; assumption|]. rewrite <- app_assoc in El. exact El.
  Qed.

  Lemma step_push_policy c els vs p :
    zlen els < Bnd -> cap_ok c (zlen els) -> has (k_opt c) f_ronly = false -> k_ppf c = Some p ->
    exists els' e consulted,
      step (mk c els) (OPush vs) =
        Ok (mk (match e with Some _ => with_err c e | None => c end) els', RLog consulted) /\
      consulted = firstn (length consulted) vs /\
      cap_ok c (zlen els') /\
      match e with
      | None => Forall (accepted p) consulted /\ els' = els ++ consulted
      | Some err => exists l x, consulted = l ++ [x] /\ pol p x = Some err /\
                                Forall (accepted p) l /\ els' = els ++ l
      end.
  Proof.
    intros Hb Hc Hro Hp.
    cbn [StackImpl.step config StackRefine.mk bind]. fold (mk c els).
    unfold positive. change g_flag_positive with has. change c_ronly with f_ronly. rewrite Hro.
    unfold push. cbn [config StackRefine.mk bind]. fold (mk c els). rewrite Hp.
    rewrite (method_append_spec V nilv isnil pol nil_isnil) by assumption.
    destruct (pol_push V pol p (room (abs_cfg c) (zlen els)) els vs []) as [[els' e] log'] eqn:PP.
    pose proof (pol_push_char _ _ _ _ _ _ _ _ PP) as (cons & L & Pre & Rest). cbn [app] in L. subst log'.
    pose proof (pol_push_len V nilv isnil pol nil_isnil p vs _ _ _ _ _ _ PP) as [L1 L2].
    exists els', e, cons. split; [destruct e; reflexivity|]. split; [exact Pre|]. split; [|exact Rest].
    destruct Hc as [Hc|[Hc1 Hc2]]; [left; assumption|right; split; [assumption|]].
    specialize (L2 (k_cap c - 1 - zlen els)). unfold room, abs_cfg, a_cap in L2.
    destruct (Z.eqb_spec (k_cap c) 0); [lia|]. specialize (L2 eq_refl). lia.
  Qed.

  (* ---- C17: Reset keeps the configuration ---- *)
  Lemma reset_spec c els :
    has (k_opt c) f_ronly = false ->
    step (mk c els) OReset = Ok (mk c [], RUnit).
  Proof.
    intros Hro. cbn [StackImpl.step config StackRefine.mk bind]. fold (mk c els).
    unfold positive. change g_flag_positive with has. change c_ronly with f_ronly. rewrite Hro. reflexivity.
  Qed.

  (* ---- C08: what an index addresses ---- *)
  Lemma index_neg c els k :
    zlen els < Bnd -> has (k_opt c) f_negidx = true -> 1 <= k <= zlen els ->
    step (mk c els) (OIndex (- k)) =
      Ok (mk c els, RVal (SVal (nthz V nilv els (zlen els - k))) (negb (isnil (nthz V nilv els (zlen els - k))))).
  Proof.
    intros Hb Hn Hk. rewrite step_index by (assumption || (unfold in_i64, two63, Bnd in *; lia)).
    unfold sindex. cbn [StackRefine.abs s_cfg s_elems]. change (a_opts (abs_cfg c)) with (k_opt c).
    rewrite Hn. rewrite resolve_neg by assumption. reflexivity.
  Qed.

  Lemma index_fwd c els i :
    zlen els < Bnd -> in_i64 i -> has (k_opt c) f_fwdidx = true -> 0 < zlen els <= i ->
    step (mk c els) (OIndex i) =
      Ok (mk c els, RVal (SVal (nthz V nilv els (zlen els - 1))) (negb (isnil (nthz V nilv els (zlen els - 1))))).
  Proof.
    intros Hb Hi Hf Hk. rewrite step_index by assumption.
    unfold sindex. cbn [StackRefine.abs s_cfg s_elems]. change (a_opts (abs_cfg c)) with (k_opt c).
    rewrite Hf. rewrite resolve_fwd by assumption. reflexivity.
  Qed.

  Lemma index_plain c els i :
    zlen els < Bnd -> 0 <= i < zlen els ->
    step (mk c els) (OIndex i) =
      Ok (mk c els, RVal (SVal (nthz V nilv els i)) (negb (isnil (nthz V nilv els i)))).
  Proof.
    intros Hb Hk. rewrite step_index by (assumption || (unfold in_i64, two63, Bnd in *; lia)).
    unfold sindex. cbn [StackRefine.abs s_cfg s_elems].
    rewrite resolve_plain by assumption. reflexivity.
  Qed.

  Lemma index_without_options c els i :
    zlen els < Bnd -> in_i64 i ->
    (i < 0 /\ has (k_opt c) f_negidx = false) \/ (zlen els <= i /\ has (k_opt c) f_fwdidx = false) ->
    step (mk c els) (OIndex i) = Ok (mk c els, RVal (SVal nilv) false).
  Proof.
    intros Hb Hi H. apply bad_index_noop; try assumption.
    apply resolve_none. destruct H as [[H1 H2]|[H1 H2]]; [left|right; left]; auto.
  Qed.

  (* ---- C09 / C11 on the list model: frames ---- *)
  Definition is_observer (o : op V) : bool :=
    match o with
    | OLen | OIndex _ | OFront | OBack | OIsEmpty | OCap | OAvail | OIsFull
    | OCanNest | OIsNesting | OIsFIFO | OGetOpt _ | OErrIsNil => true
    | _ => false
    end.

  (* a query returns the state it was given, whatever that state is *)
  Lemma observer_frame (r r' : raw V) o x :
    is_observer o = true -> step r o = Ok (r', x) -> r' = r.
  Proof.
    intros Ho. destruct o; try discriminate; unfold StackImpl.step, bind;
      destruct (config V r) as [c| |]; try discriminate;
      repeat match goal with
             | |- context [match ?X with Ok _ => _ | Panic => _ | Unmodelled => _ end] => destruct X as [[? ?]| |]
             end; intros H; inversion H; reflexivity.
  Qed.

  (* while read-only, every mutator (all but the flag itself) returns the
     state unchanged and reports failure / nothing *)
  Lemma ro_frame c els o :
    has (k_opt c) f_ronly = true ->
    match o with OSetOpt f _ => f <> f_ronly | _ => True end ->
    is_observer o = false ->
    exists x, step (mk c els) o = Ok (mk c els, x).
  Proof.
    intros Hro Hf Ho.
    assert (R : positive c c_ronly = true) by exact Hro.
    destruct o; try discriminate; cbn [StackImpl.step config StackRefine.mk bind]; fold (mk c els); rewrite ?R, ?orb_true_r;
      try (eexists; reflexivity).
    (* OSetOpt *)
    unfold set_state. rewrite R. cbn [negb orb]. change c_ronly with f_ronly.
    destruct (N.eqb_spec f f_ronly); [contradiction|].
    cbn [set_config StackRefine.mk]. eexists. reflexivity.
  Qed.

  (* clearing the flag restores mutability with the state exactly as it was *)
  Lemma ro_roundtrip c els :
    exists c1 c2,
      step (mk c els) (OSetOpt f_ronly (Some true)) = Ok (mk c1 els, RUnit) /\
      step (mk c1 els) (OSetOpt f_ronly (Some false)) = Ok (mk c2 els, RUnit) /\
      k_opt c2 = N.ldiff (k_opt c) f_ronly /\
      k_typ c2 = k_typ c /\ k_cap c2 = k_cap c /\ k_ord c2 = k_ord c /\ k_err c2 = k_err c /\ k_ppf c2 = k_ppf c.
  Proof.
    eexists _, _. cbn [StackImpl.step config StackRefine.mk bind set_config]. unfold set_state.
    change c_ronly with f_ronly. rewrite N.eqb_refl, !orb_true_r.
    split; [reflexivity|]. cbn [with_opt k_opt]. split; [reflexivity|].
    cbn [k_opt k_typ k_cap k_ord k_err k_ppf with_opt]. unfold g_flag_unshift, g_flag_shift.
    repeat split. apply N.bits_inj. intros n. rewrite !N.ldiff_spec, N.lor_spec.
    destruct (N.testbit (k_opt c) n), (N.testbit f_ronly n); reflexivity.
  Qed.

End Cor.
