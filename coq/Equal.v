(* Equal.v -- executable model of the reflective comparison behind
   Stack.IsEqual / Condition.IsEqual (stack.go isEqual, cond.go isEqual,
   misc.go valuesEqual, primitivesEqual, slicesEqual, mapsEqual,
   structsEqual, stackageStructsEqual, matchExtra, functionsEqual,
   channelsEqual, derefPtr, assertReflect, capLenEqual), written the way the
   Go code is written: same helpers, same order of checks, [Panic] where
   reflect panics.  capLenEqual, the option-bit test, the kind and operator
   name tables are imported from Generated.v (rewritten from /repo by the
   translator on every run).

   A Go interface value is a [value] (VNil = the nil interface, VLeaf g = any
   non-stackage value); the reflect.Value that derefPtr returns is an [rval].
   Values reached through reflection (slice elements, map values, struct
   fields) are handed back to valuesEqual as leaves.

   [fixes]: three places where the repository as given still deviates from
   C05 (found by this module, not in DESIGN.md §7).  Each has a switch: false
   = the code as it is, true = the proposed one-line repair
   (notes/agents/C05-extra-fixes.diff).  [current_fixes] says which code the
   correspondence check compares against.

   Outcome: Ok true = nil error, Ok false = an error, Panic, Unmodelled (a
   shape outside the modelled catalogue, a user equality policy, or fuel
   exhausted -- never a verdict).  No proofs in this file. *)
From Stackage Require Import Base Generated StackImpl Values EqualBase.
Open Scope Z_scope.

Record fixes := {
  fx_nilelem : bool;    (* R1 slicesEqual: a nil pointer as slice/array element.  as is: valuesEqual(reflect.Value{}) -> assertReflect calls Type() on the zero Value: panic *)
  fx_stkstruct : bool;  (* R3 stackageStructsEqual: x is a foreign struct, y a Stack/Condition.  as is: not "tried", structsEqual skips the lone unexported field pair: nil *)
  fx_condarg : bool     (* R4 Condition.IsEqual: receiver not initialised or argument not a Condition.  as is: err is never set: nil *)
}.
Definition as_is : fixes := {| fx_nilelem := false; fx_stkstruct := false; fx_condarg := false |}.
Definition repaired : fixes := {| fx_nilelem := true; fx_stkstruct := true; fx_condarg := true |}.
Definition current_fixes : fixes := repaired.

(* ---- reflect.Value after derefPtr(assertReflect(x)) ---- *)
Inductive rval :=
| RInvalid            (* the zero Value: x was the nil interface, or a nil pointer was reached *)
| RG (g : gval)       (* a valid non-pointer, non-stackage value *)
| RS (v : value).     (* a Stack / Condition struct value (initialised or zero, native or alias) *)

Definition deref (x : value) : rval :=
  match x with
  | VNil => RInvalid
  | VLeaf g => match gunder g with Some t => RG t | None => RInvalid end
  | _ => RS x
  end.

Inductive rkind := KInvalid | KPrim | KStruct | KSlice | KArray | KMap | KFunc | KChan | KOther.

Definition gkind (g : gval) : rkind :=
  match g with
  | GStr _ | GInt _ _ | GBool _ | GFloat _ _ _ => KPrim
  | GSlice _ _ _ => KSlice
  | GArray _ _ => KArray
  | GMap _ _ => KMap
  | GStruct _ _ => KStruct
  | GFunc _ _ => KFunc
  | GChan _ _ => KChan
  | _ => KOther          (* GStringer, GOper, GList, GOther: kind not known to the model *)
  end.

Definition rkind_of (r : rval) : rkind :=
  match r with RInvalid => KInvalid | RG g => gkind g | RS _ => KStruct end.

Definition is_kother (r : rval) : bool := match rkind_of r with KOther => true | _ => false end.
Definition is_kstruct (k : rkind) : bool := match k with KStruct => true | _ => false end.

(* ---- primitivesEqual(x, y reflect.Value) (tried, err == nil) ---- *)
Definition rprim (r : rval) : bool := match r with RG g => is_prim g | _ => false end.

Definition primitives_equal (x y : rval) : bool * bool :=
  match x, y with
  | RInvalid, _ | _, RInvalid => (false, false)              (* "Nil input"; tried stays false *)
  | _, _ =>
      if rprim x then
        (true, match x, y with
               | RG p, RG q => if is_prim q then prim_eqb p q   (* x.Equal(y) *)
                               else false                      (* "primitive incomparable to non-primitive" *)
               | _, _ => false
               end)
      else (false, true)
  end.

(* ---- names ---- *)
Definition to_lower (b : byte) : byte :=
  let k := Byte.to_N b in if ((65 <=? k) && (k <=? 90))%N then byte_of_N_tot (k + 32) else b.
Definition to_upper (b : byte) : byte :=
  let k := Byte.to_N b in if ((97 <=? k) && (k <=? 122))%N then byte_of_N_tot (k - 32) else b.
Definition is_upper (b : byte) : bool := let k := Byte.to_N b in ((65 <=? k) && (k <=? 90))%N.

(* foldValue *)
Definition fold_value (dofold : bool) (v : bytes) : bytes :=
  match v with
  | [] => v
  | b :: _ => if dofold then (if is_upper b then map to_lower v else map to_upper v) else v
  end.

Fixpoint assocN (k : N) (l : list (N * bytes)) : option bytes :=
  match l with
  | [] => None
  | (k', s) :: t => if (k =? k')%N then Some s else assocN k t
  end.

(* nodeConfig.kind() *)
Definition kind_name (c : config) : bytes :=
  match assocN (c_typ c) t_kind_names with
  | Some s => fold_value (g_flag_positive (c_opt c) c_cfold) s
  | None => B "null"
  end.

Definition op_string (o : oper) : bytes :=
  match o with
  | OpBuiltin n => match assocN n t_op_names with Some s => s | None => s_badOp end
  | OpUser t _ => t
  end.
Definition op_context (o : oper) : bytes :=
  match o with OpBuiltin _ => s_compOpCtx | OpUser _ c => c end.

(* ---- the alias converters (after D05/D27): any initialised Stack / Condition, native, alias or pointer to alias ---- *)
Definition conv_stack (x : value) : bool := match x with VStack _ _ _ => true | _ => false end.
Definition conv_cond (x : value) : bool := match x with VCond _ _ _ _ _ => true | _ => false end.

(* struct fields as reflect sees them: (name, exported, anonymous, value held) *)
Definition rfield := (bytes * bool * bool * value)%type.
Definition fields_of (r : rval) : list rfield :=
  match r with
  | RG (GStruct _ fs) => map (fun f => (fname f, fexp f, false, VLeaf (fval f))) fs
  | RS (VStack _ _ _) | RS (VZeroStack _) => [(B "stack", false, true, VNil)]           (* struct{ *stack } *)
  | RS (VCond _ _ _ _ _) | RS (VZeroCond _) => [(B "condition", false, true, VNil)]    (* struct{ *condition } *)
  | _ => []
  end.

Section Model.
  Variable fx : fixes.
  (* valuesEqual one level down (open recursion; closed by [values_equal]) *)
  Variable rec : value -> value -> res bool.

  (* while err == nil *)
  Definition andthen (r : res bool) (k : res bool) : res bool :=
    match r with Ok true => k | _ => r end.

  (* ---- slicesEqual ---- *)
  Definition elem_rval (e : gval) : rval := match gunder e with Some t => RG t | None => RInvalid end.

  Definition elem_equal (ex ey : gval) : res bool :=
    let xv := elem_rval ex in let yv := elem_rval ey in        (* derefPtr(Index(i).Type(), Index(i)) *)
    let '(tried, ok) := primitives_equal xv yv in
    if tried then Ok ok
    else match xv, yv with                                     (* valuesEqual(xv, yv) on reflect.Values *)
         | RG gx, RG gy =>
             if is_chan gx && is_chan gy then Unmodelled       (* channelsEqual compares the two reflect.Value structs *)
             else rec (VLeaf gx) (VLeaf gy)
         | _, _ => if fx_nilelem fx then Ok false else Panic   (* assertReflect: Type() of the zero Value *)
         end.

  Fixpoint slice_loop (lx ly : list gval) : res bool :=
    match lx with
    | [] => Ok true
    | ex :: tx =>
        match ly with
        | [] => Panic                                          (* yrv.Index(i) out of range *)
        | ey :: ty => andthen (elem_equal ex ey) (slice_loop tx ty)
        end
    end.

  Definition slices_equal (x y : value) : res bool :=
    match deref x, deref y with
    | RG gx, RG gy =>
        match seq_parts gx, seq_parts gy with
        | Some (cx, lx), Some (cy, ly) =>
            if negb (g_capLenEqual cx cy (zlen lx) (zlen ly)) then Ok false
            else slice_loop lx ly
        | _, _ => Ok false                                     (* "Slice/array kind mismatch" *)
        end
    | _, _ => Ok false
    end.

  (* ---- mapsEqual ---- *)
  Fixpoint map_loop (kx ky : list (gval * gval)) : res bool :=
    match kx with
    | [] => Ok true
    | (k, v) :: t =>
        match glookup k ky with
        | None => Ok false                                     (* "Map key mismatch" (D16) *)
        | Some v' => andthen (rec (VLeaf v) (VLeaf v')) (map_loop t ky)
        end
    end.

  Definition maps_equal (x y : value) : res bool :=
    match deref x, deref y with
    | RG (GMap tx kx), RG (GMap ty ky) =>
        if negb (tx =? ty)%N then Ok false
        else if negb (zlen kx =? zlen ky) then Ok false
        else map_loop kx ky
    | _, _ => Ok false                                         (* "Cannot compare non-map instances" *)
    end.

  (* ---- structsEqual ---- *)
  Fixpoint struct_loop (fs gs : list rfield) : res bool :=
    match fs with
    | [] => Ok true
    | (xn, xe, xa, xv) :: tx =>
        match gs with
        | [] => Panic                                          (* yrt.Field(i) out of range *)
        | (yn, ye, ya, yv) :: ty =>
            if negb xe && negb ye then struct_loop tx ty       (* both unexported: skipped (D15) *)
            else if negb (bytes_eqb xn yn) && negb (xa && ya) then Ok false
            else if negb xe || negb ye then Panic              (* Interface() on an unexported field *)
            else andthen (rec xv yv) (struct_loop tx ty)
        end
    end.

  Definition structs_equal (x y : value) : res bool :=
    let xr := deref x in let yr := deref y in
    if negb (is_kstruct (rkind_of yr)) then Ok false           (* xrk != yrk *)
    else
      let fs := fields_of xr in let gs := fields_of yr in
      if negb (zlen fs =? zlen gs) then Ok false
      else struct_loop fs gs.

  (* ---- stack.isEqual ----
     The pointer shortcut (r == o: nil at once) is not modelled: the model's
     trees have no sharing and the harness always builds two separate
     instances. *)
  Fixpoint stack_loop (ex ey : list value) : res bool :=
    match ex with
    | [] => Ok true
    | a :: tx =>
        match ey with
        | [] => andthen (rec a VNil) (stack_loop tx [])       (* o.index(i) finds nothing: nil *)
        | b :: ty => andthen (rec a b) (stack_loop tx ty)
        end
    end.

  Definition stack_isEqual (cx : config) (ex : list value) (cy : config) (ey : list value) : res bool :=
    if negb (g_capLenEqual (c_cap cx) (c_cap cy) (zlen ex + 1) (zlen ey + 1)) then Ok false
    else if negb (bytes_eqb (kind_name cx) (kind_name cy)) then Ok false
    else stack_loop ex ey.

  (* Stack.IsEqual *)
  Definition stack_IsEqual (x y : value) : res bool :=
    match x with
    | VStack _ cx ex =>
        match y with
        | VStack _ cy ey =>
            match c_eqf cx with
            | Some _ => Unmodelled                             (* user EqualityPolicy *)
            | None => stack_isEqual cx ex cy ey
            end
        | _ => Ok false                                        (* "bad input" *)
        end
    | _ => Ok false                                            (* "Not initialized" *)
    end.

  (* ---- condition.isEqual ---- *)
  Definition cond_isEqual (kw : bytes) (op : option oper) (ex : value)
                          (kw' : bytes) (op' : option oper) (ex' : value) : res bool :=
    if negb (bytes_eqb kw kw') then Ok false
    else
      match op, op' with
      | None, None => rec ex ex'
      | Some o, Some o' =>
          if negb (bytes_eqb (op_string o) (op_string o')) then Ok false
          else if negb (bytes_eqb (op_context o) (op_context o')) then Ok false
          else rec ex ex'
      | _, _ => Ok false                                       (* D26 *)
      end.

  (* Condition.IsEqual *)
  Definition cond_IsEqual (x y : value) : res bool :=
    match x with
    | VCond _ cx kw op ex =>
        match y with
        | VCond _ _ kw' op' ex' =>
            match c_eqf cx with
            | Some _ => Unmodelled
            | None => cond_isEqual kw op ex kw' op' ex'
            end
        | _ => Ok (negb (fx_condarg fx))                       (* err is never assigned *)
        end
    | _ => Ok (negb (fx_condarg fx))
    end.

  (* ---- stackageStructsEqual (tried, err) ---- *)
  Definition stackage_structs_equal (x y : value) : bool * res bool :=
    if conv_cond x then
      (true, if conv_cond y then cond_IsEqual x y else Ok false)
    else if conv_stack x then
      (true, if conv_stack y then stack_IsEqual x y else Ok false)
    else if fx_stkstruct fx && (conv_cond y || conv_stack y) then (true, Ok false)
    else (false, Ok false).

  (* ---- functionsEqual / channelsEqual / matchExtra ---- *)
  Definition functions_equal (x y : value) : res bool :=
    match x, y with
    | VLeaf (GFunc t _), VLeaf (GFunc u _) => Ok (t =? u)%N    (* kinds of the values as given (no dereference), then types *)
    | _, _ => Ok false
    end.

  Definition channels_equal (x y : value) : res bool :=
    match x, y with
    | VLeaf (GChan t i), VLeaf (GChan u j) => Ok ((t =? u)%N && (i =? j)%N)   (* x != y on the interfaces *)
    | _, _ => Ok false
    end.

  Definition match_extra (k : rkind) (x y : value) : res bool :=
    match k with
    | KFunc => functions_equal x y
    | KChan => channels_equal x y
    | _ => Ok false                                            (* "Unsupported type" *)
    end.

  (* ---- valuesEqual ---- *)
  Definition values_equal_body (x y : value) : res bool :=
    if is_nil x && is_nil y then Ok true
    else
      let xr := deref x in let yr := deref y in
      if is_kother xr || is_kother yr then Unmodelled
      else
        let '(tried, ok) := primitives_equal xr yr in
        if tried then Ok ok
        else
          match rkind_of xr with
          | KStruct =>
              let '(tried, r) := stackage_structs_equal x y in
              if tried then r else structs_equal x y
          | KSlice | KArray => slices_equal x y
          | KMap => maps_equal x y
          | _ => match_extra (rkind_of yr) x y
          end.
End Model.

Fixpoint values_equal (fx : fixes) (n : nat) (x y : value) : res bool :=
  match n with
  | O => Unmodelled
  | S n' => values_equal_body fx (values_equal fx n') x y
  end.

(* x.IsEqual(y) for a Stack-typed or Condition-typed receiver x *)
Definition is_equal (fx : fixes) (x y : value) : res bool :=
  match x with
  | VStack _ _ _ | VZeroStack _ => stack_IsEqual (values_equal fx (vsz x)) x y
  | VCond _ _ _ _ _ | VZeroCond _ => cond_IsEqual fx (values_equal fx (vsz x)) x y
  | _ => Unmodelled
  end.
