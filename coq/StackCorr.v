(* StackCorr.v -- correspondence interpreters for the list-core families
   (hist, indexsweep, nesting, policy): concrete element type, evaluation of
   the model and of the specification on a recorded history, verdict codes.
   Executable definitions only. *)
From Stackage Require Import Base Generated StackImpl StackSpec StackSpecCorr.
Open Scope Z_scope.

Definition leak_cfg : scfg :=
  {| k_typ := 0; k_cap := -1; k_opt := 0; k_ord := false; k_err := None; k_ppf := None |}.

Record hcase := MkH {
  h_kind : N; h_cap : option Z;
  h_ops : list (op el); h_outs : list (out el); h_panic : bool }.

Definition scfg_eqb (a b : scfg) : bool :=
  (k_typ a =? k_typ b)%N && (k_cap a =? k_cap b) && (k_opt a =? k_opt b)%N && Bool.eqb (k_ord a) (k_ord b).

Definition slot_eqb (a b : slot el) : bool :=
  match a, b with
  | SVal x, SVal y => el_eqb x y
  | SCfg x, SCfg y => scfg_eqb x y
  | _, _ => false
  end.

Definition out_eqb (a b : out el) : bool :=
  match a, b with
  | RUnit, RUnit => true
  | RVal s ok, RVal s' ok' => slot_eqb s s' && Bool.eqb ok ok'
  | RBool x, RBool y => Bool.eqb x y
  | RInt x, RInt y => x =? y
  | RLog x, RLog y => list_eqb el_eqb x y
  | _, _ => false
  end.

Definition i_step := step el ENil el_isnil el_isstack el_pol.

(* run as far as the model goes: outputs so far and 0 = completed,
   1 = Panic, 2 = Unmodelled *)
Fixpoint run_partial (r : raw el) (ops : list (op el)) : list (out el) * N :=
  match ops with
  | [] => ([], 0%N)
  | o :: ops' =>
      match i_step r o with
      | Ok (r', x) => let '(xs, st) := run_partial r' ops' in (x :: xs, st)
      | Panic => ([], 1%N)
      | Unmodelled => ([], 2%N)
      end
  end.

Definition model_ok (c : hcase) : bool :=
  let '(outs, st) := run_partial (new_stack el (h_kind c) false (h_cap c)) (h_ops c) in
  list_eqb out_eqb outs (h_outs c) &&
  (if h_panic c then (st =? 1)%N else (st =? 0)%N).

(* ---- the specification side ---- *)
Definition to_sop (o : op el) : sop el :=
  match o with
  | OPush vs => SPush vs | OPop => SPop | OInsert v i => SInsert v i | ORemove i => SRemove i
  | OReplace v i => SReplace v i | OSwap i j => SSwap i j | OReverse => SReverse | OReset => SReset
  | OSetFIFO b => SSetFIFO b | OSetOpt f t => SSetOpt f t | OSetPolicy p => SSetPolicy p
  | OLen => SLen | OIndex i => SIndex i | OFront => SFront | OBack => SBack
  | OIsEmpty => SIsEmpty | OCap => SCap | OAvail => SAvail | OIsFull => SIsFull
  | OCanNest => SCanNest | OIsNesting => SIsNesting | OIsFIFO => SIsFIFO
  | OGetOpt f => SGetOpt f | OErrIsNil => SErrIsNil
  end.

Definition sout_matches (x : sout el) (o : out el) : bool :=
  match x, o with
  | XUnit, RUnit => true
  | XVal v ok, RVal (SVal v') ok' => el_eqb v v' && Bool.eqb ok ok'
  | XBool a, RBool b => Bool.eqb a b
  | XInt a, RInt b => a =? b
  | XLog a, RLog b => list_eqb el_eqb a b
  | _, _ => false
  end.

Definition spec_ok (c : hcase) : bool :=
  negb (h_panic c) &&
  all2 sout_matches
       (snd (srun el ENil el_isnil el_isstack el_pol (spec_init (h_kind c) (h_cap c)) (map to_sop (h_ops c))))
       (h_outs c).

(* verdict: 0 = agrees with model and specification; 1 = differs from the
   model only; 2 = violates the specification only; 3 = both *)
Definition verdict (c : hcase) : N :=
  ((if model_ok c then 0 else 1) + (if spec_ok c then 0 else 2))%N.
Definition verdict_spec_only (c : hcase) : N := if spec_ok c then 0%N else 2%N.

Definition check (c : hcase) : N := if model_ok c then 0%N else 1%N.
