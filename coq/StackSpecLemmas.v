(* StackSpecLemmas.v -- facts about the ordered-list specification alone:
   they show it is the natural object (so it cannot be quietly bent towards
   the code) and give the invariants the property theorems combine with the
   refinement theorem. *)
From Stackage Require Import Base StackSpec.
From Coq Require Import ZifyBool.
Open Scope Z_scope.

Section SpecLemmas.
  Variable V : Type.
  Variable nilv : V.
  Variable isnil : V -> bool.
  Variable isstack : V -> bool.
  Variable pol : N -> V -> option N.

  Notation sstep := (sstep V nilv isnil isstack pol).
  Notation srun := (srun V nilv isnil isstack pol).
  Notation sstate := (sstate V).

  (* kind, capacity are never changed by any operation *)
  Lemma sstep_kind_cap s o :
    a_kind (s_cfg (fst (sstep s o))) = a_kind (s_cfg s) /\ a_cap (s_cfg (fst (sstep s o))) = a_cap (s_cfg s).
  Proof.
    destruct s as [[ck cc co cf ce cp] els].
    destruct o; cbn [StackSpec.sstep s_cfg s_elems a_kind a_cap a_opts a_fifo a_err a_ppf];
      repeat match goal with
             | |- context [if ?b then _ else _] => destruct b
             | |- context [match ?x with _ => _ end] => destruct x
             end; cbn [fst s_cfg upd_cfg upd_elems set_opts set_fifo set_err set_ppf a_kind a_cap]; auto.
  Qed.

  Lemma srun_kind_cap ops : forall s,
    a_kind (s_cfg (fst (srun s ops))) = a_kind (s_cfg s) /\ a_cap (s_cfg (fst (srun s ops))) = a_cap (s_cfg s).
  Proof.
    induction ops as [|o t IH]; intros s; cbn [StackSpec.srun]; [auto|].
    destruct (sstep s o) as [s1 x] eqn:E1. destruct (srun s1 t) as [s2 xs] eqn:E2. cbn [fst].
    pose proof (sstep_kind_cap s o) as [K1 C1]. rewrite E1 in K1, C1. cbn [fst] in K1, C1.
    pose proof (IH s1) as [K2 C2]. rewrite E2 in K2, C2. cbn [fst] in K2, C2. split; congruence.
  Qed.

  (* FIFO mode is a latch *)
  Lemma sstep_fifo_latch s o : a_fifo (s_cfg s) = true -> a_fifo (s_cfg (fst (sstep s o))) = true.
  Proof.
    destruct s as [[ck cc co cf ce cp] els]. intros H. cbn [s_cfg a_fifo] in H. subst cf.
    destruct o; cbn [StackSpec.sstep s_cfg s_elems a_kind a_cap a_opts a_fifo a_err a_ppf];
      repeat match goal with
             | |- context [if ?b then _ else _] => destruct b
             | |- context [match ?x with _ => _ end] => destruct x
             end; cbn [fst s_cfg upd_cfg upd_elems set_opts set_fifo set_err set_ppf a_fifo orb]; auto.
  Qed.

  (* Reverse twice is the identity on content; Reset empties *)
  Lemma reverse_involutive s :
    s_elems (fst (sstep (fst (sstep s SReverse)) SReverse)) = s_elems s.
  Proof.
    destruct s as [c els]. cbn [StackSpec.sstep s_cfg s_elems].
    destruct (has (a_opts c) f_ronly) eqn:E; cbn [fst upd_elems s_cfg s_elems]; rewrite ?E; cbn [fst upd_elems s_elems];
      [reflexivity|apply rev_involutive].
  Qed.

  (* LIFO: Pop right after Push x (one value, accepted) returns x and restores the content *)
  Lemma pop_after_push_lifo c els x :
    has (a_opts c) f_ronly = false -> a_fifo c = false -> a_ppf c = None ->
    has (a_opts c) f_nnest = false -> a_cap c = None ->
    let s := {| s_cfg := c; s_elems := els |} in
    sstep (fst (sstep s (SPush [x]))) SPop = (s, XVal x (negb (isnil x))).
  Proof.
    intros Hro Hf Hp Hn Hc. cbv zeta. cbn [StackSpec.sstep s_cfg s_elems]. rewrite Hro, Hp, Hn.
    unfold room. rewrite Hc. cbn [take_room fst upd_elems s_cfg s_elems]. rewrite Hro, Hf.
    rewrite rev_app_distr. cbn [rev app]. rewrite rev_involutive. reflexivity.
  Qed.

  (* FIFO: Pop returns the oldest element *)
  Lemma pop_fifo_oldest c v t :
    has (a_opts c) f_ronly = false -> a_fifo c = true ->
    sstep {| s_cfg := c; s_elems := v :: t |} SPop = ({| s_cfg := c; s_elems := t |}, XVal v (negb (isnil v))).
  Proof. intros Hro Hf. cbn [StackSpec.sstep s_cfg s_elems]. now rewrite Hro, Hf. Qed.

  (* Insert then Index returns the value, at the clamped position *)
  Lemma nth_insert_at (l : list V) k x : (k <= length l)%nat -> nth k (insert_at k x l) nilv = x.
  Proof.
    intros H. unfold insert_at. rewrite app_nth2 by (rewrite firstn_length; lia).
    rewrite firstn_length. replace (k - Nat.min k (length l))%nat with 0%nat by lia. reflexivity.
  Qed.

  Lemma insert_length (l : list V) k x : length (insert_at k x l) = S (length l).
  Proof.
    unfold insert_at. rewrite app_length. cbn [length]. rewrite firstn_length, skipn_length. lia.
  Qed.

  (* ---- capacity invariant of the specification ---- *)
  Definition within (s : sstate) : Prop :=
    match a_cap (s_cfg s) with Some k => zlen (s_elems s) <= k | None => True end.

  Lemma zlen_app' {A} (a b : list A) : zlen (a ++ b) = zlen a + zlen b.
  Proof. unfold zlen. rewrite app_length. lia. Qed.

  Lemma pol_push_within p vs : forall rm els log,
    (forall k, rm = Some k -> 0 <= k) ->
    let '(els', _, _) := pol_push V pol p rm els vs log in
    forall k, rm = Some k -> zlen els' <= zlen els + k.
  Proof.
    induction vs as [|x xs IH]; intros rm els log Hk; cbn [pol_push].
    - intros k E. specialize (Hk k E). lia.
    - destruct (match rm with Some k => k <=? 0 | None => false end) eqn:Ef.
      + apply IH. exact Hk.
      + destruct (pol p x).
        * intros k E. specialize (Hk k E). lia.
        * specialize (IH (option_map (fun k => k - 1) rm) (els ++ [x]) (log ++ [x])).
          destruct (pol_push V pol p (option_map (fun k => k - 1) rm) (els ++ [x]) xs (log ++ [x])) as [[e1 e2] e3].
          intros k E. subst rm. cbn [option_map] in IH.
          assert (0 <= k - 1) by (destruct (Z.leb_spec k 0); [discriminate|lia]).
          specialize (IH ltac:(intros k' E'; inversion E'; subst; lia) (k - 1) eq_refl).
          rewrite zlen_app' in IH. change (zlen [x]) with 1 in IH. lia.
  Qed.

  Lemma sstep_within s o : within s -> within (fst (sstep s o)).
  Proof.
    destruct s as [c els]. unfold within. cbn [s_cfg s_elems]. intros H.
    pose proof (sstep_kind_cap {| s_cfg := c; s_elems := els |} o) as [_ HC]. cbn [s_cfg] in HC.
    rewrite HC. destruct (a_cap c) as [k|] eqn:Ec; [|exact I].
    destruct o; cbn [StackSpec.sstep s_cfg s_elems]; rewrite ?Ec;
      try (repeat match goal with
                  | |- context [if ?b then _ else _] => destruct b
                  end; cbn [fst s_elems upd_cfg upd_elems]; exact H).
    - (* Push *)
      destruct (has (a_opts c) f_ronly); [exact H|].
      destruct (a_ppf c) as [p|].
      + unfold room. rewrite Ec.
        pose proof (pol_push_within p vs (Some (k - zlen els)) els []) as PW.
        destruct (pol_push V pol p (Some (k - zlen els)) els vs []) as [[els' e] lg].
        cbn [fst s_elems]. specialize (PW ltac:(intros k' E'; inversion E'; subst; lia) (k - zlen els) eq_refl). lia.
      + cbn [fst s_elems upd_elems]. unfold room. rewrite Ec. cbn [take_room].
        rewrite zlen_app'. unfold zlen at 2. rewrite firstn_length. unfold zlen in *. lia.
    - (* Pop *)
      destruct (has (a_opts c) f_ronly); [exact H|]. destruct (a_fifo c).
      + destruct els as [|v t]; cbn [fst s_elems upd_elems]; [exact H|].
        unfold zlen in *. cbn [length] in H. lia.
      + destruct (rev els) as [|v t] eqn:Er; cbn [fst s_elems upd_elems]; [exact H|].
        apply (f_equal (@length V)) in Er. rewrite rev_length in Er. cbn [length] in Er.
        unfold zlen in *. rewrite rev_length. lia.
    - (* Insert *)
      destruct (isnil v || has (a_opts c) f_ronly); [exact H|].
      destruct (Z.leb_spec k (zlen els)); cbn [fst s_elems upd_elems]; [exact H|].
      unfold zlen in *. rewrite insert_length. lia.
    - (* Remove *)
      destruct (has (a_opts c) f_ronly); [exact H|].
      destruct (sindex V nilv {| s_cfg := c; s_elems := els |} i) as [v [p|]]; [|exact H].
      destruct (isnil v); cbn [fst s_elems upd_elems]; [exact H|].
      unfold zlen in *. 
      assert (length (remove_nth (Z.to_nat p) els) <= length els)%nat.
      { clear. generalize (Z.to_nat p). induction els as [|h t IH]; intros [|n]; cbn [remove_nth length]; try lia.
        specialize (IH n). lia. }
      lia.
    - (* Replace *)
      destruct (isnil v || has (a_opts c) f_ronly); [exact H|].
      destruct ((0 <=? i) && (i <? zlen els)); cbn [fst s_elems upd_elems]; [|exact H].
      unfold zlen in *. 
      assert (E : forall n (x : V) l, length (set_nth n x l) = length l).
      { clear. intros n x l. revert n. induction l as [|h t IH]; intros [|n]; cbn [set_nth length]; auto. }
      rewrite E. exact H.
    - (* Swap *)
      destruct (has (a_opts c) f_ronly); [exact H|].
      destruct ((0 <=? i) && (i <? zlen els) && (0 <=? j) && (j <? zlen els)); cbn [fst s_elems upd_elems]; [|exact H].
      unfold swap_list, zlen in *.
      assert (E : forall n (x : V) l, length (set_nth n x l) = length l).
      { clear. intros n x l. revert n. induction l as [|h t IH]; intros [|n]; cbn [set_nth length]; auto. }
      rewrite !E. exact H.
    - (* Reverse *)
      destruct (has (a_opts c) f_ronly); cbn [fst s_elems upd_elems]; [exact H|].
      unfold zlen in *. rewrite rev_length. exact H.
    - (* Reset *)
      destruct (has (a_opts c) f_ronly); cbn [fst s_elems upd_elems]; [exact H|].
      change (zlen (@nil V)) with 0. pose proof (Zle_0_nat (length els)). unfold zlen in H. lia.
    - (* Index *)
      destruct (sindex V nilv {| s_cfg := c; s_elems := els |} i). exact H.
    - destruct (first_nonnil V nilv isnil _). exact H.
    - destruct (first_nonnil V nilv isnil _). exact H.
  Qed.

  Lemma srun_within ops : forall s, within s -> within (fst (srun s ops)).
  Proof.
    induction ops as [|o t IH]; intros s H; cbn [StackSpec.srun]; [exact H|].
    pose proof (sstep_within s o H) as H1.
    destruct (sstep s o) as [s1 x]. cbn [fst] in H1. specialize (IH s1 H1).
    destruct (srun s1 t) as [s2 xs]. exact IH.
  Qed.

End SpecLemmas.
