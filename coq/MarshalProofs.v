(* MarshalProofs.v -- lemmas and theorems about the Marshal/Unmarshal model
   (Marshal.v) against the specification (MarshalSpec.v).  Everything is
   proved for ALL inputs: arbitrary lists / trees, no bound on depth, width
   or fuel. *)
From Stackage Require Import Base Generated StackImpl Values JVal MarshalSpec Marshal.
Open Scope Z_scope.

(* ------------------------------------------------------------------ *)
(* generic helpers *)

Lemma bind_ok {A B} (r : res A) (k : A -> res B) (y : B) :
  bind r k = Ok y -> exists x, r = Ok x /\ k x = Ok y.
Proof. destruct r; simpl; intros H; try discriminate. eauto. Qed.

Lemma in_jdepth (x : jval) (l : list jval) : In x l -> (jdepth x <= ldepth l)%nat.
Proof.
  induction l as [|y l IH]; simpl; intros H; [contradiction|].
  destruct H as [->|H]; [lia|]. specialize (IH H). lia.
Qed.

Lemma in_list_ldepth (E l : list jval) : In (JList E) l -> (ldepth E < ldepth l)%nat.
Proof. intros H. apply in_jdepth in H. change (jdepth (JList E)) with (S (ldepth E)) in H. lia. Qed.

Lemma ldepth_tl (l : list jval) : (ldepth (tl l) <= ldepth l)%nat.
Proof. destruct l as [|x l]; [apply le_n|]. change (ldepth (x :: l)) with (Nat.max (jdepth x) (ldepth l)). simpl tl. lia. Qed.

Lemma ldepth_cons (x : jval) (l : list jval) : ldepth (x :: l) = Nat.max (jdepth x) (ldepth l).
Proof. reflexivity. Qed.

Lemma ldepth_single (l : list jval) : ldepth [JList l] = S (ldepth l).
Proof. change (ldepth [JList l]) with (Nat.max (S (ldepth l)) 0). lia. Qed.

(* ------------------------------------------------------------------ *)
(* bytes, case *)

Lemma byteN_of_N_tot (n : N) : (n < 256)%N -> byteN (byte_of_N_tot n) = n.
Proof.
  intros H. unfold byteN, byte_of_N_tot.
  destruct (Byte.of_N n) as [b|] eqn:E.
  - apply Byte.to_of_N in E. exact E.
  - apply Byte.of_N_None_iff in E. lia.
Qed.

Lemma byteN_lt (b : byte) : (byteN b < 256)%N.
Proof. unfold byteN. pose proof (Byte.to_N_bounded b). lia. Qed.

Lemma byteN_inj (a b : byte) : byteN a = byteN b -> a = b.
Proof.
  unfold byteN. intros H.
  pose proof (Byte.of_to_N a) as Ha. pose proof (Byte.of_to_N b) as Hb.
  rewrite H in Ha. rewrite Ha in Hb. congruence.
Qed.

Lemma byte_eqb_false_N (a b : byte) : byteN a <> byteN b -> Byte.eqb a b = false.
Proof.
  intros H. destruct (Byte.eqb a b) eqn:E; [|reflexivity].
  apply byte_eqb_spec in E. subst. contradiction.
Qed.

(* on ASCII labels ToUpper-matching is ASCII upper-casing followed by equality *)
Lemma uc_is_ascii (W lab : bytes) :
  is_ascii lab = true -> uc_is lab W = bytes_eqb (upper lab) W.
Proof.
  revert lab. induction W as [|w W IH]; intros lab Ha.
  - destruct lab; reflexivity.
  - destruct lab as [|c lab]; [reflexivity|].
    simpl in Ha. apply andb_true_iff in Ha as [Hc Ha].
    cbn [uc_is upper map bytes_eqb list_eqb]. rewrite Hc. cbn [andb].
    destruct (Byte.eqb (upper_byte c) w) eqn:E.
    + cbn [andb]. apply IH, Ha.
    + cbn [andb]. apply N.ltb_lt in Hc.
      destruct lab as [|d lab]; [reflexivity|].
      rewrite (byte_eqb_false_N c xc4) by (change (byteN xc4) with 196%N; lia).
      rewrite (byte_eqb_false_N c xc5) by (change (byteN xc5) with 197%N; lia).
      reflexivity.
Qed.

Lemma upper_byte_ascii (c : byte) : (byteN (upper_byte c) < 128)%N -> (byteN c < 128)%N.
Proof.
  unfold upper_byte, is_lower_byte. intros H.
  destruct ((97 <=? byteN c)%N && (byteN c <=? 122)%N) eqn:E.
  - apply andb_true_iff in E as [_ E]. apply N.leb_le in E. lia.
  - exact H.
Qed.

Lemma upper_ascii (lab : bytes) : is_ascii (upper lab) = true -> is_ascii lab = true.
Proof.
  induction lab as [|c lab IH]; simpl; intros H; [reflexivity|].
  apply andb_true_iff in H as [Hc H]. apply andb_true_iff. split; [|apply IH, H].
  apply N.ltb_lt. apply upper_byte_ascii. apply N.ltb_lt, Hc.
Qed.

Lemma upper_eq_ascii (lab W : bytes) : is_ascii W = true -> bytes_eqb (upper lab) W = true -> is_ascii lab = true.
Proof. intros HW H. apply bytes_eqb_spec in H. apply upper_ascii. rewrite H. exact HW. Qed.

(* ------------------------------------------------------------------ *)
(* kinds *)

Lemma kind_ok_cases (t : N) : kind_ok t = true -> t = 1%N \/ t = 2%N \/ t = 3%N \/ t = 4%N \/ t = 6%N.
Proof.
  unfold kind_ok, kind_name, k_and, k_or, k_not, k_list, k_basic.
  destruct (N.eqb_spec t 1); [auto|]. destruct (N.eqb_spec t 2); [auto|].
  destruct (N.eqb_spec t 3); [auto|]. destruct (N.eqb_spec t 4); [auto 6|].
  destruct (N.eqb_spec t 6); [auto 6|]. discriminate.
Qed.

Definition known_label (lab : bytes) : bool :=
  uc_is lab (B "LIST") || uc_is lab (B "AND") || uc_is lab (B "OR") || uc_is lab (B "NOT") || uc_is lab (B "BASIC").

(* the label Unmarshal writes for a Stack of a proper kind (folded or not)
   is read back by marshalDefault as that kind *)
Lemma kind_label_read (c : config) :
  kind_ok (c_typ c) = true ->
  uc_is (kind_label c) (B "CONDITION") = false /\
  known_label (kind_label c) = true /\
  stack_by_word (kind_label c) = cfg0 (c_typ c) /\
  upper (kind_label c) = kind_name_tot (c_typ c).
Proof.
  intros H. apply kind_ok_cases in H.
  unfold kind_label. destruct (cpositive c c_cfold);
    destruct H as [H|[H|[H|[H|H]]]]; rewrite H; vm_compute; auto.
Qed.

Lemma kind_label_plain (t : N) : kind_ok t = true -> kind_label (cfg0 t) = kind_name_tot t.
Proof.
  intros H. apply kind_ok_cases in H.
  destruct H as [H|[H|[H|[H|H]]]]; rewrite H; vm_compute; reflexivity.
Qed.

(* a label the specification reads as kind k is read by the model as k *)
Lemma label_kind_read (lab : bytes) (k : N) :
  label_kind lab = Some k ->
  uc_is lab (B "CONDITION") = false /\ known_label lab = true /\ stack_by_word lab = cfg0 k.
Proof.
  unfold label_kind. intros H.
  assert (Hw : forall W, is_ascii W = true -> bytes_eqb (upper lab) W = true ->
                         forall W', uc_is lab W' = bytes_eqb W W').
  { intros W HW E W'. rewrite (uc_is_ascii W' lab (upper_eq_ascii lab W HW E)).
    apply bytes_eqb_spec in E. rewrite E. reflexivity. }
  unfold known_label, stack_by_word.
  destruct (bytes_eqb (upper lab) (B "AND")) eqn:E1.
  { inversion H; subst. rewrite !(Hw (B "AND") eq_refl E1). vm_compute. auto. }
  destruct (bytes_eqb (upper lab) (B "OR")) eqn:E2.
  { inversion H; subst. rewrite !(Hw (B "OR") eq_refl E2). vm_compute. auto. }
  destruct (bytes_eqb (upper lab) (B "NOT")) eqn:E3.
  { inversion H; subst. rewrite !(Hw (B "NOT") eq_refl E3). vm_compute. auto. }
  destruct (bytes_eqb (upper lab) (B "LIST")) eqn:E4.
  { inversion H; subst. rewrite !(Hw (B "LIST") eq_refl E4). vm_compute. auto. }
  destruct (bytes_eqb (upper lab) (B "BASIC")) eqn:E5.
  { inversion H; subst. rewrite !(Hw (B "BASIC") eq_refl E5). vm_compute. auto. }
  discriminate.
Qed.

(* an ASCII string that the specification reads as no label at all is read
   by the model as no label *)
Lemma label_unknown_read (lab : bytes) :
  is_ascii lab = true -> label_is_condition lab = false -> label_kind lab = None ->
  uc_is lab (B "CONDITION") = false /\ known_label lab = false.
Proof.
  unfold label_is_condition, label_kind, known_label. intros Ha Hc Hk.
  rewrite !(uc_is_ascii _ lab Ha). split; [exact Hc|].
  destruct (bytes_eqb (upper lab) (B "AND")); [discriminate|].
  destruct (bytes_eqb (upper lab) (B "OR")); [discriminate|].
  destruct (bytes_eqb (upper lab) (B "NOT")); [discriminate|].
  destruct (bytes_eqb (upper lab) (B "LIST")); [discriminate|].
  destruct (bytes_eqb (upper lab) (B "BASIC")); [discriminate|].
  reflexivity.
Qed.

(* ------------------------------------------------------------------ *)
(* operators *)

Lemma op_text_builtin_nonempty (n : N) : 0 <? zlen (op_text (OpBuiltin n)) = true.
Proof.
  unfold op_text, t_op_names, assocN.
  repeat match goal with |- context [(n =? ?k)%N] => destruct (n =? k)%N; [vm_compute; reflexivity|] end.
  vm_compute; reflexivity.
Qed.

Lemma set_operator_ok (op : option oper) : op_ok op = true -> set_operator None op = op.
Proof.
  destruct op as [[n|t c]|]; intros H; [| |reflexivity].
  - unfold set_operator. rewrite op_text_builtin_nonempty.
    change (0 <? zlen (op_ctx (OpBuiltin n))) with true. reflexivity.
  - cbn [op_ok] in H. apply andb_true_iff in H as [Ht Hc].
    unfold set_operator, op_ctx, op_text, zlen.
    destruct t; [discriminate|]. destruct c; [discriminate|]. reflexivity.
Qed.

(* ------------------------------------------------------------------ *)
Section WithPolicy.
  Variable pol : N -> jval -> option N.

  Notation md := (marshal_default pol).

  (* ---- Push on a freshly constructed Stack stores everything ---- *)
  Lemma generic_append_fresh (c : config) (xs els : list jval) :
    c_opt c = 0%N -> c_cap c = 0 -> jgeneric_append c els xs = els ++ xs.
  Proof.
    intros Ho Hc. revert els. induction xs as [|x xs IH]; intros els; cbn [jgeneric_append].
    - rewrite app_nil_r. reflexivity.
    - unfold jcan_push_nester, cpositive, jis_full, g_isFull. rewrite Ho, Hc.
      replace (g_flag_positive 0 c_nnest) with false by reflexivity.
      rewrite andb_false_r. cbn [negb Z.eqb]. rewrite IH, <- app_assoc. reflexivity.
  Qed.

  Lemma push_fresh (t : N) (xs : list jval) : jpush pol (cfg0 t) [] xs = (cfg0 t, xs).
  Proof.
    unfold jpush, cpositive. cbn [c_opt c_ppf cfg0].
    replace (g_flag_positive 0 c_ronly) with false by reflexivity. rewrite andb_false_r.
    rewrite generic_append_fresh by reflexivity. reflexivity.
  Qed.

  Lemma stack_by_word_cfg0 (lab : bytes) : exists t, stack_by_word lab = cfg0 t.
  Proof.
    unfold stack_by_word.
    repeat match goal with |- context [uc_is lab ?W] => destruct (uc_is lab W); [eexists; reflexivity|] end.
    eexists; reflexivity.
  Qed.

  (* ---- deenvelopeSingleStack ---- *)
  Lemma deenvelope_unfold (f : nat) (l : list jval) :
    deenvelope f l = match l with
                     | [JList inner] => match f with O => Unmodelled | S f' => deenvelope f' inner end
                     | _ => Ok l
                     end.
  Proof. destruct f; destruct l as [|x [|y l]]; try reflexivity; destruct x; reflexivity. Qed.

  Lemma deenvelope_total (f : nat) : forall l, (ldepth l <= f)%nat ->
    exists l', deenvelope f l = Ok l' /\ (ldepth l' <= ldepth l)%nat.
  Proof.
    induction f as [|f IH]; intros l Hd; rewrite deenvelope_unfold.
    - destruct l as [|x [|y l]]; try destruct x; try (eexists; split; [reflexivity|lia]).
      rewrite ldepth_single in Hd. lia.
    - destruct l as [|x [|y l]]; try destruct x; try (eexists; split; [reflexivity|lia]).
      rewrite ldepth_single in Hd.
      destruct (IH l ltac:(lia)) as (l' & E & Hl).
      exists l'. split; [exact E|]. rewrite ldepth_single; lia.
  Qed.

  Lemma deenvelope_fuel (f1 : nat) : forall f2 l, (ldepth l <= f1)%nat -> (ldepth l <= f2)%nat ->
    deenvelope f1 l = deenvelope f2 l.
  Proof.
    induction f1 as [|f1 IH]; intros f2 l H1 H2; rewrite (deenvelope_unfold _ l), (deenvelope_unfold f2 l).
    - destruct l as [|x [|y l]]; try destruct x; try reflexivity.
      rewrite ldepth_single in H1. lia.
    - destruct l as [|x [|y l]]; try destruct x; try reflexivity.
      rewrite ldepth_single in *. destruct f2; [lia|]. apply IH; lia.
  Qed.

  (* stripping a string-headed list does nothing *)
  Lemma deenvelope_str (f : nat) (s : bytes) (rest : list jval) :
    deenvelope f (jstr s :: rest) = Ok (jstr s :: rest).
  Proof. destruct f, rest; reflexivity. Qed.

  (* ---- congruence of the two places marshalDefault recurses from ---- *)
  Lemma replace_loop_ext (r1 r2 : list jval -> res mdres) (els : list jval) :
    (forall E, In (JList E) els -> r1 E = r2 E) ->
    forall e, replace_loop r1 els e = replace_loop r2 els e.
  Proof.
    induction els as [|x els IH]; intros H e; [reflexivity|].
    cbn [replace_loop]. destruct x; try (rewrite IH; [reflexivity|intros; apply H; right; assumption]).
    rewrite (H l (or_introl eq_refl)). destruct (r2 l) as [r| |]; cbn [bind]; try reflexivity.
    rewrite IH; [reflexivity|intros; apply H; right; assumption].
  Qed.

  Lemma nth_error_in_list (l : list jval) (i : nat) (E : list jval) :
    nth_error l i = Some (JList E) -> In (JList E) l.
  Proof. apply nth_error_In. Qed.

  Lemma extract_condition_ext (r1 r2 : list jval -> res mdres) (l : list jval) :
    (forall E, In (JList E) l -> r1 E = r2 E) ->
    extract_condition r1 l = extract_condition r2 l.
  Proof.
    intros H. unfold extract_condition. destruct (negb (length l =? 4)%nat); [reflexivity|].
    unfold idx. destruct (nth_error l 1); cbn [bind]; [|reflexivity].
    destruct (nth_error l 2); cbn [bind]; [|reflexivity].
    destruct (nth_error l 3) as [x|] eqn:E3; cbn [bind]; [|reflexivity].
    destruct x; try reflexivity.
    rewrite (H l0 (nth_error_In _ _ E3)). reflexivity.
  Qed.

  Lemma replace_loop_total (rec : list jval -> res mdres) (els : list jval) :
    (forall E, In (JList E) els -> exists r, rec E = Ok r) ->
    forall e, exists r, replace_loop rec els e = Ok r.
  Proof.
    induction els as [|x els IH]; intros H e; [eexists; reflexivity|].
    assert (Ht : forall e', exists r, replace_loop rec els e' = Ok r).
    { intros e'. apply IH. intros; apply H; right; assumption. }
    cbn [replace_loop]. destruct x;
      try (destruct (Ht e) as [r ->]; cbn [bind]; eexists; reflexivity).
    destruct (H l (or_introl eq_refl)) as [r ->]. cbn [bind].
    destruct (Ht (md_err r)) as [r' ->]. cbn [bind]. eexists; reflexivity.
  Qed.

  Lemma extract_condition_total (rec : list jval -> res mdres) (l : list jval) :
    (forall E, In (JList E) l -> exists r, rec E = Ok r) ->
    exists c, extract_condition rec l = Ok c.
  Proof.
    intros H. unfold extract_condition.
    destruct (length l =? 4)%nat eqn:E4; cbn [negb]; [|eexists; reflexivity].
    apply Nat.eqb_eq in E4.
    destruct l as [|a [|b [|c [|d [|? ?]]]]]; try discriminate.
    cbn [idx nth_error bind].
    destruct d; try (eexists; reflexivity).
    destruct (H l) as [r ->]; [simpl; auto|]. cbn [bind].
    destruct (md_x r); [eexists; reflexivity|]. destruct (md_c r); eexists; reflexivity.
  Qed.

  (* ---- marshalDefault: one unfolding, in a readable form ---- *)
  Definition md_body (f : nat) (l : list jval) : res mdres :=
    if (length l =? 0)%nat then Ok md_fail else
    do l' <- deenvelope f l;
    if (length l' =? 0)%nat then Ok md_fail else
    do h <- idx l' 0;
    match is_str h with
    | None => Ok md_fail
    | Some lab =>
        if uc_is lab (B "CONDITION") then
          do c <- extract_condition (md f) l'; Ok (MkMD None c false)
        else
          let ce := if known_label lab then jpush pol (stack_by_word lab) [] (tl l')
                    else jpush pol (cfg0 c_basic) [] l' in
          do r <- replace_loop (md f) (snd ce) false;
          Ok (MkMD (Some (JStack Native (fst ce) (fst r))) None (snd r))
    end.

  Lemma md_unfold (f : nat) (l : list jval) : md (S f) l = md_body f l.
  Proof.
    unfold md_body. cbn [marshal_default].
    destruct (length l =? 0)%nat; [reflexivity|].
    destruct (deenvelope f l) as [l'| |]; cbn [bind]; try reflexivity.
    destruct (length l' =? 0)%nat; [reflexivity|].
    destruct (idx l' 0) as [h| |]; cbn [bind]; try reflexivity.
    destruct (is_str h) as [lab|]; [|reflexivity].
    destruct (uc_is lab (B "CONDITION")); [reflexivity|].
    fold (known_label lab).
    destruct (known_label lab).
    - destruct (jpush pol (stack_by_word lab) [] (tl l')) as [c els]. reflexivity.
    - destruct (jpush pol (cfg0 c_basic) [] l') as [c els]. reflexivity.
  Qed.

  (* marshalDefault never panics and the fuel [ldepth l + 1] suffices *)
  Lemma md_total : forall f l, (ldepth l < f)%nat -> exists r, md f l = Ok r.
  Proof.
    induction f as [|f IH]; intros l H; [lia|].
    rewrite md_unfold. unfold md_body.
    destruct (length l =? 0)%nat; [eexists; reflexivity|].
    destruct (deenvelope_total f l ltac:(lia)) as (l' & E & Hl). rewrite E. cbn [bind].
    destruct (length l' =? 0)%nat eqn:E0; [eexists; reflexivity|].
    destruct l' as [|h t]; [discriminate|]. cbn [idx nth_error bind].
    destruct (is_str h) as [lab|]; [|eexists; reflexivity].
    assert (Hrec : forall E', In (JList E') (h :: t) -> exists r, md f E' = Ok r).
    { intros E' Hin. apply IH. apply in_list_ldepth in Hin. lia. }
    destruct (uc_is lab (B "CONDITION")).
    - destruct (extract_condition_total (md f) (h :: t) Hrec) as [c ->]. cbn [bind]. eexists; reflexivity.
    - destruct (known_label lab).
      + destruct (stack_by_word_cfg0 lab) as [t0 ->]. rewrite push_fresh. cbn [tl snd fst].
        destruct (replace_loop_total (md f) t) with (e := false) as [r ->].
        { intros E' Hin. apply Hrec. right. exact Hin. }
        cbn [bind]. eexists; reflexivity.
      + rewrite push_fresh. cbn [snd fst].
        destruct (replace_loop_total (md f) (h :: t) Hrec false) as [r ->].
        cbn [bind]. eexists; reflexivity.
  Qed.

  (* the result does not depend on the fuel once it suffices *)
  Lemma md_fuel : forall f1 f2 l, (ldepth l < f1)%nat -> (ldepth l < f2)%nat -> md f1 l = md f2 l.
  Proof.
    induction f1 as [|f1 IH]; intros f2 l H1 H2; [lia|].
    destruct f2 as [|f2]; [lia|].
    rewrite !md_unfold. unfold md_body.
    destruct (length l =? 0)%nat; [reflexivity|].
    rewrite (deenvelope_fuel f1 f2 l) by lia.
    destruct (deenvelope_total f2 l ltac:(lia)) as (l' & E & Hl). rewrite E. cbn [bind].
    destruct (length l' =? 0)%nat; [reflexivity|].
    destruct (idx l' 0) as [h| |]; cbn [bind]; try reflexivity.
    destruct (is_str h) as [lab|]; [|reflexivity].
    assert (Hrec : forall E', In (JList E') l' -> md f1 E' = md f2 E').
    { intros E' Hin. apply in_list_ldepth in Hin. apply IH; lia. }
    destruct (uc_is lab (B "CONDITION")).
    - rewrite (extract_condition_ext (md f1) (md f2) l' Hrec). reflexivity.
    - destruct (known_label lab).
      + destruct (stack_by_word_cfg0 lab) as [t0 ->]. rewrite push_fresh. cbn [snd fst].
        rewrite (replace_loop_ext (md f1) (md f2) (tl l')); [reflexivity|].
        intros E' Hin. apply Hrec. destruct l'; [contradiction|right; exact Hin].
      + rewrite push_fresh. cbn [snd fst].
        rewrite (replace_loop_ext (md f1) (md f2) l' Hrec). reflexivity.
  Qed.

  (* the canonical amount of fuel *)
  Definition mdF (l : list jval) : res mdres := md (S (ldepth l)) l.
  Lemma md_canon (f : nat) (l : list jval) : (ldepth l < f)%nat -> md f l = mdF l.
  Proof. intros H. apply md_fuel; lia. Qed.

  (* what marshalDefault hands back as a Stack is a native Stack *)
  Lemma md_x_stack (f : nat) (l : list jval) (m : mdres) :
    md f l = Ok m -> md_x m = None \/ exists c els, md_x m = Some (JStack Native c els).
  Proof.
    destruct f as [|f]; [discriminate|]. rewrite md_unfold. unfold md_body.
    destruct (length l =? 0)%nat; [intros H; inversion H; auto|].
    destruct (deenvelope f l) as [l'| |]; cbn [bind]; try discriminate.
    destruct (length l' =? 0)%nat; [intros H; inversion H; auto|].
    destruct (idx l' 0) as [h| |]; cbn [bind]; try discriminate.
    destruct (is_str h) as [lab|]; [|intros H; inversion H; auto].
    destruct (uc_is lab (B "CONDITION")).
    - destruct (extract_condition _ _); cbn [bind]; try discriminate. intros H; inversion H; auto.
    - destruct (replace_loop _ _ _); cbn [bind]; try discriminate. intros H; inversion H; subst.
      right. eexists _, _. reflexivity.
  Qed.

  (* ---- Unmarshal, unfolded ---- *)
  Definition unm_entry (e : jval) : res jval :=
    match e with
    | JStack _ _ _ => do s <- unm e; Ok (JList s)
    | JCond _ _ _ _ _ => do s <- unm e; Ok (JList s)
    | _ => Ok e
    end.
  Fixpoint unm_entries (l : list jval) : res (list jval) :=
    match l with
    | [] => Ok []
    | e :: t => do e' <- unm_entry e; do t' <- unm_entries t; Ok (e' :: t')
    end.

  Lemma unm_stack (a : akind) (c : config) (els : list jval) :
    unm (JStack a c els) = do rest <- unm_entries els; Ok (jstr (kind_label c) :: rest).
  Proof.
    cbn [unm].
    match goal with |- bind (?g els) _ = _ => assert (Hg : forall l, g l = unm_entries l) end.
    { induction l as [|e l IHl]; [reflexivity|]. cbn [unm_entries]. rewrite <- IHl. destruct e; reflexivity. }
    rewrite Hg. reflexivity.
  Qed.

  (* the tree Marshal builds from the flat form of j *)
  Fixpoint rebuild (j : jval) : jval :=
    match j with
    | JStack _ c els => JStack Native (cfg0 (c_typ c)) (map rebuild els)
    | JCond _ c kw op ex => cond_new kw op (match ex with JStack _ _ _ => rebuild ex | _ => ex end)
    | _ => j
    end.

  Definition rt_ok (j : jval) : Prop :=
    node_ok j = true ->
    (j_is_stack j = true -> exists u, unm j = Ok u /\ mdF u = Ok (MkMD (Some (rebuild j)) None false)) /\
    (j_is_cond j = true -> exists u, unm j = Ok u /\ mdF u = Ok (MkMD None (Some (rebuild j)) false)).

  Lemma rt_entries (els : list jval) :
    Forall rt_ok els -> forallb node_ok els = true ->
    exists rest, unm_entries els = Ok rest /\
      forall rec, (forall E, In (JList E) rest -> rec E = mdF E) ->
                  replace_loop rec rest false = Ok (map rebuild els, false).
  Proof.
    induction 1 as [|e els He Hels IH]; intros Hok.
    - exists []. split; [reflexivity|]. intros; reflexivity.
    - cbn [forallb] in Hok. apply andb_true_iff in Hok as [Hoe Hok].
      destruct (IH Hok) as (rest & Er & Hr). clear IH.
      specialize (He Hoe). destruct He as [Hs Hc].
      cbn [unm_entries map].
      destruct e; try discriminate Hoe;
        try (cbn [unm_entry bind]; rewrite Er; cbn [bind];
             eexists; split; [reflexivity|]; intros rec Hrec; cbn [replace_loop];
             rewrite Hr by (intros; apply Hrec; right; assumption); reflexivity).
      + destruct (Hs eq_refl) as (u & Eu & Em). cbn [unm_entry]. rewrite Eu. cbn [bind]. rewrite Er. cbn [bind].
        eexists; split; [reflexivity|]. intros rec Hrec. cbn [replace_loop].
        rewrite (Hrec u (or_introl eq_refl)), Em. cbn [bind md_x md_err].
        rewrite Hr by (intros; apply Hrec; right; assumption). reflexivity.
      + destruct (Hc eq_refl) as (u & Eu & Em). cbn [unm_entry]. rewrite Eu. cbn [bind]. rewrite Er. cbn [bind].
        eexists; split; [reflexivity|]. intros rec Hrec. cbn [replace_loop].
        rewrite (Hrec u (or_introl eq_refl)), Em. cbn [bind md_x md_c md_err].
        rewrite Hr by (intros; apply Hrec; right; assumption). reflexivity.
  Qed.

  Lemma uc_condition : uc_is (B "CONDITION") (B "CONDITION") = true.
  Proof. vm_compute. reflexivity. Qed.

  Lemma rt_all : forall j, rt_ok j.
  Proof.
    induction j as [|g|l Hl|a c els Hels|a c kw op ex Hex|a|a] using jval_ind';
      intros Hok; (split; [intros Hs; try discriminate Hs|intros Hc; try discriminate Hc]).
    - (* Stack *)
      cbn [node_ok] in Hok. apply andb_true_iff in Hok as [Hok Hf]. apply andb_true_iff in Hok as [Hk Hu].
      destruct (rt_entries els Hels Hf) as (rest & Er & Hr).
      rewrite unm_stack, Er. cbn [bind]. eexists; split; [reflexivity|].
      destruct (kind_label_read c Hk) as (K1 & K2 & K3 & _).
      unfold mdF. rewrite md_unfold. unfold md_body.
      cbn [length Nat.eqb]. rewrite deenvelope_str. cbn [bind length Nat.eqb idx nth_error is_str jstr].
      rewrite K1, K2, K3, push_fresh. cbn [tl snd fst].
      rewrite Hr; [reflexivity|].
      intros E Hin. apply md_canon. apply in_list_ldepth in Hin.
      rewrite ldepth_cons. lia.
    - (* Condition *)
      cbn [node_ok] in Hok. apply andb_true_iff in Hok as [Hok Hx]. apply andb_true_iff in Hok as [Hok Ho].
      apply andb_true_iff in Hok as [Ht Hu].
      unfold no_umf in Hu. destruct (c_umf c) eqn:Eu; [discriminate|].
      assert (Hop : match op_val op with JLeaf (GOper o) => Some o | _ => None end = op) by (destruct op; reflexivity).
      assert (Hgen : forall nexpr x',
                 (forall f, (ldepth [jstr (B "CONDITION"); jstr kw; op_val op; nexpr] <= f)%nat ->
                            extract_condition (md f) [jstr (B "CONDITION"); jstr kw; op_val op; nexpr]
                            = Ok (Some (cond_new kw op x'))) ->
                 mdF [jstr (B "CONDITION"); jstr kw; op_val op; nexpr]
                 = Ok (MkMD None (Some (cond_new kw op x')) false)).
      { intros nexpr x' Hx'. unfold mdF. rewrite md_unfold. unfold md_body.
        cbn [length Nat.eqb]. rewrite deenvelope_str. cbn [bind length Nat.eqb idx nth_error is_str jstr].
        rewrite uc_condition. fold (jstr (B "CONDITION")). fold (jstr kw).
        rewrite Hx' by lia. reflexivity. }
      destruct ex as [|g|l0|a0 c0 els0|a0 c0 kw0 op0 ex0|a0|a0]; try discriminate Hx;
        try (cbn [unm]; rewrite Eu; cbn [bind]; eexists; split; [reflexivity|];
             apply Hgen; intros f _; unfold extract_condition;
             cbn [length Nat.eqb negb idx nth_error bind jstr]; rewrite Hop; reflexivity).
      + (* Stack expression *)
        destruct (Hex Hx) as [Hs _]. destruct (Hs eq_refl) as (u & Eu' & Em).
        assert (Huc : c_umf c0 = None).
        { cbn [node_ok] in Hx. apply andb_true_iff in Hx as [Hx _]. apply andb_true_iff in Hx as [_ Hx].
          unfold no_umf in Hx. destruct (c_umf c0); [discriminate|reflexivity]. }
        cbn [unm]. rewrite Eu. cbn [bind]. rewrite Huc.
                match goal with |- context [bind (bind ?X _) _] => replace X with (Ok (T:=list jval) u) end.
        cbn [bind]. eexists; split; [reflexivity|].
        apply Hgen. intros f Hf. unfold extract_condition.
        cbn [length Nat.eqb negb idx nth_error bind jstr]. rewrite Hop.
        rewrite (md_canon f u), Em; [reflexivity|].
        assert (Hin : In (JList u) [jstr (B "CONDITION"); jstr kw; op_val op; JList u]) by (simpl; auto).
        apply in_list_ldepth in Hin. lia.
  Qed.

  (* ---- Cond(...) on the values a well-formed tree holds ---- *)
  Definition expr_storable (x : jval) : bool :=
    match x with JLeaf (GStr []) => false | _ => true end.

  Lemma cond_new_ok (kw : bytes) (op : option oper) (x : jval) :
    op_ok op = true -> expr_storable x = true ->
    exists c', cond_new kw op x = JCond Native c' kw op x /\ c_typ c' = c_cond /\ c_umf c' = None.
  Proof.
    intros Ho Hx. unfold cond_new. rewrite (set_operator_ok op Ho).
    assert (Ha : match assert_expr (cfg0 c_cond) x with Some v => v | None => JNil end = x).
    { destruct x as [|g|l|a c els|a c kw0 op0 ex|a|a]; try reflexivity.
      destruct g; try reflexivity. destruct s; [discriminate|reflexivity]. }
    rewrite Ha. destruct (cond_valid kw op x); eexists; split; try reflexivity; split; reflexivity.
  Qed.

  Lemma rebuild_expr_storable (ex : jval) :
    match ex with JStack _ _ _ => true | JList _ => false | JLeaf (GStr []) => false | _ => true end = true ->
    expr_storable (match ex with JStack _ _ _ => rebuild ex | _ => ex end) = true.
  Proof. destruct ex as [|g|l|a c els|a c kw0 op0 ex|a|a]; try reflexivity; try discriminate. destruct g; auto. Qed.

  Lemma node_ok_cond_expr (ex : jval) :
    match ex with JStack _ _ _ => node_ok ex | JList _ => false | JLeaf (GStr []) => false | _ => true end = true ->
    match ex with JStack _ _ _ => true | JList _ => false | JLeaf (GStr []) => false | _ => true end = true.
  Proof. destruct ex as [|g|l|a c els|a c kw0 op0 ex|a|a]; auto. Qed.

  (* ---- the rebuilt tree is the same tree ---- *)
  Lemma skel_rebuild : forall j, node_ok j = true -> skel (rebuild j) = skel j.
  Proof.
    induction j as [|g|l Hl|a c els Hels|a c kw op ex Hex|a|a] using jval_ind'; intros Hok; try reflexivity.
    - cbn [node_ok] in Hok. apply andb_true_iff in Hok as [_ Hf].
      cbn [rebuild skel c_typ cfg0]. f_equal. rewrite map_map.
      induction Hels as [|e els He Hels IH]; [reflexivity|].
      cbn [forallb] in Hf. apply andb_true_iff in Hf as [H1 H2].
      cbn [map]. rewrite (He H1), (IH H2). reflexivity.
    - cbn [node_ok] in Hok. apply andb_true_iff in Hok as [Hok Hx]. apply andb_true_iff in Hok as [Hok Ho].
      apply andb_true_iff in Hok as [Ht _]. apply N.eqb_eq in Ht.
      cbn [rebuild].
      destruct (cond_new_ok kw op _ Ho (rebuild_expr_storable ex (node_ok_cond_expr ex Hx))) as (c' & -> & Hc' & _).
      cbn [skel]. rewrite Hc', Ht. f_equal.
      destruct ex as [|g|l|a0 c0 els0|a0 c0 kw0 op0 ex0|a0|a0]; try reflexivity.
      apply Hex. exact Hx.
  Qed.

  (* ---- unmarshalling the rebuilt tree gives the canonical flat form ---- *)
  Lemma unm_rebuild : forall j, node_ok j = true -> (j_is_stack j || j_is_cond j)%bool = true ->
    exists u, unm (rebuild j) = Ok u /\ spec_entry j = JList u.
  Proof.
    induction j as [|g|l Hl|a c els Hels|a c kw op ex Hex|a|a] using jval_ind'; intros Hok Hsc; try discriminate Hsc.
    - cbn [node_ok] in Hok. apply andb_true_iff in Hok as [Hok Hf]. apply andb_true_iff in Hok as [Hk _].
      cbn [rebuild spec_entry]. rewrite unm_stack, (kind_label_plain _ Hk).
      assert (He : unm_entries (map rebuild els) = Ok (map spec_entry els)).
      { clear Hsc. induction Hels as [|e els He Hels IH]; [reflexivity|].
        cbn [forallb] in Hf. apply andb_true_iff in Hf as [H1 H2].
        cbn [map unm_entries]. rewrite (IH H2).
        destruct e as [|g|l|a0 c0 els0|a0 c0 kw0 op0 ex0|a0|a0]; try reflexivity.
        - destruct (He H1 eq_refl) as (u & Eu & Es). rewrite Es.
          change (rebuild (JStack a0 c0 els0)) with (JStack Native (cfg0 (c_typ c0)) (map rebuild els0)) in *.
          cbn [unm_entry]. rewrite Eu. reflexivity.
        - destruct (He H1 eq_refl) as (u & Eu & Es). rewrite Es.
          assert (Hc : exists c' x, rebuild (JCond a0 c0 kw0 op0 ex0) = JCond Native c' kw0 op0 x).
          { cbn [node_ok] in H1. apply andb_true_iff in H1 as [H1 Hx]. apply andb_true_iff in H1 as [_ Ho].
            cbn [rebuild].
            destruct (cond_new_ok kw0 op0 _ Ho (rebuild_expr_storable ex0 (node_ok_cond_expr ex0 Hx))) as (c' & -> & _).
            eexists _, _. reflexivity. }
          destruct Hc as (c' & x & Hc). rewrite Hc in *. cbn [unm_entry]. rewrite Eu. reflexivity. }
      rewrite He. cbn [bind]. eexists; split; reflexivity.
    - cbn [node_ok] in Hok. apply andb_true_iff in Hok as [Hok Hx]. apply andb_true_iff in Hok as [Hok Ho].
      cbn [rebuild spec_entry].
      destruct (cond_new_ok kw op _ Ho (rebuild_expr_storable ex (node_ok_cond_expr ex Hx))) as (c' & -> & _ & Hu).
      cbn [unm]. rewrite Hu.
      destruct ex as [|g|l|a0 c0 els0|a0 c0 kw0 op0 ex0|a0|a0];
        try (cbn [bind]; eexists; split; [reflexivity|]; destruct op; reflexivity).
      destruct (Hex Hx eq_refl) as (u & Eu & Es).
      change (rebuild (JStack a0 c0 els0)) with (JStack Native (cfg0 (c_typ c0)) (map rebuild els0)) in *.
      cbn [c_umf cfg0]. rewrite Eu. cbn [bind]. eexists; split; [reflexivity|].
      rewrite Es. destruct op; reflexivity.
  Qed.

  (* ---- what Unmarshal returns is the flat form up to the case of labels ---- *)
  Lemma upper_kind_name (t : N) : kind_ok t = true -> upper (kind_name_tot t) = kind_name_tot t.
  Proof. intros H. apply kind_ok_cases in H. destruct H as [H|[H|[H|[H|H]]]]; rewrite H; vm_compute; reflexivity. Qed.

  Lemma canon_unm : forall j, node_ok j = true -> (j_is_stack j || j_is_cond j)%bool = true ->
    forall u, unm j = Ok u -> canon (JList u) = canon (spec_entry j).
  Proof.
    induction j as [|g|l Hl|a c els Hels|a c kw op ex Hex|a|a] using jval_ind'; intros Hok Hsc u Hu; try discriminate Hsc.
    - cbn [node_ok] in Hok. apply andb_true_iff in Hok as [Hok Hf]. apply andb_true_iff in Hok as [Hk _].
      rewrite unm_stack in Hu. apply bind_ok in Hu as (rest & Er & Hu). inversion Hu; subst u. clear Hu.
      destruct (kind_label_read c Hk) as (_ & _ & _ & K4).
      cbn [spec_entry canon jstr]. rewrite K4, (upper_kind_name _ Hk). f_equal. f_equal.
      rewrite map_map. clear Hsc. revert rest Er.
      induction Hels as [|e els He Hels IH]; intros rest Er.
      + inversion Er. reflexivity.
      + cbn [forallb] in Hf. apply andb_true_iff in Hf as [H1 H2].
        cbn [unm_entries] in Er. apply bind_ok in Er as (e' & Ee & Er). apply bind_ok in Er as (t' & Et & Er).
        inversion Er; subst rest. cbn [map]. rewrite (IH H2 t' Et). f_equal.
        destruct e as [|g|l|a0 c0 els0|a0 c0 kw0 op0 ex0|a0|a0]; try (inversion Ee; reflexivity).
        * cbn [unm_entry] in Ee. apply bind_ok in Ee as (s & Es & Ee). inversion Ee. apply (He H1 eq_refl s Es).
        * cbn [unm_entry] in Ee. apply bind_ok in Ee as (s & Es & Ee). inversion Ee. apply (He H1 eq_refl s Es).
    - cbn [node_ok] in Hok. apply andb_true_iff in Hok as [Hok Hx].
      cbn [unm] in Hu. destruct (c_umf c); [discriminate|].
      apply bind_ok in Hu as (nexpr & En & Hu). inversion Hu; subst u. clear Hu.
      cbn [spec_entry canon jstr map].
      assert (Hn : canon nexpr = canon (match ex with JStack _ _ _ => spec_entry ex | _ => ex end)).
      { destruct ex as [|g|l|a0 c0 els0|a0 c0 kw0 op0 ex0|a0|a0]; try (inversion En; reflexivity).
        destruct (c_umf c0); [discriminate|]. apply bind_ok in En as (s & Es & En). inversion En.
        apply (Hex Hx eq_refl s Es). }
      rewrite Hn. destruct op; reflexivity.
  Qed.

  (* ---- Marshal(u) and Marshal(u...) decode the same thing ---- *)
  Lemma mdF_envelope (l : list jval) : mdF [JList l] = mdF l.
  Proof.
    unfold mdF. rewrite ldepth_single. set (d := ldepth l). rewrite !md_unfold. unfold md_body.
    cbn [length Nat.eqb]. rewrite (deenvelope_unfold (S d) [JList l]).
    destruct (length l =? 0)%nat eqn:E0.
    - destruct l; [|discriminate]. reflexivity.
    - destruct (deenvelope_total d l (le_n _)) as (l' & E & Hl). rewrite E. cbn [bind].
      destruct (length l' =? 0)%nat; [reflexivity|].
      destruct (idx l' 0) as [h| |]; cbn [bind]; try reflexivity.
      destruct (is_str h) as [lab|]; [|reflexivity].
      assert (Hrec : forall E', In (JList E') l' -> md (S d) E' = md d E').
      { intros E' Hin. apply in_list_ldepth in Hin. apply md_fuel; lia. }
      destruct (uc_is lab (B "CONDITION")).
      + rewrite (extract_condition_ext (md (S d)) (md d) l' Hrec). reflexivity.
      + destruct (known_label lab).
        * destruct (stack_by_word_cfg0 lab) as [t0 ->]. rewrite push_fresh. cbn [snd fst].
          rewrite (replace_loop_ext (md (S d)) (md d) (tl l')); [reflexivity|].
          intros E' Hin. apply Hrec. destruct l'; [contradiction|right; exact Hin].
        * rewrite push_fresh. cbn [snd fst].
          rewrite (replace_loop_ext (md (S d)) (md d) l' Hrec). reflexivity.
  Qed.

  Definition recv_no_maf (r : recv) : bool :=
    match r with RZero => true | RInit c _ => match c_maf c with None => true | Some _ => false end end.

  Lemma Marshal_unfold (d29 : bool) (r : recv) (l : list jval) :
    Marshal_gen pol d29 r l =
    if (length l =? 0)%nat then Ok (r, true) else
    match r with
    | RZero =>
        do m <- mdF l;
        match md_x m with
        | Some (JStack _ c els) => Ok (RInit c els, md_err m)
        | Some _ => Unmodelled
        | None => match md_c m with
                  | Some _ => Ok (r, true)
                  | None => Ok (r, if d29 then true else md_err m)
                  end
        end
    | RInit c els =>
        match c_maf c with
        | Some _ => Unmodelled
        | None =>
            do m <- mdF l;
            match md_x m with
            | Some xs => let '(c', els') := jpush pol c els [xs] in Ok (RInit c' els', md_err m)
            | None => match md_c m with
                      | Some xc => let '(c', els') := jpush pol c els [xc] in Ok (RInit c' els', md_err m)
                      | None => Ok (r, if d29 then true else md_err m)
                      end
            end
        end
    end.
  Proof. reflexivity. Qed.

  Theorem marshal_envelope (d29 : bool) (r : recv) (l : list jval) :
    recv_no_maf r = true -> Marshal_gen pol d29 r [JList l] = Marshal_gen pol d29 r l.
  Proof.
    intros Hm. rewrite !Marshal_unfold. cbn [length Nat.eqb]. rewrite mdF_envelope.
    destruct (length l =? 0)%nat eqn:E0; [|reflexivity].
    destruct l; [|discriminate].
    change (mdF []) with (Ok md_fail).
    destruct r as [|c els]; [destruct d29; reflexivity|].
    cbn [recv_no_maf] in Hm. destruct (c_maf c); [discriminate|]. destruct d29; reflexivity.
  Qed.

  (* ================================================================== *)
  (* C16 *)

  (* Marshal returns normally on every input *)
  Theorem marshal_total (d29 : bool) (r : recv) (l : list jval) :
    recv_no_maf r = true -> exists r' e, Marshal_gen pol d29 r l = Ok (r', e).
  Proof.
    intros Hm. rewrite Marshal_unfold.
    destruct (length l =? 0)%nat; [eexists _, _; reflexivity|].
    destruct (md_total (S (ldepth l)) l (Nat.lt_succ_diag_r _)) as [m Em].
    pose proof (md_x_stack _ _ _ Em) as Hx. fold (mdF l) in Em.
    destruct r as [|c els].
    - rewrite Em. cbn [bind]. destruct Hx as [->|(c & els & ->)].
      + destruct (md_c m); eexists _, _; reflexivity.
      + eexists _, _; reflexivity.
    - cbn [recv_no_maf] in Hm. destruct (c_maf c); [discriminate|].
      rewrite Em. cbn [bind]. destruct Hx as [->|(c' & els' & ->)].
      + destruct (md_c m).
        * destruct (jpush pol c els [j]). eexists _, _; reflexivity.
        * eexists _, _; reflexivity.
      + destruct (jpush pol c els _). eexists _, _; reflexivity.
  Qed.

  Lemma unm_no_panic : forall j, unm j <> Panic.
  Proof.
    induction j as [|g|l Hl|a c els Hels|a c kw op ex Hex|a|a] using jval_ind'; try discriminate.
    - rewrite unm_stack.
      assert (He : unm_entries els <> Panic).
      { induction Hels as [|e els He Hels IH]; [discriminate|].
        cbn [unm_entries].
        assert (H1 : unm_entry e <> Panic).
        { destruct e; try discriminate; cbn [unm_entry]; destruct (unm _); try discriminate; contradiction. }
        destruct (unm_entry e); try contradiction; try discriminate. cbn [bind].
        destruct (unm_entries els); try contradiction; discriminate. }
      destruct (unm_entries els); try contradiction; discriminate.
    - cbn [unm]. destruct (c_umf c); [discriminate|].
      destruct ex; try discriminate.
      destruct (c_umf c0); [discriminate|].
      destruct (unm (JStack a0 c0 els)); try contradiction; discriminate.
  Qed.

  (* on an uninitialised receiver: an error, or an initialised Stack that can
     be unmarshalled again *)
  Theorem marshal_result (l : list jval) (r' : recv) (e : bool) :
    Marshal pol RZero l = Ok (r', e) ->
    e = true \/ (exists c els, r' = RInit c els /\ Unmarshal r' <> Panic).
  Proof.
    unfold Marshal. rewrite Marshal_unfold.
    destruct (length l =? 0)%nat; [intros H; inversion H; auto|].
    destruct (mdF l) as [m| |]; cbn [bind]; try discriminate.
    destruct (md_x m) as [x|].
    - destruct x; try discriminate. intros H; inversion H; subst. right.
      eexists _, _. split; [reflexivity|].
      cbn [Unmarshal]. destruct (c_umf c); [discriminate|]. apply unm_no_panic.
    - destruct (md_c m); intros H; inversion H; auto.
  Qed.

  (* ... which is false of the code without the candidate repair D29 *)
  Theorem marshal_result_unrepaired_refuted :
    exists l, Marshal_gen pol false RZero l = Ok (RZero, false).
  Proof. exists [jstr (B "CONDITION"); jstr (B "k")]. vm_compute. reflexivity. Qed.

  (* what the unrepaired code does guarantee: a silent failure happens only
     when nothing was decoded *)
  Theorem marshal_result_unrepaired_partial (l : list jval) (r' : recv) (e : bool) :
    Marshal_gen pol false RZero l = Ok (r', e) ->
    e = true \/ (exists c els, r' = RInit c els /\ Unmarshal r' <> Panic) \/
    (r' = RZero /\ exists m, mdF l = Ok m /\ md_x m = None /\ md_c m = None /\ md_err m = false).
  Proof.
    rewrite Marshal_unfold.
    destruct (length l =? 0)%nat; [intros H; inversion H; auto|].
    destruct (mdF l) as [m| |]; cbn [bind]; try discriminate.
    destruct (md_x m) as [x|] eqn:Ex.
    - destruct x; try discriminate. intros H; inversion H; subst. right. left.
      eexists _, _. split; [reflexivity|].
      cbn [Unmarshal]. destruct (c_umf c); [discriminate|]. apply unm_no_panic.
    - destruct (md_c m) eqn:Ec; intros H; inversion H; subst; auto.
      destruct (md_err m) eqn:Ee; auto. right. right. split; [reflexivity|]. exists m. auto.
  Qed.

  (* ---- entries are kept ---- *)
  Definition kept (x y : jval) : Prop := passes x = true -> y = x.

  Lemma replace_loop_kept (rec : list jval -> res mdres) (els : list jval) :
    forall e r, replace_loop rec els e = Ok r -> Forall2 kept els (fst r).
  Proof.
    induction els as [|x els IH]; intros e r H.
    - inversion H. constructor.
    - cbn [replace_loop] in H. destruct x;
        try (apply bind_ok in H as (rest & Er & H); inversion H; subst r; cbn [fst];
             constructor; [intros _; reflexivity|apply (IH _ _ Er)]).
      apply bind_ok in H as (m & Em & H). apply bind_ok in H as (rest & Er & H). inversion H; subst r; cbn [fst].
      constructor; [intros Hp; discriminate Hp|apply (IH _ _ Er)].
  Qed.

  Lemma strip_single (l : list jval) : strip_in [JList l] = strip_in l.
  Proof. reflexivity. Qed.

  Lemma marshal_strip (d29 : bool) (r : recv) : recv_no_maf r = true ->
    forall l, Marshal_gen pol d29 r l = Marshal_gen pol d29 r (strip_in l).
  Proof.
    intros Hm l.
    assert (H : forall j, match j with JList l => Marshal_gen pol d29 r l = Marshal_gen pol d29 r (strip j) | _ => True end).
    { induction j as [|g|l0 Hl|a c els Hels|a c kw op ex Hex|a|a] using jval_ind'; try exact I.
      destruct l0 as [|x [|y l0]]; try reflexivity.
      destruct x; try reflexivity.
      inversion Hl as [|? ? Hx _]; subst.
      rewrite (marshal_envelope d29 r l0 Hm). exact Hx. }
    exact (H (JList l)).
  Qed.

  (* a label is honoured whatever its case *)
  Theorem marshal_label_ci (l : list jval) (k : N) :
    classify (strip_in l) = LKind k ->
    exists els e, Marshal pol RZero l = Ok (RInit (cfg0 k) els, e) /\ Forall2 kept (tl (strip_in l)) els.
  Proof.
    intros Hc. unfold Marshal. rewrite (marshal_strip true RZero eq_refl l).
    destruct (strip_in l) as [|h rest]; [discriminate|].
    destruct h as [|g| | | | |]; try discriminate. destruct g; try discriminate.
    cbn [classify] in Hc. destruct (label_is_condition s); [discriminate|].
    destruct (label_kind s) as [k'|] eqn:Ek; [|destruct (is_ascii s); discriminate].
    inversion Hc; subst k'. destruct (label_kind_read s k Ek) as (K1 & K2 & K3).
    rewrite Marshal_unfold. cbn [length Nat.eqb]. unfold mdF. rewrite md_unfold. unfold md_body.
    cbn [length Nat.eqb]. fold (jstr s). rewrite deenvelope_str.
    cbn [bind length Nat.eqb idx nth_error is_str jstr]. rewrite K1, K2, K3, push_fresh. cbn [tl snd fst].
    destruct (replace_loop_total (md (ldepth (jstr s :: rest))) rest) with (e := false) as [r Er].
    { intros E Hin. apply md_total. apply in_list_ldepth in Hin. rewrite ldepth_cons. lia. }
    rewrite Er. cbn [bind md_x md_err]. eexists _, _. split; [reflexivity|].
    apply (replace_loop_kept _ _ _ _ Er).
  Qed.

  (* a first string that is no label yields a BASIC Stack holding all entries *)
  Theorem marshal_unknown_basic (l : list jval) :
    classify (strip_in l) = LUnknown ->
    exists els e, Marshal pol RZero l = Ok (RInit (cfg0 k_basic) els, e) /\ Forall2 kept (strip_in l) els.
  Proof.
    intros Hc. unfold Marshal. rewrite (marshal_strip true RZero eq_refl l).
    destruct (strip_in l) as [|h rest]; [discriminate|].
    destruct h as [|g| | | | |]; try discriminate. destruct g; try discriminate.
    cbn [classify] in Hc. destruct (label_is_condition s) eqn:Ec; [discriminate|].
    destruct (label_kind s) as [k'|] eqn:Ek; [discriminate|].
    destruct (is_ascii s) eqn:Ea; [|discriminate].
    destruct (label_unknown_read s Ea Ec Ek) as (K1 & K2).
    rewrite Marshal_unfold. cbn [length Nat.eqb]. unfold mdF. rewrite md_unfold. unfold md_body.
    cbn [length Nat.eqb]. fold (jstr s). rewrite deenvelope_str.
    cbn [bind length Nat.eqb idx nth_error is_str jstr]. rewrite K1, K2, push_fresh. cbn [tl snd fst].
    destruct (replace_loop_total (md (ldepth (jstr s :: rest))) (jstr s :: rest)) with (e := false) as [r Er].
    { intros E Hin. apply md_total. apply in_list_ldepth in Hin. lia. }
    rewrite Er. cbn [bind md_x md_err]. eexists _, _. split; [reflexivity|].
    apply (replace_loop_kept _ _ _ _ Er).
  Qed.

  Lemma strip_not_envelope : forall j x, strip j = [x] -> j_is_list x = false.
  Proof.
    induction j as [|g|l0 Hl|a c els Hels|a c kw op ex Hex|a|a] using jval_ind'; intros x H; try discriminate H.
    destruct l0 as [|y [|z l0]]; try discriminate H.
    inversion Hl as [|? ? Hy _]; subst.
    destruct y; try (inversion H; reflexivity).
    apply Hy. exact H.
  Qed.

  Lemma classify_cons_not_empty (h : jval) (rest : list jval) : classify (h :: rest) <> LEmpty.
  Proof.
    destruct h as [|g| | | | |]; try discriminate. destruct g; try discriminate.
    cbn [classify]. destruct (label_is_condition s); [discriminate|].
    destruct (label_kind s); [discriminate|]. destruct (is_ascii s); discriminate.
  Qed.

  (* nothing to decode, no leading string, or a bare CONDITION row: an error,
     and the uninitialised receiver stays as it was *)
  Theorem marshal_rejects (l : list jval) :
    classify (strip_in l) = LEmpty \/ classify (strip_in l) = LNotString \/ classify (strip_in l) = LCond ->
    Marshal pol RZero l = Ok (RZero, true).
  Proof.
    intros Hc. unfold Marshal. rewrite (marshal_strip true RZero eq_refl l).
    destruct (strip_in l) as [|h rest] eqn:Es; [reflexivity|].
    rewrite Marshal_unfold. cbn [length Nat.eqb]. unfold mdF. rewrite md_unfold. unfold md_body.
    cbn [length Nat.eqb].
    destruct Hc as [Hc|[Hc|Hc]]; [exfalso; exact (classify_cons_not_empty _ _ Hc)| |].
    - assert (Hs : is_str h = None).
      { destruct h as [|g| | | | |]; try reflexivity. destruct g; try reflexivity.
        cbn [classify] in Hc. destruct (label_is_condition s); [discriminate|].
        destruct (label_kind s); [discriminate|]. destruct (is_ascii s); discriminate. }
      destruct (deenvelope_total (ldepth (h :: rest)) (h :: rest) (le_n _)) as (l' & E & _).
      assert (El : l' = h :: rest).
      { rewrite deenvelope_unfold in E. destruct h; destruct rest; try (inversion E; reflexivity).
        pose proof (strip_not_envelope _ _ Es) as Hn. discriminate Hn. }
      subst l'. rewrite E. cbn [bind length Nat.eqb idx nth_error]. rewrite Hs. reflexivity.
    - destruct h as [|g| | | | |]; try discriminate. destruct g; try discriminate.
      cbn [classify] in Hc. destruct (label_is_condition s) eqn:Ec.
      2:{ destruct (label_kind s); [discriminate|]. destruct (is_ascii s); discriminate. }
      fold (jstr s). rewrite deenvelope_str. cbn [bind length Nat.eqb idx nth_error is_str jstr].
      assert (K : uc_is s (B "CONDITION") = true).
      { unfold label_is_condition in Ec. rewrite (uc_is_ascii _ s (upper_eq_ascii s (B "CONDITION") eq_refl Ec)). exact Ec. }
      rewrite K.
      destruct (extract_condition_total (md (ldepth (jstr s :: rest))) (jstr s :: rest)) as [c Ecx].
      { intros E Hin. apply md_total. apply in_list_ldepth in Hin. lia. }
      rewrite Ecx. cbn [bind md_x md_c]. destruct c; reflexivity.
  Qed.

  Lemma md_c_cond (f : nat) (l : list jval) (m : mdres) (x : jval) :
    md f l = Ok m -> md_c m = Some x -> j_is_cond x = true.
  Proof.
    destruct f as [|f]; [discriminate|]. rewrite md_unfold. unfold md_body.
    destruct (length l =? 0)%nat; [intros H; inversion H; discriminate|].
    destruct (deenvelope f l) as [l'| |]; cbn [bind]; try discriminate.
    destruct (length l' =? 0)%nat; [intros H; inversion H; discriminate|].
    destruct (idx l' 0) as [h| |]; cbn [bind]; try discriminate.
    destruct (is_str h) as [lab|]; [|intros H; inversion H; discriminate].
    destruct (uc_is lab (B "CONDITION")).
    - destruct (extract_condition (md f) l') as [c| |] eqn:Ec; cbn [bind]; try discriminate.
      intros H; inversion H; subst m. cbn [md_c]. intros ->.
      unfold extract_condition in Ec. destruct (negb (length l' =? 4)%nat); [discriminate|].
      destruct (idx l' 1); cbn [bind] in Ec; try discriminate.
      destruct (idx l' 2); cbn [bind] in Ec; try discriminate.
      destruct (idx l' 3) as [i3| |]; cbn [bind] in Ec; try discriminate.
      destruct i3; try (inversion Ec; reflexivity).
      destruct (md f l0) as [r| |]; cbn [bind] in Ec; try discriminate.
      destruct (md_x r); [inversion Ec; reflexivity|]. destruct (md_c r); inversion Ec; reflexivity.
    - destruct (replace_loop _ _ _); cbn [bind]; try discriminate. intros H; inversion H; discriminate.
  Qed.

  (* an initialised receiver: either an error and no change, or the decoded
     Stack / Condition is handed to Push as one value *)
  Theorem marshal_into_init (c : config) (els l : list jval) (r' : recv) (e : bool) :
    c_maf c = None ->
    Marshal pol (RInit c els) l = Ok (r', e) ->
    (r' = RInit c els /\ e = true) \/
    (exists x, (j_is_stack x = true \/ j_is_cond x = true) /\
               r' = RInit (fst (jpush pol c els [x])) (snd (jpush pol c els [x]))).
  Proof.
    intros Hm. unfold Marshal. rewrite Marshal_unfold.
    destruct (length l =? 0)%nat; [intros H; inversion H; auto|].
    rewrite Hm. destruct (mdF l) as [m| |] eqn:Em; cbn [bind]; try discriminate.
    destruct (md_x m) as [x|] eqn:Ex.
    - destruct (jpush pol c els [x]) as [c' els'] eqn:Ep. intros H; inversion H; subst. right.
      exists x. rewrite Ep. split; [|reflexivity]. left.
      destruct (md_x_stack _ _ _ Em) as [Hn|(c0 & els0 & Hs)]; rewrite Ex in *; [discriminate|].
      inversion Hs. reflexivity.
    - destruct (md_c m) as [x|] eqn:Ec.
      + destruct (jpush pol c els [x]) as [c' els'] eqn:Ep. intros H; inversion H; subst. right.
        exists x. rewrite Ep. split; [|reflexivity]. right. exact (md_c_cond _ _ _ _ Em Ec).
      + intros H; inversion H; auto.
  Qed.

  (* Push of one value on a receiver that takes it *)
  Lemma push_accepting (c : config) (els : list jval) (x : jval) :
    cpositive c c_ronly = false -> c_ppf c = None -> cpositive c c_nnest = false -> jis_full c els = false ->
    jpush pol c els [x] = (c, els ++ [x]).
  Proof.
    intros H1 H2 H3 H4. unfold jpush. rewrite H1, H2. cbn [jgeneric_append].
    unfold jcan_push_nester. rewrite H3, H4. reflexivity.
  Qed.

  (* ================================================================== *)
  (* C04 *)

  Lemma unm_entries_length (els : list jval) : forall rest, unm_entries els = Ok rest -> length rest = length els.
  Proof.
    induction els as [|e els IH]; intros rest H.
    - inversion H. reflexivity.
    - cbn [unm_entries] in H. apply bind_ok in H as (e' & _ & H). apply bind_ok in H as (t' & Et & H).
      inversion H. cbn [length]. rewrite (IH _ Et). reflexivity.
  Qed.

  Lemma Unmarshal_init (c : config) (els : list jval) :
    node_ok (JStack Native c els) = true -> Unmarshal (RInit c els) = unm (JStack Native c els).
  Proof.
    intros H. cbn [node_ok] in H. apply andb_true_iff in H as [H _]. apply andb_true_iff in H as [_ H].
    unfold no_umf in H. cbn [Unmarshal]. destruct (c_umf c); [discriminate|reflexivity].
  Qed.

  (* Unmarshal: the kind label, then one entry per element in order, nested
     Stacks and Conditions expanded, everything else passed through *)
  Theorem unmarshal_shape (c : config) (els : list jval) :
    node_ok (JStack Native c els) = true ->
    exists u, Unmarshal (RInit c els) = Ok u /\ length u = S (length els) /\
              canon (JList u) = canon (JList (spec_flat (JStack Native c els))).
  Proof.
    intros Hok. rewrite (Unmarshal_init c els Hok).
    destruct (rt_all (JStack Native c els) Hok) as [Hs _]. destruct (Hs eq_refl) as (u & Eu & _).
    exists u. split; [exact Eu|]. split.
    - rewrite unm_stack in Eu. apply bind_ok in Eu as (rest & Er & Eu). inversion Eu.
      cbn [length]. rewrite (unm_entries_length _ _ Er). reflexivity.
    - apply (canon_unm _ Hok eq_refl u Eu).
  Qed.

  (* Marshal of that result, in either call form, on an uninitialised
     receiver: no error, the same tree, and a second Unmarshal gives exactly
     the canonical flat form *)
  Theorem marshal_unmarshal (c : config) (els u form : list jval) :
    node_ok (JStack Native c els) = true ->
    Unmarshal (RInit c els) = Ok u ->
    form = u \/ form = [JList u] ->
    exists c' els',
      Marshal pol RZero form = Ok (RInit c' els', false) /\
      same_tree (JStack Native c els) (JStack Native c' els') /\
      Unmarshal (RInit c' els') = Ok (spec_flat (JStack Native c els)).
  Proof.
    intros Hok Hu Hform. rewrite (Unmarshal_init c els Hok) in Hu.
    destruct (rt_all (JStack Native c els) Hok) as [Hs _]. destruct (Hs eq_refl) as (u0 & Eu & Em).
    rewrite Hu in Eu. inversion Eu; subst u0. clear Eu.
    exists (cfg0 (c_typ c)), (map rebuild els).
    assert (HM : Marshal pol RZero u = Ok (RInit (cfg0 (c_typ c)) (map rebuild els), false)).
    { unfold Marshal. rewrite Marshal_unfold, Em.
      rewrite unm_stack in Hu. apply bind_ok in Hu as (rest & _ & Hu). inversion Hu. reflexivity. }
    split; [|split].
    - destruct Hform as [->| ->]; [exact HM|].
      unfold Marshal in *. rewrite (marshal_envelope true RZero u eq_refl). exact HM.
    - unfold same_tree. symmetry. apply (skel_rebuild (JStack Native c els) Hok).
    - destruct (unm_rebuild (JStack Native c els) Hok eq_refl) as (u' & Eu' & Es).
      cbn [Unmarshal c_umf cfg0]. cbn [rebuild] in Eu'. rewrite Eu'.
      unfold spec_flat. rewrite Es. reflexivity.
  Qed.

  (* the two unmarshalled slices are equal once labels are compared without
     regard to case *)
  Theorem unmarshal_fixpoint (c : config) (els u : list jval) :
    node_ok (JStack Native c els) = true ->
    Unmarshal (RInit c els) = Ok u ->
    canon (JList (spec_flat (JStack Native c els))) = canon (JList u).
  Proof.
    intros Hok Hu. destruct (unmarshal_shape c els Hok) as (u0 & Eu & _ & Hc).
    rewrite Hu in Eu. inversion Eu; subst u0. symmetry. exact Hc.
  Qed.

End WithPolicy.

(* ------------------------------------------------------------------ *)
(* corollaries *)

Theorem marshal_into_init_accepting (pol : N -> jval -> option N)
  (c : config) (els l : list jval) (r' : recv) (e : bool) :
  c_maf c = None -> cpositive c c_ronly = false -> c_ppf c = None -> cpositive c c_nnest = false ->
  jis_full c els = false ->
  Marshal pol (RInit c els) l = Ok (r', e) ->
  (r' = RInit c els /\ e = true) \/
  (exists x, (j_is_stack x = true \/ j_is_cond x = true) /\ r' = RInit c (els ++ [x])).
Proof.
  intros Hm H1 H2 H3 H4 H.
  destruct (marshal_into_init pol c els l r' e Hm H) as [Hl|(x & Hx & Hr)]; [left; exact Hl|].
  right. exists x. split; [exact Hx|].
  rewrite (push_accepting pol c els x H1 H2 H3 H4) in Hr. exact Hr.
Qed.

(* the same round trip for the trees of Values.v *)
Theorem marshal_unmarshal_value (pol : N -> jval -> option N) (c : config) (els : list value) :
  node_ok (inj (VStack Native c els)) = true ->
  exists u c' els',
    Unmarshal (RInit c (map inj els)) = Ok u /\
    Marshal pol RZero u = Ok (RInit c' els', false) /\
    Marshal pol RZero [JList u] = Ok (RInit c' els', false) /\
    same_tree (inj (VStack Native c els)) (JStack Native c' els') /\
    Unmarshal (RInit c' els') = Ok (spec_flat (inj (VStack Native c els))).
Proof.
  cbn [inj]. intros Hok.
  destruct (unmarshal_shape pol c (map inj els) Hok) as (u & Eu & _).
  destruct (marshal_unmarshal pol c (map inj els) u u Hok Eu (or_introl eq_refl)) as (c' & els' & M1 & S1 & U1).
  destruct (marshal_unmarshal pol c (map inj els) u [JList u] Hok Eu (or_intror eq_refl)) as (c2 & els2 & M2 & _ & _).
  exists u, c', els'. repeat split; try assumption.
  assert (E : Marshal pol RZero [JList u] = Marshal pol RZero u) by (apply marshal_envelope; reflexivity).
  rewrite E. exact M1.
Qed.

(* ---- the specification is the natural object ---- *)
Lemma same_tree_refl (a : jval) : same_tree a a.
Proof. reflexivity. Qed.
Lemma same_tree_sym (a b : jval) : same_tree a b -> same_tree b a.
Proof. unfold same_tree. auto. Qed.
Lemma same_tree_trans (a b c : jval) : same_tree a b -> same_tree b c -> same_tree a c.
Proof. unfold same_tree. intros H1 H2. congruence. Qed.

Lemma map_ext_Forall {A B} (f g : A -> B) (l : list A) : Forall (fun x => f x = g x) l -> map f l = map g l.
Proof. induction 1 as [|x l Hx Hl IH]; [reflexivity|]. cbn [map]. rewrite Hx, IH. reflexivity. Qed.

Lemma skel_idem : forall j, skel (skel j) = skel j.
Proof.
  induction j as [|g|l Hl|a c els Hels|a c kw op ex Hex|a|a] using jval_ind'; try reflexivity.
  - cbn [skel]. rewrite map_map. f_equal. apply map_ext_Forall. exact Hl.
  - cbn [skel c_typ cfg0]. rewrite map_map. f_equal. apply map_ext_Forall. exact Hels.
  - cbn [skel c_typ cfg0]. rewrite Hex. reflexivity.
Qed.

Lemma upper_byte_idem (b : byte) : upper_byte (upper_byte b) = upper_byte b.
Proof.
  unfold upper_byte. destruct (is_lower_byte b) eqn:E; [|rewrite E; reflexivity].
  assert (H : is_lower_byte (byte_of_N_tot (byteN b - 32)) = false).
  { unfold is_lower_byte in *. apply andb_true_iff in E as [E1 E2].
    apply N.leb_le in E1. apply N.leb_le in E2.
    rewrite byteN_of_N_tot by lia.
    apply andb_false_iff. left. apply N.leb_gt. lia. }
  rewrite H. reflexivity.
Qed.

Lemma upper_idem (s : bytes) : upper (upper s) = upper s.
Proof. unfold upper. rewrite map_map. apply map_ext. apply upper_byte_idem. Qed.

Lemma canon_is_list (l : list jval) : exists l', canon (JList l) = JList l'.
Proof. destruct l as [|x rest]; [eexists; reflexivity|]. destruct x; try (eexists; reflexivity). destruct g; eexists; reflexivity. Qed.

(* comparing labels without case is an equivalence: [canon] is idempotent *)
Lemma canon_idem : forall j, canon (canon j) = canon j.
Proof.
  induction j as [|g|l Hl|a c els Hels|a c kw op ex Hex|a|a] using jval_ind'; try reflexivity.
  destruct l as [|x rest]; [reflexivity|].
  inversion Hl as [|? ? Hx Hrest]; subst.
  assert (Hm : map canon (map canon rest) = map canon rest).
  { rewrite map_map. apply map_ext_Forall. exact Hrest. }
  destruct x as [|g|l0|a c els|a c kw op ex|a|a];
    try (cbn [canon map] in *; rewrite Hm; try rewrite Hx; reflexivity).
  - destruct g; try (cbn [canon map] in *; rewrite Hm; reflexivity).
    cbn [canon jstr]. rewrite upper_idem, Hm. reflexivity.
  - change (canon (JList (JList l0 :: rest))) with (JList (canon (JList l0) :: map canon rest)).
    destruct (canon_is_list l0) as [l' E]. rewrite E in *.
    change (canon (JList (JList l' :: map canon rest))) with (JList (canon (JList l') :: map canon (map canon rest))).
    rewrite Hm, Hx. reflexivity.
Qed.

(* a list holding exactly one list stands for that list; stripping is idempotent *)
Lemma strip_idem : forall l, strip_in (strip_in l) = strip_in l.
Proof.
  intros l. unfold strip_in.
  assert (H : forall j, strip (JList (strip j)) = strip j).
  { induction j as [|g|l0 Hl|a c els Hels|a c kw op ex Hex|a|a] using jval_ind'; try reflexivity.
    destruct l0 as [|x [|y l0]]; try reflexivity.
    inversion Hl as [|? ? Hx _]; subst.
    destruct x; try reflexivity. exact Hx. }
  apply (H (JList l)).
Qed.

(* ------------------------------------------------------------------ *)
(* C04, the IsEqual clause.  IsEqual is the subject of property C05 (module
   Equal); here it is an arbitrary function of which only the documented
   facts below are assumed, so the statement holds for every IsEqual that
   has them. *)

Lemma marshal_rebuild (pol : N -> jval -> option N) (c : config) (els u : list jval) :
  node_ok (JStack Native c els) = true ->
  Unmarshal (RInit c els) = Ok u ->
  Marshal pol RZero u = Ok (RInit (cfg0 (c_typ c)) (map rebuild els), false).
Proof.
  intros Hok Hu. rewrite (Unmarshal_init c els Hok) in Hu.
  destruct (rt_all pol (JStack Native c els) Hok) as [Hs _]. destruct (Hs eq_refl) as (u0 & Eu & Em).
  rewrite Hu in Eu. inversion Eu; subst u0. clear Eu.
  unfold Marshal. rewrite Marshal_unfold, Em.
  rewrite unm_stack in Hu. apply bind_ok in Hu as (rest & _ & Hu). inversion Hu. reflexivity.
Qed.

Lemma land_bit1 (v : N) : N.testbit v 1 = false -> N.land v 2 = 0%N.
Proof.
  intros H. apply N.bits_inj. intros n. rewrite N.land_spec, N.bits_0.
  destruct (N.eq_dec n 1) as [->|Hn]; [rewrite H; reflexivity|].
  change 2%N with (2 ^ 1)%N. rewrite (N.pow2_bits_false 1 n) by congruence. apply andb_false_r.
Qed.

Lemma kind_label_nofold (c : config) :
  N.testbit (c_opt c) 1 = false -> kind_label c = kind_label (cfg0 (c_typ c)).
Proof.
  intros H. unfold kind_label, cpositive, g_flag_positive. cbn [c_typ c_opt cfg0].
  change c_cfold with 2%N. rewrite (land_bit1 _ H). cbn [N.land N.eqb negb]. rewrite !andb_false_r. reflexivity.
Qed.

Lemma cond_new_eqf (kw : bytes) (op : option oper) (x : jval) :
  op_ok op = true -> expr_storable x = true ->
  exists c', cond_new kw op x = JCond Native c' kw op x /\ c_eqf c' = None.
Proof.
  intros Ho Hx. unfold cond_new. rewrite (set_operator_ok op Ho).
  assert (Ha : match assert_expr (cfg0 c_cond) x with Some v => v | None => JNil end = x).
  { destruct x as [|g|l|a c els|a c kw0 op0 ex|a|a]; try reflexivity.
    destruct g; try reflexivity. destruct s; [discriminate|reflexivity]. }
  rewrite Ha. destruct (cond_valid kw op x); eexists; split; reflexivity.
Qed.

Section IsEqual.
  Variable is_equal : jval -> jval -> bool.
  (* the values IsEqual finds equal to themselves (nil, strings, numbers,
     bools, floats other than NaN, ...) *)
  Variable good : jval -> bool.
  Hypothesis eq_good : forall x, good x = true -> is_equal x x = true.
  (* Stacks: no equality policy, no capacity on either side, same kind label,
     same length, pairwise equal elements *)
  Hypothesis eq_stack : forall a c els a' c' els',
    c_eqf c = None -> c_cap c = 0 -> c_cap c' = 0 -> kind_label c = kind_label c' ->
    Forall2 (fun x y => is_equal x y = true) els els' ->
    is_equal (JStack a c els) (JStack a' c' els') = true.
  (* Conditions: same keyword, same operator, equal expressions *)
  Hypothesis eq_cond : forall a c kw op ex a' c' ex',
    c_eqf c = None -> is_equal ex ex' = true ->
    is_equal (JCond a c kw op ex) (JCond a' c' kw op ex') = true.

  Definition no_eqf (c : config) : bool := match c_eqf c with None => true | Some _ => false end.

  (* no capacity, no case folding, no equality policy anywhere IsEqual looks;
     everything passed through is comparable with itself *)
  Fixpoint eq_dom (j : jval) : bool :=
    match j with
    | JStack _ c els => cfg_plain c && no_eqf c && forallb eq_dom els
    | JCond _ c _ _ ex => no_eqf c && match ex with JStack _ _ _ => eq_dom ex | _ => good ex end
    | _ => good j
    end.

  Lemma isequal_rebuild : forall j, node_ok j = true -> eq_dom j = true ->
    is_equal j (rebuild j) = true /\ is_equal (rebuild j) j = true.
  Proof.
    induction j as [|g|l Hl|a c els Hels|a c kw op ex Hex|a|a] using jval_ind'; intros Hok Hd;
      try (cbn [rebuild]; split; apply eq_good; exact Hd); try discriminate Hok.
    - cbn [node_ok] in Hok. apply andb_true_iff in Hok as [_ Hf].
      cbn [eq_dom] in Hd. apply andb_true_iff in Hd as [Hd Hg]. apply andb_true_iff in Hd as [Hp He].
      unfold cfg_plain in Hp. apply andb_true_iff in Hp as [Hcap Hfold].
      apply Z.eqb_eq in Hcap. apply negb_true_iff in Hfold.
      unfold no_eqf in He. destruct (c_eqf c) eqn:Eq; [discriminate|].
      assert (H2 : Forall2 (fun x y => is_equal x y = true) els (map rebuild els) /\
                   Forall2 (fun x y => is_equal x y = true) (map rebuild els) els).
      { clear Eq. induction Hels as [|e els He' Hels IH]; [split; constructor|].
        cbn [forallb] in Hf, Hg. apply andb_true_iff in Hf as [F1 F2]. apply andb_true_iff in Hg as [G1 G2].
        destruct (He' F1 G1) as [A B]. destruct (IH F2 G2) as [C D].
        cbn [map]. split; constructor; assumption. }
      destruct H2 as [A B]. cbn [rebuild]. split.
      + apply eq_stack; try assumption; try reflexivity. apply kind_label_nofold, Hfold.
      + apply eq_stack; try assumption; try reflexivity. symmetry. apply kind_label_nofold, Hfold.
    - cbn [node_ok] in Hok. apply andb_true_iff in Hok as [Hok Hx]. apply andb_true_iff in Hok as [_ Ho].
      cbn [eq_dom] in Hd. apply andb_true_iff in Hd as [He Hg].
      unfold no_eqf in He. destruct (c_eqf c) eqn:Eq; [discriminate|].
      cbn [rebuild].
      destruct (cond_new_eqf kw op _ Ho (rebuild_expr_storable ex (node_ok_cond_expr ex Hx))) as (c' & -> & Eq').
      assert (Hex' : is_equal ex (match ex with JStack _ _ _ => rebuild ex | _ => ex end) = true /\
                     is_equal (match ex with JStack _ _ _ => rebuild ex | _ => ex end) ex = true).
      { destruct ex as [|g|l|a0 c0 els0|a0 c0 kw0 op0 ex0|a0|a0]; try (split; apply eq_good; exact Hg).
        apply Hex; assumption. }
      destruct Hex' as [A B]. split; apply eq_cond; assumption.
  Qed.

  (* IsEqual between the original and the reconstruction succeeds, both ways *)
  Theorem roundtrip_isequal (pol : N -> jval -> option N) (c : config) (els u : list jval) :
    node_ok (JStack Native c els) = true -> eq_dom (JStack Native c els) = true ->
    Unmarshal (RInit c els) = Ok u ->
    exists c' els',
      Marshal pol RZero u = Ok (RInit c' els', false) /\
      is_equal (JStack Native c els) (JStack Native c' els') = true /\
      is_equal (JStack Native c' els') (JStack Native c els) = true.
  Proof.
    intros Hok Hd Hu. exists (cfg0 (c_typ c)), (map rebuild els).
    split; [apply (marshal_rebuild pol c els u Hok Hu)|].
    apply (isequal_rebuild (JStack Native c els) Hok Hd).
  Qed.
End IsEqual.
