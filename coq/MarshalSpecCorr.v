(* MarshalSpecCorr.v -- specification-side evaluation of the cases recorded by
   the harness families marshalrt (C04) and marshaljunk (C16).  Independent of
   Generated.v and of the model (Marshal.v): only the specification is used
   as the oracle.  Executable definitions only.  check = 0: the recorded
   behaviour satisfies the property; 2: it does not. *)
From Stackage Require Import Base Values JVal MarshalSpec.
Open Scope Z_scope.

(* ---- structural comparison of observed values ---- *)
Definition oper_eqb (a b : oper) : bool :=
  match a, b with
  | OpBuiltin n, OpBuiltin m => (n =? m)%N
  | OpUser t c, OpUser t' c' => bytes_eqb t t' && bytes_eqb c c'
  | _, _ => false
  end.

(* equality of leaves; complete on the leaf kinds the harness uses (strings,
   numbers, bools, floats by printed text, typed nil pointers, operators,
   []any of leaves), false on the composite kinds it does not use *)
Fixpoint geqb (a b : gval) : bool :=
  match a, b with
  | GStr s, GStr s' => bytes_eqb s s'
  | GInt t z, GInt t' z' => (t =? t')%N && (z =? z')
  | GBool x, GBool y => Bool.eqb x y
  | GFloat t s i, GFloat t' s' i' => (t =? t')%N && bytes_eqb s s' && (i =? i')
  | GPtr x, GPtr y => geqb x y
  | GNilPtr d t, GNilPtr d' t' => Nat.eqb d d' && (t =? t')%N
  | GFunc t i, GFunc t' i' => (t =? t')%N && (i =? i')%N
  | GChan t i, GChan t' i' => (t =? t')%N && (i =? i')%N
  | GStringer t s, GStringer t' s' => (t =? t')%N && bytes_eqb s s'
  | GOper o, GOper o' => oper_eqb o o'
  | GOther t, GOther t' => (t =? t')%N
  | GList l, GList l' =>
      (fix go (x y : list gval) : bool :=
         match x, y with
         | [], [] => true
         | p :: x', q :: y' => geqb p q && go x' y'
         | _, _ => false
         end) l l'
  | _, _ => false
  end.

Definition opt_oper_eqb (a b : option oper) : bool :=
  match a, b with
  | Some x, Some y => oper_eqb x y
  | None, None => true
  | _, _ => false
  end.

(* the same value as far as an observer using Kind/Len/Index/Keyword/Operator/
   Expression can tell: configurations are compared by kind only, alias kinds
   are ignored *)
Fixpoint jsim (a b : jval) : bool :=
  let all := fix all (x y : list jval) : bool :=
               match x, y with
               | [], [] => true
               | p :: x', q :: y' => jsim p q && all x' y'
               | _, _ => false
               end in
  match a, b with
  | JNil, JNil => true
  | JLeaf g, JLeaf g' => geqb g g'
  | JList l, JList l' => all l l'
  | JStack _ c els, JStack _ c' els' => (c_typ c =? c_typ c')%N && all els els'
  | JCond _ c kw op ex, JCond _ c' kw' op' ex' =>
      (c_typ c =? c_typ c')%N && bytes_eqb kw kw' && opt_oper_eqb op op' && jsim ex ex'
  | JZeroStack _, JZeroStack _ => true
  | JZeroCond _, JZeroCond _ => true
  | _, _ => false
  end.

Fixpoint lsim (x y : list jval) : bool :=
  match x, y with
  | [] , [] => true
  | p :: x', q :: y' => jsim p q && lsim x' y'
  | _, _ => false
  end.

Fixpoint nonzero_from {A} (f : A -> N) (i : N) (l : list A) : list (N * N) :=
  match l with
  | [] => []
  | x :: t => let v := f x in
              if (v =? 0)%N then nonzero_from f (i + 1)%N t else (i, v) :: nonzero_from f (i + 1)%N t
  end.
Definition verdicts {A} (f : A -> N) (l : list A) : list (N * N) := nonzero_from f 0%N l.

(* ---- family marshalrt (C04) ---- *)
Record rtcase := MkRT {
  rt_tree : jval;        (* the original tree, a JStack Native *)
  rt_single : bool;      (* call form: true = Marshal(u), false = Marshal(u...) *)
  rt_panic : bool;       (* some call panicked *)
  rt_u1 : list jval;     (* Unmarshal of the original *)
  rt_merr : bool;        (* Marshal reported an error *)
  rt_walk : jval;        (* the reconstruction, walked with Kind/Len/Index/Keyword/Operator/Expression *)
  rt_u2 : list jval;     (* Unmarshal of the reconstruction *)
  rt_eq_ab : bool;       (* original.IsEqual(reconstruction) == nil *)
  rt_eq_ba : bool        (* reconstruction.IsEqual(original) == nil *)
}.

Definition tree_okb (t : jval) : bool := j_is_stack t && node_ok t.

Definition tree_width (t : jval) : nat := match t with JStack _ _ els => length els | _ => O end.

Definition rt_spec_ok (c : rtcase) : bool :=
  let t := rt_tree c in
  tree_okb t &&
  negb (rt_panic c) &&
  (* Unmarshal: label, one entry per element in order, recursive expansion *)
  Nat.eqb (length (rt_u1 c)) (S (tree_width t)) &&
  lsim (canon_list (rt_u1 c)) (canon_list (spec_flat t)) &&
  (* Marshal: no error, the same tree *)
  negb (rt_merr c) &&
  jsim (skel (rt_walk c)) (skel t) &&
  (* second Unmarshal equals the first, labels compared without case *)
  lsim (canon_list (rt_u2 c)) (canon_list (rt_u1 c)) &&
  (* IsEqual when no capacity and no case folding is involved *)
  (if plain t then rt_eq_ab c && rt_eq_ba c else true).

Definition rt_check (c : rtcase) : N := if rt_spec_ok c then 0%N else 2%N.

(* ---- family marshaljunk (C16) ---- *)
Record jkcase := MkJK {
  jk_recv : option jval;   (* None: uninitialised receiver; Some (JStack Native c els): initialised *)
  jk_in : list jval;       (* the arguments of Marshal *)
  jk_panic : bool;         (* Marshal panicked *)
  jk_err : bool;           (* Marshal reported an error *)
  jk_init : bool;          (* receiver.IsInit() afterwards *)
  jk_kind : N;             (* receiver.Kind() afterwards, as a kind number (0: not a kind name) *)
  jk_len : Z;              (* receiver.Len() afterwards *)
  jk_post_ok : bool;       (* String, Unmarshal and IsEqual(self) all returned normally *)
  jk_u : list jval         (* receiver.Unmarshal() afterwards ([] when it panicked) *)
}.

(* entries that are neither []any nor Stack/Condition must come out unchanged *)
Definition opaque_entry (j : jval) : bool := negb (j_is_list j || j_is_stack j || j_is_cond j).
Fixpoint kept_b (xs ys : list jval) : bool :=
  match xs, ys with
  | [], [] => true
  | x :: xs', y :: ys' => (if opaque_entry x then jsim x y else true) && kept_b xs' ys'
  | _, _ => false
  end.

Definition head_label_is (u : list jval) (name : bytes) : bool :=
  match u with JLeaf (GStr s) :: _ => bytes_eqb (upper s) name | _ => false end.

(* the decoded Stack, given as its flat form [u], against the reading of the
   (stripped) input [l] *)
Definition decoded_ok (l u : list jval) : bool :=
  match classify l with
  | LKind k => head_label_is u (kind_name_tot k) && kept_b (tl l) (tl u)
  | LUnknown => head_label_is u (B "BASIC") && kept_b l (tl u)
  | _ => true
  end.

Definition accepting (c : config) (els : list jval) : bool :=
  negb (N.testbit (c_opt c) 7) && negb (N.testbit (c_opt c) 8) &&
  match c_ppf c with None => true | Some _ => false end &&
  ((c_cap c =? 0) || (zlen els + 1 <? c_cap c)).

Definition last_entry (u : list jval) : option (list jval) :=
  match rev u with JList l :: _ => Some l | _ => None end.

Definition jk_spec_ok (c : jkcase) : bool :=
  let l := strip_in (jk_in c) in
  negb (jk_panic c) &&
  match jk_recv c with
  | None =>
      (* an error, or an initialised Stack on which the observers return normally *)
      (jk_err c || jk_init c) &&
      (if jk_init c then jk_post_ok c else true) &&
      match classify l with
      | LKind k =>
          jk_init c && (jk_kind c =? k)%N && (jk_len c =? zlen l - 1) && decoded_ok l (jk_u c)
      | LUnknown =>
          jk_init c && (jk_kind c =? k_basic)%N && (jk_len c =? zlen l) && decoded_ok l (jk_u c)
      | LEmpty | LCond => negb (jk_init c) && jk_err c
      | LNotString =>
          (negb (jk_init c) && jk_err c) ||
          (jk_init c && (jk_kind c =? k_basic)%N && (jk_len c =? zlen l))
      | LOpen => true
      end
  | Some (JStack _ rc els) =>
      (* an initialised receiver that accepts pushes: an error and no change,
         or exactly one new element, the decoded Stack or Condition *)
      accepting rc els &&
      jk_init c && jk_post_ok c && (jk_kind c =? c_typ rc)%N &&
      lsim (canon_list (firstn (S (length els)) (jk_u c))) (canon_list (spec_flat (JStack Native rc els))) &&
      ((jk_err c && (jk_len c =? zlen els)) ||
       ((jk_len c =? zlen els + 1) &&
        match last_entry (jk_u c) with
        | Some d =>
            match classify l with
            | LCond => head_label_is d (B "CONDITION")
            | LEmpty | LNotString => false
            | _ => decoded_ok l d
            end
        | None => false
        end))
  | Some _ => false
  end.

Definition jk_check (c : jkcase) : N := if jk_spec_ok c then 0%N else 2%N.
