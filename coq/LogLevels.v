(* LogLevels.v -- model of the log-level bit-set of log.go as written:
   logLevels.shift / unshift / positive / String, over the constants and the
   two name tables that the translator regenerates from log.go
   (c_NoLogLevels, c_AllLogLevels, t_loglevel_map, t_loglevel_names).
   Executable definitions only. *)
From Stackage Require Import Base Generated OptionsTypes.
Open Scope N_scope.

(* logLevelMap[uc(tv)] -- strings.ToUpper is modelled on ASCII letters *)
Definition ll_lookup_name (s : bytes) : option N :=
  match find (fun p => bytes_eqb (snd p) (map ascii_upper s)) t_loglevel_map with
  | Some (n, _) => Some n
  | None => None
  end.

(* logLevelNames[lvl] *)
Definition ll_name_of (lvl : N) : option bytes :=
  match find (fun p => fst p =? lvl) t_loglevel_names with
  | Some (_, nm) => Some nm
  | None => None
  end.

(* the type switch at the top of both loops: (ll, ok) *)
Definition ll_resolve (a : larg) : N * bool :=
  match a with
  | LName s => match ll_lookup_name s with Some n => (n, true) | None => (0, false) end
  | LConst n => (n, true)
  | LInt z => (Z.to_N (z mod 65536), true)      (* LogLevel(tv): conversion to uint16 truncates *)
  | LOther => (0, false)
  end.

(* logLevels.shift *)
Fixpoint ll_shift (r : N) (l : list larg) : N :=
  match l with
  | [] => r
  | a :: l' =>
      let '(ll, ok) := ll_resolve a in
      if ll =? 0 then c_NoLogLevels                 (* *r = NoLogLevels; break *)
      else if ll =? 65535 then c_AllLogLevels       (* *r = AllLogLevels; break *)
      else ll_shift (if ok then N.lor r ll else r) l'
  end.

(* logLevels.unshift (with the repair of D24: "all" clears) *)
Fixpoint ll_unshift (r : N) (l : list larg) : N :=
  match l with
  | [] => r
  | a :: l' =>
      let '(ll, ok) := ll_resolve a in
      if ll =? 0 then ll_unshift r l'               (* continue *)
      else if ll =? 65535 then c_NoLogLevels        (* *r = NoLogLevels; break *)
      else ll_unshift (if ok then N.ldiff r ll else r) l'
  end.

(* logLevels.positive on a LogLevel argument *)
Definition ll_positive (r ll : N) : bool :=
  if r =? 0 then false
  else if r =? 65535 then true
  else negb (N.land r ll =? 0).

Definition bit_indices : list N := [0; 1; 2; 3; 4; 5; 6; 7; 8; 9; 10; 11; 12; 13; 14; 15].

(* logLevels.String *)
Definition ll_string (r : N) : bytes :=
  if r =? c_AllLogLevels then B "ALL"
  else if r =? 0 then B "NONE"
  else join_bytes (B ",")
         (flat_map (fun i => let lvl := N.shiftl 1 i in
                             if ll_positive r lvl
                             then match ll_name_of lvl with Some nm => [nm] | None => [] end
                             else [])
                   bit_indices).
