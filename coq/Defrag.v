(* Defrag.v -- model of Stack.Defrag (stack.go): calculateDefragMax (imported
   from Generated.v), stack.defrag, stack.implode, stack.verifyImplode exactly
   as written -- the scan through the public index translation (g_index of
   Generated.v, so the negative/forward index options take part), the spat /
   tpat bookkeeping, the arithmetic that produces the truncation point `last`,
   the error taken from the last compared position -- and the recursion of
   Stack.Defrag into nested Stacks and Condition expressions.

   The model is bug-for-bug (D17 and the other defects reported by C19 stay in
   the code).  The Go slice is [configuration record; e1; ...; en]: the list
   [els] below holds e1..en, raw slot k >= 1 is element k-1, and every index
   expression is written with the same offsets as the Go code; a slot number
   outside the slice is [Panic], the configuration slot where an element is
   expected is [Unmodelled].  Executable definitions only; no proofs here. *)
From Stackage Require Import Base Values Generated StackImpl.
Open Scope Z_scope.

(* identity of errorf("defragmentation failed; inconsistent slice results") *)
Definition err_defrag : N := 19%N.

Section DefragList.
  Variable V : Type.
  Variable nilv : V.              (* the nil interface value *)
  Variable isnil : V -> bool.     (* x == nil *)

  Definition rlen (els : list V) : Z := zlen els + 1.          (* r.len() *)
  Definition rulen (els : list V) : Z := g_ulen (rlen els).    (* r.ulen() *)

  (* ( *r)[k] *)
  Definition raw_get (els : list V) (k : Z) : res V :=
    if k <? 0 then Panic
    else if k =? 0 then Unmodelled
    else match nth_error els (Z.to_nat (k - 1)) with Some x => Ok x | None => Panic end.

  (* ( *r)[k] = v *)
  Definition raw_set (els : list V) (k : Z) (v : V) : res (list V) :=
    if k <? 0 then Panic
    else if k =? 0 then Unmodelled
    else if (Z.to_nat (k - 1) <? length els)%nat then Ok (set_nth (Z.to_nat (k - 1)) v els)
    else Panic.

  (* p[i] and p[i] = v on the []int pattern slices *)
  Definition pat_get (p : list Z) (i : Z) : res Z :=
    if i <? 0 then Panic
    else match nth_error p (Z.to_nat i) with Some x => Ok x | None => Panic end.
  Definition pat_set (p : list Z) (i : Z) (v : Z) : res (list Z) :=
    if i <? 0 then Panic
    else if (Z.to_nat i <? length p)%nat then Ok (set_nth (Z.to_nat i) v p)
    else Panic.

  (* _, _, ok := r.index(i) *)
  Definition index_ok (els : list V) (neg fwd : bool) (i : Z) : res bool :=
    match g_index (rulen els) neg fwd i with
    | TRet _ [ok] => Ok ok
    | TCut 0 [i'; _] [_] =>                       (* slice = r[i]; ok = slice != nil *)
        if i' =? 0 then Ok true                   (* the configuration record is not nil *)
        else do x <- raw_get els i'; Ok (negb (isnil x))
    | _ => Unmodelled
    end.

  (* the first loop of stack.defrag:
       for i := 0; i < r.len(); i++ {
         if _, _, ok := r.index(i); !ok { if start == -1 { start = i }; continue }
         spat[i] = 1 }                                                         *)
  Fixpoint scan (els : list V) (neg fwd : bool) (is : list nat) (start : Z) (spat : list Z)
    : res (Z * list Z) :=
    match is with
    | [] => Ok (start, spat)
    | i :: is' =>
        do ok <- index_ok els neg fwd (Z.of_nat i);
        if ok then do spat' <- pat_set spat (Z.of_nat i) 1; scan els neg fwd is' start spat'
        else scan els neg fwd is' (if start =? -1 then Z.of_nat i else start) spat
    end.

  (* the loop of stack.implode; [fuel] bounds the number of iterations (out
     of fuel = Unmodelled; DefragProofs.implode_fuel_enough shows that the fuel
     given by [implode] suffices) *)
  Fixpoint implode_loop (fuel : nat) (max : Z) (r : list V) (start ct : Z) (tpat : list Z)
    : res (list V * list Z) :=
    match fuel with
    | O => Unmodelled
    | S f =>
        if (max <=? ct) || (rulen r <=? start + ct) then Ok (r, tpat)
        else
          do x <- raw_get r (start + ct + 1);
          if isnil x then implode_loop f max r start (ct + 1) tpat
          else
            do r1 <- raw_set r (start + 1) x;              (* ( *r)[start+1] = ( *r)[start+ct+1] *)
            do tpat1 <- pat_set tpat (start + ct) 1;       (* tpat[start+ct] = 1 *)
            do r2 <- raw_set r1 (start + ct + 1) nilv;     (* ( *r)[start+ct+1] = nil *)
            implode_loop f max r2 (start + 1) 0 tpat1
    end.

  Definition implode_fuel (els : list V) : nat := (S (length els) * S (length els))%nat.

  Definition implode (start max : Z) (spat : list Z) (els : list V) : res (list V * list Z) :=
    do tpat <- pat_set (repeat 0 (length spat)) 0 1;       (* tpat[0] = 1 // cfg slice is exempt *)
    implode_loop (implode_fuel els) max els start 0 tpat.

  (* the loop of stack.verifyImplode.  [data] is a map whose keys S[i-1] are
     pairwise distinct, so len(data) is the number of completed iterations:
     the model carries that number as [dlen]. *)
  Fixpoint verify_loop (is : list nat) (spat tpat : list Z) (dlen last : Z) (fail : bool)
    : res (Z * bool) :=
    match is with
    | [] => Ok (last, fail)
    | i :: is' =>
        do s <- pat_get spat (Z.of_nat i);
        do t <- pat_get tpat (Z.of_nat i);
        let result := s =? t in
        let fail' := negb result in
        let last' := if negb (t =? 0) then (dlen + Z.of_nat i) - zlen tpat else last in
        verify_loop is' spat tpat (dlen + 1) last' fail'
    end.

  (* returns (last, err != nil) *)
  Definition verify_implode (spat tpat : list Z) : res (Z * bool) :=
    do lf <- verify_loop (seq 1 (length spat - 1)) spat tpat 0 (-1) false;
    let '(last, fail) := lf in
    Ok (last - 1, fail).

  (* stack.defrag: the new elements and what happened to the error field
     (None = setErr not called, Some e = setErr(e)) *)
  Definition defrag (neg fwd : bool) (max : Z) (els : list V) : res (list V * option (option N)) :=
    let n := S (length els) in
    do ss <- scan els neg fwd (seq 0 n) (-1) (repeat 0 n);
    let '(start, spat) := ss in
    if negb ((start =? -1) || (max <=? start)) then
      do rt <- implode start max spat els;
      let '(r1, tpat) := rt in
      do le <- verify_implode spat tpat;
      let '(last, err) := le in
      let e := if err then Some err_defrag else None in
      if negb err && (0 <=? last) then
        (* ( *r) = ( *r)[:last+1]; beyond the length Go panics or resurrects
           stale slots, neither is modelled *)
        if last + 1 <=? rlen r1 then Ok (firstn (Z.to_nat last) r1, Some e) else Panic
      else Ok (r1, Some e)
    else Ok (els, None).
End DefragList.

(* ---- Stack.Defrag on trees ---- *)

Definition cpositive (c : Values.config) (f : N) : bool := g_flag_positive (c_opt c) f.

(* one iteration of stack.isNesting: a native Stack (even the zero one)
   matches the type switch, anything else goes through
   stackTypeAliasConverter, which accepts non-zero aliases only *)
Definition stack_like (v : value) : bool :=
  match v with
  | VStack _ _ _ => true
  | VZeroStack Native => true
  | _ => false
  end.

Fixpoint map_res {A B} (f : A -> res B) (l : list A) : res (list B) :=
  match l with
  | [] => Ok []
  | x :: t => do y <- f x; do ys <- map_res f t; Ok (y :: ys)
  end.

Definition defrag_max (args : list Z) : Z := g_calculateDefragMax (zlen args) (hd 0 args).

(* Stack.Defrag(max...).  Recursion on the tree after the node's own
   compaction is not structural, so it runs on fuel (the size of the tree;
   DefragProofs.Defrag_total: it suffices). *)
Fixpoint Defrag_f (fuel : nat) (args : list Z) (v : value) {struct fuel} : res value :=
  match fuel with
  | O => Unmodelled
  | S f =>
      match v with
      | VStack a c els =>
          if cpositive c c_ronly then Ok v
          else
            let m := defrag_max args in
            do r <- defrag value VNil is_nil (cpositive c c_negidx) (cpositive c c_fwdidx) m els;
            let '(els1, e) := r in
            let c1 := match e with Some x => set_c_err c x | None => c end in
            if existsb stack_like els1 then             (* if r.IsNesting() *)
              do els2 <- map_res (fun x =>
                  match x with
                  | VStack _ _ _ => Defrag_f f [m] x                       (* sub.Defrag(m) *)
                  | VCond ca cc kw op ex =>
                      match ex with
                      | VStack _ _ _ => do ex' <- Defrag_f f [m] ex; Ok (VCond ca cc kw op ex')
                      | _ => Ok x
                      end
                  | _ => Ok x
                  end) els1;
              Ok (VStack a c1 els2)
            else Ok (VStack a c1 els1)
      | _ => Ok v                                        (* not an initialised Stack *)
      end
  end.

Definition Defrag (args : list Z) (v : value) : res value := Defrag_f (vsize v) args v.
