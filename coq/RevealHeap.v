(* RevealHeap.v -- facts about the heap representation of Reveal.v: reading
   trees back ([table]), well-formed heaps (every reference points to a
   smaller index of the right sort), and loading a tree ([load]) gives a
   well-formed heap whose root reads back as the tree.  Lemmas only. *)
From Stackage Require Import Base Generated StackImpl Values RevealSpec Reveal.
Open Scope nat_scope.

(* ---------------------------------------------------------------- lists *)
Lemma nth_error_set_nth_eq {A} (l : list A) n x :
  n < length l -> nth_error (set_nth n x l) n = Some x.
Proof.
  revert n; induction l as [|y l IH]; intros [|n] H; simpl in *; try lia; auto.
  apply IH; lia.
Qed.

Lemma nth_error_set_nth_neq {A} (l : list A) n m x :
  n <> m -> nth_error (set_nth n x l) m = nth_error l m.
Proof.
  revert n m; induction l as [|y l IH]; intros [|n] [|m] H; simpl; auto; try congruence.
Qed.

Lemma length_set_nth {A} (l : list A) n x : length (set_nth n x l) = length l.
Proof. revert n; induction l as [|y l IH]; intros [|n]; simpl; auto. Qed.

Lemma set_nth_oob {A} (l : list A) n x : length l <= n -> set_nth n x l = l.
Proof.
  revert n; induction l as [|y l IH]; intros [|n] H; simpl in *; auto; try lia.
  f_equal; apply IH; lia.
Qed.

Lemma nth_error_firstn_lt {A} (l : list A) p q : q < p -> nth_error (firstn p l) q = nth_error l q.
Proof.
  revert p q; induction l as [|y l IH]; intros [|p] [|q] H; simpl; auto; try lia.
  apply IH; lia.
Qed.

Lemma map_set_nth {A B} (f : A -> B) (l : list A) n x :
  map f (set_nth n x l) = set_nth n (f x) (map f l).
Proof. revert n; induction l as [|y l IH]; intros [|n]; simpl; auto. f_equal; auto. Qed.

Lemma set_nth_same {A} (l : list A) n x : nth_error l n = Some x -> set_nth n x l = l.
Proof.
  revert n; induction l as [|y l IH]; intros [|n] H; simpl in *; auto; try congruence.
  f_equal; auto.
Qed.

Lemma Forall_set_nth {A} (P : A -> Prop) (l : list A) n x :
  Forall P l -> P x -> Forall P (set_nth n x l).
Proof.
  intros H Hx; revert n; induction H; intros [|n]; simpl; auto.
Qed.

(* ---------------------------------------------------------------- table *)
Lemma build_app h1 h2 tbl : build (h1 ++ h2) tbl = build h2 (build h1 tbl).
Proof. revert tbl; induction h1 as [|n h1 IH]; intros tbl; simpl; auto. Qed.

Lemma build_length h tbl : length (build h tbl) = length tbl + length h.
Proof.
  revert tbl; induction h as [|n h IH]; intros tbl; simpl; [lia|].
  rewrite IH, app_length; simpl; lia.
Qed.

Lemma table_length h : length (table h) = length h.
Proof. unfold table; rewrite build_length; reflexivity. Qed.

Lemma build_firstn h tbl : firstn (length tbl) (build h tbl) = tbl.
Proof.
  revert tbl; induction h as [|n h IH]; intros tbl; simpl.
  - apply firstn_all.
  - specialize (IH (tbl ++ [node_val tbl n])).
    rewrite app_length in IH; simpl in IH.
    assert (E : firstn (length tbl) (build h (tbl ++ [node_val tbl n])) =
                firstn (length tbl) (firstn (length tbl + 1) (build h (tbl ++ [node_val tbl n])))).
    { rewrite firstn_firstn. f_equal. lia. }
    rewrite E, IH. rewrite firstn_app, firstn_all, Nat.sub_diag. simpl. apply app_nil_r.
Qed.

Lemma build_prefix h tbl i : i < length tbl -> nth_error (build h tbl) i = nth_error tbl i.
Proof.
  intros H. rewrite <- (nth_error_firstn_lt (build h tbl) (length tbl) i H).
  rewrite build_firstn; reflexivity.
Qed.

Lemma build_nth h : forall tbl i n,
  nth_error h i = Some n ->
  nth_error (build h tbl) (length tbl + i) = Some (node_val (firstn (length tbl + i) (build h tbl)) n).
Proof.
  induction h as [|n0 h IH]; intros tbl i n H; [destruct i; discriminate|].
  destruct i as [|i]; simpl in H.
  - inversion H; subst n0. simpl. rewrite Nat.add_0_r.
    rewrite build_prefix by (rewrite app_length; simpl; lia).
    rewrite nth_error_app2, Nat.sub_diag by lia. simpl.
    assert (E : firstn (length tbl) (build h (tbl ++ [node_val tbl n])) = tbl).
    { assert (E1 : firstn (length tbl) (build h (tbl ++ [node_val tbl n])) =
                   firstn (length tbl) (firstn (length (tbl ++ [node_val tbl n])) (build h (tbl ++ [node_val tbl n])))).
      { rewrite firstn_firstn. f_equal. rewrite app_length; simpl; lia. }
      rewrite E1, build_firstn. rewrite firstn_app, firstn_all, Nat.sub_diag. simpl. apply app_nil_r. }
    rewrite E. reflexivity.
  - simpl. specialize (IH (tbl ++ [node_val tbl n0]) i n H).
    rewrite app_length in IH; simpl in IH.
    replace (length tbl + S i) with (length tbl + 1 + i) by lia. exact IH.
Qed.

Lemma table_nth h p n :
  nth_error h p = Some n -> nth_error (table h) p = Some (node_val (firstn p (table h)) n).
Proof. intros H. apply (build_nth h [] p n H). Qed.

Lemma table_app_prefix h ext q : q < length h -> nth_error (table (h ++ ext)) q = nth_error (table h) q.
Proof.
  intros H. unfold table. rewrite build_app. apply build_prefix.
  fold (table h). rewrite table_length. exact H.
Qed.

(* ---------------------------------------------------------------- shapes, well-formedness *)
(* what never changes in a node: configuration and number of slots of a
   Stack; configuration, keyword and operator of a Condition *)
Inductive hshape :=
| ShS (c : config) (n : nat)
| ShC (c : config) (kw : bytes) (op : option oper).

Definition shape (n : hnode) : hshape :=
  match n with HS c els => ShS c (length els) | HC c kw op _ => ShC c kw op end.

Definition is_stk (shp : list hshape) (q : nat) : bool :=
  match nth_error shp q with Some (ShS _ _) => true | _ => false end.
Definition is_cnd (shp : list hshape) (q : nat) : bool :=
  match nth_error shp q with Some (ShC _ _ _) => true | _ => false end.

(* a slot of node p: references point below p, to a node of the right sort *)
Definition slot_ok (shp : list hshape) (p : nat) (s : slot) : Prop :=
  match s with
  | SV _ => True
  | SS _ q => q < p /\ is_stk shp q = true
  | SC _ q => q < p /\ is_cnd shp q = true
  end.
Definition node_ok (shp : list hshape) (p : nat) (n : hnode) : Prop :=
  match n with
  | HS _ els => Forall (slot_ok shp p) els
  | HC _ _ _ ex => slot_ok shp p ex
  end.
Definition WF (shp : list hshape) (h : heap) : Prop :=
  map shape h = shp /\ forall p n, nth_error h p = Some n -> node_ok shp p n.

Lemma slot_ok_mono shp p p' s : p <= p' -> slot_ok shp p s -> slot_ok shp p' s.
Proof. destruct s; simpl; intuition lia. Qed.

Lemma slot_val_firstn shp p T s : slot_ok shp p s -> slot_val (firstn p T) s = slot_val T s.
Proof.
  destruct s as [v|a q|a q]; simpl; auto; intros [H _]; rewrite nth_error_firstn_lt by exact H; reflexivity.
Qed.

Lemma node_val_firstn shp p T n : node_ok shp p n -> node_val (firstn p T) n = node_val T n.
Proof.
  destruct n as [c els|c kw op ex]; simpl; intros H.
  - f_equal. apply map_ext_in. intros s Hs. rewrite Forall_forall in H.
    eapply slot_val_firstn; eauto.
  - f_equal. eapply slot_val_firstn; eauto.
Qed.

Lemma table_fix shp h p n :
  WF shp h -> nth_error h p = Some n -> nth_error (table h) p = Some (node_val (table h) n).
Proof.
  intros [_ W] H. rewrite (table_nth h p n H). f_equal.
  eapply node_val_firstn; eauto.
Qed.

Lemma WF_is_stk shp h q : WF shp h -> is_stk shp q = true -> exists c els, nth_error h q = Some (HS c els).
Proof.
  intros [E _] H. unfold is_stk in H. subst shp. rewrite nth_error_map in H.
  destruct (nth_error h q) as [[c els|c kw op ex]|]; simpl in H; try discriminate. eauto.
Qed.

Lemma WF_is_cnd shp h q : WF shp h -> is_cnd shp q = true -> exists c kw op ex, nth_error h q = Some (HC c kw op ex).
Proof.
  intros [E _] H. unfold is_cnd in H. subst shp. rewrite nth_error_map in H.
  destruct (nth_error h q) as [[c els|c kw op ex]|]; simpl in H; try discriminate. eauto.
Qed.

Lemma WF_stk_is shp h q c els : WF shp h -> nth_error h q = Some (HS c els) -> is_stk shp q = true.
Proof. intros [E _] H. unfold is_stk. subst shp. rewrite nth_error_map, H. reflexivity. Qed.

Lemma WF_cnd_is shp h q c kw op ex : WF shp h -> nth_error h q = Some (HC c kw op ex) -> is_cnd shp q = true.
Proof. intros [E _] H. unfold is_cnd. subst shp. rewrite nth_error_map, H. reflexivity. Qed.

Lemma slot_val_SS shp h a q c els :
  WF shp h -> nth_error h q = Some (HS c els) ->
  slot_val (table h) (SS a q) = VStack a c (map (slot_val (table h)) els).
Proof. intros W H. simpl. rewrite (table_fix shp h q _ W H). reflexivity. Qed.

Lemma slot_val_SC shp h a q c kw op ex :
  WF shp h -> nth_error h q = Some (HC c kw op ex) ->
  slot_val (table h) (SC a q) = VCond a c kw op (slot_val (table h) ex).
Proof. intros W H. simpl. rewrite (table_fix shp h q _ W H). reflexivity. Qed.

(* writing a node of the same shape whose slots are fine keeps the heap well-formed *)
Lemma WF_set_nth shp h p n n' :
  WF shp h -> nth_error h p = Some n -> shape n' = shape n -> node_ok shp p n' -> WF shp (set_nth p n' h).
Proof.
  intros [E W] H Hs Hn. split.
  - rewrite map_set_nth, Hs. rewrite <- E. apply set_nth_same. rewrite nth_error_map, H. reflexivity.
  - intros q m Hq. destruct (Nat.eq_dec p q) as [->|Hne].
    + rewrite nth_error_set_nth_eq in Hq by (apply nth_error_Some; congruence).
      inversion Hq; subst; exact Hn.
    + rewrite nth_error_set_nth_neq in Hq by exact Hne. eauto.
Qed.

(* ---------------------------------------------------------------- load *)
Definition load_list :=
  fix go (l : list value) (h : heap) : list slot * heap :=
    match l with
    | [] => ([], h)
    | x :: t => let '(s, h') := load x h in
                let '(ss, h'') := go t h' in (s :: ss, h'')
    end.

Lemma load_stack a c els h :
  load (VStack a c els) h =
  let '(ss, h1) := load_list els h in (SS a (length h1), h1 ++ [HS c ss]).
Proof. reflexivity. Qed.

Definition WFh (h : heap) : Prop := WF (map shape h) h.

Lemma is_stk_app l1 l2 q : is_stk l1 q = true -> is_stk (l1 ++ l2) q = true.
Proof.
  unfold is_stk. intros H. destruct (nth_error l1 q) eqn:E; try discriminate.
  rewrite nth_error_app1 by (apply nth_error_Some; congruence). rewrite E. exact H.
Qed.
Lemma is_cnd_app l1 l2 q : is_cnd l1 q = true -> is_cnd (l1 ++ l2) q = true.
Proof.
  unfold is_cnd. intros H. destruct (nth_error l1 q) eqn:E; try discriminate.
  rewrite nth_error_app1 by (apply nth_error_Some; congruence). rewrite E. exact H.
Qed.
Lemma slot_ok_app l1 l2 p s : slot_ok l1 p s -> slot_ok (l1 ++ l2) p s.
Proof. destruct s; simpl; auto; intros [H1 H2]; split; auto using is_stk_app, is_cnd_app. Qed.
Lemma node_ok_app l1 l2 p n : node_ok l1 p n -> node_ok (l1 ++ l2) p n.
Proof.
  destruct n; simpl; [|apply slot_ok_app].
  intros H; eapply Forall_impl; [|exact H]. intros; apply slot_ok_app; auto.
Qed.

(* a slot valid below [length h] reads the same after the heap is extended *)
Lemma slot_val_app h ext s :
  slot_ok (map shape h) (length h) s -> slot_val (table (h ++ ext)) s = slot_val (table h) s.
Proof.
  destruct s as [v|a q|a q]; simpl; auto; intros [H _]; rewrite table_app_prefix by exact H; reflexivity.
Qed.

Lemma WFh_snoc h n : WFh h -> node_ok (map shape h) (length h) n -> WFh (h ++ [n]).
Proof.
  intros [_ W] Hn. split; [reflexivity|].
  intros p m Hp. rewrite map_app. destruct (Nat.lt_ge_cases p (length h)) as [Hlt|Hge].
  - rewrite nth_error_app1 in Hp by exact Hlt. apply node_ok_app. eauto.
  - rewrite nth_error_app2 in Hp by exact Hge.
    destruct (p - length h) as [|k] eqn:E; simpl in Hp; [|destruct k; discriminate].
    inversion Hp; subst m. assert (p = length h) by lia. subst p. apply node_ok_app. exact Hn.
Qed.

Definition load_spec (v : value) : Prop :=
  forall h s h', WFh h -> load v h = (s, h') ->
    exists ext, h' = h ++ ext /\ WFh h' /\ slot_ok (map shape h') (length h') s /\
                slot_val (table h') s = v.

Lemma load_list_spec els :
  Forall load_spec els ->
  forall h ss h', WFh h -> load_list els h = (ss, h') ->
    exists ext, h' = h ++ ext /\ WFh h' /\ Forall (slot_ok (map shape h') (length h')) ss /\
                map (slot_val (table h')) ss = els.
Proof.
  intros HF. induction HF as [|x t Hx Ht IH]; intros h ss h' W E; simpl in E.
  - inversion E; subst. exists []. rewrite app_nil_r. auto.
  - destruct (load x h) as [s h1] eqn:E1. destruct (load_list t h1) as [ss' h2] eqn:E2.
    inversion E; subst ss h'. clear E.
    destruct (Hx h s h1 W E1) as (ext1 & -> & W1 & Hs & Hv).
    destruct (IH _ _ _ W1 E2) as (ext2 & -> & W2 & Hss & Hvs).
    exists (ext1 ++ ext2). rewrite app_assoc. split; [reflexivity|]. split; [exact W2|]. split.
    + constructor; auto. rewrite map_app. apply slot_ok_app.
      apply slot_ok_mono with (p := length (h ++ ext1)); [rewrite !app_length; lia | exact Hs].
    + simpl. f_equal; auto. rewrite slot_val_app; auto.
Qed.

Lemma load_ok : forall v, load_spec v.
Proof.
  induction v as [| g | a c els IH | a c kw op ex IH | a | a] using value_ind'; intros h s h' W E;
    try (simpl in E; inversion E; subst; exists []; rewrite app_nil_r; simpl; auto; fail).
  - rewrite load_stack in E. destruct (load_list els h) as [ss h1] eqn:E1. inversion E; subst s h'. clear E.
    destruct (load_list_spec els IH h ss h1 W E1) as (ext & -> & W1 & Hss & Hvs).
    assert (W2 : WFh ((h ++ ext) ++ [HS c ss])) by (apply WFh_snoc; auto).
    exists (ext ++ [HS c ss]). rewrite app_assoc. split; [reflexivity|]. split; [exact W2|]. split.
    + simpl. split; [rewrite !app_length; simpl; lia|].
      unfold is_stk. rewrite nth_error_map, nth_error_app2, Nat.sub_diag by lia. reflexivity.
    + rewrite (slot_val_SS _ _ a (length (h ++ ext)) c ss W2)
        by (rewrite nth_error_app2, Nat.sub_diag by lia; reflexivity).
      f_equal. rewrite <- Hvs. apply map_ext_in. intros s Hs.
      rewrite Forall_forall in Hss. apply slot_val_app. auto.
  - simpl in E. destruct (load ex h) as [s1 h1] eqn:E1. inversion E; subst s h'. clear E.
    destruct (IH h s1 h1 W E1) as (ext & -> & W1 & Hs & Hv).
    assert (W2 : WFh ((h ++ ext) ++ [HC c kw op s1])) by (apply WFh_snoc; auto).
    exists (ext ++ [HC c kw op s1]). rewrite app_assoc. split; [reflexivity|]. split; [exact W2|]. split.
    + simpl. split; [rewrite !app_length; simpl; lia|].
      unfold is_cnd. rewrite nth_error_map, nth_error_app2, Nat.sub_diag by lia. reflexivity.
    + rewrite (slot_val_SC _ _ a (length (h ++ ext)) c kw op s1 W2)
        by (rewrite nth_error_app2, Nat.sub_diag by lia; reflexivity).
      f_equal. rewrite slot_val_app; auto.
Qed.

Lemma WFh_nil : WFh [].
Proof. split; [reflexivity|]. intros [|p] n H; discriminate. Qed.

(* loading a tree into the empty heap *)
Lemma load_root t root h :
  load t [] = (root, h) ->
  WFh h /\ slot_ok (map shape h) (length h) root /\ slot_val (table h) root = t.
Proof.
  intros E. destruct (load_ok t [] root h WFh_nil E) as (ext & -> & W & Hs & Hv). auto.
Qed.

Lemma load_root_stack a c els root h :
  load (VStack a c els) [] = (root, h) -> exists p, root = SS a p /\ S p = length h.
Proof.
  rewrite load_stack. destruct (load_list els []) as [ss h1]. intros E; inversion E; subst.
  exists (length h1). split; auto. rewrite app_length; simpl; lia.
Qed.
