(* ConcSpecCorr.v -- specification-side evaluation of recorded concurrent
   runs: the observed per-goroutine return values and the final content must
   be those of SOME sequential execution of all calls that keeps each
   goroutine's own order (linearizability), without panic or deadlock.
   Independent of Generated.v and of the model. *)
From Stackage Require Import Base StackSpec StackSpecCorr.
Open Scope Z_scope.

Module ConcSyntax.
  Import SpecSyntax.
  Notation MPush := (@SPush el). Notation MPop := (@SPop el). Notation MInsert := (@SInsert el).
  Notation MRemove := (@SRemove el). Notation MReplace := (@SReplace el). Notation MSwap := (@SSwap el).
  Notation MReverse := (@SReverse el). Notation MReset := (@SReset el).

  Record sccase := MkSC {
    sc_kind : N; sc_cap : option Z; sc_fifo : bool; sc_init : list el;
    sc_progs : list (list (sop el)); sc_sched : list nat;
    sc_results : list (list rout); sc_final : list el; sc_bad : bool }.

  Definition sinit (c : sccase) : sstate el :=
    {| s_cfg := {| a_kind := sc_kind c; a_cap := sc_cap c; a_opts := 0; a_fifo := sc_fifo c; a_err := None; a_ppf := None |};
       s_elems := sc_init c |}.

  (* remaining work: per goroutine, its remaining calls with the outputs observed for them *)
  Definition work := list (list (sop el * rout)).

  Fixpoint zip {A B} (a : list A) (b : list B) : list (A * B) :=
    match a, b with x :: a', y :: b' => (x, y) :: zip a' b' | _, _ => [] end.

  Definition all_empty (w : work) : bool := forallb (fun l => match l with [] => true | _ => false end) w.

  Definition i_sstep := sstep el ENil el_isnil el_isstack el_pol.

  (* depth-first search for a linearization: fuel = total number of calls *)
  Fixpoint lin (fuel : nat) (s : sstate el) (w : work) (final : list el) : bool :=
    if all_empty w then list_eqb el_eqb (s_elems s) final else
    match fuel with
    | O => false
    | S k =>
        (fix try (pre post : work) : bool :=
           match post with
           | [] => false
           | [] :: rest => try (pre ++ [[]]) rest
           | ((o, x) :: more) :: rest =>
               let '(s', y) := i_sstep s o in
               (sout_matches y x && lin k s' (pre ++ more :: rest) final) || try (pre ++ [(o, x) :: more]) rest
           end) [] w
    end.

  Definition total_calls (c : sccase) : nat := fold_right (fun p n => (length p + n)%nat) O (sc_progs c).

  Definition sc_ok (c : sccase) : bool :=
    negb (sc_bad c) &&
    forallb (fun pr => (length (fst pr) =? length (snd pr))%nat) (zip (sc_progs c) (sc_results c)) &&
    (length (sc_progs c) =? length (sc_results c))%nat &&
    lin (total_calls c) (sinit c) (map (fun pr => zip (fst pr) (snd pr)) (zip (sc_progs c) (sc_results c))) (sc_final c).

  Definition sc_check (c : sccase) : N := if sc_ok c then 0%N else 2%N.
End ConcSyntax.
