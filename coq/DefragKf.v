(* DefragKf.v -- the known-finding classification used by the check
   (DefragSpecCorr.list_class, specification side) against the model: on a
   list whose runs are all shorter than the limit, class 0 ("no known finding
   applies") implies that the model meets the property.  So a specification
   failure that the check does not attribute to a known finding can only come
   from an implementation that differs from the model. *)
From Stackage Require Import Base Values Generated StackImpl Defrag DefragSpec DefragSpecCorr DefragProofs.
Open Scope Z_scope.

Lemma testbit_land_pow2 n k : N.testbit n k = negb (N.land n (2 ^ k) =? 0)%N.
Proof.
  destruct (N.testbit n k) eqn:T.
  - destruct (N.eqb_spec (N.land n (2 ^ k)) 0) as [E|E]; [|reflexivity].
    assert (H : N.testbit (N.land n (2 ^ k)) k = true)
      by (rewrite N.land_spec, T, N.pow2_bits_true; reflexivity).
    rewrite E in H. discriminate.
  - replace (N.land n (2 ^ k)) with 0%N; [reflexivity|].
    symmetry. apply N.bits_inj. intros i. rewrite N.land_spec, N.bits_0, N.pow2_bits_eqb.
    destruct (N.eqb_spec k i); [subst i; rewrite T; reflexivity | apply andb_false_r].
Qed.

Lemma fwd_on_eq c : fwd_on c = cpositive c c_fwdidx.
Proof. unfold fwd_on, cpositive, g_flag_positive, c_fwdidx. apply (testbit_land_pow2 (c_opt c) 5). Qed.

(* the classification used by the check is tight at node level: when no
   known finding applies to a list whose runs are all shorter than the limit,
   the model meets the property on it *)
Lemma list_class_zero_good m fwd els :
  Z.of_nat (vmax_run els) < m -> list_class m fwd els = 0%N -> node_good m fwd els = true.
Proof.
  intros Hr H. unfold list_class in H.
  destruct (Z.ltb_spec (Z.of_nat (vmax_run els)) m); [|lia]. cbn [negb] in H.
  unfold node_good.
  destruct (first_nil value is_nil els) as [s|] eqn:Fn.
  - destruct (Z.leb_spec m (Z.of_nat s)); [discriminate|].
    destruct (Z.leb_spec m (Z.of_nat (gap value is_nil els))); [discriminate|].
    destruct ((fwd && last_set value is_nil els) || negb (trunc value is_nil els =? zlen (vnonnil els))) eqn:E;
      [discriminate|].
    apply orb_false_iff in E as [E1 E2]. apply negb_false_iff in E2.
    apply orb_true_iff. right.
    replace (Z.of_nat s <? m) with true by (symmetry; apply Z.ltb_lt; lia).
    replace (Z.of_nat (gap value is_nil els) <? m) with true by (symmetry; apply Z.ltb_lt; lia).
    rewrite E2, E1. reflexivity.
  - apply (first_nil_none_iff value is_nil) in Fn. rewrite Fn. reflexivity.
Qed.


Lemma node_good_meets neg fwd m els :
  zlen els < DBnd -> 0 < m -> node_good m fwd els = true ->
  exists e, defrag value VNil is_nil neg fwd m els = Ok (vnonnil els, e) /\ no_error e = true.
Proof.
  intros Hb Hm Hg.
  assert (Hpre : (forall s, first_nil value is_nil els = Some s -> Z.of_nat s < m) /\
                 Z.of_nat (gap value is_nil els) < m /\
                 (has_nil value is_nil els = false \/
                  (trunc value is_nil els = zlen (vnonnil els) /\ fwd && last_set value is_nil els = false))).
  { unfold node_good in Hg. apply orb_true_iff in Hg as [H|H].
    - apply negb_true_iff in H. repeat split.
      + intros s Fs. apply (first_nil_none_iff value is_nil) in H. congruence.
      + rewrite gap_nonil by exact H. lia.
      + left; exact H.
    - apply andb_true_iff in H as [H H4]. apply andb_true_iff in H as [H H3].
      apply andb_true_iff in H as [H1 H2]. repeat split.
      + intros s Fs. rewrite Fs in H1. apply Z.ltb_lt in H1. exact H1.
      + apply Z.ltb_lt in H2. exact H2.
      + right. split; [apply Z.eqb_eq; exact H3 | apply negb_true_iff; exact H4]. }
  destruct Hpre as (Hp1 & Hp2 & Hp3).
  destruct (defrag_correct_iff value VNil is_nil eq_refl is_nil_uniq neg fwd m els Hb Hp1 Hp2)
    as (r & e & Hd & Hiff).
  apply Hiff in Hp3. destruct Hp3 as [-> Hne]. exists e. split; assumption.
Qed.

(* the classification the check uses is tight on lists: if every run is
   shorter than the limit and no known finding applies, the model -- hence,
   by the correspondence check, the implementation -- meets the property *)
Theorem kf_zero_meets neg fwd m els :
  zlen els < DBnd -> 0 < m -> Z.of_nat (vmax_run els) < m -> list_class m fwd els = 0%N ->
  exists e, defrag value VNil is_nil neg fwd m els = Ok (vnonnil els, e) /\ no_error e = true.
Proof.
  intros Hb Hm Hr Hc. apply node_good_meets; try assumption.
  apply list_class_zero_good; assumption.
Qed.
