(* GuardLockProps.v -- the lockset analysis (GuardLock.v) applied to the table
   regenerated from /repo: the eight content mutators of C10 keep the lock
   discipline on every path, and the lock bookkeeping field is stored only
   between Mutex.Lock and Mutex.Unlock. *)
From Stackage Require Import Base Guard GuardLock GeneratedIR GuardProps.

Definition lock_mutators : list bytes :=
  map B ["Push"; "Pop"; "Insert"; "Remove"; "Replace"; "Swap"; "Reverse"; "Reset"]%string.

Definition is_lock_mutator (e : entry) : bool :=
  (en_recv e =? rc_Stack)%N && existsb (bytes_eqb (en_name e)) lock_mutators.

Definition U_lock := Eval vm_compute in lrefine 80 ir_table env_init [].

Definition fid_of (name : bytes) : option N :=
  match find (fun p => bytes_eqb (snd p) name) ir_names with Some p => Some (fst p) | None => None end.

Definition lock_mutators_present : bool :=
  forallb (fun q => existsb (fun e => (en_recv e =? rc_Stack)%N && bytes_eqb (en_name e) q) ir_entries) lock_mutators.

Definition lockset_check : bool :=
  lock_post_fixpoint ir_table env_init U_lock &&
  forallb (fun e => negb (is_lock_mutator e) || lock_entry_accepted ir_table U_lock e) ir_entries &&
  lock_mutators_present.

Lemma lockset_static :
  lockset_check = true ->
  forall e, In e ir_entries -> is_lock_mutator e = true -> lock_entry_ok ir_table env_init e.
Proof.
  unfold lockset_check. intros H. apply andb_true_iff in H as [H _]. apply andb_true_iff in H as [H1 H2].
  rewrite forallb_forall in H2. intros e He Hm. specialize (H2 e He). rewrite Hm in H2. cbn in H2.
  exact (lock_entry_sound _ _ _ H1 _ H2).
Qed.

(* the same for EVERY exported method of Stack, *Stack, Condition, *Condition,
   with one exception: Stack.Defrag, whose worker truncates the slice header
   after implode has released the lock (not one of the calls C10 names; see
   DESIGN.md) *)
Definition lock_exceptions : list (N * bytes) := [(rc_Stack, B "Defrag")].

Definition lockset_all_check : bool :=
  lock_post_fixpoint ir_table env_init U_lock &&
  forallb (fun e => negb (is_inst_class e) || named lock_exceptions e || lock_entry_accepted ir_table U_lock e) ir_entries.

Lemma lockset_all_static :
  lockset_all_check = true ->
  forall e, In e ir_entries -> is_inst_class e = true -> named lock_exceptions e = false ->
            lock_entry_ok ir_table env_init e.
Proof.
  unfold lockset_all_check. intros H. apply andb_true_iff in H as [H1 H2].
  rewrite forallb_forall in H2. intros e He Hc Hn. specialize (H2 e He). rewrite Hc, Hn in H2. cbn in H2.
  exact (lock_entry_sound _ _ _ H1 _ H2).
Qed.

(* the bookkeeping field *)
Definition ldr_check : bool :=
  match fid_of (B "*stack.lock"), fid_of (B "*stack.unlock") with
  | Some fl, Some fu =>
      match lookup ir_table fl, lookup ir_table fu with
      | Some bl, Some bu =>
          match ldr_after_lock ir_table false bl, ldr_before_unlock ir_table false bu with
          | Some _, Some _ => true
          | _, _ => false
          end
      | _, _ => false
      end
  | _, _ => false
  end.

Lemma ldr_static :
  ldr_check = true ->
  exists fl fu bl bu,
    fid_of (B "*stack.lock") = Some fl /\ fid_of (B "*stack.unlock") = Some fu /\
    lookup ir_table fl = Some bl /\ lookup ir_table fu = Some bu /\
    (forall top tr o, exec (lookup ir_table) env_init top bl tr o -> ldr_ok is_mlock true false tr) /\
    (forall top tr o, exec (lookup ir_table) env_init top bu tr o -> ldr_ok is_munlock false false tr).
Proof.
  unfold ldr_check. intros H.
  destruct (fid_of (B "*stack.lock")) as [fl|]; [|discriminate].
  destruct (fid_of (B "*stack.unlock")) as [fu|]; [|discriminate].
  destruct (lookup ir_table fl) as [bl|] eqn:Ll; [|discriminate].
  destruct (lookup ir_table fu) as [bu|] eqn:Lu; [|discriminate].
  destruct (ldr_after_lock ir_table false bl) as [r1|] eqn:A1; [|discriminate].
  destruct (ldr_before_unlock ir_table false bu) as [r2|] eqn:A2; [|discriminate].
  exists fl, fu, bl, bu. repeat split; auto.
  - intros top tr o X. exact (proj1 (ldr_after_lock_sound _ _ _ _ _ _ X _ _ A1)).
  - intros top tr o X. exact (proj1 (ldr_before_unlock_sound _ _ _ _ _ _ X _ _ A2)).
Qed.

(* every other store to that field in the whole table? only lock/unlock may
   contain one *)
Fixpoint has_ldr_write (s : gstmt) : bool :=
  match s with
  | GSeq a b | GFinally a b => has_ldr_write a || has_ldr_write b
  | GIf _ t e => has_ldr_write t || has_ldr_write e
  | GLoop b => has_ldr_write b
  | GEv (EWrite LCfgLdr) => true
  | _ => false
  end.

Definition ldr_writers : list N := map fst (filter (fun p => has_ldr_write (snd p)) ir_table).

Definition ldr_only_in_lock_unlock : bool :=
  match fid_of (B "*stack.lock"), fid_of (B "*stack.unlock") with
  | Some fl, Some fu => forallb (fun f => (f =? fl)%N || (f =? fu)%N) ldr_writers
  | _, _ => false
  end.

(* diagnostics for the check *)
Definition lock_failing : list bytes :=
  map en_name (filter (fun e => is_lock_mutator e && negb (lock_entry_accepted ir_table U_lock e)) ir_entries).
Definition U_lock_names : list (option bytes * bool) :=
  map (fun p => (option_map snd (find (fun q => (fst q =? fst p)%N) ir_names), snd p)) U_lock.

