(* Traverse.v -- model of Stack.Traverse, stack.traverse,
   traverseAssertionHandler, traverseStackInCondition, traverseStack and
   stack.index (stack.go) on trees of Values.value, written the way the Go
   code is written: the same helper structure, the same order of checks, the
   loop of stack.traverse with its named results, r.valid() on entry of every
   stack, the converted Condition (not the original value) handed back by
   traverseStackInCondition.  The scalar part of stack.index is g_index from
   Generated.v (regenerated from /repo on every run); r[i] on a missing slot
   is [Panic]; the configuration slot leaking out is [Unmodelled].
   No proofs in this file. *)
From Stackage Require Import Base Generated StackImpl Values.
Open Scope Z_scope.

(* slice, ok, done *)
Definition out3 := (value * bool * bool)%type.
Definition zero3 : out3 := (VNil, false, false).

Section Model.
  (* user validity policies: policy id -> the stack -> true iff the closure
     returns an error *)
  Variable vpol : N -> config -> list value -> bool.

  (* stack.valid: isInit (true for every VStack), then the validity policy *)
  Definition valid (c : config) (els : list value) : bool :=
    match c_vpf c with
    | Some p => if vpol p c els then false else true
    | None => true
    end.

  (* stackTypeAliasConverter: native Stack, alias, pointer to alias; zero
     instances and everything else are not converted *)
  Definition conv_stack (u : value) : option (config * list value) :=
    match u with
    | VStack _ c els => Some (c, els)
    | _ => None
    end.

  (* conditionTypeAliasConverter: the converted (native) Condition and, for
     Condition.Expression, its expression *)
  Definition conv_cond (u : value) : option (value * value) :=
    match u with
    | VCond _ c kw op ex => Some (VCond Native c kw op ex, ex)
    | _ => None
    end.

  (* r[i] on the slice "configuration slot followed by the elements" *)
  Definition slot (els : list value) (i : Z) : res value :=
    if i <? 0 then Panic
    else if i =? 0 then Unmodelled
    else match nth_error els (Z.to_nat (i - 1)) with
         | Some v => Ok v
         | None => Panic
         end.

  (* stack.index: (slice, ok) -- the idx result is not used by traverse *)
  Definition index (c : config) (els : list value) (i : Z) : res (value * bool) :=
    match g_index (g_ulen (zlen els + 1))
                  (g_flag_positive (c_opt c) c_negidx) (g_flag_positive (c_opt c) c_fwdidx) i with
    | TRet _ [ok] => Ok (VNil, ok)
    | TCut 0 [i'; _] [_] => do v <- slot els i'; Ok (v, negb (is_nil v))
    | _ => Unmodelled
    end.

  (* The three helpers.  [rec c els] stands for s.stack.traverse(indices[1:]...)
     on the converted stack; [n] is len(indices). *)

  (* traverseStack *)
  Definition traverseStack (rec : config -> list value -> res out3) (u : value) (n : Z) : res out3 :=
    match conv_stack u with
    | Some (c, els) =>
        if n <=? 1 then Ok (u, true, true)
        else rec c els
    | None => Ok zero3
    end.

  (* traverseStackInCondition *)
  Definition traverseStackInCondition (rec : config -> list value -> res out3) (u : value) (n : Z) : res out3 :=
    match conv_cond u with
    | Some (cv, expr) =>
        if n <=? 1 then Ok (cv, true, true)
        else traverseStack rec expr n
    | None => Ok zero3
    end.

  (* traverseAssertionHandler *)
  Definition traverseAssertionHandler (rec : config -> list value -> res out3) (x : value) (n : Z) : res out3 :=
    do r1 <- traverseStack rec x n;
    let '(_, ok1, _) := r1 in
    if ok1 then Ok r1 else
    do r2 <- traverseStackInCondition rec x n;
    let '(_, ok2, done2) := r2 in
    if ok2 then Ok r2 else
    if n <=? 1 then Ok (x, true, true)
    else Ok (VNil, ok2, done2).

  (* stack.traverse.  The for-loop runs over the positions of [indices];
     [last] holds the named results (slice, ok, done) as they stand when an
     iteration begins.  [cont] selects the statement after the handler call:
     false = the code as it is (`break` in every case, D07 repaired),
     true = the former `if ...; !done { continue }`. *)
  Fixpoint traverse_gen (cont : bool) (c : config) (els : list value) (indices : list Z) {struct indices} : res out3 :=
    if valid c els then
      match indices with
      | [] => Ok zero3
      | _ :: tail =>
          let n := zlen indices in
          let rec := fun c' els' => traverse_gen cont c' els' tail in
          (fix loop (rest : list Z) (last : out3) {struct rest} : res out3 :=
             match rest with
             | [] => Ok last
             | current :: rest' =>
                 do r <- index c els current;
                 let '(instance, found) := r in
                 if found then
                   do h <- traverseAssertionHandler rec instance n;
                   let '(_, _, done) := h in
                   if cont && negb done then loop rest' h else Ok h
                 else Ok last
             end) indices zero3
      end
    else Ok zero3.

  Definition traverse := traverse_gen false.

  (* Stack.Traverse; a receiver that is not a Stack cannot be called *)
  Definition Traverse_gen (cont : bool) (r : value) (indices : list Z) : res (value * bool) :=
    match r with
    | VStack _ c els => do h <- traverse_gen cont c els indices; let '(s, ok, _) := h in Ok (s, ok)
    | VZeroStack _ => Ok (VNil, false)
    | _ => Unmodelled
    end.
  Definition Traverse := Traverse_gen false.

End Model.
