(* Policy.v -- dispatch to the user-supplied closures (validity,
   presentation, equality, marshal, unmarshal, evaluator) of a Stack or a
   Condition, as the public methods do it.  The closures themselves are
   Section variables: arbitrary functions of a closure identity and of the
   instance state they are handed (type S), so every theorem holds for every
   closure.  Built-in results are parameters too ([bi_*]): what they are is
   the business of C02/C05/C06/C04; here only WHO decides is modelled. *)
From Stackage Require Import Base Generated.

Section Policy.
  Variable S : Type.                       (* the instance handed to a closure *)
  Variable R : Type.                       (* results of String / Unmarshal / Evaluate closures *)
  Variable vp : N -> S -> option N.        (* validity closure: error or none *)
  Variable rp : N -> S -> R.               (* presentation closure *)
  Variable ep : N -> S -> S -> option N.   (* equality closure *)
  Variable up : N -> R * option N.         (* unmarshal closure *)
  Variable mp : N -> R -> option N.        (* marshal closure (argument = the input) *)
  Variable vl : N -> R -> R * option N.    (* evaluator *)

  Record pcfg := {
    p_kind : N;
    p_vpf : option N; p_rpf : option N; p_eqf : option N; p_umf : option N; p_maf : option N; p_evl : option N;
    p_err : bool   (* an error has been recorded by a refused setter *)
  }.

  Definition e_invalid : N := 900.        (* "embedded instance is invalid" *)
  Definition e_noeval : N := 901.         (* "No func/meth found" *)

  (* ---- Stack ---- *)
  (* stack.valid() *)
  Definition stack_valid (c : pcfg) (s : S) : bool :=
    match p_vpf c with
    | Some f => match vp f s with Some _ => false | None => true end
    | None => true
    end.
  (* Stack.Valid() on an initialised stack: its own error text, raised exactly when the closure reports one *)
  Definition Stack_Valid (c : pcfg) (s : S) : option N := if stack_valid c s then None else Some e_invalid.

  Inductive outcome := ByClosure (r : R) | BuiltIn | Empty.

  (* Stack.String(): canString (valid, kind neither 0 nor BASIC), then the policy, then the built-in *)
  Definition Stack_String (c : pcfg) (s : S) : outcome :=
    if stack_valid c s && negb (p_kind c =? 0)%N && negb (p_kind c =? c_basic)%N then
      match p_rpf c with Some f => ByClosure (rp f s) | None => BuiltIn end
    else Empty.

  (* setPresentationPolicy: a BASIC stack refuses and records an error *)
  Definition set_rpf (c : pcfg) (f : option N) : pcfg :=
    if (p_kind c =? c_basic)%N then
      {| p_kind := p_kind c; p_vpf := p_vpf c; p_rpf := p_rpf c; p_eqf := p_eqf c; p_umf := p_umf c; p_maf := p_maf c;
         p_evl := p_evl c; p_err := true |}
    else
      {| p_kind := p_kind c; p_vpf := p_vpf c; p_rpf := f; p_eqf := p_eqf c; p_umf := p_umf c; p_maf := p_maf c;
         p_evl := p_evl c; p_err := p_err c |}.

  Inductive eqres := EqClosure (e : option N) | EqBuiltIn.
  (* Stack.IsEqual(o) with o a convertible Stack: the closure decides when present *)
  Definition Stack_IsEqual (c : pcfg) (s o : S) : eqres :=
    match p_eqf c with Some f => EqClosure (ep f s o) | None => EqBuiltIn end.

  Inductive ures := UClosure (r : R) (e : option N) | UBuiltIn.
  Definition Stack_Unmarshal (c : pcfg) : ures :=
    match p_umf c with Some f => let '(r, e) := up f in UClosure r e | None => UBuiltIn end.

  Inductive mres := MClosure (e : option N) | MBuiltIn.
  (* Stack.Marshal(in...) on an initialised receiver *)
  Definition Stack_Marshal (c : pcfg) (input : R) : mres :=
    match p_maf c with Some f => MClosure (mp f input) | None => MBuiltIn end.

  (* ---- Condition ---- *)
  Inductive vres := VClosure (e : option N) | VBuiltIn.
  (* Condition.Valid(): the closure's verdict IS the result *)
  Definition Cond_Valid (c : pcfg) (s : S) : vres :=
    match p_vpf c with Some f => VClosure (vp f s) | None => VBuiltIn end.
  (* Condition.String(): empty unless Valid() is nil; then the policy, then the built-in.
     [bi_valid] = verdict of the built-in validity test *)
  Definition Cond_String (c : pcfg) (s : S) (bi_valid : bool) : outcome :=
    let ok := match Cond_Valid c s with VClosure e => match e with None => true | Some _ => false end | VBuiltIn => bi_valid end in
    if ok then match p_rpf c with Some f => ByClosure (rp f s) | None => BuiltIn end else Empty.
  Definition Cond_IsEqual (c : pcfg) (s o : S) : eqres :=
    match p_eqf c with Some f => EqClosure (ep f s o) | None => EqBuiltIn end.
  Definition Cond_Unmarshal (c : pcfg) : ures :=
    match p_umf c with Some f => let '(r, e) := up f in UClosure r e | None => UBuiltIn end.
  Inductive evres := EvClosure (r : R) (e : option N) | EvNone.
  Definition Cond_Evaluate (c : pcfg) (x : R) : evres :=
    match p_evl c with Some f => let '(r, e) := vl f x in EvClosure r e | None => EvNone end.
End Policy.
Arguments ByClosure {R}. Arguments BuiltIn {R}. Arguments Empty {R}.
Arguments UClosure {R}. Arguments UBuiltIn {R}.
Arguments EvClosure {R}. Arguments EvNone {R}.
