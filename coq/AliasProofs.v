(* AliasProofs.v -- C12, part 1: the converters (characterisation and
   convert_spec), erasure lemmas, and the homomorphism theorems for String,
   IsNesting, Len, the no-nesting refusal of Push and SetExpression.
   All theorems quantify over all trees (structural induction, value_ind'). *)
From Stackage Require Import Base Generated StackImpl Values JVal AliasSpec Alias.
From Stackage Require Render.
Open Scope Z_scope.

(* ---- the converters ---- *)
Lemma leaf_reach_rv g :
  snd (leaf_reach g) = RvInvalid \/ snd (leaf_reach g) = RvOther.
Proof.
  induction g; cbn [leaf_reach snd]; auto.
Qed.

Lemma conv_stack_char u :
  conv_stack u = match u with VStack _ c els => Some (c, els) | _ => None end.
Proof.
  destruct u as [|g|a c els|a c kw op ex|a|a]; cbn [conv_stack deref_ptr]; try reflexivity;
    try (destruct a; reflexivity).
  destruct (leaf_reach g) as [[ts tc] v] eqn:E.
  pose proof (leaf_reach_rv g) as H. rewrite E in H. cbn [snd] in H.
  destruct H as [-> | ->]; reflexivity.
Qed.

Lemma conv_cond_char u :
  conv_cond u = match u with VCond _ c kw op ex => Some (c, kw, op, ex) | _ => None end.
Proof.
  destruct u as [|g|a c els|a c kw op ex|a|a]; cbn [conv_cond deref_ptr]; try reflexivity;
    try (destruct a; reflexivity).
  destruct (leaf_reach g) as [[ts tc] v] eqn:E.
  pose proof (leaf_reach_rv g) as H. rewrite E in H. cbn [snd] in H.
  destruct H as [-> | ->]; reflexivity.
Qed.

(* convert_spec: the model of ConvertStack / ConvertCondition is the
   specification: the underlying native instance for every alias (value or
   pointer, with or without String), (zero, false) for nil, zero-valued
   natives and aliases, nil pointers of any depth and type, foreign values *)
Theorem convert_stack_spec u : ConvertStack u = spec_convert_stack u.
Proof. unfold ConvertStack. rewrite conv_stack_char. destruct u; reflexivity. Qed.

Theorem convert_cond_spec u : ConvertCondition u = spec_convert_cond u.
Proof. unfold ConvertCondition. rewrite conv_cond_char. destruct u; reflexivity. Qed.

Theorem convert_alias_native a c els :
  ConvertStack (VStack a c els) = Some (VStack Native c els).
Proof. rewrite convert_stack_spec. reflexivity. Qed.

Theorem convert_alias_native_cond a c kw op ex :
  ConvertCondition (VCond a c kw op ex) = Some (VCond Native c kw op ex).
Proof. rewrite convert_cond_spec. reflexivity. Qed.

Theorem convert_refuses u :
  (u = VNil \/ (exists a, u = VZeroStack a) \/ (exists a, u = VZeroCond a) \/ (exists g, u = VLeaf g)) ->
  ConvertStack u = None /\ ConvertCondition u = None.
Proof.
  rewrite convert_stack_spec, convert_cond_spec.
  intros [-> | [[a ->] | [[a ->] | [g ->]]]]; split; reflexivity.
Qed.

Theorem convert_cross u :
  (forall c kw op ex a, u = VCond a c kw op ex -> ConvertStack u = None) /\
  (forall c els a, u = VStack a c els -> ConvertCondition u = None).
Proof.
  split; intros; subst; [rewrite convert_stack_spec | rewrite convert_cond_spec]; reflexivity.
Qed.

(* ---- erasure ---- *)
Lemma erase_alias_idem v : erase_alias (erase_alias v) = erase_alias v.
Proof.
  induction v as [|g|a c els IH|a c kw op ex IH|a|a] using value_ind'; cbn [erase_alias]; try reflexivity.
  - f_equal. rewrite map_map. apply map_ext_in. intros x Hx.
    rewrite Forall_forall in IH. apply IH, Hx.
  - now rewrite IH.
Qed.

Lemma erase_is_nil v : is_nil (erase_alias v) = is_nil v.
Proof. destruct v; reflexivity. Qed.

Lemma erase_nil : erase_alias VNil = VNil.
Proof. reflexivity. Qed.

Lemma erase_native v : native_tree v = true -> erase_alias v = v.
Proof.
  induction v as [|g|a c els IH|a c kw op ex IH|a|a] using value_ind'; cbn [erase_alias native_tree]; try reflexivity.
  - intros H. apply andb_true_iff in H as [Ha Hl]. destruct a; try discriminate. f_equal.
    rewrite forallb_forall in Hl. rewrite Forall_forall in IH.
    rewrite <- (map_id els) at 2. apply map_ext_in. intros x Hx. apply IH; auto.
  - intros H. apply andb_true_iff in H as [Ha Hl]. destruct a; try discriminate. now rewrite IH.
Qed.

Lemma erase_alias_native v : native_tree (erase_alias v) = true \/ no_zero_alias v = false.
Proof.
  induction v as [|g|a c els IH|a c kw op ex IH|a|a] using value_ind'; cbn [erase_alias native_tree no_zero_alias is_native]; auto.
  - induction els as [|x t IHt]; cbn [map forallb]; auto.
    inversion IH as [|? ? Hx Ht]; subst.
    destruct Hx as [Hx | Hx]; [|right; now rewrite Hx].
    destruct (IHt Ht) as [Ht' | Ht']; [|right; rewrite Ht'; apply andb_false_r].
    left. cbn [andb] in *. now rewrite Hx.
  - destruct a; auto.
  - destruct a; auto.
Qed.

Lemma erase_all_alias v : no_zero_alias v = true -> erase_all v = erase_alias v.
Proof.
  induction v as [|g|a c els IH|a c kw op ex IH|a|a] using value_ind'; cbn [erase_all erase_alias no_zero_alias]; try reflexivity.
  - intros H. f_equal. rewrite forallb_forall in H. rewrite Forall_forall in IH.
    apply map_ext_in. intros x Hx. apply IH; auto.
  - intros H. now rewrite IH.
  - destruct a; try discriminate; reflexivity.
  - destruct a; try discriminate; reflexivity.
Qed.

Lemma conv_stack_erase u :
  conv_stack (erase_alias u) =
  match conv_stack u with Some (c, els) => Some (c, map erase_alias els) | None => None end.
Proof. rewrite !conv_stack_char. destruct u; reflexivity. Qed.

Lemma conv_cond_erase u :
  conv_cond (erase_alias u) =
  match conv_cond u with Some (c, kw, op, ex) => Some (c, kw, op, erase_alias ex) | None => None end.
Proof. rewrite !conv_cond_char. destruct u; reflexivity. Qed.

Lemma a_isstack_erase x : a_isstack (erase_alias x) = a_isstack x.
Proof. unfold a_isstack. rewrite conv_stack_erase. destruct (conv_stack x) as [[? ?]|]; reflexivity. Qed.

(* ---- String ---- *)
Lemma a_dah_erase c x xs : a_dah c (erase_alias x) xs = a_dah c x xs.
Proof.
  unfold a_dah. rewrite conv_stack_erase, conv_cond_erase, conv_stack_char, conv_cond_char.
  destruct x; reflexivity.
Qed.

Lemma a_collect_erase fixc c els :
  Forall (fun x => a_string_gen fixc (erase_alias x) = a_string_gen fixc x) els ->
  a_collect c (map (fun x => (x, a_string_gen fixc x)) (map erase_alias els)) =
  a_collect c (map (fun x => (x, a_string_gen fixc x)) els).
Proof.
  induction 1 as [|x t Hx Ht IH]; cbn [map a_collect]; [reflexivity|].
  rewrite a_dah_erase, Hx, IH. reflexivity.
Qed.

(* the general statement: with the candidate repair (fixc = true) for every
   tree; for the code as it is on every tree in which no Condition holds, as
   its expression, a Condition alias without a String method of its own *)
Lemma a_string_gen_erase fixc t :
  fixc = true \/ cond_exprs_ok t = true ->
  a_string_gen fixc (erase_alias t) = a_string_gen fixc t.
Proof.
  induction t as [|g|a c els IH|a c kw op ex IH|a|a] using value_ind';
    cbn [erase_alias a_string_gen cond_exprs_ok]; try reflexivity.
  - intros H. unfold a_stack_string. rewrite a_collect_erase; [reflexivity|].
    rewrite Forall_forall in *. intros x Hx. apply IH; auto.
    destruct H as [H|H]; [now left|right]. rewrite forallb_forall in H. auto.
  - intros H.
    assert (H1 : fixc = true \/ cond_exprs_ok ex = true).
    { destruct H as [H|H]; [now left|right]. now apply andb_true_iff in H as [_ H]. }
    unfold a_cond_string_gen, Render.cond_valid.
    rewrite erase_is_nil, conv_stack_erase, conv_cond_erase, IH by assumption.
    rewrite conv_stack_char, conv_cond_char.
    destruct ex as [|g|a' c' els'|a' c' kw' op' ex'|a'|a']; try reflexivity.
    cbn [erase_alias get_stringer akind_has_string].
    destruct fixc; [reflexivity|].
    destruct H as [H|H]; [discriminate|].
    apply andb_true_iff in H as [Hg _].
    cbn [cond_holds_plain_alias_cond alias_without_string] in Hg.
    destruct a'; try discriminate; reflexivity.
Qed.

(* erase_alias_hom_String for the code as it is: the rendering of a tree
   does not depend on how its nested Stacks / Conditions are typed --
   provided no Condition holds, as its expression, a Condition alias without
   a String method of its own (a_string_alias_cond_refuted: the guard is
   needed) *)
Theorem erase_alias_hom_string_partial t :
  cond_exprs_ok t = true -> a_string (erase_alias t) = a_string t.
Proof. intros H. apply a_string_gen_erase. now right. Qed.

(* ... and for the code with the candidate repair: every tree *)
Theorem erase_alias_hom_string_repaired t :
  a_string_gen true (erase_alias t) = a_string_gen true t.
Proof. apply a_string_gen_erase. now left. Qed.

(* every String() of every node: the list the harness records *)
Lemma strings_gen_erase fixc t :
  fixc = true \/ cond_exprs_ok t = true ->
  map (a_string_gen fixc) (Render.subnodes (erase_alias t)) = map (a_string_gen fixc) (Render.subnodes t).
Proof.
  induction t as [|g|a c els IH|a c kw op ex IH|a|a] using value_ind';
    cbn [erase_alias Render.subnodes cond_exprs_ok]; try reflexivity; intros H.
  - cbn [map]. f_equal.
    + apply (a_string_gen_erase fixc (VStack a c els)). exact H.
    + assert (H' : forall x, In x els -> fixc = true \/ cond_exprs_ok x = true).
      { intros x Hx. destruct H as [H|H]; [now left|right]. cbn [cond_exprs_ok] in H.
        rewrite forallb_forall in H. auto. }
      rewrite Forall_forall in IH.
      clear a c H. induction els as [|x t IHt]; cbn [map flat_map]; [reflexivity|].
      rewrite !map_app. f_equal.
      * apply IH; [left; reflexivity | apply H'; left; reflexivity].
      * apply IHt; [intros y Hy Hy'; apply IH; [right; exact Hy | exact Hy'] | intros y Hy; apply H'; right; exact Hy].
  - cbn [map]. f_equal.
    + apply (a_string_gen_erase fixc (VCond a c kw op ex)). exact H.
    + apply IH. destruct H as [H|H]; [now left|right]. cbn [cond_exprs_ok] in H.
      now apply andb_true_iff in H as [_ H].
Qed.

Theorem erase_alias_hom_strings_partial t :
  cond_exprs_ok t = true ->
  map a_string (Render.subnodes (erase_alias t)) = map a_string (Render.subnodes t).
Proof. intros H. apply strings_gen_erase. now right. Qed.

(* the full statement is false of the code as it stands *)
Definition wit_cond_alias_cond : value :=
  VCond Native (cfgS 5 0 [] [] [] false 0) (B "k") (Some (OpBuiltin 1))
        (VCond AliasVal (cfgS 5 0 [] [] [] false 0) (B "k2") (Some (OpBuiltin 1)) (VLeaf (GStr (B "v")))).

Theorem a_string_alias_cond_refuted :
  exists t, a_string_gen false t <> a_string_gen false (erase_alias t) /\
            a_string_gen false t = Ok (B "k = unsupported_primitive_type") /\
            a_string_gen false (erase_alias t) = Ok (B "k = k2 = v").
Proof.
  exists wit_cond_alias_cond. split; [|split]; vm_compute; try reflexivity. discriminate.
Qed.

(* on all-native trees the alias-aware rendering is the rendering model of
   C02, so every theorem of Props/C02 transfers to trees with aliases *)
Lemma a_dah_native c x xs :
  native_tree x = true -> a_dah c x xs = Render.defaultAssertionHandler c x xs.
Proof.
  intros H. unfold a_dah, Render.defaultAssertionHandler. rewrite conv_stack_char, conv_cond_char.
  destruct x as [|g|a c' els|a c' kw op ex|a|a]; cbn [native_tree is_native] in H; try reflexivity.
  - cbn [get_stringer]. destruct (Render.stringer_text g); reflexivity.
  - destruct a; try discriminate. reflexivity.
  - destruct a; try discriminate. reflexivity.
  - destruct a; try discriminate. reflexivity.
  - destruct a; try discriminate. reflexivity.
Qed.

Theorem a_string_gen_native fixc t :
  native_tree t = true -> a_string_gen fixc t = Render.node_string t.
Proof.
  induction t as [|g|a c els IH|a c kw op ex IH|a|a] using value_ind';
    cbn [native_tree is_native a_string_gen Render.node_string]; intros H; try reflexivity.
  - apply andb_true_iff in H as [Ha Hl]. destruct a; try discriminate.
    unfold a_stack_string, Render.stack_string.
    assert (E : a_collect c (map (fun x => (x, a_string_gen fixc x)) els) =
                Render.collect c (map (fun x => (x, Render.node_string x)) els)).
    { rewrite forallb_forall in Hl. rewrite Forall_forall in IH.
      induction els as [|x t IHt]; cbn [map a_collect Render.collect]; [reflexivity|].
      rewrite a_dah_native by (apply Hl; left; reflexivity).
      rewrite IH by (try (left; reflexivity); apply Hl; left; reflexivity).
      rewrite IHt; [reflexivity| |]; intros; [apply IH | apply Hl]; try right; auto. }
    rewrite E. reflexivity.
  - apply andb_true_iff in H as [Ha Hl]. destruct a; try discriminate.
    unfold a_cond_string_gen, Render.cond_string. rewrite IH by assumption. rewrite conv_stack_char, conv_cond_char.
    destruct ex as [|g|a' c' els'|a' c' kw' op' ex'|a'|a']; cbn [native_tree is_native] in Hl;
      try (destruct fixc; reflexivity);
      try (apply andb_true_iff in Hl as [Ha' _]); try (destruct a'; try discriminate; destruct fixc; reflexivity).
    cbn [get_stringer]. destruct (Render.stringer_text g); destruct fixc; reflexivity.
  - destruct a; try discriminate. reflexivity.
  - destruct a; try discriminate. reflexivity.
Qed.

Theorem a_string_native t :
  native_tree t = true -> a_string t = Render.node_string t.
Proof. apply a_string_gen_native. Qed.

(* ---- IsNesting ---- *)
Lemma nesting_elem_erase x : nesting_elem (erase_alias x) = nesting_elem x.
Proof.
  unfold nesting_elem. rewrite conv_stack_erase, conv_stack_char.
  destruct x as [|g|a c els|a c kw op ex|a|a]; try reflexivity. destruct a; reflexivity.
Qed.

Theorem erase_alias_hom_isnesting t : a_IsNesting (erase_alias t) = a_IsNesting t.
Proof.
  destruct t as [|g|a c els|a c kw op ex|a|a]; cbn [erase_alias a_IsNesting]; try reflexivity.
  - f_equal. induction els as [|x t IH]; cbn [map existsb]; [reflexivity|].
    now rewrite nesting_elem_erase, IH.
  - rewrite conv_stack_erase. destruct (conv_stack ex) as [[? ?]|]; reflexivity.
Qed.

(* zero-valued aliases are not values that convert: the type switch of
   stack.isNesting counts a zero native Stack{} as nesting, a zero alias not *)
Theorem isnesting_zero_alias_differs :
  a_IsNesting (VStack Native (cfg0 1) [VZeroStack AliasVal]) = Ok false /\
  a_IsNesting (VStack Native (cfg0 1) [VZeroStack Native]) = Ok true.
Proof. split; reflexivity. Qed.

(* ---- Len ---- *)
Lemma zlen_map {A B} (f : A -> B) l : zlen (map f l) = zlen l.
Proof. unfold zlen. now rewrite map_length. Qed.

Theorem erase_alias_hom_len t : a_Len (erase_alias t) = a_Len t.
Proof.
  destruct t as [|g|a c els|a c kw op ex|a|a]; cbn [erase_alias a_Len]; try reflexivity.
  - now rewrite zlen_map.
  - rewrite erase_is_nil, conv_stack_erase.
    destruct (conv_stack ex) as [[? ?]|]; [rewrite zlen_map|]; reflexivity.
Qed.

(* ---- the list core under a renaming of element values ---- *)
Section SlotMap.
  Variable f : value -> value.
  Variable isstack : value -> bool.
  Variable pol : N -> value -> option N.
  Hypothesis f_nil : f VNil = VNil.
  Hypothesis f_isnil : forall x, is_nil (f x) = is_nil x.
  Hypothesis f_isstack : forall x, isstack (f x) = isstack x.
  Hypothesis f_pol : forall p x, pol p (f x) = pol p x.

  Definition smap1 (s : slot value) : slot value :=
    match s with SVal v => SVal (f v) | SCfg c => SCfg c end.
  Definition smap (r : raw value) : raw value := map smap1 r.

  Lemma smap_zlen r : zlen (smap r) = zlen r.
  Proof. apply zlen_map. Qed.

  Lemma smap_config r : StackImpl.config value (smap r) = StackImpl.config value r.
  Proof. destruct r as [|[c|v] t]; reflexivity. Qed.

  Lemma smap_is_init r : is_init value (smap r) = is_init value r.
  Proof. destruct r as [|[c|v] t]; reflexivity. Qed.

  Lemma smap_ulen r : ulen value (smap r) = ulen value r.
  Proof. unfold ulen. now rewrite smap_zlen. Qed.

  Lemma smap_app r x : smap (r ++ [SVal x]) = smap r ++ [SVal (f x)].
  Proof. unfold smap. now rewrite map_app. Qed.

  Lemma smap_set_config r c : smap (set_config value r c) = set_config value (smap r) c.
  Proof. destruct r; reflexivity. Qed.

  Lemma slot_val_smap s : slot_val value VNil (smap1 s) = f (slot_val value VNil s).
  Proof. destruct s; cbn; auto. Qed.

  Lemma slot_notnil_smap s : slot_notnil value is_nil (smap1 s) = slot_notnil value is_nil s.
  Proof. destruct s; cbn; auto. now rewrite f_isnil. Qed.

  Lemma generic_append_smap c r xs :
    generic_append value isstack c (smap r) (map f xs) = smap (generic_append value isstack c r xs).
  Proof.
    revert r. induction xs as [|x t IH]; intros r; cbn [map generic_append]; [reflexivity|].
    unfold can_push_nester. rewrite f_isstack, smap_zlen.
    destruct (StackImpl.positive c c_nnest); [destruct (isstack x)|]; cbn [negb];
      try apply IH; destruct (g_isFull (zlen r) (k_cap c)); cbn [negb]; try apply IH;
      rewrite <- smap_app; apply IH.
  Qed.

  Lemma method_append_smap p c r xs log :
    method_append value pol p c (smap r) (map f xs) (map f log) =
    let '(r', e, log') := method_append value pol p c r xs log in (smap r', e, map f log').
  Proof.
    revert r log. induction xs as [|x t IH]; intros r log; cbn [map method_append]; [reflexivity|].
    rewrite smap_zlen, f_pol.
    destruct (g_isFull (zlen r) (k_cap c)); cbn [negb]; [apply IH|].
    destruct (pol p x).
    - now rewrite map_app.
    - rewrite <- smap_app. replace (map f log ++ [f x]) with (map f (log ++ [x])) by now rewrite map_app.
      apply IH.
  Qed.

  Lemma push_smap r xs :
    push value isstack pol (smap r) (map f xs) =
    rmap (fun o => (smap (fst o), map f (snd o))) (push value isstack pol r xs).
  Proof.
    unfold push. rewrite smap_config. destruct (StackImpl.config value r) as [c| |]; cbn [bind rmap]; try reflexivity.
    destruct (k_ppf c) as [p|].
    - pose proof (method_append_smap p c r xs []) as H. cbn [map] in H. rewrite H.
      destruct (method_append value pol p c r xs []) as [[r' e] log'].
      destruct e; cbn [rmap fst snd]; [rewrite smap_set_config|]; reflexivity.
    - cbn [rmap fst snd]. now rewrite generic_append_smap.
  Qed.

  Lemma vals_of_smap r : vals_of (smap r) = map f (vals_of r).
  Proof.
    unfold vals_of, smap. destruct r as [|s t]; [reflexivity|]. cbn [map tl].
    rewrite !map_map. apply map_ext. intros x. apply slot_val_smap.
  Qed.

  Lemma raw_of_map c els : raw_of c (map f els) = smap (raw_of c els).
  Proof. unfold raw_of, smap. cbn [map smap1]. now rewrite !map_map. Qed.
End SlotMap.

(* ---- Push (no-nesting refusal) ---- *)
Theorem erase_alias_hom_push r xs :
  a_Push (erase_alias r) (map erase_alias xs) = rmap erase_alias (a_Push r xs).
Proof.
  destruct r as [|g|a c els|a c kw op ex|a|a]; cbn [erase_alias a_Push rmap]; try reflexivity.
  destruct (g_flag_positive (c_opt c) c_ronly); [reflexivity|].
  destruct (c_ppf c); [reflexivity|].
  rewrite (raw_of_map erase_alias).
  rewrite (push_smap erase_alias a_isstack no_pol a_isstack_erase (fun _ _ => eq_refl)).
  destruct (push value a_isstack no_pol (raw_of c els) xs) as [o| |]; cbn [rmap bind fst snd erase_alias]; try reflexivity.
  now rewrite (vals_of_smap erase_alias erase_nil).
Qed.

(* what "refusal" means: with no-nesting on, a pushed value is stored iff it
   does not convert to a Stack -- in particular an alias is refused exactly
   like the native Stack it converts to *)
Theorem push_nonest_refuses_alias a c els a' c' els' :
  g_flag_positive (c_opt c) c_ronly = false -> c_ppf c = None ->
  g_flag_positive (c_opt c) c_nnest = true ->
  a_Push (VStack a c els) [VStack a' c' els'] = Ok (VStack a c els).
Proof.
  intros Hro Hpp Hnn. cbn [a_Push]. rewrite Hro, Hpp. unfold push, raw_of. cbn [StackImpl.config bind scfg_of k_ppf].
  rewrite Hpp. cbn [generic_append bind]. unfold can_push_nester, StackImpl.positive, scfg_of at 1. cbn [k_opt]. rewrite Hnn.
  unfold a_isstack. rewrite conv_stack_char. cbn [is_some negb fst generic_append]. unfold vals_of. cbn [tl].
  rewrite map_map. cbn [slot_val]. now rewrite map_id.
Qed.

(* ---- SetExpression (no-nesting refusal) ---- *)
Theorem erase_alias_hom_setexpression r x :
  a_SetExpression (erase_alias r) (erase_alias x) = rmap erase_alias (a_SetExpression r x).
Proof.
  destruct r as [|g|a c els|a c kw op ex|a|a]; cbn [erase_alias a_SetExpression rmap]; try reflexivity.
  destruct (g_flag_positive (c_opt c) c_ronly); [reflexivity|].
  rewrite conv_stack_erase, conv_stack_char.
  destruct x as [|g|a' c' els'|a' c' kw' op' ex'|a'|a']; cbn [erase_alias]; try reflexivity;
    try (destruct (c_err c); reflexivity).
  - destruct g; try (destruct (c_err c); reflexivity).
    destruct (0 <? zlen s); destruct (c_err c); reflexivity.
  - destruct (g_flag_positive (c_opt c) c_nnest); destruct (c_err c); reflexivity.
Qed.

Theorem setexpression_nonest_refuses_alias a c kw op ex a' c' els' :
  g_flag_positive (c_opt c) c_ronly = false ->
  g_flag_positive (c_opt c) c_nnest = true ->
  a_SetExpression (VCond a c kw op ex) (VStack a' c' els') = Ok (VCond a c kw op ex).
Proof.
  intros Hro Hnn. cbn [a_SetExpression]. rewrite Hro, conv_stack_char, Hnn. reflexivity.
Qed.
