#!/bin/sh
# Build the framework from files on disk only (offline).
set -e
cd "$(dirname "$0")"
export GOFLAGS=-mod=mod GOPROXY=off GOSUMDB=off GOTOOLCHAIN=local
mkdir -p build evidence
export GOCACHE="${GOCACHE:-$PWD/build/gocache}"
(cd translator && go build -o ../build/translator .)
(cd harness && go build -tags verif -o ../build/harness .)
./build/translator -repo "${VERIF_REPO:-/repo}" -out coq/Generated.v -ir coq/GeneratedIR.v || echo "setup: translator failed (the checks will report it)"
cd coq
coq_makefile -f _CoqProject -o Makefile
timeout 3000 make -k -j16 || echo "setup: some Coq files did not compile (the checks will report which)"
